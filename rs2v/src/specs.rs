//! The fixed kernel table: which functions of the crate are regenerated, where they live,
//! and what each kernel treats as OPAQUE (a `self` field / accessor, an I/O result, a call into
//! another object).  Opaque things become parameters of the generated definition; nothing
//! else may escape the translated subset (the kernel then fails loudly).
use quote::ToTokens;

#[derive(Debug, Clone, PartialEq)]
pub enum Ty {
    Int(u32),
    NonZero,
    Bool,
    Addr,
    Opt(Box<Ty>),
    Res(Box<Ty>),
    Tup(Vec<Ty>),
    Unit,
    /// isize, represented by its two's-complement bit pattern in N (casts from/to usize are the identity)
    ISize,
    /// a raw pointer, represented by its address
    Ptr,
    /// Result<A, B> with a non-error `Err` payload (binary_search): Coq `(A + B)%type`, Ok = inl, Err = inr
    Either(Box<Ty>, Box<Ty>),
    /// a byte slice (`&[u8]`, `&mut [u8]`, `Vec<u8>` contents) seen as its LENGTH: `len()`, `is_empty()`,
    /// `split_at(n)` / `s[n..]` (both panic when n > len) are the only operations
    Slice,
    /// a pointer cast to `*const uN` / `*mut uN`: the address (as Ptr) + the access width in bytes
    TPtr(u32),
    /// `&v[i]` bound to a local: the element of an opaque vector, seen as its index (opaque method calls on it
    /// get the index as their first argument, exactly as calls on `v[i]` itself)
    IdxRef,
    /// an abstract object (a file offset, a memory ordering, a mapping handle): a value of the named Coq type
    /// (a type parameter of the kernel); only passed around
    Abs(&'static str),
    Unknown,
}

#[derive(Debug, Clone)]
pub enum Loc {
    /// free function (top level or inside a non-test module)
    Free(&'static str),
    /// provided method of a trait
    Trait(&'static str, &'static str),
    /// method in `impl [Trait for] Type`
    Impl { ty: &'static str, tr: Option<&'static str>, f: &'static str },
    /// the location is inside the body of `macro_rules! mac`, instantiated textually with `subst`
    InMacro { mac: &'static str, subst: Vec<(&'static str, &'static str)>, inner: Box<Loc> },
    /// the body of `macro_rules! mac` is ONE EXPRESSION (retry_eintr!): it is translated as the body of a
    /// parameterless function after the textual substitution of the metavariables
    MacroExpr { mac: &'static str, subst: Vec<(&'static str, &'static str)> },
    /// the idx-th closure (source order) inside the function at `outer`: its parameters are the function's
    /// parameters (types from `param_tys` / Unit), its body the function's body
    Closure { outer: Box<Loc>, idx: usize },
}

/// How a PRIVATE function (whose name a refactoring may change) is found when no function of the table's
/// name exists: it is the callee of the `nth` call (source order) with `nargs` arguments - a method call
/// (`x.f(..)`) or a path call (`f(..)`, `Self::f(..)`) - in the body of the function at `outer`, which is
/// public or is itself resolved through `outer_via`.
#[derive(Debug, Clone)]
pub struct Via {
    pub outer: Loc,
    pub outer_via: Option<Box<Via>>,
    pub method: bool,
    pub nargs: usize,
    pub nth: usize,
}

#[derive(Debug, Clone)]
pub struct Extra {
    pub pat: &'static str,    // token string of the opaque expression (as printed by proc-macro2)
    pub param: &'static str,  // name of the parameter standing for it
    pub coq_ty: &'static str,
    pub ty: Ty,
}
#[derive(Debug, Clone)]
pub struct OpaqueFn {
    pub method: &'static str,
    pub param: &'static str,
    pub coq_ty: &'static str,
    pub ret: Ty,
}

#[derive(Debug, Clone)]
pub struct Spec {
    pub module: &'static str, // coq/Gen/<module>.v
    pub group: &'static str,  // kernels of one group can call each other by Rust name
    pub name: &'static str,   // Coq name of the definition
    pub rust: &'static str,   // Rust name under which other kernels call it
    pub file: &'static str,
    pub loc: Loc,
    pub self_ty: Ty,
    pub extra: Vec<Extra>,
    pub fns: Vec<OpaqueFn>,
    pub skip: Vec<&'static str>,
    pub drop_params: Vec<&'static str>,
    pub effects: Vec<&'static str>,
    pub locals: Option<Vec<&'static str>>,
    pub fields: Vec<&'static str>,
    pub consts: Vec<(String, String, Ty)>,
    /// `Self::NAME` constants are read from `bitflags! { struct <this> ... const NAME = <literal>; }`
    pub bitflags: Option<&'static str>,
    /// uN::to_le/to_be/from_le/from_be become `cv <kind> <bytes> x` (parameter cv)
    pub endian: bool,
    pub newtypes: Vec<&'static str>,
    pub err_enums: Vec<&'static str>,
    // ---- extensions (loop bodies, prefixes, assignments): see docs/RS2V.md "Step kernels"
    /// mutable places (`self . field`, or `#i` = the i-th `let mut` before the loop): parameter = value
    /// on entry, the value at the end is part of the result
    pub state: Vec<Extra>,
    /// names/types given POSITIONALLY to the identifiers bound by the loop header pattern
    /// (`for n in ..`, `while let Some(region) = ..`); Ty::Unit = opaque object (no parameter)
    pub vars: Vec<(&'static str, Ty)>,
    /// Step mode: the result is `kstep S R` (KNext state / KBreak state / KReturn value); Coq types of S and R
    pub step: Option<(&'static str, &'static str)>,
    /// translate the body of the i-th loop (source order) of the function instead of the function
    pub loop_idx: Option<usize>,
    /// translate only the top-level statements before the first one whose token string starts with this
    pub until: Option<&'static str>,
    /// type of a parameter, overriding what its Rust type says (e.g. `&Option<FileOffset>` seen as Option<u64>)
    pub param_tys: Vec<(&'static str, Ty)>,
    /// canonical names given positionally to the function's parameters (so that `extra` patterns
    /// mentioning a parameter survive its renaming)
    pub canon_params: Vec<&'static str>,
    /// receiver expression -> kernel group whose kernels are its methods
    pub recv_groups: Vec<(&'static str, &'static str)>,
    /// methods that are the identity on an integer receiver (`FileOffset::start` on a file offset seen as its start)
    pub id_methods: Vec<&'static str>,
    /// `let x = <init>` with this init is dropped and `x` gets the canonical name
    pub skip_as: Vec<(&'static str, &'static str)>,
    /// expression (token string) -> Rust expression translated in its place (abstraction, trusted)
    pub rewrite: Vec<(&'static str, &'static str)>,
    /// constructor-like calls `Path::name(args)`: (name, kept argument positions) -> tuple of the kept arguments
    pub ctors: Vec<(&'static str, Vec<usize>)>,
    /// opaque calls: which argument positions are passed on (default: all)
    pub argsel: Vec<(&'static str, Vec<usize>)>,
    /// loops inside the translated statements are ignored (their effect is opaque)
    pub skip_loops: bool,
    /// integers the function returns are wrapped in this opaque function (parameter `N -> R`), for
    /// kernels whose other results are values of opaque calls of the abstract type R
    pub ret_wrap: Option<&'static str>,
    /// comment emitted above the definition
    pub note: &'static str,
    // ---- third round (io.rs, copy helpers, guest_memory defaults, bitmap word loops)
    /// implicit type parameters `{X : Type}` of the generated definition (abstract objects: a VolatileSlice, a region)
    pub type_params: Vec<&'static str>,
    /// opaque methods (`fns` / `effects`) whose RECEIVER is passed as the first argument
    pub recv_arg: Vec<&'static str>,
    /// loop kernels of a loop used as an expression: `break e` is `KReturn e` (the value of the loop);
    /// `return` is then not allowed in the body
    pub break_value: bool,
    /// `while cond { body }` kernels: the step is `if cond then body else KBreak state`
    pub loop_cond: bool,
    /// effect kernels that also return a value: the result is `(list call * value)` (ecall / oecall)
    pub effects_ret: bool,
    /// names of locals whose final values are returned next to the function's value: `(value, l1, ..)`
    pub with_locals: Vec<&'static str>,
    /// `<ptr>.add(n)` is `padd m <line> ptr n` (the hand model treats pointer overflow like `+`) instead of `ptr_add`
    pub ptr_checked: bool,
    /// names / types given POSITIONALLY to the parameters of the closures translated inside the kernel
    /// (Ty::Unit = opaque object, no binder)
    pub closure_params: Vec<(&'static str, Ty)>,
    /// translate the top-level statements FOLLOWING the i-th loop (`#i` state places as for loop_idx)
    pub after_loop: Option<usize>,
    /// `let x = ..` statements dropped by the (canonical) name they bind
    pub skip_lets: Vec<&'static str>,
    /// `self.iter().map(F).fold(INIT, G)` is translated to the triple (INIT, fun <extras of F> => F .., G):
    /// F a kernel of this group (its extra parameters become the arguments), G `std::cmp::max` / `min`
    pub iter_fold: Option<&'static str>,
    // ---- robustness against behaviour-preserving rewrites (docs/RS2V.md "Normal form")
    /// fallback location of a private function: through its call site in a public function
    pub via: Option<Via>,
    /// POSITIONS behind the names the table uses for things a refactoring may rename, tried when the name is
    /// not found: (selector, table name); selectors: "let#i" = the i-th top-level `let` of the function (for a
    /// closure kernel: of the ENCLOSING function), "param#i" = the i-th parameter of the enclosing function,
    /// "closure#i" = the `let` that binds the i-th closure of the function
    pub positions: Vec<(&'static str, &'static str)>,
    /// when several functions of the name exist (cfg variants): the one whose own / impl attributes contain
    /// (true) / do not contain (false) the string
    pub attr_filter: Option<(&'static str, bool)>,
    /// not a function at all: the INVENTORY of a file - which types implement the given traits and which
    /// invocations of the given macros exist - as a `list (string * string)` (trait / macro name, type / arguments)
    pub inventory: Option<(Vec<&'static str>, Vec<&'static str>)>,
    /// inventory kernels: also the `#[derive(..)]` lists of these structs (row: "derive <Struct>", the list)
    pub inventory_derives: Vec<&'static str>,
    /// Coq type of the value of a (non-step) kernel, where it cannot be inferred (a bare `None` / `Err(..)`)
    pub annot: Option<&'static str>,
    /// translate only from the first top-level statement whose token string (or `let` initialiser) starts with this
    pub from: Option<&'static str>,
    /// always emit the monadic form (a pure kernel would change its TYPE when a `debug_assert!` is added to the source)
    pub force_monadic: bool,
    /// builder-style methods that are not looked at: `x.m(args)` is `x` (the arguments are not translated)
    pub chain_methods: Vec<&'static str>,
}

impl Spec {
    /// extra parameters of the generated definition (name, Coq type), in order, without repeats
    pub fn extra_params(&self) -> Vec<(String, String)> {
        let mut out: Vec<(String, String)> = vec![];
        for (p, t) in self.extra.iter().map(|x| (x.param, x.coq_ty)).chain(self.fns.iter().map(|x| (x.param, x.coq_ty))).chain(self.state.iter().map(|x| (x.param, x.coq_ty))) {
            if t.is_empty() {
                continue;
            }
            if !out.iter().any(|(q, _)| q == p) {
                out.push((p.to_string(), t.to_string()));
            }
        }
        out
    }
    pub fn ty_of(&self, t: &syn::Type) -> Ty {
        use syn::Type;
        match t {
            Type::Reference(r) => self.ty_of(&r.elem),
            Type::Paren(p) => self.ty_of(&p.elem),
            Type::Ptr(_) => Ty::Ptr,
            Type::Slice(_) => Ty::Slice,
            Type::Group(g) => self.ty_of(&g.elem),
            Type::Tuple(t) => {
                if t.elems.is_empty() {
                    Ty::Unit
                } else {
                    Ty::Tup(t.elems.iter().map(|e| self.ty_of(e)).collect())
                }
            }
            Type::Path(p) => {
                let s = p.to_token_stream().to_string();
                match s.as_str() {
                    "u64" | "usize" | "GuestUsize" | "Self :: V" => return Ty::Int(64),
                    "isize" | "i64" => return Ty::ISize,
                    "u32" | "i32" | "RawFd" => return Ty::Int(32),
                    "u16" => return Ty::Int(16),
                    "u8" => return Ty::Int(8),
                    "bool" => return Ty::Bool,
                    "NonZeroUsize" => return Ty::NonZero,
                    "Self" => return self.self_ty.clone(),
                    _ => {}
                }
                let last = p.path.segments.last().unwrap();
                let name = last.ident.to_string();
                if self.newtypes.iter().any(|n| *n == name) {
                    return Ty::Addr;
                }
                let arg0 = || -> Option<Ty> {
                    if let syn::PathArguments::AngleBracketed(a) = &last.arguments {
                        for x in &a.args {
                            if let syn::GenericArgument::Type(t) = x {
                                return Some(self.ty_of(t));
                            }
                        }
                    }
                    None
                };
                match name.as_str() {
                    "Option" => Ty::Opt(Box::new(arg0().unwrap_or(Ty::Unknown))),
                    "Result" => Ty::Res(Box::new(arg0().unwrap_or(Ty::Unknown))),
                    _ => Ty::Unknown,
                }
            }
            _ => Ty::Unknown,
        }
    }
}

fn base(module: &'static str, group: &'static str, file: &'static str, name: &'static str, rust: &'static str, loc: Loc) -> Spec {
    Spec {
        module, group, name, rust, file, loc,
        self_ty: Ty::Unknown,
        extra: vec![], fns: vec![], skip: vec![], drop_params: vec![], effects: vec![], locals: None, fields: vec![],
        consts: vec![], bitflags: None, endian: false,
        newtypes: vec!["GuestAddress", "MemoryRegionAddress", "AddrT"],
        err_enums: vec!["Error", "MmapRegionError", "VolatileMemoryError"],
        state: vec![], vars: vec![], step: None, loop_idx: None, until: None, param_tys: vec![], canon_params: vec![],
        recv_groups: vec![], id_methods: vec![], skip_as: vec![], rewrite: vec![], ctors: vec![], argsel: vec![],
        skip_loops: false, ret_wrap: None, note: "",
        type_params: vec![], recv_arg: vec![], break_value: false, loop_cond: false, effects_ret: false, with_locals: vec![],
        ptr_checked: false, closure_params: vec![], after_loop: None, skip_lets: vec![], iter_fold: None, via: None, positions: vec![], attr_filter: None, inventory: None, inventory_derives: vec![], annot: None, from: None, force_monadic: false, chain_methods: vec![],
    }
}

fn via(outer: Loc, method: bool, nargs: usize, nth: usize) -> Option<Via> {
    Some(Via { outer, outer_via: None, method, nargs, nth })
}
fn via2(outer: Loc, outer_via: Option<Via>, method: bool, nargs: usize, nth: usize) -> Option<Via> {
    Some(Via { outer, outer_via: outer_via.map(Box::new), method, nargs, nth })
}

fn ex(pat: &'static str, param: &'static str, ty: Ty) -> Extra {
    let coq_ty = match ty {
        Ty::Bool => "bool",
        _ => "N",
    };
    Extra { pat, param, coq_ty, ty }
}

fn ext(pat: &'static str, param: &'static str, coq_ty: &'static str, ty: Ty) -> Extra {
    Extra { pat, param, coq_ty, ty }
}
fn opt(t: Ty) -> Ty {
    Ty::Opt(Box::new(t))
}
fn ofn(method: &'static str, param: &'static str, coq_ty: &'static str, ret: Ty) -> OpaqueFn {
    OpaqueFn { method, param, coq_ty, ret }
}

pub fn table() -> Vec<Spec> {
    let mut t = vec![];
    // ------------------------------------------------------------------ src/address.rs
    // provided methods of `trait Address` (Self = the address newtype, Self::V = u64)
    let addr_consts = vec![("Self :: one ()".to_string(), "1".to_string(), Ty::Int(64)), ("Self :: zero ()".to_string(), "0".to_string(), Ty::Int(64))];
    let in_macro = |f: &'static str, tr: Option<&'static str>| Loc::InMacro {
        mac: "impl_address_ops",
        subst: vec![("T", "AddrT"), ("V", "u64")],
        inner: Box::new(Loc::Impl { ty: "AddrT", tr, f }),
    };
    // the macro-generated impl first: the provided methods call it
    for f in ["checked_offset_from", "checked_add", "overflowing_add", "unchecked_add", "checked_sub", "overflowing_sub", "unchecked_sub"] {
        let mut s = base("Address", "Address", "src/address.rs", f, f, in_macro(f, Some("Address")));
        s.self_ty = Ty::Addr;
        s.extra = vec![ex("self . 0", "a", Ty::Int(64))];
        t.push(s);
    }
    for (f, tr) in [("bitand", "BitAnd"), ("bitor", "BitOr")] {
        let mut s = base("Address", "Address", "src/address.rs", f, f, in_macro(f, Some(tr)));
        s.self_ty = Ty::Addr;
        s.extra = vec![ex("self . 0", "a", Ty::Int(64))];
        t.push(s);
    }
    for f in ["mask", "unchecked_offset_from", "checked_align_up", "unchecked_align_up"] {
        let mut s = base("Address", "Address", "src/address.rs", f, f, Loc::Trait("Address", f));
        s.self_ty = Ty::Addr;
        s.consts = addr_consts.clone();
        s.extra = vec![ex("self . raw_value ()", "a", Ty::Int(64))];
        t.push(s);
    }
    // ------------------------------------------------------------------ src/volatile_memory.rs
    t.push(base("Volatile", "Volatile", "src/volatile_memory.rs", "compute_offset", "compute_offset", Loc::Free("compute_offset")));
    {
        let mut s = base("Volatile", "Volatile", "src/volatile_memory.rs", "compute_end_offset", "compute_end_offset",
                         Loc::Trait("VolatileMemory", "compute_end_offset"));
        s.extra = vec![ex("self . len ()", "len", Ty::Int(64))];
        t.push(s);
    }
    // private functions of mod copy_slice_impl: found by name, else through their call sites starting from the
    // pub(crate) copy_from_volatile_slice (-> copy_slice -> copy_slice_volatile -> alignment / copy_single)
    let via_copy_slice = || via(Loc::Free("copy_from_volatile_slice"), false, 3, 0);
    let via_csv = || via2(Loc::Free("copy_slice"), via_copy_slice(), false, 3, 0);
    {
        let mut s = base("Volatile", "Volatile", "src/volatile_memory.rs", "alignment", "alignment", Loc::Free("alignment"));
        s.via = via2(Loc::Free("copy_slice_volatile"), via_csv(), false, 1, 0);
        t.push(s);
    }
    {
        let mut s = base("Volatile", "Volatile", "src/volatile_memory.rs", "check_alignment", "check_alignment",
                         Loc::Impl { ty: "VolatileSlice", tr: None, f: "check_alignment" });
        s.extra = vec![ex("self . addr as usize", "addr", Ty::Int(64))];
        // private method: the 1-argument method call of the public get_atomic_ref
        s.via = via(Loc::Trait("VolatileMemory", "get_atomic_ref"), true, 1, 0);
        t.push(s);
    }
    {
        let vfile = "src/volatile_memory.rs";
        let addr_u = || ex("self . addr as usize", "addr", Ty::Int(64));
        let addr_p = || ex("self . addr", "addr", Ty::Ptr);
        let vsize = || ex("self . size", "size", Ty::Int(64));
        let vlen = || ex("self . len ()", "len", Ty::Int(64));
        let tsize = || ex("size_of :: < T > ()", "tsize", Ty::Int(64));
        let with_bitmap = || vec![("with_bitmap", vec![0usize, 1usize])];
        let vs = |name: &'static str, f: &'static str| base("Volatile", "Volatile", vfile, name, f, Loc::Impl { ty: "VolatileSlice", tr: None, f });
        // VolatileSlice::offset / subslice / split_at: result = (address, size) of the new slice(s)
        let mut s = vs("vs_offset", "offset");
        s.extra = vec![addr_u(), addr_p(), vsize()];
        s.ctors = with_bitmap();
        t.push(s);
        let mut s = vs("vs_subslice", "subslice");
        s.extra = vec![vlen(), addr_p()];
        s.ctors = with_bitmap();
        t.push(s);
        let mut s = vs("vs_split_at", "split_at");
        s.extra = vec![addr_u(), addr_p(), vsize()];
        s.ctors = with_bitmap();
        t.push(s);
        // Bytes<usize> for VolatileSlice: the two guards of write / read
        for (name, f, until) in [("vs_write_guard", "write", "buf . read_volatile"), ("vs_read_guard", "read", "buf . write_volatile")] {
            let mut s = base("Volatile", "Volatile", vfile, name, f, Loc::Impl { ty: "VolatileSlice", tr: Some("Bytes"), f });
            s.canon_params = vec!["buf", "addr"];
            s.drop_params = vec!["buf"];
            s.extra = vec![ex("buf . is_empty ()", "buf_is_empty", Ty::Bool), vsize()];
            s.until = Some(until);
            s.step = Some(("unit", "rres N"));
            t.push(s);
        }
        // VolatileMemory::get_array_ref: nbytes = isize::try_from(n).ok().and_then(|n| n.checked_mul(size_of::<T>() as isize)) or TooBig
        let mut s = base("Volatile", "Volatile", vfile, "get_array_ref_nbytes", "get_array_ref", Loc::Trait("VolatileMemory", "get_array_ref"));
        s.canon_params = vec!["offset", "n"];
        s.drop_params = vec!["offset"];
        s.extra = vec![tsize()];
        s.until = Some("let slice");
        s.locals = Some(vec!["nbytes"]);
        s.positions = vec![("let#0", "nbytes")];
        s.step = Some(("N", "rres unit"));
        t.push(s);
        // VolatileSlice::copy_to / copy_from: which branch, how many bytes / elements
        let mut s = vs("vs_copy_to", "copy_to");
        s.canon_params = vec!["buf"];
        s.drop_params = vec!["buf"];
        s.extra = vec![tsize(), ex("buf . len ()", "buf_len", Ty::Int(64)), vlen(), vsize()];
        s.fns = vec![ofn("copy_from_volatile_slice", "copy_bytes", "N -> R", Ty::Unknown), ofn("array_copy_to", "array_copy_to", "N -> R", Ty::Unknown), ofn("\u{0}ret", "ret", "N -> R", Ty::Unknown)];
        s.ret_wrap = Some("ret");
        s.argsel = vec![("copy_from_volatile_slice", vec![2])];
        s.skip = vec!["self . get_array_ref :: < T > (0 , count) . unwrap ()"];
        s.rewrite = vec![("source . copy_to (buf)", "array_copy_to (count)")];
        t.push(s);
        let mut s = vs("vs_copy_from", "copy_from");
        s.canon_params = vec!["buf"];
        s.drop_params = vec!["buf"];
        s.extra = vec![tsize(), ex("buf . len ()", "buf_len", Ty::Int(64)), vlen(), vsize()];
        s.effects = vec!["copy_to_volatile_slice", "array_copy_from"];
        s.argsel = vec![("copy_to_volatile_slice", vec![2])];
        s.skip = vec!["self . get_array_ref :: < T > (0 , count) . unwrap ()"];
        s.rewrite = vec![("dest . copy_from (buf)", "array_copy_from (count)")];
        t.push(s);
        // ---- VolatileArrayRef
        let va = |name: &'static str, f: &'static str| base("Volatile", "VolArr", vfile, name, f, Loc::Impl { ty: "VolatileArrayRef", tr: None, f });
        let nelem = || ex("self . nelem", "nelem", Ty::Int(64));
        let nelem_l = || ex("self . len ()", "nelem", Ty::Int(64));
        let esz = || ex("self . element_size ()", "esz", Ty::Int(64));
        let mut s = va("va_ref_at_byteofs", "ref_at");
        s.extra = vec![nelem(), esz()];
        s.locals = Some(vec!["byteofs"]);
        s.positions = vec![("let#0", "byteofs")];
        t.push(s);
        let mut s = va("va_to_slice", "to_slice");
        s.extra = vec![addr_p(), nelem(), esz()];
        s.ctors = with_bitmap();
        t.push(s);
        let mut s = va("va_ptr_guard", "ptr_guard");
        s.extra = vec![addr_p(), nelem_l(), esz()];
        s.ctors = vec![("read", vec![1, 2])];
        t.push(s);
        let mut s = va("va_ptr_guard_mut", "ptr_guard_mut");
        s.extra = vec![addr_p(), nelem_l(), esz()];
        s.ctors = vec![("write", vec![1, 2])];
        t.push(s);
        // VolatileArrayRef::copy_to / copy_from: the byte fast path vs the element loop (opaque), counts
        let mut s = va("va_copy_to", "copy_to");
        s.canon_params = vec!["buf"];
        s.drop_params = vec!["buf"];
        s.extra = vec![tsize(), ex("buf . len ()", "buf_len", Ty::Int(64)), addr_p(), nelem(), nelem_l(), esz()];
        s.fns = vec![ofn("copy_from_volatile_slice", "copy_bytes", "(N * N) -> N -> R", Ty::Unknown), ofn("\u{0}ret", "ret", "N -> R", Ty::Unknown)];
        s.ret_wrap = Some("ret");
        s.argsel = vec![("copy_from_volatile_slice", vec![1, 2])];
        s.rewrite = vec![("source . len ()", "source . 1")];
        s.skip = vec!["guard . as_ptr () as * const Packed < T >"];
        s.skip_loops = true;
        t.push(s);
        let mut s = va("va_copy_from", "copy_from");
        s.canon_params = vec!["buf"];
        s.drop_params = vec!["buf"];
        s.extra = vec![tsize(), ex("buf . len ()", "buf_len", Ty::Int(64)), addr_p(), nelem(), nelem_l(), esz(), ex("copied_bytes", "copied_bytes", Ty::Int(64))];
        s.effects = vec!["copy_to_volatile_slice", "mark_dirty"];
        s.argsel = vec![("copy_to_volatile_slice", vec![2])];
        s.rewrite = vec![("destination . len ()", "destination . 1"), ("ptr as usize - start as usize", "copied_bytes")];
        s.skip = vec!["guard . as_ptr ()", "start as * mut Packed < T >"];
        s.skip_loops = true;
        t.push(s);
    }

    {
        // ---- w1c: what an accessor is BUILT from and how it accesses memory.
        // "view" kernels keep the (pointer, bitmap slice, mapping handle) arguments of the constructor calls: the
        // handle `self.mmap` / `slice.mmap` is an `option unit` parameter (a literal `None` in its place is
        // `@None unit`), the bitmap slice an abstract BM (`slice_at` opaque), so that a dropped handle or a bitmap
        // view at another offset than the pointer changes the generated term.
        let vfile = "src/volatile_memory.rs";
        let vk = |name: &'static str, f: &'static str, loc: Loc| base("Accessors", "Accessors", vfile, name, f, loc);
        let mm = |pat: &'static str, p: &'static str| ext(pat, p, "option unit", opt(Ty::Unit));
        let bmx = |pat: &'static str, p: &'static str| ext(pat, p, "BM", Ty::Abs("BM"));
        let slice_at = || ofn("slice_at", "slice_at", "N -> BM", Ty::Abs("BM"));
        let addr_u = || ex("self . addr as usize", "addr", Ty::Int(64));
        let addr_p = || ex("self . addr", "addr", Ty::Ptr);
        let vsl = |f: &'static str| Loc::Impl { ty: "VolatileSlice", tr: None, f };
        // VolatileSlice::{offset, subslice, split_at}
        let mut s = vk("vs_offset_view", "offset", vsl("offset"));
        s.type_params = vec!["BM"];
        s.extra = vec![addr_u(), addr_p(), ex("self . size", "size", Ty::Int(64)), mm("self . mmap", "mmap")];
        s.fns = vec![slice_at()];
        s.ctors = vec![("with_bitmap", vec![0, 2, 3])];
        s.force_monadic = true;
        t.push(s);
        let mut s = vk("vs_subslice_view", "subslice", vsl("subslice"));
        s.type_params = vec!["BM", "E"];
        s.extra = vec![addr_p(), mm("self . mmap", "mmap")];
        s.fns = vec![slice_at(), ofn("compute_end_offset", "compute_end_offset", "N -> N -> rres E", Ty::Res(Box::new(Ty::Abs("E"))))];
        s.ctors = vec![("with_bitmap", vec![0, 2, 3])];
        t.push(s);
        let mut s = vk("vs_split_at_view", "split_at", vsl("split_at"));
        s.type_params = vec!["BM"];
        s.extra = vec![addr_u(), addr_p(), ex("self . size", "size", Ty::Int(64)), mm("self . mmap", "mmap"), bmx("self . bitmap . clone ()", "bm")];
        s.fns = vec![slice_at()];
        s.ctors = vec![("with_bitmap", vec![0, 2, 3])];
        s.force_monadic = true;
        t.push(s);
        // VolatileMemory::{get_ref, get_array_ref}: the accessor is built from the fields of the slice get_slice returned
        let slice_fields = || vec![ex("slice . addr", "sl_addr", Ty::Ptr), bmx("slice . bitmap", "sl_bm"), mm("slice . mmap", "sl_mmap"),
                                   ex("slice . len ()", "sl_len", Ty::Int(64)), ex("size_of :: < T > ()", "size_t", Ty::Int(64))];
        let get_slice = || ofn("get_slice", "get_slice", "N -> N -> rres unit", Ty::Res(Box::new(Ty::Unit)));
        let mut s = vk("vm_get_ref_view", "get_ref", Loc::Trait("VolatileMemory", "get_ref"));
        s.type_params = vec!["BM"];
        s.extra = slice_fields();
        s.fns = vec![get_slice()];
        s.positions = vec![("let#0", "slice")];
        s.ctors = vec![("with_bitmap", vec![0, 1, 2])];
        t.push(s);
        let mut s = vk("vm_get_array_ref_view", "get_array_ref", Loc::Trait("VolatileMemory", "get_array_ref"));
        s.type_params = vec!["BM"];
        s.extra = slice_fields();
        s.fns = vec![get_slice()];
        s.positions = vec![("let#1", "slice")];
        s.ctors = vec![("with_bitmap", vec![0, 1, 2, 3])];
        t.push(s);
        // get_atomic_ref / aligned_as_ref / aligned_as_mut: the slice has size_of::<T>() bytes and is checked against
        // align_of::<T>() - both SYMBOLIC (of any other type expression they are unknown functions)
        for (name, f) in [("vm_get_atomic_ref", "get_atomic_ref"), ("vm_aligned_as_ref", "aligned_as_ref"), ("vm_aligned_as_mut", "aligned_as_mut")] {
            let mut s = vk(name, f, Loc::Trait("VolatileMemory", f));
            s.extra = vec![ex("slice . addr", "sl_addr", Ty::Ptr), ex("slice . len ()", "sl_len", Ty::Int(64)),
                           ex("size_of :: < T > ()", "size_t", Ty::Int(64)), ex("align_of :: < T > ()", "align_t", Ty::Int(64))];
            s.fns = vec![get_slice(), ofn("check_alignment", "check_alignment", "N -> rres unit", Ty::Res(Box::new(Ty::Unit)))];
            s.positions = vec![("let#0", "slice")];
            t.push(s);
        }
        // VolatileRef::{store, load, to_slice}: ONE volatile access of the whole Packed<T> (width 0) at the guard's pointer;
        // store marks (0, len()) afterwards
        let vr = |f: &'static str| Loc::Impl { ty: "VolatileRef", tr: None, f };
        for (name, f, guard) in [("vr_store", "store", "self . ptr_guard_mut ()"), ("vr_load", "load", "self . ptr_guard ()")] {
            let mut s = vk(name, f, vr(f));
            s.canon_params = vec!["v"];
            s.drop_params = vec!["v"];
            s.skip_as = vec![(guard, "guard")];
            s.extra = vec![ex("guard . as_ptr ()", "guard_ptr", Ty::Ptr), ex("self . len ()", "len", Ty::Int(64))];
            s.effects = vec!["write_volatile", "read_volatile", "mark_dirty"];
            s.argsel = vec![("write_volatile", vec![0])];
            t.push(s);
        }
        let mut s = vk("vr_to_slice_view", "to_slice", vr("to_slice"));
        s.type_params = vec!["BM"];
        s.extra = vec![ex("self . addr as * mut u8", "addr", Ty::Ptr), ex("size_of :: < T > ()", "size_t", Ty::Int(64)),
                       bmx("self . bitmap . clone ()", "bm"), mm("self . mmap", "mmap")];
        s.ctors = vec![("with_bitmap", vec![0, 1, 2, 3])];
        t.push(s);
        // VolatileArrayRef::{to_slice (bitmap, handle), ref_at (pointer, bitmap at the same byte offset, handle), load, store,
        // From<VolatileSlice>}
        let va = |f: &'static str| Loc::Impl { ty: "VolatileArrayRef", tr: None, f };
        let mut s = vk("va_to_slice_view", "to_slice", va("to_slice"));
        s.type_params = vec!["BM"];
        s.extra = vec![bmx("self . bitmap . clone ()", "bm"), mm("self . mmap", "mmap")];
        s.ctors = vec![("with_bitmap", vec![2, 3])];
        t.push(s);
        let mut s = vk("va_ref_at_view", "ref_at", va("ref_at"));
        s.type_params = vec!["BM"];
        s.extra = vec![addr_p(), ex("self . nelem", "nelem", Ty::Int(64)), ex("self . element_size ()", "esz", Ty::Int(64)), mm("self . mmap", "mmap")];
        s.fns = vec![slice_at()];
        s.ctors = vec![("with_bitmap", vec![0, 1, 2])];
        t.push(s);
        for (name, f) in [("va_load", "load"), ("va_store", "store")] {
            let mut s = vk(name, f, va(f));
            s.canon_params = if f == "store" { vec!["index", "value"] } else { vec!["index"] };
            s.drop_params = vec!["value"];
            s.effects = vec!["ref_at", f];
            s.recv_arg = vec![f];
            s.argsel = vec![("store", vec![])];
            t.push(s);
        }
        // w1e: ONE iteration of the element loops of VolatileArrayRef::{copy_to, copy_from}: one volatile access at the element
        // pointer, then the pointer advances by ONE element (`ptr` counts elements of Packed<T>)
        let mut s = vk("va_copy_to_elem", "copy_to", Loc::Impl { ty: "VolatileArrayRef", tr: None, f: "copy_to" });
        s.canon_params = vec!["buf"];
        s.drop_params = vec!["buf"];
        s.loop_idx = Some(0);
        s.vars = vec![("v", Ty::Unit)];
        s.state = vec![ex("#0", "ptr", Ty::Ptr)];
        s.effects = vec!["read_volatile"];
        s.step = Some(("N", "unit"));
        t.push(s);
        let mut s = vk("va_copy_from_elem", "copy_from", Loc::Impl { ty: "VolatileArrayRef", tr: None, f: "copy_from" });
        s.canon_params = vec!["buf"];
        s.drop_params = vec!["buf"];
        s.loop_idx = Some(0);
        s.vars = vec![("v", Ty::Unit)];
        s.state = vec![ex("ptr", "ptr", Ty::Ptr)];
        s.effects = vec!["write_volatile"];
        s.argsel = vec![("write_volatile", vec![0])];
        s.step = Some(("N", "unit"));
        t.push(s);
        // w1e: the pointer-guard getters only BUILD the guard (mapping handle, address, length): no mark_dirty, no other call
        for (ty, tag, len_pat) in [("VolatileSlice", "vs", "self . len ()"), ("VolatileRef", "vr", "self . len ()")] {
            for (f, ctor) in [("ptr_guard", "read"), ("ptr_guard_mut", "write")] {
                let name: &'static str = Box::leak(format!("{}_{}", tag, f).into_boxed_str());
                let mut s = vk(name, f, Loc::Impl { ty, tr: None, f });
                s.extra = vec![mm("self . mmap", "mmap"), ex("self . addr", "addr", Ty::Ptr), ex("self . addr as * mut u8", "addr", Ty::Ptr), ex(len_pat, "len", Ty::Int(64))];
                s.effects = vec!["mark_dirty"];
                s.effects_ret = true;
                s.ctors = vec![(ctor, vec![0, 1, 2])];
                t.push(s);
            }
        }
        // {VolatileSlice, VolatileArrayRef}::copy_to_volatile_slice: count = min(own byte length, slice.size), one copy, mark (0, count)
        for (name, ty) in [("vs_copy_to_volatile_slice", "VolatileSlice"), ("va_copy_to_volatile_slice", "VolatileArrayRef")] {
            let mut s = vk(name, "copy_to_volatile_slice", Loc::Impl { ty, tr: None, f: "copy_to_volatile_slice" });
            s.canon_params = vec!["slice"];
            s.drop_params = vec!["slice"];
            s.extra = vec![ex("self . size", "size", Ty::Int(64)), ex("self . len ()", "nelem", Ty::Int(64)), ex("self . element_size ()", "esz", Ty::Int(64)),
                           ex("slice . size", "slice_size", Ty::Int(64)), ex("self . addr", "addr", Ty::Ptr), ex("slice . addr", "slice_addr", Ty::Ptr)];
            s.effects = vec!["copy", "mark_dirty"];
            t.push(s);
        }
        let mut s = vk("va_from_slice", "from", Loc::Impl { ty: "VolatileArrayRef", tr: Some("From"), f: "from" });
        s.type_params = vec!["BM"];
        s.canon_params = vec!["slice"];
        s.drop_params = vec!["slice"];
        s.extra = vec![ex("slice . addr", "sl_addr", Ty::Ptr), ex("slice . len ()", "sl_len", Ty::Int(64)), bmx("slice . bitmap", "sl_bm"), mm("slice . mmap", "sl_mmap")];
        s.ctors = vec![("with_bitmap", vec![0, 1, 2, 3])];
        t.push(s);
    }
    // ------------------------------------------------------------------ src/volatile_memory.rs, mod copy_slice_impl
    {
        let vfile = "src/volatile_memory.rs";
        let cs = |name: &'static str, f: &'static str, loc: Loc| base("CopySlice", "Volatile", vfile, name, f, loc);
        let usize_bytes = || ("size_of :: < usize > ()".to_string(), "8".to_string(), Ty::Int(64));
        // copy_slice_volatile: align = min(alignment(src), alignment(dst)); the passes 8 (64-bit host), 4, 2, 1 of
        // the closure in this order (calls of the opaque local closure); returns total.  Result: (calls, (total, align))
        let mut s = cs("csv_plan", "copy_slice_volatile", Loc::Free("copy_slice_volatile"));
        s.via = via_csv();
        s.positions = vec![("let#1", "align"), ("closure#0", "copy_aligned_slice")];
        s.canon_params = vec!["dst", "src", "total"];
        s.effects = vec!["copy_aligned_slice"];
        s.effects_ret = true;
        s.with_locals = vec!["align"];
        s.consts = vec![usize_bytes()];
        t.push(s);
        // the closure `copy_aligned_slice(min_align)`: its guard `if align < min_align { return; }` ...
        let closure = || Loc::Closure { outer: Box::new(Loc::Free("copy_slice_volatile")), idx: 0 };
        // captured variables of the closure by position in the enclosing function: dst / src = its parameters 0 / 1,
        // left / align = its top-level lets 0 / 1
        let captured = || vec![("param#0", "dst"), ("param#1", "src"), ("let#0", "left"), ("let#1", "align")];
        let mut s = cs("cas_guard", "copy_aligned_slice", closure());
        s.via = via_csv();
        s.positions = captured();
        s.canon_params = vec!["min_align"];
        s.param_tys = vec![("min_align", Ty::Int(64))];
        s.extra = vec![ex("align", "align", Ty::Int(64))];
        s.until = Some("while");
        s.step = Some(("unit", "unit"));
        t.push(s);
        // ... and ONE iteration of its `while left >= min_align` loop incl. the condition: copy_single(min_align,
        // src, dst) (opaque), left -= min_align, `if left == 0 { break }`, src/dst advanced (the captured
        // variables src, dst, left are the state)
        let mut s = cs("cas_body", "copy_aligned_slice", closure());
        s.via = via_csv();
        s.positions = captured();
        s.canon_params = vec!["min_align"];
        s.param_tys = vec![("min_align", Ty::Int(64))];
        s.loop_idx = Some(0);
        s.loop_cond = true;
        s.state = vec![ex("src", "src", Ty::Ptr), ex("dst", "dst", Ty::Ptr), ex("left", "left", Ty::Int(64))];
        s.effects = vec!["copy_single"];
        s.ptr_checked = true;
        s.step = Some(("N * N * N", "unit"));
        t.push(s);
        // copy_single: which widths are accepted and that source and destination are accessed with that width
        // (`p as *const uN` = the address + N/8; the plain `*const u8` pointers of the 1-byte arm carry no width)
        let mut s = cs("copy_single", "copy_single", Loc::Free("copy_single"));
        s.via = via2(Loc::Free("copy_slice_volatile"), via_csv(), false, 3, 0);
        s.canon_params = vec!["align", "src_addr", "dst_addr"];
        s.effects = vec!["read_volatile", "write_volatile"];
        t.push(s);
        // copy_slice: the `total <= size_of::<usize>()` threshold: volatile loop vs bulk copy; returns total
        let mut s = cs("copy_slice", "copy_slice", Loc::Free("copy_slice"));
        s.via = via_copy_slice();
        s.canon_params = vec!["dst", "src", "total"];
        s.effects = vec!["copy_slice_volatile", "copy_nonoverlapping"];
        s.effects_ret = true;
        s.consts = vec![usize_bytes()];
        t.push(s);
        // copy_from_volatile_slice / copy_to_volatile_slice: which pointer is source / destination of copy_slice
        // (opaque), total passed on unchanged; the latter marks (0, count) dirty on the slice's bitmap afterwards
        let mut s = cs("copy_from_volatile_slice", "copy_from_volatile_slice", Loc::Free("copy_from_volatile_slice"));
        s.canon_params = vec!["dst", "slice", "total"];
        s.drop_params = vec!["slice"];
        s.skip_as = vec![("slice . ptr_guard ()", "guard")];
        s.extra = vec![ex("guard . as_ptr ()", "slice_addr", Ty::Ptr)];
        s.fns = vec![ofn("copy_slice", "copy_slice", "N -> N -> N -> N", Ty::Int(64))];
        t.push(s);
        let mut s = cs("copy_to_volatile_slice", "copy_to_volatile_slice", Loc::Free("copy_to_volatile_slice"));
        s.canon_params = vec!["slice", "src", "total"];
        s.drop_params = vec!["slice"];
        s.skip_as = vec![("slice . ptr_guard_mut ()", "guard")];
        s.extra = vec![ex("guard . as_ptr ()", "slice_addr", Ty::Ptr)];
        s.fns = vec![ofn("copy_slice", "copy_slice", "N -> N -> N -> N", Ty::Int(64))];
        s.effects = vec!["mark_dirty"];
        s.effects_ret = true;
        t.push(s);
    }
    // ------------------------------------------------------------------ src/guest_memory.rs
    let gfile = "src/guest_memory.rs";
    let start = || ex("self . start_addr ()", "start", Ty::Addr);
    let len = || ex("self . len ()", "len", Ty::Int(64));
    for (name, f, extra) in [
        ("region_address_in_range", "address_in_range", vec![len()]),
        ("region_check_address", "check_address", vec![len()]),
        ("region_checked_offset", "checked_offset", vec![len()]),
        ("region_to_region_addr", "to_region_addr", vec![start(), len()]),
        ("region_last_addr", "last_addr", vec![start(), len()]),
    ] {
        let mut s = base("Guest", "GuestRegion", gfile, name, f, Loc::Trait("GuestMemoryRegion", f));
        s.extra = extra;
        t.push(s);
    }
    {
        // GuestMemory::checked_offset: check_address of the collection (find_region) is opaque
        let mut s = base("Guest", "GuestMemory", gfile, "mem_checked_offset", "checked_offset", Loc::Trait("GuestMemory", "checked_offset"));
        s.fns = vec![OpaqueFn { method: "check_address", param: "check_address", coq_ty: "N -> option N", ret: Ty::Opt(Box::new(Ty::Addr)) }];
        t.push(s);
    }
    {
        // ONE iteration of the `while let Some(region) = self.find_region(cur)` loop of try_access:
        // start = region.to_region_addr(cur).unwrap(), cap, len = min(cap, count - total), the callback
        // (opaque function f total len start), the three-way test on total.checked_add(len) and the
        // cur.overflowing_add match.  State (total, cur); KReturn = the value try_access returns.
        let mut s = base("Guest", "GuestMemory", gfile, "try_access_step", "try_access", Loc::Trait("GuestMemory", "try_access"));
        s.loop_idx = Some(0);
        s.vars = vec![("region", Ty::Unit)];
        s.state = vec![ex("#0", "cur", Ty::Addr), ex("#1", "total", Ty::Int(64))];
        s.step = Some(("N * N", "rres N"));
        s.canon_params = vec!["count", "addr", "f"];
        s.drop_params = vec!["addr", "f"];
        s.extra = vec![ex("region . start_addr ()", "start", Ty::Addr), ex("region . len ()", "len", Ty::Int(64))];
        s.recv_groups = vec![("region", "GuestRegion")];
        s.fns = vec![ofn("f", "f", "N -> N -> N -> rres N", Ty::Res(Box::new(Ty::Int(64))))];
        t.push(s);
    }

    {
        // ---- third round: the remaining provided methods of GuestMemory and the result decisions of
        // Bytes<GuestAddress> for T: GuestMemory.  The collection is seen through find_region / to_region_addr /
        // try_access (opaque); a region is an abstract object RG.
        let gmk = |name: &'static str, f: &'static str| base("Guest", "GuestMemory", gfile, name, f, Loc::Trait("GuestMemory", f));
        let resn = || Ty::Res(Box::new(Ty::Int(64)));
        // check_range: try_access(len, base, |_, count, _, _| Ok(count)) (the closure is translated), then `== len`
        let mut s = gmk("gm_check_range", "check_range");
        s.canon_params = vec!["base", "len"];
        s.fns = vec![ofn("try_access", "try_access", "N -> N -> (N -> N -> N -> rres N) -> rres N", resn())];
        s.closure_params = vec![("total", Ty::Int(64)), ("count", Ty::Int(64)), ("start", Ty::Addr), ("region", Ty::Unit)];
        t.push(s);
        // to_region_addr: find_region(addr).map(|r| (r, r.to_region_addr(addr).unwrap())); start / len are those of r
        let mut s = gmk("gm_to_region_addr", "to_region_addr");
        s.canon_params = vec!["addr"];
        s.type_params = vec!["RG"];
        s.extra = vec![ext("self . find_region (addr)", "found", "option RG", opt(Ty::Unknown)),
                       ex("r . start_addr ()", "start", Ty::Addr), ex("r . len ()", "len", Ty::Int(64))];
        s.recv_groups = vec![("r", "GuestRegion")];
        s.closure_params = vec![("r", Ty::Unknown)];
        t.push(s);
        // address_in_range / check_address
        for (name, f) in [("gm_address_in_range", "address_in_range"), ("gm_check_address", "check_address")] {
            let mut s = gmk(name, f);
            s.canon_params = vec!["addr"];
            s.type_params = vec!["RG"];
            s.extra = vec![ext("self . find_region (addr)", "found", "option RG", opt(Ty::Unknown))];
            t.push(s);
        }
        // get_host_address / get_slice: to_region_addr(addr).ok_or(InvalidGuestAddress(addr)).and_then(|(r, addr)| r.<f>(addr[, count]))
        for (name, f, cty) in [("gm_get_host_address", "get_host_address", "RG -> N -> rres R"), ("gm_get_slice", "get_slice", "RG -> N -> N -> rres R")] {
            let mut s = gmk(name, f);
            s.canon_params = vec!["addr", "count"];
            s.type_params = vec!["RG", "R"];
            s.extra = vec![ext("self . to_region_addr (addr)", "tra", "option (RG * N)", opt(Ty::Tup(vec![Ty::Unknown, Ty::Addr])))];
            s.fns = vec![ofn(f, "region_call", cty, Ty::Res(Box::new(Ty::Unknown)))];
            s.recv_arg = vec![f];
            s.closure_params = vec![("r", Ty::Unknown), ("addr", Ty::Addr)];
            t.push(s);
        }
        // try_access: the statements before the loop (initial cur / total) and after it (total == 0 => InvalidGuestAddress(addr))
        let mut s = gmk("try_access_init", "try_access");
        s.canon_params = vec!["count", "addr", "f"];
        s.drop_params = vec!["f"];
        s.until = Some("while");
        s.locals = Some(vec!["#0", "#1"]);
        s.step = Some(("N * N", "rres N"));
        t.push(s);
        let mut s = gmk("try_access_post", "try_access");
        s.canon_params = vec!["count", "addr", "f"];
        s.drop_params = vec!["f"];
        s.after_loop = Some(0);
        s.state = vec![ex("#0", "cur", Ty::Addr), ex("#1", "total", Ty::Int(64))];
        s.step = Some(("N * N", "rres N"));
        t.push(s);
        // Bytes<GuestAddress> for T: the `buf.is_empty()` guards of write / read, the callbacks they hand to
        // try_access (`&buf[offset..]`: the buffer seen as its length), and the `res != expected => PartialBuffer`
        // decisions of write_slice / read_slice / read_exact_volatile_from / write_all_volatile_to
        let bk = |name: &'static str, f: &'static str, loc: Option<Loc>| {
            let l = Loc::Impl { ty: "T", tr: Some("Bytes"), f };
            base("Guest", "GuestBytes", gfile, name, f, loc.unwrap_or(l))
        };
        for (name, f) in [("gm_write_guard", "write"), ("gm_read_guard", "read")] {
            let mut s = bk(name, f, None);
            s.canon_params = vec!["buf", "addr"];
            s.drop_params = vec!["buf", "addr"];
            s.extra = vec![ex("buf . is_empty ()", "buf_is_empty", Ty::Bool)];
            s.until = Some("self . try_access");
            s.step = Some(("unit", "rres N"));
            t.push(s);
        }
        for (name, f) in [("gm_write_cb", "write"), ("gm_read_cb", "read")] {
            let mut s = bk(name, f, Some(Loc::Closure { outer: Box::new(Loc::Impl { ty: "T", tr: Some("Bytes"), f }), idx: 0 }));
            s.canon_params = vec!["offset", "count", "caddr", "region"];
            s.param_tys = vec![("offset", Ty::Int(64)), ("count", Ty::Int(64)), ("caddr", Ty::Addr), ("region", Ty::Unit)];
            s.drop_params = vec!["count", "region"];
            s.extra = vec![ex("buf", "buf_len", Ty::Slice)];
            s.positions = vec![("param#0", "buf")];
            s.fns = vec![ofn(f, "region_call", "N -> N -> R", Ty::Unknown)];
            t.push(s);
        }
        for (name, f, call, exp, canon) in [
            ("gm_write_slice", "write_slice", "self . write (buf , addr)", "buf . len ()", vec!["buf", "addr"]),
            ("gm_read_slice", "read_slice", "self . read (buf , addr)", "buf . len ()", vec!["buf", "addr"]),
            ("gm_read_exact_volatile_from", "read_exact_volatile_from", "self . read_volatile_from (addr , src , count)", "count", vec!["addr", "src", "count"]),
            ("gm_write_all_volatile_to", "write_all_volatile_to", "self . write_volatile_to (addr , dst , count)", "count", vec!["addr", "dst", "count"]),
        ] {
            let mut s = bk(name, f, None);
            s.canon_params = canon.clone();
            s.drop_params = canon;
            s.extra = vec![ext(call, "res", "rres N", resn()), ex(exp, "expected", Ty::Int(64))];
            t.push(s);
        }
    }
    {
        // GuestMemory::last_addr: self.iter().map(GuestMemoryRegion::last_addr).fold(GuestAddress(0), std::cmp::max)
        // as the triple (initial value, mapped function of a region's (start, len), combining function)
        let mut s = base("Guest", "GuestMemory", gfile, "gm_last_addr", "last_addr", Loc::Trait("GuestMemory", "last_addr"));
        s.iter_fold = Some("GuestRegion");
        t.push(s);
        // src/bytes.rs: Bytes::write_obj = write_slice(val.as_slice(), addr); read_obj = read_slice(zeroed.as_mut_slice(), addr).map(|_| result)
        let mut s = base("Guest", "BytesTrait", "src/bytes.rs", "bytes_write_obj", "write_obj", Loc::Trait("Bytes", "write_obj"));
        s.canon_params = vec!["val", "addr"];
        s.drop_params = vec!["val"];
        s.param_tys = vec![("addr", Ty::Addr)];
        s.type_params = vec!["B", "R"];
        s.extra = vec![ext("val . as_slice ()", "val_bytes", "B", Ty::Unknown)];
        s.fns = vec![ofn("write_slice", "write_slice", "B -> N -> R", Ty::Unknown)];
        t.push(s);
        let mut s = base("Guest", "BytesTrait", "src/bytes.rs", "bytes_read_obj", "read_obj", Loc::Trait("Bytes", "read_obj"));
        s.canon_params = vec!["addr"];
        s.param_tys = vec![("addr", Ty::Addr)];
        s.type_params = vec!["B", "T0"];
        s.skip_as = vec![("T :: zeroed ()", "result")];
        s.extra = vec![ext("result . as_mut_slice ()", "obj_bytes", "B", Ty::Unknown), ext("result", "result", "T0", Ty::Unknown)];
        s.fns = vec![ofn("read_slice", "read_slice", "B -> N -> rres unit", Ty::Res(Box::new(Ty::Unit)))];
        t.push(s);
    }
    // ------------------------------------------------------------------ src/bitmap/backend/slice.rs
    let sfile = "src/bitmap/backend/slice.rs";
    let bo = || ex("self . base_offset", "base_offset", Ty::Int(64));
    {
        let mut s = base("Slice", "Slice", sfile, "mark_dirty", "mark_dirty", Loc::Impl { ty: "BaseSlice", tr: Some("Bitmap"), f: "mark_dirty" });
        s.extra = vec![bo()];
        s.effects = vec!["mark_dirty"];
        t.push(s);
        let mut s = base("Slice", "Slice", sfile, "dirty_at", "dirty_at", Loc::Impl { ty: "BaseSlice", tr: Some("Bitmap"), f: "dirty_at" });
        s.extra = vec![bo()];
        s.fns = vec![OpaqueFn { method: "dirty_at", param: "inner_dirty_at", coq_ty: "N -> R", ret: Ty::Unknown }];
        t.push(s);
        let mut s = base("Slice", "Slice", sfile, "slice_at", "slice_at", Loc::Impl { ty: "BaseSlice", tr: Some("Bitmap"), f: "slice_at" });
        s.extra = vec![bo()];
        s.fields = vec!["base_offset"];
        t.push(s);
    }
    // ------------------------------------------------------------------ src/bitmap/backend/atomic_bitmap.rs
    let bfile = "src/bitmap/backend/atomic_bitmap.rs";
    let bm = |name: &'static str, f: &'static str| base("AtomicBitmap", "AtomicBitmap", bfile, name, f, Loc::Impl { ty: "AtomicBitmap", tr: None, f });
    let size = || ex("self . size", "size", Ty::Int(64));
    let psz = || ex("self . page_size", "page_size", Ty::NonZero);
    let load = || OpaqueFn { method: "load", param: "map_load", coq_ty: "N -> N", ret: Ty::Int(64) };
    let bits = ("u64 :: BITS".to_string(), "64".to_string(), Ty::Int(32));
    {
        let mut s = bm("new_sizes", "new");
        s.locals = Some(vec!["num_pages", "map_size"]);
        s.positions = vec![("let#0", "num_pages"), ("let#1", "map_size")];
        s.consts = vec![bits.clone()];
        t.push(s);
        let mut s = bm("is_bit_set", "is_bit_set");
        s.extra = vec![size()];
        s.fns = vec![load()];
        t.push(s);
        let mut s = bm("is_addr_set", "is_addr_set");
        s.extra = vec![size(), psz()];
        s.fns = vec![load()];
        t.push(s);
        // set_reset_addr_range is private: by name, else the 3-argument self-method call of the public set_addr_range
        let mut s = bm("range_bits", "set_reset_addr_range");
        s.extra = vec![psz()];
        s.locals = Some(vec!["first_bit", "last_bit"]);
        s.positions = vec![("let#0", "first_bit"), ("let#1", "last_bit")];
        s.via = via(Loc::Impl { ty: "AtomicBitmap", tr: None, f: "set_addr_range" }, true, 3, 0);
        t.push(s);
        for f in ["set_bit", "reset_bit"] {
            let mut s = bm(f, f);
            s.extra = vec![size()];
            s.effects = vec!["fetch_or", "fetch_and"];
            t.push(s);
        }
    }
    {
        // enlarge(&mut self, additional_size): `self.byte_size += ..; self.size = ..; let map_size = ..;`
        // result KNext (byte_size, size, map_size); `self.map.resize_with(map_size, ..)` is opaque
        let mut s = bm("enlarge", "enlarge");
        s.extra = vec![psz()];
        s.state = vec![ex("self . byte_size", "byte_size", Ty::Int(64)), ex("self . size", "size", Ty::Int(64))];
        s.locals = Some(vec!["map_size"]);
        s.positions = vec![("let#0", "map_size")];
        s.until = Some("self . map . resize_with");
        s.step = Some(("N * N * N", "unit"));
        s.consts = vec![bits.clone()];
        t.push(s);
        // ONE iteration of the bit loop of set_reset_addr_range: `if n >= self.size { break; }`, then
        // fetch_or / fetch_and on word n >> 6 with mask 1 << (n & 63)
        let mut s = bm("range_body", "set_reset_addr_range");
        s.via = via(Loc::Impl { ty: "AtomicBitmap", tr: None, f: "set_addr_range" }, true, 3, 0);
        s.extra = vec![size()];
        s.loop_idx = Some(0);
        s.vars = vec![("n", Ty::Int(64))];
        s.effects = vec!["fetch_or", "fetch_and"];
        s.step = Some(("unit", "unit"));
        s.drop_params = vec!["start_addr", "len"];
        t.push(s);
    }

    {
        // ---- third round: the per-word operations of get_and_reset / reset / clone, the struct clone builds,
        // and the delegations of impl Bitmap for AtomicBitmap / set_addr_range / reset_addr_range
        let imp = |f: &'static str| Loc::Impl { ty: "AtomicBitmap", tr: None, f };
        // get_and_reset: the closure `|u| u.fetch_and(0, SeqCst)` applied to every word
        let mut s = base("AtomicBitmap", "AtomicBitmap", bfile, "get_and_reset_word", "get_and_reset", Loc::Closure { outer: Box::new(imp("get_and_reset")), idx: 0 });
        s.canon_params = vec!["u"];
        s.param_tys = vec![("u", Ty::Unit)];
        s.drop_params = vec!["u"];
        s.effects = vec!["fetch_and"];
        t.push(s);
        // reset: ONE iteration of `for it in self.map.iter() { it.store(0, Release) }`
        let mut s = bm("reset_word", "reset");
        s.loop_idx = Some(0);
        s.vars = vec![("it", Ty::Unit)];
        s.effects = vec!["store"];
        s.step = Some(("unit", "unit"));
        t.push(s);
        // Clone::clone: the closure `|i| i.load(Acquire)` applied to every word, and the fields of the new bitmap
        let cl = || Loc::Impl { ty: "AtomicBitmap", tr: Some("Clone"), f: "clone" };
        let mut s = base("AtomicBitmap", "AtomicBitmap", bfile, "clone_word", "clone", Loc::Closure { outer: Box::new(cl()), idx: 0 });
        s.canon_params = vec!["i"];
        s.param_tys = vec![("i", Ty::Unit)];
        s.drop_params = vec!["i"];
        s.effects = vec!["load"];
        t.push(s);
        let mut s = base("AtomicBitmap", "AtomicBitmap", bfile, "clone_fields", "clone", cl());
        s.skip_lets = vec!["map"];
        s.positions = vec![("let#0", "map")];
        s.extra = vec![size(), ex("self . byte_size", "byte_size", Ty::Int(64)), psz()];
        s.fields = vec!["size", "byte_size", "page_size"];
        t.push(s);
        // set_addr_range / reset_addr_range: set_reset_addr_range(start_addr, len, true / false)
        for f in ["set_addr_range", "reset_addr_range"] {
            let mut s = bm(f, f);
            s.effects = vec!["set_reset_addr_range"];
            t.push(s);
        }
        // impl Bitmap for AtomicBitmap: mark_dirty => set_addr_range, dirty_at => is_addr_set, slice_at => RefSlice::new(self, offset)
        let bi = |name: &'static str, f: &'static str| base("AtomicBitmap", "AtomicBitmap", bfile, name, f, Loc::Impl { ty: "AtomicBitmap", tr: Some("Bitmap"), f });
        let mut s = bi("bm_mark_dirty", "mark_dirty");
        s.effects = vec!["set_addr_range"];
        t.push(s);
        let mut s = bi("bm_dirty_at", "dirty_at");
        s.extra = vec![size(), psz()];
        s.fns = vec![load()];
        t.push(s);
        let mut s = bi("bm_slice_at", "slice_at");
        s.ctors = vec![("new", vec![1])];
        t.push(s);
    }
    // ------------------------------------------------------------------ src/io.rs
    {
        let ifile = "src/io.rs";
        let io = |name: &'static str, f: &'static str, loc: Loc| base("Io", "Io", ifile, name, f, loc);
        let kind = |k: &'static str| (format!("ErrorKind :: {}", k), format!("EK_{}", k), Ty::Int(64));
        let buf_len = || ex("buf . len ()", "buf_len", Ty::Int(64));
        // retry_eintr!: ONE pass through `loop { let r = $io_call; if let Err(IOError(ref err)) = r { if
        // err.kind() == Interrupted { continue; } } break r; }`: KNext = call again, KReturn r = the value of
        // the loop.  An io::Error is seen as (the code of) its kind.
        let mut s = io("retry_eintr_step", "retry_eintr", Loc::MacroExpr { mac: "retry_eintr", subst: vec![("io_call", "io_call")] });
        s.loop_idx = Some(0);
        s.break_value = true;
        s.step = Some(("unit", "rres N"));
        s.extra = vec![ext("io_call", "io_call", "rres N", Ty::Res(Box::new(Ty::Int(64))))];
        s.consts = vec![("std :: io :: ErrorKind :: Interrupted".to_string(), "EK_Interrupted".to_string(), Ty::Int(64))];
        s.id_methods = vec!["kind"];
        t.push(s);
        // default read_exact_volatile / write_all_volatile: ONE iteration of `while !partial_buf.is_empty() {
        // match retry_eintr!(call) { Ok(0) => return Err(zero), Ok(n) => partial_buf = partial_buf.offset(n)?,
        // Err(e) => return Err(e) } }` incl. the loop condition; the slice is an abstract object PB
        for (name, tr, f, call, zero) in [
            ("read_exact_step", "ReadVolatile", "read_exact_volatile", "retry_eintr ! (self . read_volatile (& mut partial_buf))", "UnexpectedEof"),
            ("write_all_step", "WriteVolatile", "write_all_volatile", "retry_eintr ! (self . write_volatile (& partial_buf))", "WriteZero"),
        ] {
            let mut s = io(name, f, Loc::Trait(tr, f));
            s.loop_idx = Some(0);
            s.loop_cond = true;
            s.type_params = vec!["PB"];
            s.state = vec![ext("#0", "partial_buf", "PB", Ty::Unknown)];
            s.step = Some(("PB", "rres unit"));
            s.canon_params = vec!["buf"];
            s.drop_params = vec!["buf"];
            s.extra = vec![ext(call, "io_result", "rres N", Ty::Res(Box::new(Ty::Int(64))))];
            s.fns = vec![ofn("offset", "offset", "PB -> N -> rres PB", Ty::Res(Box::new(Ty::Unknown))), ofn("is_empty", "is_empty", "PB -> bool", Ty::Bool)];
            s.recv_arg = vec!["offset", "is_empty"];
            s.consts = vec![kind(zero)];
            s.ctors = vec![("new", vec![0])];
            t.push(s);
        }
        // ReadVolatile for &[u8] / WriteVolatile for &mut [u8]: total = min, the copy (opaque: total -> count),
        // `*self = self.split_at(n).1` (the slice `*self` seen as its length; split_at panics beyond it);
        // result (Ok(n), new length of *self)
        for (name, tr, f, copy, sel) in [
            ("slice_read_volatile", "ReadVolatile", "read_volatile", "copy_to_volatile_slice", 2usize),
            ("mslice_write_volatile", "WriteVolatile", "write_volatile", "copy_from_volatile_slice", 2usize),
        ] {
            let mut s = io(name, f, Loc::Impl { ty: "[T]", tr: Some(tr), f });
            s.canon_params = vec!["buf"];
            s.drop_params = vec!["buf"];
            s.extra = vec![buf_len()];
            s.state = vec![ex("self", "self_len", Ty::Slice)];
            s.fns = vec![ofn(copy, "copy", "N -> N", Ty::Int(64))];
            s.argsel = vec![(copy, vec![sel])];
            t.push(s);
        }
        // read_exact_volatile for &[u8]: the `buf.len() > self.len()` pre-check (KReturn = the error), KNext = read_volatile runs
        let mut s = io("slice_read_exact_guard", "read_exact_volatile", Loc::Impl { ty: "[T]", tr: Some("ReadVolatile"), f: "read_exact_volatile" });
        s.canon_params = vec!["buf"];
        s.drop_params = vec!["buf"];
        s.extra = vec![buf_len(), ex("self . len ()", "self_len", Ty::Int(64))];
        s.until = Some("self . read_volatile");
        s.step = Some(("unit", "rres unit"));
        s.consts = vec![kind("UnexpectedEof")];
        s.ctors = vec![("new", vec![0])];
        t.push(s);
        // write_all_volatile for &mut [u8]: written == buf.len() or WriteZero
        let mut s = io("mslice_write_all", "write_all_volatile", Loc::Impl { ty: "[T]", tr: Some("WriteVolatile"), f: "write_all_volatile" });
        s.canon_params = vec!["buf"];
        s.drop_params = vec!["buf"];
        s.extra = vec![buf_len(), ext("self . write_volatile (buf)", "written", "rres N", Ty::Res(Box::new(Ty::Int(64))))];
        s.consts = vec![kind("WriteZero")];
        s.ctors = vec![("new", vec![0])];
        t.push(s);
        // WriteVolatile for Vec<u8>: reserve(count), copy of count bytes, assert_eq!, set_len(len + count), Ok(count)
        let mut s = io("vec_write_volatile", "write_volatile", Loc::Impl { ty: "Vec", tr: Some("WriteVolatile"), f: "write_volatile" });
        s.canon_params = vec!["buf"];
        s.drop_params = vec!["buf"];
        s.extra = vec![buf_len(), ex("self . len ()", "vec_len", Ty::Int(64))];
        s.fns = vec![ofn("copy_from_volatile_slice", "copy", "N -> N", Ty::Int(64))];
        s.argsel = vec![("copy_from_volatile_slice", vec![2])];
        s.effects = vec!["reserve", "set_len"];
        s.effects_ret = true;
        t.push(s);
        // Cursor: position clamp min(pos, len), the remaining slice `inner[len..]` handed to the slice impl
        // (opaque: remaining length -> result), set_position(position + n)
        let cur_extra = || vec![buf_len(), ex("self . position ()", "pos", Ty::Int(64)),
                                ex("self . get_ref () . as_ref ()", "inner_len", Ty::Slice), ex("self . get_ref () . len ()", "inner_len", Ty::Int(64)),
                                ex("self . get_mut ()", "inner_len", Ty::Slice)];
        for (name, tr, f, callee, rty) in [
            ("cursor_read_volatile", "ReadVolatile", "read_volatile", "read_volatile", Ty::Int(64)),
            ("cursor_read_exact_volatile", "ReadVolatile", "read_exact_volatile", "read_exact_volatile", Ty::Unit),
            ("cursor_write_volatile", "WriteVolatile", "write_volatile", "write_volatile", Ty::Int(64)),
        ] {
            let mut s = io(name, f, Loc::Impl { ty: "Cursor", tr: Some(tr), f });
            s.canon_params = vec!["buf"];
            s.drop_params = vec!["buf"];
            s.extra = cur_extra();
            let cty: &'static str = if rty == Ty::Unit { "N -> rres unit" } else { "N -> rres N" };
            s.fns = vec![ofn(callee, "slice_call", cty, Ty::Res(Box::new(rty)))];
            s.argsel = vec![(callee, vec![0])];
            s.effects = vec!["set_position"];
            s.effects_ret = true;
            t.push(s);
        }
        // read_volatile_raw_fd / write_volatile_raw_fd: the system call is opaque (buffer length -> ssize_t);
        // bytes < 0 => (read: mark the whole buffer) Err(last_os_error), else (read: mark bytes) Ok(bytes)
        for (name, f, sys) in [("read_volatile_raw_fd", "read_volatile_raw_fd", "read"), ("write_volatile_raw_fd", "write_volatile_raw_fd", "write")] {
            let mut s = io(name, f, Loc::Free(f));
            // private: by name, else the 2-argument path call of the impl that delegates to it
            s.via = if sys == "write" {
                via(Loc::Impl { ty: "Stdout", tr: Some("WriteVolatile"), f: "write_volatile" }, false, 2, 0)
            } else {
                via(Loc::InMacro { mac: "impl_read_write_volatile_for_raw_fd", subst: vec![("raw_fd_ty", "RawFdTy")],
                                   inner: Box::new(Loc::Impl { ty: "RawFdTy", tr: Some("ReadVolatile"), f: "read_volatile" }) }, false, 2, 0)
            };
            s.canon_params = vec!["raw_fd", "buf"];
            s.drop_params = vec!["raw_fd", "buf"];
            s.extra = vec![buf_len(), ex("std :: io :: Error :: last_os_error ()", "last_os_error", Ty::Int(64))];
            // the descriptor, the pointer guard and the raw pointer handed to the system call are opaque
            s.skip = vec!["raw_fd . as_raw_fd ()", "guard . as_ptr () . cast :: < libc :: c_void > ()"];
            s.skip_as = vec![("buf . ptr_guard_mut ()", "guard"), ("buf . ptr_guard ()", "guard")];
            s.fns = vec![ofn(sys, "syscall", "N -> N", Ty::ISize)];
            s.argsel = vec![(sys, vec![2])];
            s.effects = vec!["mark_dirty"];
            s.effects_ret = true;
            t.push(s);
        }
    }
    {
        // ---- w1c: the raw-fd impls hand the SAME buffer to the raw-fd function (no cap, no loop), and which types have them
        let ifile = "src/io.rs";
        let mk = |name: &'static str, f: &'static str, loc: Loc, callee: &'static str| {
            let mut s = base("Io", "IoFd", ifile, name, f, loc);
            s.canon_params = vec!["buf"];
            s.param_tys = vec![("buf", Ty::Abs("B"))];
            s.type_params = vec!["FD", "B", "R"];
            s.extra = vec![ext("self", "fd", "FD", Ty::Abs("FD"))];
            s.fns = vec![ofn(callee, "raw_fd_call", "FD -> B -> R", Ty::Unknown)];
            s
        };
        let in_mac = |tr: &'static str, f: &'static str| Loc::InMacro { mac: "impl_read_write_volatile_for_raw_fd", subst: vec![("raw_fd_ty", "RawFdTy")],
                                                                       inner: Box::new(Loc::Impl { ty: "RawFdTy", tr: Some(tr), f }) };
        t.push(mk("fd_read_volatile", "read_volatile", in_mac("ReadVolatile", "read_volatile"), "read_volatile_raw_fd"));
        t.push(mk("fd_write_volatile", "write_volatile", in_mac("WriteVolatile", "write_volatile"), "write_volatile_raw_fd"));
        t.push(mk("stdout_write_volatile", "write_volatile", Loc::Impl { ty: "Stdout", tr: Some("WriteVolatile"), f: "write_volatile" }, "write_volatile_raw_fd"));
        let mut s = base("Io", "IoFd", ifile, "io_inventory", "(inventory)", Loc::Free("(inventory)"));
        s.inventory = Some((vec!["ReadVolatile", "WriteVolatile"], vec!["impl_read_write_volatile_for_raw_fd"]));
        t.push(s);
        // the address newtypes compare as their u64: GuestAddress / MemoryRegionAddress DERIVE Eq, PartialEq, Ord, PartialOrd
        // and no hand-written impl of those traits exists in the file
        let mut s = base("Guest", "GuestInv", gfile, "address_inventory", "(inventory)", Loc::Free("(inventory)"));
        s.inventory = Some((vec!["PartialOrd", "Ord", "PartialEq", "Eq"], vec!["impl_address_ops"]));
        s.inventory_derives = vec!["GuestAddress", "MemoryRegionAddress"];
        t.push(s);
        // NewBitmap::with_len: AtomicBitmap::new(len, page size from sysconf), len unchanged
        let mut s = base("AtomicBitmap", "AtomicBitmap", "src/bitmap/backend/atomic_bitmap.rs", "with_len", "with_len", Loc::Impl { ty: "AtomicBitmap", tr: Some("NewBitmap"), f: "with_len" });
        s.type_params = vec!["R"];
        s.extra = vec![ex("unsafe { libc :: sysconf (libc :: _SC_PAGE_SIZE) }", "sysconf_page_size", Ty::ISize)];
        s.fns = vec![ofn("new", "bitmap_new", "N -> N -> R", Ty::Unknown)];
        t.push(s);
        // atomic_integer.rs impl_atomic_integer_ops!: load / store forward `order` unchanged
        for (name, f) in [("atomic_load", "load"), ("atomic_store", "store")] {
            let mut s = base("Atomic", "Atomic", "src/atomic_integer.rs", name, f,
                             Loc::InMacro { mac: "impl_atomic_integer_ops", subst: vec![("T", "AtomT"), ("V", "u64")], inner: Box::new(Loc::Impl { ty: "AtomT", tr: Some("AtomicInteger"), f }) });
            s.canon_params = if f == "store" { vec!["val", "order"] } else { vec!["order"] };
            s.param_tys = vec![("order", Ty::Abs("ORD"))];
            s.type_params = vec!["ORD", "R"];
            s.fns = vec![ofn(f, "std_call", if f == "store" { "N -> ORD -> R" } else { "ORD -> R" }, Ty::Unknown)];
            t.push(s);
        }
        // GuestMemoryRegion defaults: no host address / slice / file offset unless the implementor overrides; as_volatile_slice = get_slice(0, len)
        for (name, f) in [("region_default_get_host_address", "get_host_address"), ("region_default_get_slice", "get_slice"),
                          ("region_default_file_offset", "file_offset"), ("region_default_as_volatile_slice", "as_volatile_slice")] {
            let mut s = base("Guest", "GuestRegionDefaults", gfile, name, f, Loc::Trait("GuestMemoryRegion", f));
            s.type_params = vec!["R"];
            s.extra = vec![ex("self . len ()", "len", Ty::Int(64))];
            s.fns = vec![ofn("get_slice", "get_slice", "N -> N -> R", Ty::Unknown)];
            s.annot = match f { "get_host_address" => Some("rres N"), "get_slice" => Some("rres R"), "file_offset" => Some("option N"), _ => None };
            t.push(s);
        }
    }
    // ------------------------------------------------------------------ src/mmap/mod.rs
    {
        let mut s = base("Mmap", "Mmap", "src/mmap/mod.rs", "check_file_offset", "check_file_offset", Loc::Free("check_file_offset"));
        s.drop_params = vec!["file_offset"];
        s.skip = vec!["file_offset . file ()", "file . rewind () . map_err (MmapRegionError :: SeekStart) ?"];
        s.extra = vec![
            ex("file_offset . start ()", "start", Ty::Int(64)),
            ex("file . seek (SeekFrom :: End (0)) . map_err (MmapRegionError :: SeekEnd) ?", "filesize", Ty::Int(64)),
        ];
        t.push(s);
        let mut s = base("Mmap", "Mmap", "src/mmap/mod.rs", "guest_region_new", "new", Loc::Impl { ty: "GuestRegionMmap", tr: None, f: "new" });
        s.drop_params = vec!["mapping"];
        s.extra = vec![ex("mapping . size ()", "size", Ty::Int(64))];
        s.fields = vec!["guest_base"];
        t.push(s);
    }
    {
        let mfile = "src/mmap/mod.rs";
        let gm = |name: &'static str, f: &'static str, tr: Option<&'static str>| base("Mmap", "GuestMemoryMmap", mfile, name, f, Loc::Impl { ty: "GuestMemoryMmap", tr, f });
        let either = || Ty::Either(Box::new(Ty::Int(64)), Box::new(Ty::Int(64)));
        // from_arc_regions: ONE window of `for window in regions.windows(2)`: the first failing
        // window decides UnsortedMemoryRegions vs MemoryRegionOverlap (KReturn), else KNext
        let mut s = gm("window_step", "from_arc_regions", None);
        s.loop_idx = Some(0);
        s.vars = vec![("window", Ty::Unit)];
        s.step = Some(("unit", "rres unit"));
        s.drop_params = vec!["regions"];
        s.skip_as = vec![("& window [0]", "prev"), ("& window [1]", "next")];
        s.extra = vec![ex("prev . start_addr ()", "start", Ty::Addr), ex("prev . len ()", "len", Ty::Int(64)), ex("next . start_addr ()", "next_start", Ty::Addr)];
        s.recv_groups = vec![("prev", "GuestRegion")];
        t.push(s);
        // find_region: which index the binary-search result selects (the search itself and
        // `self.regions[i].last_addr()` are opaque: bs : Ok i | Err i as inl/inr, last_addr_at i)
        // (the whole function: the index selection - inline or in a private helper - and the final `self.regions[x].as_ref()`)
        let mut s = gm("find_region_index", "find_region", Some("GuestMemory"));
        s.canon_params = vec!["addr"];
        s.closure_params = vec![("x", Ty::Int(64))];
        s.extra = vec![ext("self . regions . binary_search_by_key (& addr , | x | x . start_addr ())", "bs", "(N + N)%type", either())];
        s.fns = vec![ofn("last_addr", "last_addr_at", "N -> N", Ty::Addr), ofn("as_ref", "region_at", "N -> R", Ty::Unknown)];
        t.push(s);
        // remove_region: Ok only when the search finds the base AND the size matches
        // (`.get(i).unwrap()` of the found index: size_at i : option N); the value is the removed index
        let mut s = gm("remove_region", "remove_region", None);
        s.canon_params = vec!["base", "size"];
        s.extra = vec![ext("self . regions . binary_search_by_key (& base , | x | x . start_addr ())", "bs", "(N + N)%type", either())];
        s.fns = vec![ofn("size_at", "size_at", "N -> option N", opt(Ty::Int(64)))];
        s.rewrite = vec![
            ("self . regions . get (region_index) . unwrap () . mapping . size ()", "size_at (region_index) . unwrap ()"),
            ("Ok ((Self { regions } , region))", "Ok (region_index)"),
        ];
        s.skip = vec!["self . regions . clone ()", "regions . remove (region_index)"];
        t.push(s);
    }
    {
        // ---- w1c: region construction and the region-level Bytes<MemoryRegionAddress> delegation
        let mfile = "src/mmap/mod.rs";
        let abs = |n: &'static str| Ty::Abs(n);
        let rabs = |n: &'static str| Ty::Res(Box::new(Ty::Abs(n)));
        // GuestRegionMmap::from_range, both cfg variants: the mapping is built, then EVERYTHING goes through Self::new(region, addr)
        let mut s = base("Mmap", "MmapCtor", mfile, "from_range_unix", "from_range", Loc::Impl { ty: "GuestRegionMmap", tr: None, f: "from_range" });
        s.attr_filter = Some(("not (feature = \"xen\")", true));
        s.canon_params = vec!["addr", "size", "file"];
        s.param_tys = vec![("file", opt(abs("F")))];
        s.type_params = vec!["F", "M", "R"];
        s.id_methods = vec!["clone"];
        s.fns = vec![ofn("from_file", "from_file", "F -> N -> rres M", rabs("M")), ofn("new", "region_new", "N -> rres M", rabs("M")),
                     ofn("guest_region_new", "guest_region_new", "M -> N -> rres R", Ty::Res(Box::new(Ty::Abs("R"))))];
        s.positions = vec![("let#0", "region")];
        s.rewrite = vec![("Self :: new (region , addr)", "guest_region_new (region , addr)")];
        t.push(s);
        let mut s = base("Mmap", "MmapCtor", mfile, "from_range_xen", "from_range", Loc::Impl { ty: "GuestRegionMmap", tr: None, f: "from_range" });
        s.attr_filter = Some(("not (feature = \"xen\")", false));
        s.canon_params = vec!["addr", "size", "file"];
        s.param_tys = vec![("file", abs("F"))];
        s.type_params = vec!["F", "RNG", "M", "R"];
        s.fns = vec![ofn("new_unix", "new_unix", "N -> F -> N -> RNG", abs("RNG")), ofn("from_range", "region_from_range", "RNG -> rres M", rabs("M")),
                     ofn("guest_region_new", "guest_region_new", "M -> N -> rres R", Ty::Res(Box::new(Ty::Abs("R"))))];
        s.positions = vec![("let#1", "region")];
        s.rewrite = vec![("Self :: new (region , addr)", "guest_region_new (region , addr)")];
        t.push(s);
        // Bytes<MemoryRegionAddress> for GuestRegionMmap: as_volatile_slice().unwrap().<same method>(addr.0 as usize, ..)
        // with the error converted and NOTHING else (a mark_dirty of its own would be an unknown call)
        for (f, sel) in [("write", vec![1usize]), ("read", vec![1]), ("write_slice", vec![1]), ("read_slice", vec![1]),
                         ("read_volatile_from", vec![0, 2]), ("read_exact_volatile_from", vec![0, 2]),
                         ("write_volatile_to", vec![0, 2]), ("write_all_volatile_to", vec![0, 2])] {
            let name: &'static str = Box::leak(format!("region_{}", f).into_boxed_str());
            let mut s = base("Mmap", "RegionBytes", mfile, name, f, Loc::Impl { ty: "GuestRegionMmap", tr: Some("Bytes"), f });
            s.canon_params = if sel.len() == 1 { vec!["buf", "addr"] } else { vec!["addr", "stream", "count"] };
            s.drop_params = vec!["buf", "stream"];
            s.type_params = vec!["VS", "R"];
            s.extra = vec![ext("self . as_volatile_slice () . unwrap ()", "vs", "VS", abs("VS"))];
            let cty: &'static str = if sel.len() == 1 { "VS -> N -> rres R" } else { "VS -> N -> N -> rres R" };
            s.fns = vec![ofn(f, "slice_call", cty, rabs("R"))];
            s.recv_arg = vec![f];
            s.argsel = vec![(f, sel)];
            t.push(s);
        }
        for (f, sel, canon) in [("store", vec![1usize, 2], vec!["val", "addr", "order"]), ("load", vec![0, 1], vec!["addr", "order"])] {
            let name: &'static str = Box::leak(format!("region_{}", f).into_boxed_str());
            let mut s = base("Mmap", "RegionBytes", mfile, name, f, Loc::Impl { ty: "GuestRegionMmap", tr: Some("Bytes"), f });
            s.canon_params = canon;
            s.drop_params = vec!["val"];
            s.param_tys = vec![("order", abs("ORD"))];
            s.type_params = vec!["VS", "ORD", "R"];
            s.extra = vec![ext("self . as_volatile_slice ()", "vs_res", "rres VS", rabs("VS"))];
            s.fns = vec![ofn(f, "slice_call", "VS -> N -> ORD -> rres R", rabs("R"))];
            s.recv_arg = vec![f];
            s.argsel = vec![(f, sel)];
            s.closure_params = vec![("s", abs("VS"))];
            t.push(s);
        }
    }
    {
        // w1c: insert_region re-validates the WHOLE vector: push, sort by start address, from_arc_regions
        let mut s = base("Mmap", "GuestMemoryMmap", "src/mmap/mod.rs", "insert_region", "insert_region", Loc::Impl { ty: "GuestMemoryMmap", tr: None, f: "insert_region" });
        s.canon_params = vec!["region"];
        s.param_tys = vec![("region", Ty::Abs("RGN"))];
        s.type_params = vec!["RGN", "R"];
        s.skip = vec!["self . regions . clone ()"];
        s.effects = vec!["push", "sort_by_key"];
        s.effects_ret = true;
        s.argsel = vec![("sort_by_key", vec![]), ("from_arc_regions", vec![])];
        s.fns = vec![ofn("from_arc_regions", "from_arc_regions", "R", Ty::Unknown)];
        t.push(s);
    }
    // ------------------------------------------------------------------ src/mmap/unix.rs
    {
        let ufile = "src/mmap/unix.rs";
        let b = |name: &'static str, f: &'static str| base("MmapUnix", "MmapUnix", ufile, name, f, Loc::Impl { ty: "MmapRegionBuilder", tr: None, f });
        // build: the two tests before the file-offset check / mmap call
        let mut s = b("build_prefix", "build");
        s.until = Some("let (fd , offset)");
        s.step = Some(("unit", "rres unit"));
        s.extra = vec![
            ex("self . raw_ptr . is_some ()", "has_raw", Ty::Bool),
            ext("self . build_raw ()", "raw_result", "rres unit", Ty::Res(Box::new(Ty::Unit))),
            ex("self . flags", "flags", Ty::Int(32)),
        ];
        s.consts = vec![("libc :: MAP_FIXED".to_string(), "16".to_string(), Ty::Int(32))];
        t.push(s);
        // build_raw: the alignment test; result (addr, owned) of the MmapRegion built
        let mut s = b("build_raw", "build_raw");
        s.extra = vec![
            ex("unsafe { libc :: sysconf (libc :: _SC_PAGESIZE) } as usize", "page_size", Ty::Int(64)),
            ext("self . raw_ptr", "raw_ptr", "option N", opt(Ty::Ptr)),
        ];
        s.fields = vec!["addr", "owned"];
        t.push(s);
    }
    {
        // w1c: MmapRegion::get_slice (unix): pointer = base + offset, bitmap = slice_at(the SAME offset), no mapping handle
        let mut s = base("MmapUnix", "MmapUnix", "src/mmap/unix.rs", "region_get_slice", "get_slice", Loc::Impl { ty: "MmapRegion", tr: Some("VolatileMemory"), f: "get_slice" });
        s.type_params = vec!["BM", "E"];
        s.extra = vec![ex("self . addr", "addr", Ty::Ptr)];
        s.fns = vec![ofn("slice_at", "slice_at", "N -> BM", Ty::Abs("BM")), ofn("compute_end_offset", "compute_end_offset", "N -> N -> rres E", Ty::Res(Box::new(Ty::Abs("E"))))];
        s.ctors = vec![("with_bitmap", vec![0, 2, 3])];
        t.push(s);
    }
    {
        // w1c: MmapRegionBuilder::build: the mmap(2) call gets exactly self.size, self.prot, self.flags
        let mut s = base("MmapUnix", "MmapUnix", "src/mmap/unix.rs", "build_mmap_args", "build", Loc::Impl { ty: "MmapRegionBuilder", tr: None, f: "build" });
        s.type_params = vec!["R"];
        s.from = Some("unsafe { libc :: mmap");
        s.locals = Some(vec!["addr"]);
        s.extra = vec![ex("self . size", "size", Ty::Int(64)), ex("self . prot", "prot", Ty::Int(32)), ex("self . flags", "flags", Ty::Int(32))];
        s.fns = vec![ofn("mmap", "mmap_call", "N -> N -> N -> R", Ty::Unknown)];
        s.argsel = vec![("mmap", vec![1, 2, 3])];
        t.push(s);
    }
    {
        // w1e: every bitmap-creating constructor of MmapRegion hands the builder B::with_len(<mapping size>)
        for f in ["new", "from_file", "build", "build_raw"] {
            let name: &'static str = Box::leak(format!("region_{}_bitmap", f).into_boxed_str());
            let mut s = base("MmapUnix", name, "src/mmap/unix.rs", name, f, Loc::Impl { ty: "MmapRegion", tr: None, f }); // (a group of its own: `MmapRegionBuilder::new` must not resolve to the kernel of `MmapRegion::new`)
            s.type_params = vec!["BM"];
            s.canon_params = match f { "new" => vec!["size"], "from_file" => vec!["file_offset", "size"], "build" => vec!["file_offset", "size", "prot", "flags"], _ => vec!["addr", "size", "prot", "flags"] };
            s.drop_params = vec!["file_offset", "addr", "prot", "flags"];
            s.fns = vec![ofn("with_len", "with_len", "N -> BM", Ty::Abs("BM"))];
            s.ctors = vec![("new_with_bitmap", vec![0, 1])];
            s.chain_methods = vec!["with_mmap_prot", "with_mmap_flags", "with_file_offset", "with_raw_mmap_pointer", "build"];
            s.skip = vec!["if let Some (v) = file_offset { builder = builder . with_file_offset (v) ; }"];
            t.push(s);
        }
    }
    // ------------------------------------------------------------------ src/mmap/xen.rs
    let xfile = "src/mmap/xen.rs";
    for f in ["is_unix", "is_foreign", "is_grant", "mmap_in_advance", "is_valid"] {
        let mut s = base("Xen", "XenFlags", xfile, f, f, Loc::Impl { ty: "MmapXenFlags", tr: None, f });
        s.extra = vec![ex("self . bits ()", "bits", Ty::Int(32)), ex("self", "bits", Ty::Int(32))];
        s.bitflags = Some("MmapXenFlags");
        t.push(s);
    }
    {
        let ps = || ex("page_size () as usize", "page_size", Ty::Int(64));
        let mut s = base("Xen", "Xen", xfile, "pages", "pages", Loc::Free("pages"));
        s.extra = vec![ps()];
        t.push(s);
        let mut s = base("Xen", "Xen", xfile, "new_with_window", "new_with", Loc::Impl { ty: "MmapXenSlice", tr: None, f: "new_with" });
        s.extra = vec![ps(), ex("grant . guest_base . 0", "guest_base", Ty::Int(64))];
        s.drop_params = vec!["grant", "prot"];
        s.locals = Some(vec!["page_base", "offset", "size", "addr"]);
        s.positions = vec![("let#1", "page_base"), ("let#2", "offset"), ("let#3", "size"), ("let#4", "addr")];
        t.push(s);
    }
    {
        // validate_file: file offset seen as Option<start>; fd is opaque
        let mut s = base("Xen", "Xen", xfile, "validate_file", "validate_file", Loc::Free("validate_file"));
        s.canon_params = vec!["file_offset"];
        s.param_tys = vec![("file_offset", opt(Ty::Int(64)))];
        s.extra = vec![ex("file_offset . file () . as_raw_fd ()", "fd", Ty::Int(32))];
        s.id_methods = vec!["start"];
        t.push(s);
    }
    {
        // ---- third round: MmapXenGrant::{unmap_range, mmap_range, mmap_ioctl} arithmetic and order
        let ps = || ex("page_size () as usize", "page_size", Ty::Int(64));
        let g = |name: &'static str, f: &'static str| base("Xen", "Xen", xfile, name, f, Loc::Impl { ty: "MmapXenGrant", tr: None, f });
        // unmap_range: count of pages(size), drop(unix_mmap) BEFORE unmap_ioctl(count as u32, index)
        let mut s = g("unmap_range", "unmap_range");
        s.canon_params = vec!["unix_mmap", "size", "index"];
        s.param_tys = vec![("unix_mmap", Ty::Unit)];
        s.extra = vec![ps()];
        s.effects = vec!["drop", "unmap_ioctl"];
        t.push(s);
        // mmap_range: (count, size) = pages(size); index = mmap_ioctl(addr, count)?; MmapUnix::new(size, prot, flags, fd, index)?
        let mut s = g("mmap_range", "mmap_range");
        s.canon_params = vec!["addr", "size", "prot"];
        s.type_params = vec!["U"];
        s.extra = vec![ps(), ex("self . flags", "flags", Ty::Int(32)), ex("self . as_raw_fd ()", "fd", Ty::Int(32))];
        s.fns = vec![ofn("mmap_ioctl", "mmap_ioctl", "N -> N -> rres N", Ty::Res(Box::new(Ty::Int(64)))),
                     ofn("new", "unix_new", "N -> N -> N -> N -> N -> rres U", Ty::Res(Box::new(Ty::Unknown)))];
        t.push(s);
        // mmap_ioctl: base = ((addr.0 & !XEN_GRANT_ADDR_OFF) / page_size()) as u32   (XEN_GRANT_ADDR_OFF = 1 << 63)
        let mut s = g("mmap_ioctl_base", "mmap_ioctl");
        s.canon_params = vec!["addr", "count"];
        s.extra = vec![ex("page_size ()", "page_size", Ty::Int(64))];
        s.consts = vec![("XEN_GRANT_ADDR_OFF".to_string(), "9223372036854775808".to_string(), Ty::Int(64))];
        s.locals = Some(vec!["base"]);
        s.positions = vec![("let#0", "base")];
        t.push(s);
    }
    {
        // w1c: MmapRegion::get_slice (xen): as above, and the handle is Some(&self.mmap) exactly when the region is not mapped in advance
        let mut s = base("Xen", "Xen", xfile, "region_get_slice", "get_slice", Loc::Impl { ty: "MmapRegion", tr: Some("VolatileMemory"), f: "get_slice" });
        s.type_params = vec!["BM", "E"];
        s.extra = vec![ex("self . as_ptr ()", "addr", Ty::Ptr), ex("self . mmap . mmap_in_advance ()", "in_advance", Ty::Bool), ex("self . mmap", "the_mmap", Ty::Unit)];
        s.fns = vec![ofn("slice_at", "slice_at", "N -> BM", Ty::Abs("BM")), ofn("compute_end_offset", "compute_end_offset", "N -> N -> rres E", Ty::Res(Box::new(Ty::Abs("E"))))];
        s.ctors = vec![("with_bitmap", vec![0, 2, 3])];
        s.positions = vec![("let#1", "mmap_info")];
        t.push(s);
    }
    {
        // w1c: MmapRange::new_unix flags (file: NORESERVE|SHARED, anonymous: ANONYMOUS|PRIVATE), GntDevMapGrantRef::new loop body
        // (ref i: the same domid, reference base + i), MmapRegion::from_range: size / file offset / hugetlbfs hint passed on
        let mut s = base("Xen", "Xen", xfile, "new_unix_flags", "new_unix", Loc::Impl { ty: "MmapRange", tr: None, f: "new_unix" });
        s.canon_params = vec!["size", "file_offset", "addr"];
        s.param_tys = vec![("file_offset", opt(Ty::Abs("F")))];
        s.type_params = vec!["F"];
        s.consts = vec![("libc :: MAP_NORESERVE".to_string(), "16384".to_string(), Ty::Int(32)), ("libc :: MAP_SHARED".to_string(), "1".to_string(), Ty::Int(32)),
                        ("libc :: MAP_ANONYMOUS".to_string(), "32".to_string(), Ty::Int(32)), ("libc :: MAP_PRIVATE".to_string(), "2".to_string(), Ty::Int(32))];
        s.fields = vec!["flags", "mmap_data", "size", "addr"];
        t.push(s);
        let mut s = base("Xen", "Xen", xfile, "grant_refs_body", "new", Loc::Impl { ty: "GntDevMapGrantRef", tr: None, f: "new" });
        s.loop_idx = Some(0);
        s.vars = vec![("i", Ty::Int(64)), ("r", Ty::Unit)];
        s.state = vec![ex("r . domid", "r_domid", Ty::Int(32)), ex("r . reference", "r_reference", Ty::Int(32))];
        s.step = Some(("N * N", "unit"));
        t.push(s);
        let mut s = base("Xen", "Xen", xfile, "from_range_fields", "from_range", Loc::Impl { ty: "MmapRegion", tr: None, f: "from_range" });
        s.canon_params = vec!["range"];
        s.drop_params = vec!["range"];
        s.type_params = vec!["FO"];
        s.from = Some("Ok (MmapRegion");
        s.extra = vec![ext("range . hugetlbfs", "huge", "option bool", opt(Ty::Bool)), ex("range . size", "size", Ty::Int(64)), ext("range . file_offset", "fo", "FO", Ty::Abs("FO"))];
        s.fields = vec!["hugetlbfs", "size", "file_offset", "bitmap"];
        s.type_params = vec!["FO", "BM"];
        s.fns = vec![ofn("with_len", "with_len", "N -> BM", Ty::Abs("BM"))];
        s.annot = Some("rres (BM * FO * option bool * N)");
        t.push(s);
    }
    {
        // w1e: MmapXenForeign::mmap_ioctl: base = guest_base / page_size, frame i = base + i (ONE iteration of the loop), and the
        // num / domid fields of the PrivCmdMmapBatchV2 request
        let fl = |name: &'static str| base("Xen", "Xen", xfile, name, "mmap_ioctl", Loc::Impl { ty: "MmapXenForeign", tr: None, f: "mmap_ioctl" });
        let mut s = fl("foreign_base");
        s.extra = vec![ex("page_size ()", "page_size", Ty::Int(64)), ex("self . guest_base . 0", "guest_base", Ty::Int(64))];
        s.locals = Some(vec!["base"]);
        s.positions = vec![("let#0", "base")];
        t.push(s);
        let mut s = fl("foreign_frame_body");
        s.loop_idx = Some(0);
        s.vars = vec![("i", Ty::Int(64))];
        s.extra = vec![ex("base", "base", Ty::Int(64))];
        s.positions = vec![("let#0", "base")];
        s.effects = vec!["push"];
        s.step = Some(("unit", "unit"));
        t.push(s);
        let mut s = fl("foreign_batch_fields");
        s.from = Some("PrivCmdMmapBatchV2");
        s.locals = Some(vec!["map"]);
        s.positions = vec![("let#3", "map")];
        s.extra = vec![ex("self . domid", "domid", Ty::Int(64))];
        s.fields = vec!["num", "domid"];
        t.push(s);
    }
    // ------------------------------------------------------------------ src/endian.rs
    for (old, new, to_new, from_new, bits) in [
        ("u16", "Le16", "to_le", "from_le", 16), ("u32", "Le32", "to_le", "from_le", 32),
        ("u64", "Le64", "to_le", "from_le", 64), ("usize", "LeSize", "to_le", "from_le", 64),
        ("u16", "Be16", "to_be", "from_be", 16), ("u32", "Be32", "to_be", "from_be", 32),
        ("u64", "Be64", "to_be", "from_be", 64), ("usize", "BeSize", "to_be", "from_be", 64),
    ] {
        let subst = vec![("old_type", old), ("new_type", new), ("to_new", to_new), ("from_new", from_new)];
        let cv = || OpaqueFn { method: "\u{0}cv", param: "cv", coq_ty: "econv -> N -> N -> N", ret: Ty::Unknown };
        let mk = |suffix: &str, inner: Loc| {
            let name: &'static str = Box::leak(format!("{}_{}", new, suffix).into_boxed_str());
            let mut s = base("Endian", "Endian", "src/endian.rs", name, name, Loc::InMacro { mac: "endian_type", subst: subst.clone(), inner: Box::new(inner) });
            s.endian = true;
            s.fns = vec![cv()];
            s.newtypes = vec![new];
            s
        };
        let mut s = mk("to_native", Loc::Impl { ty: new, tr: None, f: "to_native" });
        s.extra = vec![ex("self . 0", "stored", Ty::Int(bits))];
        t.push(s);
        let mut s = mk("eq_old", Loc::Impl { ty: new, tr: Some("PartialEq"), f: "eq" });
        s.extra = vec![ex("self . 0", "stored", Ty::Int(bits))];
        t.push(s);
        let mut s = mk("old_eq", Loc::Impl { ty: old, tr: Some("PartialEq"), f: "eq" });
        s.extra = vec![ex("* self", "self_v", Ty::Int(bits)), ex("other . 0", "other_stored", Ty::Int(bits))];
        s.drop_params = vec!["other"];
        t.push(s);
        let mut s = mk("from", Loc::Impl { ty: new, tr: Some("From"), f: "from" });
        s.extra = vec![];
        t.push(s);
    }
    t
}

/// Gen modules whose kernels the given module may call
pub fn module_deps(m: &str) -> Vec<&'static str> {
    match m {
        "Guest" => vec!["Address"],
        "CopySlice" => vec!["Volatile"],
        "Mmap" => vec!["Address", "Guest"],
        _ => vec![],
    }
}

/// Which hand model transcribes which function (file, qualified function name as printed by the
/// panic-site inventory - a trailing `*` matches any suffix -, model).  Used to classify panic
/// sites that are not inside a translated kernel.
pub fn model_table() -> Vec<(&'static str, &'static str, &'static str)> {
    let v = "src/volatile_memory.rs";
    let g = "src/guest_memory.rs";
    let b = "src/bitmap/backend/atomic_bitmap.rs";
    let m = "src/mmap/mod.rs";
    let u = "src/mmap/unix.rs";
    vec![
        // ---- src/volatile_memory.rs
        (v, "compute_offset", "Impl/Volatile.v compute_offset"),
        (v, "VolatileMemory::*", "Impl/Volatile.v vm_*, Impl/VolMem.v"),
        (v, "VolatileSlice::*", "Impl/Volatile.v vs_*, Impl/VolMem.v vs_*"),
        (v, "Bytes for VolatileSlice::*", "Impl/VolMem.v vs_read/vs_write/.., Impl/IoGuest.v vs_*_volatile_*"),
        (v, "VolatileMemory for VolatileSlice::*", "Impl/Volatile.v vs_get_slice"),
        (v, "VolatileRef::*", "Impl/Volatile.v vr_*, Impl/VolMem.v vr_*"),
        (v, "VolatileArrayRef::*", "Impl/Volatile.v va_*, Impl/VolMem.v va_*"),
        (v, "PtrGuard::*", "Impl/Volatile.v guard, Impl/Xen.v"),
        (v, "PtrGuardMut::*", "Impl/Volatile.v guard, Impl/Xen.v"),
        (v, "alignment", "Impl/CopyPlan.v alignment"),
        (v, "copy_single", "Impl/CopyPlan.v copy_single"),
        (v, "copy_slice_volatile", "Impl/CopyPlan.v copy_slice_volatile"),
        (v, "copy_slice", "Impl/CopyPlan.v copy_slice"),
        (v, "copy_slice_impl::*", "Impl/CopyPlan.v, Impl/VolMem.v copy_*_volatile_slice"),
        // ---- src/guest_memory.rs
        (g, "GuestMemoryRegion::*", "Impl/Guest.v r_*"),
        (g, "GuestMemory::*", "Impl/Guest.v gm_*, try_access"),
        (g, "Bytes for T::*", "Impl/Guest.v gm_read/gm_write/.., Impl/IoGuest.v gm_*"),
        // ---- bitmaps
        (b, "AtomicBitmap::*", "Impl/Bitmap.v bm_*"),
        (b, "Bitmap for AtomicBitmap::*", "Impl/Bitmap.v bm_mark_dirty_o / bm_dirty_at_o"),
        (b, "Clone for AtomicBitmap::*", "Impl/Bitmap.v bm_clone"),
        ("src/bitmap/backend/slice.rs", "*", "Impl/Bitmap.v bs_*"),
        ("src/bitmap/backend/atomic_bitmap_arc.rs", "*", "Impl/Bitmap.v route RArc"),
        ("src/bitmap/mod.rs", "*", "Impl/Bitmap.v routes (view_*)"),
        // ---- src/io.rs
        ("src/io.rs", "*", "Impl/Io.v, Impl/Std.v"),
        // ---- src/mmap
        (m, "check_file_offset", "Impl/MmapBuild.v check_file_offset"),
        (m, "GuestRegionMmap::*", "Impl/MmapBuild.v guest_region_new / from_range, Impl/Mmap.v region_new"),
        (m, "Bytes for GuestRegionMmap::*", "Impl/Guest.v reg_*, Impl/IoGuest.v"),
        (m, "GuestMemoryRegion for GuestRegionMmap::*", "Impl/Guest.v reg_get_slice / reg_get_host_address, Impl/Volatile.v gr_*"),
        (m, "GuestMemoryMmap::*", "Impl/Mmap.v from_arc_regions / insert_region / remove_region"),
        (m, "GuestMemory for GuestMemoryMmap::*", "Impl/Mmap.v find_region"),
        (u, "MmapRegionBuilder::*", "Impl/MmapBuild.v build / build_raw"),
        (u, "MmapRegion::build*", "Impl/MmapBuild.v mr_build*"),
        (u, "MmapRegion::new", "Impl/MmapBuild.v mr_new"),
        (u, "MmapRegion::from_file", "Impl/MmapBuild.v mr_from_file"),
        (u, "Drop for MmapRegion::drop", "Impl/MmapBuild.v drop_region"),
        (u, "VolatileMemory for MmapRegion::*", "Impl/Volatile.v mr_get_slice_unix"),
        ("src/mmap/xen.rs", "MmapRegion::fds_overlap", ""), // "" = explicitly unmodelled (first match wins)
        ("src/mmap/xen.rs", "*", "Impl/Xen.v"),
        // ---- addresses, endianness
        ("src/address.rs", "*", "Impl/Address.v"),
        ("src/endian.rs", "*", "Impl/Endian.v"),
        ("src/atomic.rs", "*", "Impl/Rcu.v"),
        ("src/bytes.rs", "ByteValued::*", "Impl/Volatile.v bv_from_slice"),
    ]
}
