//! The IMPL INVENTORY (coq/Gen/impl_inventory.json, docs/RS2V.md "Impl inventory"): for the non-test source of the crate
//! (macro_rules! bodies are instantiated textually with the arguments of every invocation found in the crate)
//!   * the inherent methods of every type:            {file, line, type, fn}
//!   * every `impl Trait for Type` block:             {file, line, trait, type, methods it DEFINES, blanket bounds}
//!   * the traits the crate defines with their methods {trait, methods}
//! lib/rs2v.py compares it with the committed baseline rs2v/impl_baseline.json: code ADDED BESIDE the tied functions
//! (an inherent method shadowing a trait method, an override added to an existing impl block, a new Drop / Clone /
//! comparison / crate-trait impl) is a broken obligation.
use proc_macro2::{Delimiter, TokenStream, TokenTree};
use quote::ToTokens;
use std::fmt::Write as _;
use syn::*;

fn js(s: &str) -> String {
    let mut o = String::from("\"");
    for ch in s.chars() {
        match ch {
            '"' => o.push_str("\\\""),
            '\\' => o.push_str("\\\\"),
            '\n' => o.push_str("\\n"),
            c if (c as u32) < 0x20 => {
                let _ = write!(o, "\\u{:04x}", c as u32);
            }
            c => o.push(c),
        }
    }
    o.push('"');
    o
}
fn is_test(attrs: &[Attribute]) -> bool {
    attrs.iter().any(|a| (a.path().is_ident("cfg") && a.to_token_stream().to_string().contains("test")) || a.path().is_ident("test"))
}
/// a type as the inventory names it: last path segment without generics, references stripped, `[T]` for slices
fn ty_name(t: &Type) -> String {
    match t {
        Type::Path(p) => p.path.segments.last().map(|s| s.ident.to_string()).unwrap_or_default(),
        Type::Reference(r) => ty_name(&r.elem),
        Type::Paren(p) => ty_name(&p.elem),
        Type::Group(g) => ty_name(&g.elem),
        Type::Slice(_) => "[T]".into(),
        Type::Tuple(t) if t.elems.is_empty() => "()".into(),
        _ => t.to_token_stream().to_string(),
    }
}
struct Mac {
    name: String,
    params: Vec<String>,
    body: TokenStream,
}
#[derive(Default)]
pub struct Inv {
    inherent: Vec<String>,
    impls: Vec<String>,
    traits: Vec<String>,
}

fn subst(ts: TokenStream, map: &[(String, TokenStream)]) -> TokenStream {
    let mut out: Vec<TokenTree> = vec![];
    let mut it = ts.into_iter().peekable();
    while let Some(t) = it.next() {
        match &t {
            TokenTree::Punct(p) if p.as_char() == '$' => {
                if let Some(TokenTree::Ident(id)) = it.peek() {
                    let n = id.to_string();
                    if let Some((_, to)) = map.iter().find(|(f, _)| *f == n) {
                        it.next();
                        out.extend(to.clone());
                        continue;
                    }
                }
                out.push(t);
            }
            TokenTree::Group(g) => {
                let mut ng = proc_macro2::Group::new(g.delimiter(), subst(g.stream(), map));
                ng.set_span(g.span());
                out.push(TokenTree::Group(ng));
            }
            _ => out.push(t),
        }
    }
    out.into_iter().collect()
}

/// single-rule macro_rules!: metavariable names of the matcher and the body
fn macro_def(m: &ItemMacro) -> Option<Mac> {
    let name = m.ident.as_ref()?.to_string();
    let tts: Vec<TokenTree> = m.mac.tokens.clone().into_iter().collect();
    let matcher = tts.iter().find_map(|t| match t {
        TokenTree::Group(g) if g.delimiter() == Delimiter::Parenthesis => Some(g.stream()),
        _ => None,
    })?;
    let body = tts.iter().rev().find_map(|t| match t {
        TokenTree::Group(g) if g.delimiter() == Delimiter::Brace => Some(g.stream()),
        _ => None,
    })?;
    let mut params = vec![];
    let mt: Vec<TokenTree> = matcher.into_iter().collect();
    for i in 0..mt.len() {
        if let (TokenTree::Punct(p), Some(TokenTree::Ident(id))) = (&mt[i], mt.get(i + 1)) {
            if p.as_char() == '$' {
                params.push(id.to_string());
            }
        }
    }
    Some(Mac { name, params, body })
}

fn split_args(ts: TokenStream) -> Vec<TokenStream> {
    let mut out = vec![];
    let mut cur: Vec<TokenTree> = vec![];
    for t in ts {
        match &t {
            TokenTree::Punct(p) if p.as_char() == ',' => {
                out.push(cur.drain(..).collect());
            }
            _ => cur.push(t),
        }
    }
    if !cur.is_empty() {
        out.push(cur.into_iter().collect());
    }
    out
}

fn walk(file: &str, ctx: &str, items: &[Item], macs: &[Mac], inv: &mut Inv, depth: usize) {
    for it in items {
        match it {
            Item::Mod(m) => {
                if let (false, Some((_, l))) = (is_test(&m.attrs), &m.content) {
                    walk(file, ctx, l, macs, inv, depth);
                }
            }
            Item::Trait(t) if !is_test(&t.attrs) => {
                let ms: Vec<String> = t.items.iter().filter_map(|ti| if let TraitItem::Fn(f) = ti { Some(js(&f.sig.ident.to_string())) } else { None }).collect();
                inv.traits.push(format!("{{\"file\": {}, \"trait\": {}, \"methods\": [{}]}}", js(file), js(&t.ident.to_string()), ms.join(", ")));
            }
            Item::Impl(i) if !is_test(&i.attrs) => {
                let ty = ty_name(&i.self_ty);
                let line = i.impl_token.span.start().line;
                let fns: Vec<&ImplItemFn> = i.items.iter().filter_map(|ii| if let ImplItem::Fn(f) = ii { if is_test(&f.attrs) { None } else { Some(f) } } else { None }).collect();
                match &i.trait_ {
                    None => {
                        for f in fns {
                            inv.inherent.push(format!("{{\"file\": {}, \"line\": {}, \"type\": {}, \"fn\": {}, \"ctx\": {}}}",
                                js(file), f.sig.ident.span().start().line, js(&ty), js(&f.sig.ident.to_string()), js(ctx)));
                        }
                    }
                    Some((_, p, _)) => {
                        let tr_full = p.to_token_stream().to_string();
                        let tr = p.segments.last().map(|s| s.ident.to_string()).unwrap_or_default();
                        // a blanket impl: the self type is a generic parameter of the impl; its trait bounds
                        let mut bounds: Vec<String> = vec![];
                        let mut blanket = false;
                        for gp in &i.generics.params {
                            if let GenericParam::Type(tp) = gp {
                                if tp.ident == ty.as_str() {
                                    blanket = true;
                                    for b in &tp.bounds {
                                        if let TypeParamBound::Trait(tb) = b {
                                            if let Some(s) = tb.path.segments.last() {
                                                bounds.push(js(&s.ident.to_string()));
                                            }
                                        }
                                    }
                                }
                            }
                        }
                        let ms: Vec<String> = fns.iter().map(|f| js(&f.sig.ident.to_string())).collect();
                        inv.impls.push(format!("{{\"file\": {}, \"line\": {}, \"trait\": {}, \"trait_full\": {}, \"type\": {}, \"methods\": [{}], \"blanket\": {}, \"bounds\": [{}], \"ctx\": {}}}",
                            js(file), line, js(&tr), js(&tr_full), js(&ty), ms.join(", "), blanket, bounds.join(", "), js(ctx)));
                    }
                }
            }
            // an invocation of a macro_rules! of the crate: its body with the arguments substituted
            Item::Macro(m) if m.ident.is_none() && depth < 3 => {
                if is_test(&m.attrs) {
                    continue;
                }
                let name = m.mac.path.segments.last().map(|s| s.ident.to_string()).unwrap_or_default();
                if let Some(md) = macs.iter().find(|x| x.name == name) {
                    let args = split_args(m.mac.tokens.clone());
                    if args.len() == md.params.len() {
                        let map: Vec<(String, TokenStream)> = md.params.iter().cloned().zip(args.into_iter()).collect();
                        if let Ok(f) = syn::parse2::<File>(subst(md.body.clone(), &map)) {
                            let c = format!("{}!({})", name, m.mac.tokens.to_string());
                            walk(file, &c, &f.items, macs, inv, depth + 1);
                        }
                    }
                }
            }
            _ => {}
        }
    }
}

fn files_of(dir: &std::path::Path, out: &mut Vec<std::path::PathBuf>) {
    if let Ok(rd) = std::fs::read_dir(dir) {
        let mut es: Vec<_> = rd.filter_map(|e| e.ok()).map(|e| e.path()).collect();
        es.sort();
        for p in es {
            if p.is_dir() {
                files_of(&p, out);
            } else if p.extension().map(|e| e == "rs").unwrap_or(false) {
                out.push(p);
            }
        }
    }
}

pub fn inventory(repo: &str) -> String {
    let mut files = vec![];
    files_of(&std::path::Path::new(repo).join("src"), &mut files);
    let mut parsed: Vec<(String, File)> = vec![];
    for p in files {
        let rel = p.strip_prefix(repo).map(|x| x.to_string_lossy().trim_start_matches('/').to_string()).unwrap_or_default();
        if rel == "src/verif.rs" {
            continue;
        }
        if let Ok(f) = std::fs::read_to_string(&p).map_err(|e| e.to_string()).and_then(|s| syn::parse_file(&s).map_err(|e| e.to_string())) {
            parsed.push((rel, f));
        }
    }
    // the macro_rules! definitions of the crate (top level and inside non-test modules)
    fn defs(items: &[Item], out: &mut Vec<Mac>) {
        for it in items {
            match it {
                Item::Mod(m) => {
                    if let (false, Some((_, l))) = (is_test(&m.attrs), &m.content) {
                        defs(l, out);
                    }
                }
                Item::Macro(m) if m.ident.is_some() => {
                    if let Some(d) = macro_def(m) {
                        out.push(d);
                    }
                }
                _ => {}
            }
        }
    }
    let mut macs = vec![];
    for (_, f) in &parsed {
        defs(&f.items, &mut macs);
    }
    let mut inv = Inv::default();
    for (rel, f) in &parsed {
        walk(rel, "", &f.items, &macs, &mut inv, 0);
    }
    format!("{{\"inherent\": [\n{}\n],\n\"impls\": [\n{}\n],\n\"traits\": [\n{}\n]}}\n", inv.inherent.join(",\n"), inv.impls.join(",\n"), inv.traits.join(",\n"))
}
