//! The translator proper: one loop-free Rust function -> one Gallina definition.
//!
//! Everything is done by ONE continuation-passing pass (`expr`/`stmts` take the continuation `k`
//! that builds "the rest of the function" around the value of the current expression):
//!   * operations that can panic (`+ - * / %`, `assert!`, `unwrap`, calls of monadic kernels)
//!     emit `let* t := <op> m <line> .. in <rest>`; everything else is an ordinary term;
//!   * `if`/`match` whose branches are plain terms stay expressions, otherwise the rest of the
//!     function is duplicated into the branches (kernels are tiny), which is also how early
//!     `return` and `?` are handled;
//!   * a function without any panicking operation is emitted as a pure definition (no `m`,
//!     no `Val`), so a source edit that adds/removes one changes the TYPE of the definition.
//! Anything outside the supported subset is an `Err(Unsupported)` for that kernel only.
use crate::specs::{Spec, Ty};
use quote::ToTokens;
use std::cell::RefCell;
use std::collections::BTreeMap;
use syn::spanned::Spanned;
use syn::*;

#[derive(Debug, Clone)]
pub enum TErr {
    NeedMonad,
    Unsupported(String),
}
pub type R = std::result::Result<String, TErr>;
type K<'a> = &'a dyn Fn(&mut Ctx, Tm) -> R;

fn unsup<T>(what: &str, sp: proc_macro2::Span) -> std::result::Result<T, TErr> {
    Err(TErr::Unsupported(format!("line {}: {}", sp.start().line, what)))
}

#[derive(Debug, Clone)]
pub struct Tm {
    pub s: String,
    pub ty: Ty,
    pub atomic: bool,
}
impl Tm {
    fn atom(s: impl Into<String>, ty: Ty) -> Tm {
        Tm { s: s.into(), ty, atomic: true }
    }
    fn app(s: impl Into<String>, ty: Ty) -> Tm {
        Tm { s: format!("({})", s.into()), ty, atomic: false }
    }
    fn unit() -> Tm {
        Tm::atom("tt", Ty::Unit)
    }
}

/// What an already translated kernel looks like to its callers.
#[derive(Debug, Clone)]
pub struct Sig {
    pub module: String,       // Gen module it lives in
    pub coq: String,          // possibly module-qualified name
    pub monadic: bool,
    pub extra: Vec<String>,   // names of its extra (self/opaque) parameters, in order
    pub nparams: usize,       // number of translated Rust parameters
    pub ret: Ty,
}

const HOLE: &str = "\u{1}HOLE\u{1}";

thread_local! {
    /// inside a `rewrite` replacement (parsed from a string, so without source positions) panic
    /// sites carry the line of the replaced expression
    static LINE_OVERRIDE: std::cell::Cell<Option<usize>> = std::cell::Cell::new(None);
}
fn line_of(sp: proc_macro2::Span) -> usize {
    LINE_OVERRIDE.with(|l| l.get()).unwrap_or(sp.start().line)
}

pub fn norm(e: &impl ToTokens) -> String {
    e.to_token_stream().to_string()
}

/// token string with the parameters of the closures in it renamed positionally (`| x | x . f ()` and
/// `| r | r . f ()` compare equal): the table's patterns and the source are both normalised before they are compared
pub fn alpha(s: &str) -> String {
    if !s.contains('|') {
        return s.to_string();
    }
    let toks: Vec<&str> = s.split(' ').collect();
    let mut params: Vec<&str> = vec![];
    let mut i = 0;
    while i < toks.len() {
        if toks[i] == "|" {
            // a parameter list: identifiers, `_`, `&`, `mut`, `,` up to the next `|`
            let mut j = i + 1;
            let mut ids = vec![];
            let mut ok = true;
            while j < toks.len() && toks[j] != "|" {
                let t = toks[j];
                if t == "," || t == "&" || t == "mut" || t == "_" || t == "(" || t == ")" {
                } else if t.chars().all(|c| c.is_alphanumeric() || c == '_') && !t.chars().next().map(|c| c.is_ascii_digit()).unwrap_or(true) {
                    ids.push(t);
                } else {
                    ok = false;
                    break;
                }
                j += 1;
            }
            if ok && j < toks.len() {
                for id in ids {
                    if !params.contains(&id) {
                        params.push(id);
                    }
                }
                i = j + 1;
                continue;
            }
        }
        i += 1;
    }
    if params.is_empty() {
        return s.to_string();
    }
    toks.iter().map(|t| match params.iter().position(|p| p == t) {
        Some(k) => format!("_c{}", k),
        None => t.to_string(),
    }).collect::<Vec<_>>().join(" ")
}

pub struct Ctx<'a> {
    pub spec: &'a Spec,
    pub sigs: &'a BTreeMap<String, Sig>, // key: "<group>::<rust fn name>"
    pub monadic: bool,
    env: Vec<(String, Tm)>,
    names: BTreeMap<String, usize>,
    ret: Ty,
    wrap: bool,
    /// number of assignments translated so far (a branch that assigns is not a plain term)
    assigns: usize,
    /// actual identifier -> canonical identifier, applied before matching the table's token strings
    rename: Vec<(String, String)>,
    /// actual names of the `state` places, in table order
    state_keys: Vec<String>,
    /// boolean conditions a just translated pattern needs in addition to the Coq pattern (error variants
    /// are matched by name: `RErr (E s [x])` + `str_eqb s "IOError"`)
    pat_guards: Vec<String>,
    /// names of the top-level `let mut`s of the translated statements, in order (`#i` in `locals`)
    mut_lets: Vec<String>,
    /// the items of the file: private helpers are inlined from here
    items: &'a [Item],
    /// inlined helper calls in progress
    frames: Vec<Frame>,
    inlining: Vec<String>,
}

pub struct Out {
    pub def: String,
    pub sig: Sig,
    pub aux: Vec<String>,
}

/// What the translation of one kernel may look at besides the function itself
pub struct Info<'a> {
    /// the items of the file (private helper functions are inlined from here)
    pub items: &'a [Item],
    /// (actual name, table name) of private functions that were found through their call sites
    pub fn_renames: &'a [(String, String)],
    /// for a closure kernel: the enclosing function
    pub outer: Option<&'a (Signature, Block)>,
}

/// one inlined call of a private helper: where its `return` / `?` / value goes
struct Frame {
    k: &'static dyn Fn(&mut Ctx, Tm) -> R,
    caller_env: Vec<(String, Tm)>,
    caller_ret: Ty,
    name: String,
}

pub fn translate(spec: &Spec, f_sig: &Signature, body: &Block, sigs: &BTreeMap<String, Sig>, info: &Info) -> std::result::Result<Out, TErr> {
    // "locals" kernels always yield an option: None = the function returned before the locals existed
    let wrap = spec.locals.is_some();
    for monadic in [false, true] {
        if spec.force_monadic && !monadic {
            continue;
        }
        match translate_mode(spec, f_sig, body, sigs, monadic, wrap, info) {
            Err(TErr::NeedMonad) => continue,
            r => return r,
        }
    }
    Err(TErr::Unsupported("internal: no translation mode applies".into()))
}

fn top_lets(stmts: &[Stmt]) -> Vec<Option<String>> {
    stmts.iter().filter_map(|s| if let Stmt::Local(l) = s { Some(pat_ident(&l.pat)) } else { None }).collect()
}
fn param_names(sig: &Signature) -> Vec<Option<String>> {
    sig.inputs.iter().filter_map(|a| match a {
        FnArg::Typed(pt) => Some(pat_ident(&pt.pat)),
        FnArg::Receiver(_) => None,
    }).collect()
}
/// name bound by the `let` whose initialiser is the i-th closure (source order) of the body
fn closure_let_name(body: &Block, i: usize) -> Option<String> {
    let mut cls: Vec<((usize, usize), String)> = vec![];
    for st in &body.stmts {
        if let Stmt::Local(l) = st {
            if let (Some(n), Some(init)) = (pat_ident(&l.pat), &l.init) {
                if let Expr::Closure(c) = &*init.expr {
                    let p = c.or1_token.span.start();
                    cls.push(((p.line, p.column), n));
                }
            }
        }
    }
    // position among ALL closures of the body
    use syn::visit::Visit;
    struct V(Vec<(usize, usize)>);
    impl<'ast> Visit<'ast> for V {
        fn visit_expr_closure(&mut self, c: &'ast ExprClosure) {
            let p = c.or1_token.span.start();
            self.0.push((p.line, p.column));
            syn::visit::visit_expr_closure(self, c);
        }
    }
    let mut v = V(vec![]);
    v.visit_block(body);
    v.0.sort();
    let pos = v.0.get(i)?;
    cls.into_iter().find(|(p, _)| p == pos).map(|(_, n)| n)
}

fn translate_mode(spec: &Spec, f_sig: &Signature, body: &Block, sigs: &BTreeMap<String, Sig>, monadic: bool, wrap: bool, info: &Info) -> std::result::Result<Out, TErr> {
    let ret = match &f_sig.output {
        ReturnType::Default => Ty::Unit,
        ReturnType::Type(_, t) => spec.ty_of(t),
    };
    let mut c = Ctx { spec, sigs, monadic, env: vec![], names: BTreeMap::new(), ret: ret.clone(), wrap, assigns: 0, rename: vec![], state_keys: vec![], pat_guards: vec![], mut_lets: vec![],
                      items: info.items, frames: vec![], inlining: vec![] };
    // private functions found under another name
    for (a, t) in info.fn_renames {
        c.rename.push((a.clone(), t.clone()));
    }
    // names of the table that a refactoring may change: when the name does not occur where the table expects
    // it, the thing at the recorded POSITION gets the table's name
    {
        let (lets, params) = match info.outer {
            Some((osig, obody)) => (top_lets(&obody.stmts), param_names(osig)),
            None => (top_lets(&body.stmts), param_names(f_sig)),
        };
        let fbody: &Block = info.outer.map(|o| &o.1).unwrap_or(body);
        for (sel, tname) in &spec.positions {
            let known = lets.iter().chain(params.iter()).any(|n| n.as_deref() == Some(*tname));
            if known {
                continue;
            }
            let actual: Option<String> = if let Some(i) = sel.strip_prefix("let#") {
                i.parse::<usize>().ok().and_then(|i| lets.get(i).cloned().flatten())
            } else if let Some(i) = sel.strip_prefix("param#") {
                i.parse::<usize>().ok().and_then(|i| params.get(i).cloned().flatten())
            } else if let Some(i) = sel.strip_prefix("closure#") {
                i.parse::<usize>().ok().and_then(|i| closure_let_name(fbody, i))
            } else {
                None
            };
            if let Some(a) = actual {
                if a != *tname && !c.rename.iter().any(|(x, _)| *x == a) {
                    c.rename.push((a, tname.to_string()));
                }
            }
        }
    }
    let mut binders: Vec<String> = vec![];
    for tp in &spec.type_params {
        binders.push(format!("{{{} : Type}}", tp));
        c.names.insert(tp.to_string(), 1);
    }
    if !spec.type_params.contains(&"R") && spec.fns.iter().any(|f| f.coq_ty.ends_with("-> R")) {
        // the result type of an opaque callee is abstract
        binders.push("{R : Type}".into());
        c.names.insert("R".into(), 1);
    }
    if monadic {
        binders.push("(m : mode)".into());
        c.names.insert("m".into(), 1);
    }
    for (p, t) in spec.extra_params() {
        c.names.insert(p.clone(), 1);
        binders.push(format!("({} : {})", p, t));
    }
    let mut nparams = 0;
    let mut pidx = 0;
    for a in &f_sig.inputs {
        match a {
            FnArg::Receiver(_) => {}
            FnArg::Typed(pt) => {
                let name = match &*pt.pat {
                    Pat::Ident(pi) => pi.ident.to_string(),
                    _ => return unsup("parameter pattern", pt.span()),
                };
                if let Some(cn) = spec.canon_params.get(pidx) {
                    if *cn != name {
                        c.rename.push((name.clone(), cn.to_string()));
                    }
                }
                pidx += 1;
                let cname = c.canon(&name);
                if spec.drop_params.iter().any(|d| *d == cname) {
                    continue;
                }
                let ty = match spec.param_tys.iter().find(|(n, _)| *n == cname) {
                    Some((_, t)) => t.clone(),
                    None => spec.ty_of(&pt.ty),
                };
                let cty = match coq_ty(&ty) {
                    Some(t) => t,
                    None => return unsup(&format!("type of parameter `{}`", name), pt.ty.span()),
                };
                let v = c.fresh(&format!("v_{}", name));
                binders.push(format!("({} : {})", v, cty));
                c.env.push((name, Tm::atom(v, ty)));
                nparams += 1;
            }
        }
    }
    // ---- which statements are translated
    let mut base_stmts: Vec<Stmt> = body.stmts.clone();
    let mut loop_cond: Option<Expr> = None;
    if let Some(li) = spec.loop_idx {
        // the body of the li-th loop; the identifiers of its header pattern get the table's names/types
        let mut loops: Vec<LoopInfo> = vec![];
        collect_loops(&body.stmts, &mut vec![], &mut loops);
        let LoopInfo { pat, body: blk, muts, cond, .. } = match loops.into_iter().nth(li) {
            Some(x) => x,
            None => return unsup(&format!("the function has no loop number {}", li), body.span()),
        };
        let mut ids = vec![];
        if let Some(p) = &pat {
            pat_idents(p, &mut ids);
        }
        if ids.len() != spec.vars.len() {
            return unsup(&format!("the loop header binds {} identifiers, the table names {}", ids.len(), spec.vars.len()), blk.span());
        }
        for (actual, (cn, ty)) in ids.iter().zip(spec.vars.iter()) {
            if actual != cn {
                c.rename.push((actual.clone(), cn.to_string()));
            }
            match ty {
                Ty::Unit => c.env.push((actual.clone(), Tm::atom("tt", Ty::Unit))),
                _ => {
                    let cty = coq_ty(ty).ok_or_else(|| TErr::Unsupported("type of a loop variable".into()))?;
                    let v = c.fresh(&format!("v_{}", cn));
                    binders.push(format!("({} : {})", v, cty));
                    c.env.push((actual.clone(), Tm::atom(v, ty.clone())));
                }
            }
        }
        // `#i` state places: the i-th `let mut` before the loop
        for st in &spec.state {
            if let Some(i) = st.pat.strip_prefix('#') {
                let i: usize = i.parse().map_err(|_| TErr::Unsupported("bad #i state".into()))?;
                match muts.get(i) {
                    Some(actual) => {
                        if actual != st.param {
                            c.rename.push((actual.clone(), st.param.to_string()));
                        }
                        c.state_keys.push(actual.clone());
                        c.env.push((actual.clone(), Tm::atom(st.param, st.ty.clone())));
                    }
                    None => return unsup(&format!("no `let mut` number {} before the loop", i), blk.span()),
                }
            }
        }
        base_stmts = blk.stmts.clone();
        if spec.loop_cond {
            match cond {
                Some(ce) => loop_cond = Some(ce),
                None => return unsup("loop_cond: the loop is not a `while <condition>` loop", blk.span()),
            }
        }
    }
    if let Some(li) = spec.after_loop {
        // the top-level statements following the li-th loop; `#i` state = the i-th `let mut` before it
        let mut loops: Vec<LoopInfo> = vec![];
        collect_loops(&body.stmts, &mut vec![], &mut loops);
        let info = match loops.into_iter().nth(li) {
            Some(x) => x,
            None => return unsup(&format!("the function has no loop number {}", li), body.span()),
        };
        let at = body.stmts.iter().position(|s| {
            let (a, b) = (s.span().start(), s.span().end());
            (a.line, a.column) <= info.pos && info.pos < (b.line, b.column)
        });
        let at = match at {
            Some(i) => i,
            None => return unsup("after_loop: the loop is not inside a top-level statement", body.span()),
        };
        for st in &spec.state {
            if let Some(i) = st.pat.strip_prefix('#') {
                let i: usize = i.parse().map_err(|_| TErr::Unsupported("bad #i state".into()))?;
                match info.muts.get(i) {
                    Some(actual) => {
                        if actual != st.param {
                            c.rename.push((actual.clone(), st.param.to_string()));
                        }
                        c.state_keys.push(actual.clone());
                        c.env.push((actual.clone(), Tm::atom(st.param, st.ty.clone())));
                    }
                    None => return unsup(&format!("no `let mut` number {} before the loop", i), body.span()),
                }
            }
        }
        base_stmts = body.stmts[at + 1..].to_vec();
    }
    for st in &spec.state {
        if !st.pat.starts_with('#') {
            // a captured variable named by the table: its actual name (positions / renames)
            let key = c.rename.iter().find(|(_, t)| *t == st.pat).map(|(a, _)| a.clone()).unwrap_or(st.pat.to_string());
            c.state_keys.push(key.clone());
            c.env.push((key, Tm::atom(st.param, st.ty.clone())));
        }
    }
    if spec.locals.is_some() || spec.until.is_some() {
        // a trailing `unsafe { .. }` block is part of the statement list
        if let Some(Stmt::Expr(Expr::Unsafe(u), _)) = base_stmts.last().cloned() {
            base_stmts.pop();
            base_stmts.extend(u.block.stmts.iter().cloned());
        }
    }
    if let Some(fr) = spec.from {
        let starts = |c: &Ctx, s: &Stmt| -> bool {
            if c.nk(s).starts_with(fr) {
                return true;
            }
            if let Stmt::Local(l) = s {
                if let Some(init) = &l.init {
                    return c.nk(&*init.expr).starts_with(fr);
                }
            }
            false
        };
        match base_stmts.iter().position(|s| starts(&c, s)) {
            Some(i) => base_stmts = base_stmts[i..].to_vec(),
            None => return unsup(&format!("no top-level statement starting with `{}`", fr), body.span()),
        }
    }
    if let Some(u) = spec.until {
        let starts = |c: &Ctx, s: &Stmt| -> bool {
            if c.nk(s).starts_with(u) {
                return true;
            }
            // `let x = <the statement>..;` / `let _ = ..?;`
            if let Stmt::Local(l) = s {
                if let Some(init) = &l.init {
                    return c.nk(&*init.expr).starts_with(u);
                }
            }
            false
        };
        match base_stmts.iter().position(|s| starts(&c, s)) {
            Some(i) => base_stmts.truncate(i),
            None => return unsup(&format!("no top-level statement starting with `{}`", u), body.span()),
        }
    }
    let stmts: Vec<Stmt> = match &spec.locals {
        None => base_stmts,
        Some(ls) if ls.is_empty() || spec.until.is_some() => base_stmts,
        Some(ls) => {
            // keep the shortest prefix of the body in which every requested local has been `let`-bound
            let mut last = None;
            let mut seen: Vec<String> = vec![];
            for (i, s) in base_stmts.iter().enumerate() {
                if let Stmt::Local(l) = s {
                    if let Some(n) = pat_ident(&l.pat).map(|n| c.canon(&n)) {
                        if ls.iter().any(|x| *x == n) && !seen.contains(&n) {
                            seen.push(n);
                            if seen.len() == ls.len() {
                                last = Some(i);
                                break;
                            }
                        }
                    }
                }
            }
            match last {
                Some(i) => base_stmts[..=i].to_vec(),
                None => return unsup("requested locals are not bound by top-level `let`s", body.span()),
            }
        }
    };
    for st in &stmts {
        if let Stmt::Local(l) = st {
            let mut p = &l.pat;
            if let Pat::Type(pt) = p {
                p = &pt.pat;
            }
            if let Pat::Ident(pi) = p {
                if pi.mutability.is_some() {
                    c.mut_lets.push(pi.ident.to_string());
                }
            }
        }
    }
    let fin: &dyn Fn(&mut Ctx, Tm) -> R = &|c, tm| {
        if c.spec.step.is_some() && c.spec.after_loop.is_some() {
            // the statements after a loop end the function: its value
            return c.finish(tm);
        }
        if c.spec.step.is_some() {
            return c.step_value("KNext");
        }
        if let Some(ls) = &c.spec.locals {
            let mut parts = vec![];
            for l in ls {
                let actual = c.rename.iter().find(|(_, cn)| cn == l).map(|(a, _)| a.clone()).unwrap_or(l.to_string());
                match c.lookup(&actual) {
                    Some(t) => parts.push(t.s),
                    None => return Err(TErr::Unsupported(format!("local `{}` not in scope at the end", l))),
                }
            }
            let tup = if parts.len() == 1 { parts[0].clone() } else { format!("({})", parts.join(", ")) };
            let v = if c.wrap { format!("(Some {})", tup) } else { tup };
            return Ok(if c.monadic { format!("Val {}", v) } else { v });
        }
        c.finish(tm)
    };
    let term = if let Some(ce) = &loop_cond {
        // `while cond { body }`: one step = `if cond then body else KBreak state`
        c.expr(ce, &|c, cond| {
            if cond.ty != Ty::Bool {
                return unsup("loop condition is not a bool", ce.span());
            }
            let body = c.branch(|c| c.stmts_open(&stmts, fin))?;
            let brk = c.step_value("KBreak")?;
            Ok(format!("if {} then\n{}\nelse\n{}", cond.s, body, brk))
        })?
    } else if spec.locals.is_some() || spec.step.is_some() {
        // the truncated list ends with a `let`: the continuation sees the bound locals
        c.stmts_open(&stmts, fin)?
    } else {
        c.stmts(&stmts, fin)?
    };
    let annot = match spec.step {
        Some((st, rt)) => {
            let k = format!("kstep ({}) ({})", st, rt);
            let k = if spec.effects.is_empty() { k } else { format!("(list call * {})%type", k) };
            if monadic { format!(" : outcome ({})", k) } else { format!(" : {}", k) }
        }
        None => match spec.annot {
            Some(a) if monadic => format!(" : outcome ({})", a),
            Some(a) => format!(" : {}", a),
            None => String::new(),
        },
    };
    let def = format!("Definition {} {}{} :=\n{}.", spec.name, binders.join(" "), annot, term);
    let sig = Sig {
        module: spec.module.to_string(),
        coq: spec.name.to_string(),
        monadic,
        extra: spec.extra_params().into_iter().map(|(p, _)| p).collect(),
        nparams,
        ret,
    };
    Ok(Out { def, sig, aux: vec![] })
}

/// a loop of a function body: header pattern, body, names of the top-level `let mut`s before it, the
/// condition of a `while <cond>` loop, position of the loop keyword
pub struct LoopInfo {
    pat: Option<Pat>,
    body: Block,
    muts: Vec<String>,
    cond: Option<Expr>,
    pos: (usize, usize),
}
/// loops of a function body in source order
fn collect_loops(stmts: &[Stmt], _muts: &mut Vec<String>, out: &mut Vec<LoopInfo>) {
    use syn::visit::Visit;
    struct V {
        found: Vec<((usize, usize), Option<Pat>, Block, Option<Expr>)>,
    }
    impl<'ast> Visit<'ast> for V {
        fn visit_expr_for_loop(&mut self, l: &'ast ExprForLoop) {
            let p = l.for_token.span.start();
            self.found.push(((p.line, p.column), Some((*l.pat).clone()), l.body.clone(), None));
            syn::visit::visit_expr_for_loop(self, l);
        }
        fn visit_expr_while(&mut self, l: &'ast ExprWhile) {
            let p = l.while_token.span.start();
            let (pat, cond) = match &*l.cond {
                Expr::Let(el) => (Some((*el.pat).clone()), None),
                ce => (None, Some(ce.clone())),
            };
            self.found.push(((p.line, p.column), pat, l.body.clone(), cond));
            syn::visit::visit_expr_while(self, l);
        }
        fn visit_expr_loop(&mut self, l: &'ast ExprLoop) {
            let p = l.loop_token.span.start();
            self.found.push(((p.line, p.column), None, l.body.clone(), None));
            syn::visit::visit_expr_loop(self, l);
        }
    }
    let mut v = V { found: vec![] };
    let mut muts: Vec<((usize, usize), String)> = vec![];
    for s in stmts {
        if let Stmt::Local(l) = s {
            let mut p = &l.pat;
            if let Pat::Type(pt) = p {
                p = &pt.pat;
            }
            if let Pat::Ident(pi) = p {
                if pi.mutability.is_some() {
                    let sp = pi.ident.span().start();
                    muts.push(((sp.line, sp.column), pi.ident.to_string()));
                }
            }
        }
        v.visit_stmt(s);
    }
    v.found.sort_by_key(|f| f.0);
    for (pos, pat, blk, cond) in v.found {
        out.push(LoopInfo { pat, body: blk, muts: muts.iter().filter(|(q, _)| *q < pos).map(|(_, n)| n.clone()).collect(), cond, pos });
    }
}

/// identifiers bound by a pattern, left to right (constructor names excluded)
fn pat_idents(p: &Pat, out: &mut Vec<String>) {
    match p {
        Pat::Ident(pi) => {
            let n = pi.ident.to_string();
            if n != "None" {
                out.push(n);
            }
        }
        Pat::Type(pt) => pat_idents(&pt.pat, out),
        Pat::Paren(pp) => pat_idents(&pp.pat, out),
        Pat::Reference(r) => pat_idents(&r.pat, out),
        Pat::Tuple(t) => t.elems.iter().for_each(|e| pat_idents(e, out)),
        Pat::TupleStruct(t) => t.elems.iter().for_each(|e| pat_idents(e, out)),
        _ => {}
    }
}

fn rename_tokens(ts: proc_macro2::TokenStream, map: &[(String, String)]) -> proc_macro2::TokenStream {
    use proc_macro2::TokenTree;
    ts.into_iter()
        .map(|t| match t {
            TokenTree::Ident(id) => {
                let n = id.to_string();
                match map.iter().find(|(a, _)| *a == n) {
                    Some((_, c)) => TokenTree::Ident(proc_macro2::Ident::new(c, id.span())),
                    None => TokenTree::Ident(id),
                }
            }
            TokenTree::Group(g) => {
                let mut ng = proc_macro2::Group::new(g.delimiter(), rename_tokens(g.stream(), map));
                ng.set_span(g.span());
                TokenTree::Group(ng)
            }
            t => t,
        })
        .collect()
}

fn pat_ident(p: &Pat) -> Option<String> {
    match p {
        Pat::Ident(pi) => Some(pi.ident.to_string()),
        Pat::Type(pt) => pat_ident(&pt.pat),
        _ => None,
    }
}

pub fn coq_ty(t: &Ty) -> Option<String> {
    Some(match t {
        Ty::Int(_) | Ty::NonZero | Ty::Addr | Ty::ISize | Ty::Ptr | Ty::Slice | Ty::TPtr(_) | Ty::IdxRef => "N".into(),
        Ty::Abs(n) => n.to_string(),
        Ty::Either(a, b) => format!("({} + {})%type", coq_ty(a)?, coq_ty(b)?),
        Ty::Bool => "bool".into(),
        Ty::Unit => "unit".into(),
        Ty::Opt(a) => format!("(option {})", coq_ty(a)?),
        Ty::Res(a) => format!("(rres {})", coq_ty(a)?),
        Ty::Tup(v) => {
            let mut p = vec![];
            for x in v {
                p.push(coq_ty(x)?);
            }
            format!("({})%type", p.join(" * "))
        }
        Ty::Unknown => return None,
    })
}

fn is_int(t: &Ty) -> bool {
    matches!(t, Ty::Int(_) | Ty::NonZero | Ty::Addr | Ty::ISize)
}
fn is_w64(t: &Ty) -> bool {
    matches!(t, Ty::Int(64) | Ty::Addr)
}

impl<'a> Ctx<'a> {
    fn fresh(&mut self, base: &str) -> String {
        let n = self.names.entry(base.to_string()).or_insert(0);
        *n += 1;
        if *n == 1 {
            base.to_string()
        } else {
            format!("{}_{}", base, *n - 1)
        }
    }
    /// canonical name of an identifier of the source
    fn canon(&self, name: &str) -> String {
        match self.rename.iter().find(|(a, _)| a == name) {
            Some((_, c)) => c.clone(),
            None => name.to_string(),
        }
    }
    /// token string of a piece of syntax with the canonical names substituted: what the table's
    /// patterns (`extra`, `skip`, `rewrite`, ...) are compared with
    fn nk(&self, e: &impl ToTokens) -> String {
        if self.rename.is_empty() {
            alpha(&norm(e))
        } else {
            alpha(&rename_tokens(e.to_token_stream(), &self.rename).to_string())
        }
    }
    /// Step mode: `<ctor> (state values, locals)`; the locals must be in scope
    fn step_value(&mut self, ctor: &str) -> R {
        let mut parts = vec![];
        for k in self.state_keys.clone() {
            match self.lookup(&k) {
                Some(t) => parts.push(t.s),
                None => return Err(TErr::Unsupported(format!("state `{}` not in scope", k))),
            }
        }
        if let Some(ls) = &self.spec.locals {
            for l in ls {
                let actual = match l.strip_prefix('#').and_then(|i| i.parse::<usize>().ok()) {
                    // `#i`: the i-th top-level `let mut` of the translated statements
                    Some(i) => match self.mut_lets.get(i) {
                        Some(n) => n.clone(),
                        None => return Err(TErr::Unsupported(format!("no `let mut` number {} in the translated statements", i))),
                    },
                    None => self.rename.iter().find(|(_, c)| c == l).map(|(a, _)| a.clone()).unwrap_or(l.to_string()),
                };
                match self.lookup(&actual) {
                    Some(t) => parts.push(t.s),
                    None => return Err(TErr::Unsupported(format!("local `{}` not in scope at `{}`", l, ctor))),
                }
            }
        }
        let tup = match parts.len() {
            0 => "tt".to_string(),
            1 => parts[0].clone(),
            _ => format!("({})", parts.join(", ")),
        };
        let v = format!("{} {}", ctor, tup);
        Ok(self.wrap_result(v))
    }
    fn step_return(&mut self, tm: Tm) -> R {
        let v = format!("KReturn {}", tm.s);
        Ok(self.wrap_result(v))
    }
    /// final value of a kernel: paired with the empty call list in an effect kernel, `Val` in the monad
    fn wrap_result(&self, v: String) -> String {
        let v = if self.spec.effects.is_empty() { v } else { format!("([], {})", v) };
        if self.monadic { format!("Val ({})", v) } else { format!("({})", v) }
    }
    /// assignment `place = tm`: the latest binding of the place is replaced
    fn assign(&mut self, key: &str, tm: Tm, sp: proc_macro2::Span, cont: &dyn Fn(&mut Ctx) -> R) -> R {
        let idx = match self.env.iter().rposition(|(n, _)| n == key) {
            Some(i) => i,
            None => return unsup(&format!("assignment to `{}` (not a local / declared state)", key), sp),
        };
        self.assigns += 1;
        // NORMAL FORM: as for `let`, the (pure) assigned term is substituted
        self.env[idx].1 = tm;
        cont(self)
    }
    /// runs `f` and restores the variable bindings afterwards (sibling branches start from the same state)
    fn branch<T>(&mut self, f: impl FnOnce(&mut Ctx<'a>) -> T) -> T {
        let save = self.env.clone();
        let r = f(self);
        self.env = save;
        r
    }
    fn lookup(&self, name: &str) -> Option<Tm> {
        self.env.iter().rev().find(|(n, _)| n == name).map(|(_, t)| t.clone())
    }

    /// value of the function (tail expression or `return e`)
    fn finish(&mut self, tm: Tm) -> R {
        if let Some(fr) = self.frames.pop() {
            // the value / `return` / `?` of an inlined private helper goes to the rest of its caller
            let callee_env = std::mem::replace(&mut self.env, fr.caller_env.clone());
            let callee_ret = std::mem::replace(&mut self.ret, fr.caller_ret.clone());
            let pos = self.inlining.iter().rposition(|n| *n == fr.name);
            if let Some(i) = pos {
                self.inlining.remove(i);
            }
            let r = (fr.k)(self, tm);
            if let Some(i) = pos {
                self.inlining.insert(i.min(self.inlining.len()), fr.name.clone());
            }
            self.env = callee_env;
            self.ret = callee_ret;
            self.frames.push(fr);
            return r;
        }
        if self.spec.step.is_some() {
            return self.step_return(tm);
        }
        if self.spec.locals.is_some() {
            // `return ..;` before the requested locals exist
            return Ok(if self.monadic { "Val None".into() } else { "None".into() });
        }
        if !self.spec.effects.is_empty() && !self.spec.effects_ret {
            return Ok(if self.monadic { "Val (@nil call)".into() } else { "(@nil call)".into() });
        }
        let mut v = match self.spec.ret_wrap {
            // a plain integer the function returns next to results of opaque calls of abstract type R
            Some(w) if is_int(&tm.ty) => format!("({} {})", w, tm.s),
            _ => tm.s,
        };
        // a function that assigns to declared state places / whose locals are requested:
        // (value, final state.., locals..)
        if !self.state_keys.is_empty() || !self.spec.with_locals.is_empty() {
            let mut parts = vec![v];
            for k in self.state_keys.clone() {
                match self.lookup(&k) {
                    Some(t) => parts.push(t.s),
                    None => return Err(TErr::Unsupported(format!("state `{}` not in scope", k))),
                }
            }
            for l in &self.spec.with_locals {
                let actual = self.rename.iter().find(|(_, c)| c == l).map(|(a, _)| a.clone()).unwrap_or(l.to_string());
                match self.lookup(&actual) {
                    Some(t) => parts.push(t.s),
                    None => return Err(TErr::Unsupported(format!("local `{}` not in scope where the function returns", l))),
                }
            }
            v = format!("({})", parts.join(", "));
        }
        if self.spec.effects_ret {
            v = format!("(@nil call, {})", v);
        }
        Ok(if self.monadic { format!("Val {}", v) } else { v })
    }

    /// Runs `f` with a continuation that only records its argument.  Some(tm) iff `f` produced
    /// no binding / branching of its own, i.e. the translated thing is the plain term `tm`.
    fn probe(&mut self, f: &dyn Fn(&mut Ctx, K) -> R) -> std::result::Result<Option<Tm>, TErr> {
        let cell: RefCell<Option<Tm>> = RefCell::new(None);
        let names = self.names.clone();
        let env = self.env.clone();
        let assigns = self.assigns;
        let r = f(self, &|_c, tm| {
            *cell.borrow_mut() = Some(tm);
            Ok(HOLE.to_string())
        });
        self.env = env;
        let r = r?;
        if r == HOLE && self.assigns == assigns {
            Ok(cell.into_inner())
        } else {
            self.assigns = assigns;
            self.names = names;
            Ok(None)
        }
    }

    // ------------------------------------------------------------------ statements
    fn block(&mut self, b: &Block, k: K) -> R {
        let save = self.env.len();
        let r = self.stmts(&b.stmts, &|c, tm| {
            let inner = c.env.split_off(save.min(c.env.len()));
            let r = k(c, tm);
            c.env.truncate(save);
            c.env.extend(inner);
            r
        });
        self.env.truncate(save);
        r
    }

    /// like `stmts`, but the continuation runs inside the scope of the statements' `let`s
    fn stmts_open(&mut self, list: &[Stmt], k: K) -> R {
        self.stmts(list, k)
    }

    fn stmts(&mut self, list: &[Stmt], k: K) -> R {
        let (s, rest) = match list.split_first() {
            None => return k(self, Tm::unit()),
            Some(x) => x,
        };
        match s {
            Stmt::Local(l) if l.attrs.iter().any(|a| a.path().is_ident("cfg") && a.to_token_stream().to_string().contains("windows")) => self.stmts(rest, k),
            Stmt::Local(l) => {
                let init = match &l.init {
                    Some(i) if i.diverge.is_none() => &i.expr,
                    _ => return unsup("`let` without initialiser / with `else`", l.span()),
                };
                let ik = self.nk(&**init);
                if self.spec.skip.iter().any(|p| alpha(p) == ik) {
                    return self.stmts(rest, k);
                }
                if let Some(bound) = pat_ident(&l.pat) {
                    let cn = self.canon(&bound);
                    // a local closure that the table declares as an opaque callee; a `let` dropped by name
                    let opaque_closure = matches!(&**init, Expr::Closure(_))
                        && (self.spec.effects.iter().any(|m| *m == cn) || self.spec.fns.iter().any(|f| f.method == cn));
                    if opaque_closure || self.spec.skip_lets.iter().any(|x| *x == cn) {
                        return self.stmts(rest, k);
                    }
                }
                if let Some((_, cn)) = self.spec.skip_as.iter().find(|(p, _)| alpha(p) == ik) {
                    if let Some(actual) = pat_ident(&l.pat) {
                        if actual != *cn {
                            self.rename.push((actual, cn.to_string()));
                        }
                    }
                    return self.stmts(rest, k);
                }
                let envlen = self.env.len();
                let r = self.expr(init, &|c, tm| c.bind_pat(&l.pat, tm, &|c| c.stmts(rest, k)));
                self.env.truncate(envlen.min(self.env.len()));
                r
            }
            Stmt::Expr(e, _) if is_verif_hook(e) => self.stmts(rest, k),
            Stmt::Expr(e, semi) => {
                let ek = self.nk(e);
                if self.spec.skip.iter().any(|p| alpha(p) == ek) {
                    return self.stmts(rest, k);
                }
                if self.spec.skip_loops && matches!(e, Expr::ForLoop(_) | Expr::While(_) | Expr::Loop(_)) {
                    return self.stmts(rest, k);
                }
                if rest.is_empty() && semi.is_none() {
                    self.expr(e, k)
                } else {
                    self.expr(e, &|c, _tm| c.stmts(rest, k))
                }
            }
            Stmt::Macro(m) => self.stmt_macro(&m.mac, &|c| c.stmts(rest, k)),
            Stmt::Item(i) => unsup("item inside a function body", i.span()),
        }
    }

    fn stmt_macro(&mut self, mac: &Macro, cont: &dyn Fn(&mut Ctx) -> R) -> R {
        let name = mac.path.segments.last().map(|s| s.ident.to_string()).unwrap_or_default();
        let line = line_of(mac.span());
        let args: Vec<Expr> = match mac.parse_body_with(punctuated::Punctuated::<Expr, Token![,]>::parse_terminated) {
            Ok(p) => p.into_iter().collect(),
            Err(_) => return unsup(&format!("arguments of {}!", name), mac.span()),
        };
        let base = name.trim_start_matches("debug_").to_string();
        let debug_only = name.starts_with("debug_");
        let cond: Expr = match (base.as_str(), args.len()) {
            ("assert", n) if n >= 1 => args[0].clone(),
            ("assert_eq", n) if n >= 2 => {
                let (a, b) = (&args[0], &args[1]);
                parse_quote!((#a) == (#b))
            }
            ("assert_ne", n) if n >= 2 => {
                let (a, b) = (&args[0], &args[1]);
                parse_quote!((#a) != (#b))
            }
            _ => return unsup(&format!("macro {}!", name), mac.span()),
        };
        if !self.monadic {
            return Err(TErr::NeedMonad);
        }
        let check = self.expr(&cond, &|_c, tm| Ok(format!("passert {} {}", line, tm.s)))?;
        let rest = cont(self)?;
        if debug_only {
            Ok(format!("let* _ := match m with Debug =>\n{}\n| Release => Val tt end in\n{}", check, rest))
        } else {
            Ok(format!("let* _ := {} in\n{}", check, rest))
        }
    }

    fn bind_pat(&mut self, p: &Pat, tm: Tm, cont: &dyn Fn(&mut Ctx) -> R) -> R {
        match p {
            Pat::Type(pt) => self.bind_pat(&pt.pat, tm, cont),
            Pat::Wild(_) => cont(self),
            Pat::Ident(pi) => {
                let name = pi.ident.to_string();
                // NORMAL FORM: a `let x = e` with a pure (non-panicking) e is substituted, so that a named
                // sub-expression and the inline expression generate the same term.  Panicking operations
                // have already been bound (`let* t := ..`) in evaluation order when e was translated.
                self.env.push((name, tm));
                cont(self)
            }
            Pat::Tuple(_) => {
                let (ps, binds) = self.pattern(p, &tm.ty)?;
                for b in binds {
                    self.env.push(b);
                }
                let rest = cont(self)?;
                Ok(format!("let '{} := {} in\n{}", ps, tm.s, rest))
            }
            _ => unsup("pattern in `let`", p.span()),
        }
    }

    /// Coq pattern for a Rust pattern matched against a value of type `ty`
    fn pattern(&mut self, p: &Pat, ty: &Ty) -> std::result::Result<(String, Vec<(String, Tm)>), TErr> {
        match p {
            Pat::Wild(_) => Ok(("_".into(), vec![])),
            Pat::Paren(pp) => self.pattern(&pp.pat, ty),
            Pat::Type(pt) => self.pattern(&pt.pat, ty),
            Pat::Ident(pi) => {
                let name = pi.ident.to_string();
                if name == "None" {
                    return Ok(("None".into(), vec![]));
                }
                let v = self.fresh(&format!("v_{}", name));
                Ok((v.clone(), vec![(name, Tm::atom(v, ty.clone()))]))
            }
            Pat::Path(pp) => {
                let last = pp.path.segments.last().unwrap().ident.to_string();
                if last == "None" {
                    Ok(("None".into(), vec![]))
                } else {
                    unsup("path pattern", p.span())
                }
            }
            Pat::Lit(l) => match &l.lit {
                Lit::Bool(b) => Ok((if b.value { "true".into() } else { "false".into() }, vec![])),
                Lit::Int(i) if is_int(ty) || *ty == Ty::Unknown => match i.base10_parse::<u64>() {
                    Ok(v) => Ok((format!("{}", v), vec![])),
                    Err(_) => unsup("integer literal pattern", p.span()),
                },
                _ => unsup("literal pattern (only bool / integer literals)", p.span()),
            },
            Pat::Tuple(pt) if pt.elems.is_empty() => Ok(("tt".into(), vec![])),
            Pat::Tuple(pt) => {
                let tys: Vec<Ty> = match ty {
                    Ty::Tup(v) if v.len() == pt.elems.len() => v.clone(),
                    _ => vec![Ty::Unknown; pt.elems.len()],
                };
                let mut ss = vec![];
                let mut bs = vec![];
                for (e, t) in pt.elems.iter().zip(tys.iter()) {
                    let (s, b) = self.pattern(e, t)?;
                    ss.push(s);
                    bs.extend(b);
                }
                Ok((format!("({})", ss.join(", ")), bs))
            }
            Pat::TupleStruct(ts) => {
                let last = ts.path.segments.last().unwrap().ident.to_string();
                let nseg = ts.path.segments.len();
                if nseg >= 2 && self.spec.err_enums.iter().any(|n| ts.path.segments[nseg - 2].ident == *n) {
                    // `Enum::Variant(p..)` of an error enum: E s [p..] with the variant compared by name
                    let sv = self.fresh("s");
                    let mut ss = vec![];
                    let mut bs = vec![];
                    for e in ts.elems.iter() {
                        let (s, b) = self.pattern(e, &Ty::Int(64))?;
                        ss.push(s);
                        bs.extend(b);
                    }
                    self.pat_guards.push(format!("str_eqb {} \"{}\"", sv, last));
                    return Ok((format!("(E {} [{}])", sv, ss.join("; ")), bs));
                }
                if ts.elems.len() != 1 {
                    return unsup("constructor pattern arity", p.span());
                }
                let (ctor, inner_ty) = match (last.as_str(), ty) {
                    ("Ok", Ty::Either(t, _)) => ("inl", (**t).clone()),
                    ("Err", Ty::Either(_, t)) => ("inr", (**t).clone()),
                    ("Some", Ty::Opt(t)) => ("Some", (**t).clone()),
                    ("Some", _) => ("Some", Ty::Unknown),
                    ("Ok", Ty::Res(t)) => ("ROk", (**t).clone()),
                    ("Ok", _) => ("ROk", Ty::Unknown),
                    ("Err", _) => ("RErr", Ty::Unknown),
                    _ => {
                        if self.spec.newtypes.iter().any(|n| *n == last) {
                            return self.pattern(&ts.elems[0], &Ty::Int(64));
                        }
                        return unsup("constructor pattern", p.span());
                    }
                };
                let (s, b) = self.pattern(&ts.elems[0], &inner_ty)?;
                Ok((format!("({} {})", ctor, s), b))
            }
            _ => unsup("pattern", p.span()),
        }
    }

    // ------------------------------------------------------------------ expressions
    pub fn expr(&mut self, e: &Expr, k: K) -> R {
        let key = self.nk(e);
        if let Some((_, to)) = self.spec.rewrite.iter().find(|(p, _)| alpha(p) == key) {
            let ne: Expr = match syn::parse_str(to) {
                Ok(x) => x,
                Err(_) => return unsup("rewrite target does not parse", e.span()),
            };
            // the replacement mentions canonical names: map them back to the names in scope
            let back: Vec<(String, String)> = self.rename.iter().map(|(a, c)| (c.clone(), a.clone())).collect();
            let ne: Expr = match syn::parse2(rename_tokens(ne.to_token_stream(), &back)) {
                Ok(x) => x,
                Err(_) => return unsup("rewrite target does not parse", e.span()),
            };
            let line = e.span().start().line;
            LINE_OVERRIDE.with(|l| l.set(Some(line)));
            let r = self.expr(&ne, k);
            LINE_OVERRIDE.with(|l| l.set(None));
            return r;
        }
        if let Some(x) = self.spec.extra.iter().find(|x| alpha(x.pat) == key) {
            return k(self, Tm::atom(x.param, x.ty.clone()));
        }
        if self.state_keys.iter().any(|p| *p == key) && !matches!(e, Expr::Path(_)) {
            if let Some(t) = self.lookup(&key) {
                return k(self, t);
            }
        }
        if let Some((_, v, ty)) = self.spec.consts.iter().find(|(p, _, _)| alpha(p) == key) {
            return k(self, Tm::atom(v.clone(), ty.clone()));
        }
        match e {
            Expr::Paren(p) => self.expr(&p.expr, k),
            Expr::Group(g) => self.expr(&g.expr, k),
            Expr::Reference(r) => self.expr(&r.expr, k),
            Expr::Unary(u) => match u.op {
                UnOp::Deref(_) => self.expr(&u.expr, k),
                UnOp::Not(_) => self.expr(&u.expr, &|c, t| match &t.ty {
                    Ty::Bool => k(c, Tm::app(format!("negb {}", t.s), Ty::Bool)),
                    ty if is_w64(ty) => k(c, Tm::app(format!("not64 {}", t.s), t.ty.clone())),
                    _ => unsup("`!` on a value that is neither bool nor a 64-bit integer", u.span()),
                }),
                _ => unsup("unary operator", u.span()),
            },
            Expr::Lit(l) => match &l.lit {
                Lit::Int(i) => match i.base10_parse::<u128>() {
                    Ok(v) => {
                        let w = match i.suffix() {
                            "u32" => 32,
                            "u16" => 16,
                            "u8" => 8,
                            _ => 64,
                        };
                        k(self, Tm::atom(format!("{}", v), Ty::Int(w)))
                    }
                    Err(_) => unsup("integer literal", l.span()),
                },
                Lit::Bool(b) => k(self, Tm::atom(if b.value { "true" } else { "false" }, Ty::Bool)),
                _ => unsup("literal", l.span()),
            },
            Expr::Path(p) => {
                if let Some(id) = p.path.get_ident() {
                    let name = id.to_string();
                    if let Some(t) = self.lookup(&name) {
                        return k(self, t);
                    }
                    if name == "None" {
                        return k(self, Tm::atom("None", Ty::Opt(Box::new(Ty::Unknown))));
                    }
                }
                unsup(&format!("name `{}`", key), p.span())
            }
            Expr::Tuple(t) => {
                if t.elems.is_empty() {
                    return k(self, Tm::unit());
                }
                let es: Vec<&Expr> = t.elems.iter().collect();
                self.exprs(&es, &|c, tms| {
                    let s = tms.iter().map(|t| t.s.clone()).collect::<Vec<_>>().join(", ");
                    k(c, Tm { s: format!("({})", s), ty: Ty::Tup(tms.iter().map(|t| t.ty.clone()).collect()), atomic: false })
                })
            }
            Expr::Cast(c) => {
                let mut to = self.spec.ty_of(&c.ty);
                if let Type::Ptr(tp) = &*c.ty {
                    // `p as *mut u64`: the same address, accessed with that width
                    to = match norm(&*tp.elem).as_str() {
                        "u64" | "usize" => Ty::TPtr(8),
                        "u32" => Ty::TPtr(4),
                        "u16" => Ty::TPtr(2),
                        "u8" => Ty::TPtr(1),
                        // ONE access of the whole value (width 0 = size_of::<T>(), symbolic)
                        x if x.starts_with("Packed <") => Ty::TPtr(0),
                        _ => Ty::Ptr,
                    };
                }
                self.expr(&c.expr, &|cx, t| match (&t.ty, &to) {
                    (Ty::Ptr, Ty::TPtr(_)) | (Ty::Ptr, Ty::Ptr) => k(cx, Tm { ty: to.clone(), ..t }),
                    // narrowing: the low bits
                    (Ty::Int(64), Ty::Int(b)) | (Ty::Addr, Ty::Int(b)) if *b < 64 => {
                        k(cx, Tm::app(format!("{} mod {}", t.s, 1u128 << *b), to.clone()))
                    }
                    (Ty::Int(a), Ty::Int(b)) if a <= b => k(cx, Tm { ty: to.clone(), ..t }),
                    (Ty::NonZero, Ty::Int(64)) | (Ty::Addr, Ty::Int(64)) => k(cx, Tm { ty: to.clone(), ..t }),
                    // isize is represented by its bit pattern, a pointer by its address
                    (Ty::Int(64), Ty::ISize) | (Ty::ISize, Ty::Int(64)) | (Ty::Ptr, Ty::Int(64)) => k(cx, Tm { ty: to.clone(), ..t }),
                    _ => unsup(&format!("cast `{}` (only widening / same-width integer casts)", norm(e)), c.span()),
                })
            }
            Expr::Binary(b) => self.binary(b, k),
            Expr::If(i) => self.if_expr(i, k),
            Expr::Match(m) => self.match_expr(m, k),
            Expr::Block(b) => self.block(&b.block, k),
            Expr::Unsafe(b) => self.block(&b.block, k),
            Expr::Return(r) if !self.frames.is_empty() => match &r.expr {
                Some(e) => self.expr(e, &|c, tm| c.finish(tm)),
                None => self.finish(Tm::unit()),
            },
            Expr::Return(r) if self.spec.break_value => unsup("`return` inside a loop used as an expression", r.span()),
            Expr::Return(r) => match &r.expr {
                // a "locals" kernel only records THAT the function returned early, not what
                Some(_) if self.spec.locals.is_some() => self.finish(Tm::unit()),
                Some(e) => self.expr(e, &|c, tm| c.finish(tm)),
                None => self.finish(Tm::unit()),
            },
            Expr::Try(t) => self.expr(&t.expr, &|c, tm| {
                let v = c.fresh("q");
                match tm.ty.clone() {
                    Ty::Opt(inner) => {
                        if !matches!(c.ret, Ty::Opt(_)) {
                            return unsup("`?` on Option in a function not returning Option", t.span());
                        }
                        let rest = c.branch(|c| k(c, Tm::atom(v.clone(), *inner)))?;
                        let none = c.finish(Tm::atom("None", c.ret.clone()))?;
                        Ok(format!("match {} with Some {} =>\n{}\n| None => {} end", tm.s, v, rest, none))
                    }
                    Ty::Res(inner) => {
                        if !matches!(c.ret, Ty::Res(_)) {
                            return unsup("`?` on Result in a function not returning Result", t.span());
                        }
                        let rest = c.branch(|c| k(c, Tm::atom(v.clone(), *inner)))?;
                        let ev = c.fresh("e");
                        let err = c.finish(Tm::app(format!("RErr {}", ev), c.ret.clone()))?;
                        Ok(format!("match {} with ROk {} =>\n{}\n| RErr {} => {} end", tm.s, v, rest, ev, err))
                    }
                    _ => unsup("`?` on a value of unknown type", t.span()),
                }
            }),
            Expr::Field(f) => self.expr(&f.base, &|c, b| match (&f.member, &b.ty) {
                (Member::Unnamed(i), Ty::Addr) if i.index == 0 => k(c, Tm { ty: Ty::Int(64), ..b }),
                // `.0` of the (Packed) value an opaque effect call returns
                (Member::Unnamed(i), Ty::Unit) if i.index == 0 => k(c, b),
                (Member::Unnamed(i), Ty::Tup(v)) if v.len() == 2 && i.index < 2 => {
                    let f_ = if i.index == 0 { "fst" } else { "snd" };
                    k(c, Tm::app(format!("{} {}", f_, b.s), v[i.index as usize].clone()))
                }
                // a pair built by a constructor-like call of another kernel (its Rust type is opaque);
                // a misuse does not type-check in Coq
                (Member::Unnamed(i), Ty::Unknown) if i.index < 2 => {
                    let f_ = if i.index == 0 { "fst" } else { "snd" };
                    k(c, Tm::app(format!("{} {}", f_, b.s), Ty::Int(64)))
                }
                _ => unsup(&format!("field access `{}`", norm(e)), f.span()),
            }),
            Expr::Call(call) => self.call(call, k),
            Expr::MethodCall(mc) => self.method(mc, k),
            Expr::Assign(a) => {
                let place = self.place_key(&a.left)?;
                self.expr(&a.right, &|c, tm| c.assign(&place, tm, a.span(), &|c| k(c, Tm::unit())))
            }
            Expr::Break(b) if b.expr.is_none() && b.label.is_none() && self.spec.loop_idx.is_some() => self.step_value("KBreak"),
            Expr::Break(b) if b.expr.is_some() && b.label.is_none() && self.spec.loop_idx.is_some() && self.spec.break_value => {
                self.expr(b.expr.as_ref().unwrap(), &|c, tm| c.step_return(tm))
            }
            Expr::Continue(cn) if cn.label.is_none() && self.spec.loop_idx.is_some() => self.step_value("KNext"),
            Expr::Struct(s) => {
                let name = s.path.segments.last().unwrap().ident.to_string();
                if s.path.segments.len() >= 2 || self.spec.err_enums.iter().any(|n| *n == name) {
                    // enum struct-variant used as an error value
                    return self.err_value(e, k);
                }
                let keep: Vec<&FieldValue> = s.fields.iter().filter(|f| {
                    let n = match &f.member { Member::Named(i) => i.to_string(), Member::Unnamed(i) => i.index.to_string() };
                    self.spec.fields.iter().any(|x| *x == n)
                }).collect();
                let mut keep = keep;
                keep.sort_by_key(|f| match &f.member { Member::Named(i) => i.to_string(), Member::Unnamed(i) => i.index.to_string() });
                let es: Vec<&Expr> = keep.iter().map(|f| &f.expr).collect();
                self.exprs(&es, &|c, tms| match tms.len() {
                    0 => k(c, Tm::unit()),
                    1 => k(c, tms[0].clone()),
                    _ => {
                        let s = tms.iter().map(|t| t.s.clone()).collect::<Vec<_>>().join(", ");
                        k(c, Tm { s: format!("({})", s), ty: Ty::Tup(tms.iter().map(|t| t.ty.clone()).collect()), atomic: false })
                    }
                })
            }
            Expr::Index(ix) => {
                // `s[a..]` on a slice seen as its length: panics when a > len, the rest has len - a bytes
                if let Expr::Range(r) = strip_paren(&ix.index) {
                    if let (Some(start), None, RangeLimits::HalfOpen(_)) = (&r.start, &r.end, &r.limits) {
                        let line = line_of(ix.bracket_token.span.open());
                        return self.expr(&ix.expr, &|c, base| {
                            if base.ty != Ty::Slice {
                                return unsup("range indexing of a value that is not a byte slice", ix.span());
                            }
                            c.expr(start, &|c, a| {
                                if !is_w64(&a.ty) {
                                    return unsup("slice range start is not a usize", ix.span());
                                }
                                if !c.monadic {
                                    return Err(TErr::NeedMonad);
                                }
                                let rest = k(c, Tm::app(format!("{} - {}", base.s, a.s), Ty::Slice))?;
                                Ok(format!("let* _ := passert {} ({} <=? {}) in\n{}", line, a.s, base.s, rest))
                            })
                        });
                    }
                }
                // `&v[i]` (bound to a local and used as the receiver of opaque calls): the element seen as its index
                if !matches!(strip_paren(&ix.index), Expr::Range(_)) {
                    return self.expr(&ix.index, &|c, i| {
                        if !is_int(&i.ty) {
                            return unsup("index that is not an integer", ix.span());
                        }
                        k(c, Tm { ty: Ty::IdxRef, ..i })
                    });
                }
                unsup("indexing (declare the access as an opaque call)", e.span())
            }
            Expr::Macro(m) if m.mac.path.is_ident("unreachable") => {
                if !self.monadic {
                    return Err(TErr::NeedMonad);
                }
                Ok(format!("Panic {}", line_of(m.mac.path.span())))
            }
            Expr::Macro(m) => unsup(&format!("macro `{}` in expression position", norm(&m.mac.path)), e.span()),
            Expr::Closure(cl) => {
                // a closure handed to an opaque function: a Coq function (pure body only)
                let (binders, binds) = self.closure_binders(cl)?;
                let envlen = self.env.len();
                self.env.extend(binds);
                let b = self.probe(&|c, kk| c.expr(&cl.body, kk));
                self.env.truncate(envlen);
                match b? {
                    Some(b) => k(self, Tm::app(format!("fun {} => {}", binders.join(" "), b.s), Ty::Unknown)),
                    None => unsup("closure body with panicking operations / control flow", e.span()),
                }
            }
            Expr::Loop(_) | Expr::While(_) | Expr::ForLoop(_) => unsup("loop", e.span()),
            _ => unsup(&format!("expression `{}`", key), e.span()),
        }
    }

    /// the environment key of an assignable place: a local variable or a declared state place
    fn place_key(&self, e: &Expr) -> std::result::Result<String, TErr> {
        if let Expr::Unary(u) = e {
            if matches!(u.op, UnOp::Deref(_)) {
                return self.place_key(&u.expr);
            }
        }
        if let Expr::Path(p) = e {
            if let Some(id) = p.path.get_ident() {
                return Ok(id.to_string());
            }
        }
        let key = self.nk(e);
        if self.state_keys.iter().any(|p| *p == key) {
            Ok(key)
        } else {
            unsup(&format!("assignment to `{}`", key), e.span())
        }
    }

    /// a function of the same file by name: free function (`method` = false: also an associated function
    /// `Self::f`) or method; when several types have one of that name, the one of the kernel's own type
    fn find_helper(&self, name: &str) -> Option<(Signature, Block)> {
        fn own_ty(l: &crate::specs::Loc) -> Option<&'static str> {
            use crate::specs::Loc;
            match l {
                Loc::Impl { ty, .. } => Some(ty),
                Loc::Trait(t, _) => Some(t),
                Loc::Closure { outer, .. } => own_ty(outer),
                Loc::InMacro { inner, .. } => own_ty(inner),
                _ => None,
            }
        }
        fn ty_name(t: &Type) -> String {
            match t {
                Type::Path(p) => p.path.segments.last().map(|s| s.ident.to_string()).unwrap_or_default(),
                Type::Reference(r) => ty_name(&r.elem),
                Type::Paren(p) => ty_name(&p.elem),
                Type::Slice(_) => "[T]".into(),
                _ => String::new(),
            }
        }
        fn walk(items: &[Item], name: &str, out: &mut Vec<(String, Signature, Block)>) {
            for it in items {
                match it {
                    Item::Mod(m) => {
                        let test = m.attrs.iter().any(|a| a.path().is_ident("cfg") && a.to_token_stream().to_string().contains("test"));
                        if let (false, Some((_, l))) = (test, &m.content) {
                            walk(l, name, out);
                        }
                    }
                    Item::Fn(f) if f.sig.ident == name => out.push((String::new(), f.sig.clone(), (*f.block).clone())),
                    Item::Impl(i) => {
                        for ii in &i.items {
                            if let ImplItem::Fn(m) = ii {
                                if m.sig.ident == name {
                                    out.push((ty_name(&i.self_ty), m.sig.clone(), m.block.clone()));
                                }
                            }
                        }
                    }
                    Item::Trait(t) => {
                        for ti in &t.items {
                            if let TraitItem::Fn(f) = ti {
                                if let (true, Some(b)) = (f.sig.ident == name, &f.default) {
                                    out.push((t.ident.to_string(), f.sig.clone(), b.clone()));
                                }
                            }
                        }
                    }
                    _ => {}
                }
            }
        }
        let mut c = vec![];
        walk(self.items, name, &mut c);
        if c.len() > 1 {
            if let Some(t) = own_ty(&self.spec.loc) {
                c.retain(|(ty, _, _)| ty == t);
            }
        }
        if c.len() == 1 {
            let (_, s, b) = c.pop().unwrap();
            Some((s, b))
        } else {
            None
        }
    }

    /// NORMAL FORM: a call of a private helper of the same file that the table does not know is replaced by
    /// the helper's body (parameters := the argument terms), so that extracting a function does not change
    /// the generated term.  `return` / `?` / the value of the helper continue with `k`.
    fn inline_call(&mut self, name: &str, sig: &Signature, body: &Block, args: Vec<Tm>, sp: proc_macro2::Span, k: K) -> R {
        if self.inlining.iter().any(|n| n == name) || self.inlining.len() >= 6 {
            return unsup(&format!("call of `{}` (recursive / too deeply nested private helper)", name), sp);
        }
        let mut env: Vec<(String, Tm)> = self.env.iter().filter(|(n, _)| n == "self" || n.starts_with("self .") || n == "* self").cloned().collect();
        let mut i = 0;
        for a in &sig.inputs {
            if let FnArg::Typed(pt) = a {
                let pn = match pat_ident(&pt.pat) {
                    Some(n) => n,
                    None => return unsup(&format!("parameter pattern of the private helper `{}`", name), sp),
                };
                let mut tm = match args.get(i) {
                    Some(t) => t.clone(),
                    None => return unsup(&format!("call of `{}` with too few arguments", name), sp),
                };
                let pty = self.spec.ty_of(&pt.ty);
                if pty != Ty::Unknown && tm.ty != pty && !(matches!(tm.ty, Ty::Int(_)) && matches!(pty, Ty::Int(_))) {
                    tm.ty = pty;
                } else if matches!(pty, Ty::Int(_)) {
                    tm.ty = pty;
                }
                env.push((pn, tm));
                i += 1;
            }
        }
        if i != args.len() {
            return unsup(&format!("call of `{}` with {} arguments, it takes {}", name, args.len(), i), sp);
        }
        let callee_ret = match &sig.output {
            ReturnType::Default => Ty::Unit,
            ReturnType::Type(_, t) => self.spec.ty_of(t),
        };
        // the continuation is only called while this function is active
        let ks: &'static dyn Fn(&mut Ctx, Tm) -> R = unsafe { std::mem::transmute(k) };
        let fr = Frame { k: ks, caller_env: std::mem::replace(&mut self.env, env), caller_ret: std::mem::replace(&mut self.ret, callee_ret), name: name.to_string() };
        self.frames.push(fr);
        self.inlining.push(name.to_string());
        let r = self.block(body, &|c, tm| c.finish(tm));
        if let Some(i) = self.inlining.iter().rposition(|n| n == name) {
            self.inlining.remove(i);
        }
        let fr = self.frames.pop().expect("inline frame");
        self.env = fr.caller_env;
        self.ret = fr.caller_ret;
        r
    }

    fn exprs(&mut self, es: &[&Expr], k: &dyn Fn(&mut Ctx, Vec<Tm>) -> R) -> R {
        self.exprs_acc(es, vec![], k)
    }
    fn exprs_acc(&mut self, es: &[&Expr], acc: Vec<Tm>, k: &dyn Fn(&mut Ctx, Vec<Tm>) -> R) -> R {
        match es.split_first() {
            None => k(self, acc),
            Some((e, rest)) => self.expr(e, &|c, t| {
                let mut a = acc.clone();
                a.push(t);
                c.exprs_acc(rest, a, k)
            }),
        }
    }

    /// `let* t := <op> in <rest>`, or just `<op>` when the rest is `Val t`
    fn bind_op(&mut self, op: String, ty: Ty, k: K) -> R {
        if !self.monadic {
            return Err(TErr::NeedMonad);
        }
        let t = self.fresh("t");
        let rest = k(self, Tm::atom(t.clone(), ty))?;
        if rest == format!("Val {}", t) {
            Ok(op)
        } else {
            Ok(format!("let* {} := {} in\n{}", t, op, rest))
        }
    }

    fn binary(&mut self, b: &ExprBinary, k: K) -> R {
        let line = line_of(b.op.span());
        // short-circuit operators
        if matches!(b.op, BinOp::And(_) | BinOp::Or(_)) {
            let is_and = matches!(b.op, BinOp::And(_));
            return self.expr(&b.left, &|c, l| {
                match c.probe(&|c, kk| c.expr(&b.right, kk))? {
                    Some(r) => k(c, Tm::app(format!("{} {} {}", l.s, if is_and { "&&" } else { "||" }, r.s), Ty::Bool)),
                    None => {
                        let a = c.branch(|c| c.expr(&b.right, k))?;
                        let s = c.branch(|c| k(c, Tm::atom(if is_and { "false" } else { "true" }, Ty::Bool)))?;
                        Ok(if is_and { format!("if {} then\n{}\nelse\n{}", l.s, a, s) } else { format!("if {} then\n{}\nelse\n{}", l.s, s, a) })
                    }
                }
            });
        }
        if let Some(op) = match &b.op {
            BinOp::AddAssign(_) => Some("padd"),
            BinOp::SubAssign(_) => Some("psub"),
            BinOp::MulAssign(_) => Some("pmul"),
            _ => None,
        } {
            let place = self.place_key(&b.left)?;
            return self.expr(&b.left, &|c, l| {
                c.expr(&b.right, &|c, r| {
                    if !(is_w64(&l.ty) && is_int(&r.ty)) {
                        return unsup("compound assignment on non-64-bit operands", b.span());
                    }
                    let lty = l.ty.clone();
                    c.bind_op(format!("{} m {} {} {}", op, line, l.s, r.s), lty, &|c, t| c.assign(&place, t, b.span(), &|c| k(c, Tm::unit())))
                })
            });
        }
        self.expr(&b.left, &|c, l| {
            c.expr(&b.right, &|c, r| {
                let both_int = is_int(&l.ty) && is_int(&r.ty);
                let rty = if matches!(l.ty, Ty::Addr) { Ty::Addr } else if matches!(l.ty, Ty::NonZero) { Ty::Int(64) } else { l.ty.clone() };
                let w64 = is_w64(&l.ty) || (matches!(l.ty, Ty::NonZero));
                match &b.op {
                    BinOp::Add(_) if matches!((&l.ty, &r.ty), (Ty::Int(32), Ty::Int(32))) => {
                        c.bind_op(format!("padd32 m {} {} {}", line, l.s, r.s), Ty::Int(32), k)
                    }
                    BinOp::Add(_) | BinOp::Sub(_) | BinOp::Mul(_) => {
                        if !(both_int && w64) {
                            return unsup("arithmetic on non-64-bit or non-integer operands", b.span());
                        }
                        let f = match &b.op { BinOp::Add(_) => "padd", BinOp::Sub(_) => "psub", _ => "pmul" };
                        c.bind_op(format!("{} m {} {} {}", f, line, l.s, r.s), rty, k)
                    }
                    BinOp::Div(_) | BinOp::Rem(_) => {
                        if !both_int {
                            return unsup("division on non-integers", b.span());
                        }
                        let is_div = matches!(b.op, BinOp::Div(_));
                        let nonzero_lit = r.atomic && r.s.parse::<u128>().map(|v| v != 0).unwrap_or(false);
                        if matches!(r.ty, Ty::NonZero) || nonzero_lit {
                            k(c, Tm::app(format!("{} {} {}", l.s, if is_div { "/" } else { "mod" }, r.s), rty))
                        } else {
                            c.bind_op(format!("{} {} {} {}", if is_div { "pdiv" } else { "pmod" }, line, l.s, r.s), rty, k)
                        }
                    }
                    BinOp::BitAnd(_) | BinOp::BitOr(_) | BinOp::BitXor(_) => {
                        if l.ty == Ty::Bool && r.ty == Ty::Bool {
                            let f = match &b.op { BinOp::BitAnd(_) => "andb", BinOp::BitOr(_) => "orb", _ => "xorb" };
                            return k(c, Tm::app(format!("{} {} {}", f, l.s, r.s), Ty::Bool));
                        }
                        if !both_int {
                            return unsup("bit operation on non-integers", b.span());
                        }
                        let f = match &b.op { BinOp::BitAnd(_) => "N.land", BinOp::BitOr(_) => "N.lor", _ => "N.lxor" };
                        k(c, Tm::app(format!("{} {} {}", f, l.s, r.s), rty))
                    }
                    BinOp::Shr(_) => {
                        let lit = r.atomic && r.s.parse::<u128>().map(|v| v < 64).unwrap_or(false);
                        if !(both_int && lit) {
                            return unsup("`>>` with a shift amount that is not a literal < 64", b.span());
                        }
                        k(c, Tm::app(format!("N.shiftr {} {}", l.s, r.s), rty))
                    }
                    BinOp::Shl(_) => {
                        // in range iff the amount is a literal < 64 or `x & c` with c <= 63
                        let lit = r.atomic && r.s.parse::<u128>().map(|v| v < 64).unwrap_or(false);
                        let masked = match strip_paren(&b.right) {
                            Expr::Binary(rb) if matches!(rb.op, BinOp::BitAnd(_)) => {
                                let small = |e: &Expr| matches!(strip_paren(e), Expr::Lit(ExprLit { lit: Lit::Int(i), .. }) if i.base10_parse::<u128>().map(|v| v <= 63).unwrap_or(false));
                                small(&rb.left) || small(&rb.right)
                            }
                            _ => false,
                        };
                        if !(both_int && w64 && (lit || masked)) {
                            return unsup("`<<` whose shift amount is not syntactically < 64", b.span());
                        }
                        k(c, Tm::app(format!("shl64 {} {}", l.s, r.s), rty))
                    }
                    BinOp::Lt(_) | BinOp::Le(_) | BinOp::Gt(_) | BinOp::Ge(_) => {
                        if !both_int {
                            return unsup("ordering comparison on non-integers", b.span());
                        }
                        if l.ty == Ty::ISize || r.ty == Ty::ISize {
                            // isize values are bit patterns: compare the numbers they stand for
                            let (x, y) = (format!("sgn64 {}", l.s), format!("sgn64 {}", r.s));
                            let s = match &b.op {
                                BinOp::Lt(_) => format!("({} <? {})%Z", x, y),
                                BinOp::Le(_) => format!("({} <=? {})%Z", x, y),
                                BinOp::Gt(_) => format!("({} <? {})%Z", y, x),
                                _ => format!("({} <=? {})%Z", y, x),
                            };
                            return k(c, Tm::app(s, Ty::Bool));
                        }
                        let s = match &b.op {
                            BinOp::Lt(_) => format!("{} <? {}", l.s, r.s),
                            BinOp::Le(_) => format!("{} <=? {}", l.s, r.s),
                            BinOp::Gt(_) => format!("{} <? {}", r.s, l.s),
                            _ => format!("{} <=? {}", r.s, l.s),
                        };
                        k(c, Tm::app(s, Ty::Bool))
                    }
                    BinOp::Eq(_) | BinOp::Ne(_) => {
                        let eq = if both_int {
                            format!("{} =? {}", l.s, r.s)
                        } else if l.ty == Ty::Bool && r.ty == Ty::Bool {
                            format!("Bool.eqb {} {}", l.s, r.s)
                        } else {
                            return unsup("`==` on values that are neither integers nor bools", b.span());
                        };
                        if matches!(b.op, BinOp::Eq(_)) {
                            k(c, Tm::app(eq, Ty::Bool))
                        } else {
                            k(c, Tm::app(format!("negb ({})", eq), Ty::Bool))
                        }
                    }
                    _ => unsup(&format!("operator in `{}`", norm(b)), b.span()),
                }
            })
        })
    }

    fn if_expr(&mut self, i: &ExprIf, k: K) -> R {
        if let Expr::Let(l) = &*i.cond {
            // if let PAT = e { A } else { B }
            return self.expr(&l.expr, &|c, scrut| {
                c.pat_guards.clear();
                let (ps, binds) = c.pattern(&l.pat, &scrut.ty)?;
                let guards = std::mem::take(&mut c.pat_guards);
                let a = c.branch(|c| {
                    c.env.extend(binds);
                    c.block(&i.then_branch, k)
                })?;
                let b = match &i.else_branch {
                    Some((_, e)) => c.branch(|c| c.expr(e, k))?,
                    None => c.branch(|c| k(c, Tm::unit()))?,
                };
                if guards.is_empty() {
                    Ok(format!("match {} with {} =>\n{}\n| _ =>\n{} end", scrut.s, ps, a, b))
                } else {
                    Ok(format!("match {} with {} =>\nif {} then\n{}\nelse\n{}\n| _ =>\n{} end", scrut.s, ps, guards.join(" && "), a, b, b))
                }
            });
        }
        self.expr(&i.cond, &|c, cond| {
            if cond.ty != Ty::Bool {
                return unsup("condition is not a bool", i.cond.span());
            }
            match &i.else_branch {
                Some((_, els)) => {
                    let a = c.probe(&|c, kk| c.block(&i.then_branch, kk))?;
                    let b = c.probe(&|c, kk| c.expr(els, kk))?;
                    if let (Some(a), Some(b)) = (a, b) {
                        let ty = if a.ty == Ty::Unknown || matches!(a.ty, Ty::Opt(ref x) if **x == Ty::Unknown) { b.ty.clone() } else { a.ty.clone() };
                        return k(c, Tm::app(format!("if {} then {} else {}", cond.s, a.s, b.s), ty));
                    }
                    let a = c.branch(|c| c.block(&i.then_branch, k))?;
                    let b = c.branch(|c| c.expr(els, k))?;
                    Ok(format!("if {} then\n{}\nelse\n{}", cond.s, a, b))
                }
                None => {
                    let a = c.branch(|c| c.block(&i.then_branch, k))?;
                    let b = c.branch(|c| k(c, Tm::unit()))?;
                    Ok(format!("if {} then\n{}\nelse\n{}", cond.s, a, b))
                }
            }
        })
    }

    fn match_expr(&mut self, m: &ExprMatch, k: K) -> R {
        self.expr(&m.expr, &|c, scrut| {
            let arms: Vec<&Arm> = m.arms.iter().collect();
            if arms.iter().all(|a| a.guard.is_none()) {
                // all arms plain terms?  then the match stays an expression
                let mut pure_arms: Vec<(String, Tm)> = vec![];
                let mut all_pure = true;
                let names = c.names.clone();
                for arm in &arms {
                    let envlen = c.env.len();
                    let (ps, binds) = c.pattern(&arm.pat, &scrut.ty)?;
                    if !c.pat_guards.is_empty() {
                        c.pat_guards.clear();
                        return unsup("error-variant pattern in a `match` (only `if let` is supported)", arm.pat.span());
                    }
                    c.env.extend(binds);
                    let p = c.probe(&|c, kk| c.expr(&arm.body, kk));
                    c.env.truncate(envlen);
                    match p? {
                        Some(t) => pure_arms.push((ps, t)),
                        None => {
                            all_pure = false;
                            break;
                        }
                    }
                }
                if all_pure {
                    let ty = pure_arms.iter().map(|(_, t)| t.ty.clone()).find(|t| *t != Ty::Unknown && !matches!(t, Ty::Opt(x) if **x == Ty::Unknown)).unwrap_or(Ty::Unknown);
                    let arms = pure_arms.iter().map(|(p, t)| format!("| {} => {}", p, t.s)).collect::<Vec<_>>().join(" ");
                    return k(c, Tm::app(format!("match {} with {} end", scrut.s, arms), ty));
                }
                c.names = names;
                return c.match_arms(&scrut, &arms, k);
            }
            // guards: the scrutinee is examined several times, name it
            if scrut.atomic {
                c.match_arms(&scrut, &arms, k)
            } else {
                let v = c.fresh("sc");
                let r = c.match_arms(&Tm::atom(v.clone(), scrut.ty.clone()), &arms, k)?;
                Ok(format!("let {} := {} in\n{}", v, scrut.s, r))
            }
        })
    }

    /// Arms tried in order.  Up to the first guarded arm they form one Coq `match`; the guarded arm
    /// becomes `| p => if guard then body else REST | _ => REST` with REST = the remaining arms
    /// matched against the same scrutinee (Rust semantics of a failing guard).
    fn match_arms(&mut self, scrut: &Tm, arms: &[&Arm], k: K) -> R {
        if arms.is_empty() {
            return Err(TErr::Unsupported("a `match` with guards may fall through all its arms".into()));
        }
        let gi = arms.iter().position(|a| a.guard.is_some());
        let plain = &arms[..gi.unwrap_or(arms.len())];
        let mut out = vec![];
        for arm in plain {
            let (ps, binds) = self.pattern(&arm.pat, &scrut.ty)?;
            if !self.pat_guards.is_empty() {
                self.pat_guards.clear();
                return unsup("error-variant pattern in a `match` (only `if let` is supported)", arm.pat.span());
            }
            let body = self.branch(|c| {
                c.env.extend(binds);
                c.expr(&arm.body, k)
            })?;
            out.push(format!("| {} =>\n{}", ps, body));
        }
        if let Some(i) = gi {
            let arm = arms[i];
            let rest = &arms[i + 1..];
            let guard: &Expr = &arm.guard.as_ref().unwrap().1;
            let (ps, binds) = self.pattern(&arm.pat, &scrut.ty)?;
            let irrefutable = match &arm.pat {
                Pat::Wild(_) => true,
                Pat::Ident(pi) => pi.ident != "None",
                _ => false,
            };
            let guarded = self.branch(|c| {
                c.env.extend(binds);
                c.expr(guard, &|c, g| {
                    if g.ty != Ty::Bool {
                        return unsup("match guard is not a bool", guard.span());
                    }
                    if g.s == "false" {
                        return c.branch(|c| c.match_arms(scrut, rest, k));
                    }
                    let a = c.branch(|c| c.expr(&arm.body, k))?;
                    if g.s == "true" {
                        return Ok(a);
                    }
                    let r = c.branch(|c| c.match_arms(scrut, rest, k))?;
                    Ok(format!("if {} then\n{}\nelse\n{}", g.s, a, r))
                })
            })?;
            out.push(format!("| {} =>\n{}", ps, guarded));
            // constructors completely covered by the patterns of this Coq match
            let mut covered: Vec<String> = vec![];
            for a in &arms[..=i] {
                if let Some(cn) = full_ctor(&a.pat, &self.spec.newtypes) {
                    covered.push(cn);
                }
            }
            let all = |l: &[&str]| l.iter().all(|x| covered.iter().any(|c| c == x));
            let exhaustive = match &scrut.ty {
                Ty::Either(_, _) | Ty::Res(_) => all(&["Ok", "Err"]),
                Ty::Opt(_) => all(&["Some", "None"]),
                _ => false,
            };
            if !irrefutable && !exhaustive {
                let r = self.branch(|c| c.match_arms(scrut, rest, k))?;
                out.push(format!("| _ =>\n{}", r));
            }
        }
        Ok(format!("match {} with\n{}\nend", scrut.s, out.join("\n")))
    }

    /// `Error::Variant`, `Error::Variant(a, ..)`, `Error::Variant { f: a, .. }`  ->  E "Variant" [..]
    fn err_value(&mut self, e: &Expr, k: K) -> R {
        let (name, args): (String, Vec<&Expr>) = match e {
            Expr::Path(p) => (p.path.segments.last().unwrap().ident.to_string(), vec![]),
            Expr::Call(c) => match &*c.func {
                Expr::Path(p) => (p.path.segments.last().unwrap().ident.to_string(), c.args.iter().collect()),
                _ => return unsup("error value", e.span()),
            },
            Expr::Struct(s) => {
                let mut fs: Vec<&FieldValue> = s.fields.iter().collect();
                fs.sort_by_key(|f| match &f.member { Member::Named(i) => i.to_string(), Member::Unnamed(i) => i.index.to_string() });
                (s.path.segments.last().unwrap().ident.to_string(), fs.into_iter().map(|f| &f.expr).collect())
            }
            _ => return unsup("error value", e.span()),
        };
        self.exprs(&args, &|c, tms| {
            for t in &tms {
                if !is_int(&t.ty) {
                    return unsup("non-integer payload of an error variant", e.span());
                }
            }
            let l = tms.iter().map(|t| t.s.clone()).collect::<Vec<_>>().join("; ");
            k(c, Tm::app(format!("E \"{}\" [{}]", name, l), Ty::Unknown))
        })
    }

    fn is_err_path(&self, e: &Expr) -> bool {
        let p = match e {
            Expr::Path(p) => &p.path,
            Expr::Call(c) => match &*c.func {
                Expr::Path(p) => &p.path,
                _ => return false,
            },
            Expr::Struct(s) => &s.path,
            _ => return false,
        };
        // a variant starts with an upper-case letter (`std::io::Error::new(..)` is not one)
        let upper = p.segments.last().map(|s| s.ident.to_string().chars().next().map(|c| c.is_uppercase()).unwrap_or(false)).unwrap_or(false);
        upper && p.segments.len() >= 2 && self.spec.err_enums.iter().any(|n| p.segments[p.segments.len() - 2].ident == *n)
    }

    fn call_kernel(&mut self, sig: &Sig, args: Vec<Tm>, line: usize, k: K) -> R {
        let _ = line;
        // the callee's extra parameters must be extra parameters of the caller, by name
        let mut all: Vec<String> = vec![];
        for x in &sig.extra {
            let have = self.spec.extra.iter().any(|y| y.param == x) || self.spec.fns.iter().any(|y| y.param == x);
            if !have {
                return Err(TErr::Unsupported(format!("callee `{}` needs the parameter `{}` which this kernel does not declare", sig.coq, x)));
            }
            all.push(x.clone());
        }
        if args.len() != sig.nparams {
            return Err(TErr::Unsupported(format!("callee `{}` called with {} arguments, expects {}", sig.coq, args.len(), sig.nparams)));
        }
        all.extend(args.iter().map(|a| a.s.clone()));
        if sig.monadic {
            self.bind_op(format!("{} m {}", sig.coq, all.join(" ")), sig.ret.clone(), k)
        } else if all.is_empty() {
            k(self, Tm::atom(sig.coq.clone(), sig.ret.clone()))
        } else {
            k(self, Tm::app(format!("{} {}", sig.coq, all.join(" ")), sig.ret.clone()))
        }
    }

    fn call(&mut self, call: &ExprCall, k: K) -> R {
        let path = match &*call.func {
            Expr::Path(p) => &p.path,
            _ => return unsup("call of a non-path", call.span()),
        };
        let last = self.canon(&path.segments.last().unwrap().ident.to_string());
        let args: Vec<&Expr> = call.args.iter().collect();
        let line = line_of(call.span());
        if self.is_err_path(&Expr::Call(call.clone())) {
            return self.err_value(&Expr::Call(call.clone()), k);
        }
        if path.segments.len() == 1 {
            match last.as_str() {
                "Some" if args.len() == 1 => {
                    return self.expr(args[0], &|c, t| k(c, Tm::app(format!("Some {}", t.s), Ty::Opt(Box::new(t.ty.clone())))));
                }
                "Ok" if args.len() == 1 => {
                    return self.expr(args[0], &|c, t| k(c, Tm::app(format!("ROk {}", t.s), Ty::Res(Box::new(t.ty.clone())))));
                }
                "Err" if args.len() == 1 => {
                    let a = args[0];
                    return if self.is_err_path(a) {
                        self.err_value(a, &|c, t| k(c, Tm::app(format!("RErr {}", t.s), c.ret.clone())))
                    } else {
                        self.expr(a, &|c, t| k(c, Tm::app(format!("RErr {}", t.s), c.ret.clone())))
                    };
                }
                _ => {}
            }
            if self.spec.newtypes.iter().any(|n| *n == last) && args.len() == 1 {
                return self.expr(args[0], &|c, t| {
                    if !is_int(&t.ty) {
                        return unsup("newtype constructor applied to a non-integer", call.span());
                    }
                    k(c, Tm { ty: Ty::Addr, ..t })
                });
            }
        }
        // uN::to_le / to_be / from_le / from_be: the opaque byte-order conversion `cv kind bytes value`
        if self.spec.endian && path.segments.len() == 2 && args.len() == 1 {
            let bytes = match path.segments[0].ident.to_string().as_str() { "u16" => Some((2, 16)), "u32" => Some((4, 32)), "u64" | "usize" => Some((8, 64)), _ => None };
            if let (Some((bytes, bits)), true) = (bytes, ["to_le", "to_be", "from_le", "from_be"].contains(&last.as_str())) {
                return self.expr(args[0], &|c, t| {
                    if !is_int(&t.ty) {
                        return unsup("byte-order conversion of a non-integer", call.span());
                    }
                    k(c, Tm::app(format!("cv {} {} {}", last, bytes, t.s), Ty::Int(bits)))
                });
            }
        }
        // opaque free functions / closures: effect calls and value-returning calls
        if self.spec.effects.iter().any(|m| *m == last) {
            let sel = self.select_args(&last, &args);
            return self.effect_call(&last, sel, call.span(), k);
        }
        if let Some(f) = self.spec.fns.iter().find(|f| f.method == last) {
            let sel = self.select_args(&last, &args);
            let (p, ty) = (f.param, f.ret.clone());
            return self.exprs(&sel, &|c, tms| {
                let tms: Vec<&Tm> = tms.iter().filter(|t| t.ty != Ty::Unit).collect();
                let l = tms.iter().map(|t| t.s.clone()).collect::<Vec<_>>().join(" ");
                if tms.is_empty() { k(c, Tm::atom(p, ty.clone())) } else { k(c, Tm::app(format!("{} {}", p, l), ty.clone())) }
            });
        }
        // constructor-like calls: the tuple of the kept arguments
        if let Some((_, keep)) = self.spec.ctors.iter().find(|(n, _)| *n == last) {
            let sel: Vec<&Expr> = keep.iter().filter_map(|i| args.get(*i).copied()).collect();
            if sel.len() != keep.len() {
                return unsup(&format!("constructor `{}` called with too few arguments", last), call.span());
            }
            return self.exprs(&sel, &|c, tms| {
                // a literal `None` among the kept arguments is the absent mapping handle
                let tms: Vec<Tm> = tms.into_iter().map(|t| if t.s == "None" { Tm::atom("(@None unit)", Ty::Opt(Box::new(Ty::Unit))) } else { t }).collect();
                match tms.len() {
                1 => k(c, tms[0].clone()),
                _ => {
                    let s = tms.iter().map(|t| t.s.clone()).collect::<Vec<_>>().join(", ");
                    k(c, Tm { s: format!("({})", s), ty: Ty::Tup(tms.iter().map(|t| t.ty.clone()).collect()), atomic: false })
                }
                }
            });
        }
        // usize::try_from(<c_long / isize>): fails for negative values; NonZeroUsize::try_from(usize): fails for 0
        if last == "try_from" && path.segments.len() == 2 && args.len() == 1 && (path.segments[0].ident == "usize" || path.segments[0].ident == "NonZeroUsize") {
            let nz = path.segments[0].ident == "NonZeroUsize";
            return self.expr(args[0], &|c, t| {
                if nz {
                    if !is_w64(&t.ty) {
                        return unsup("NonZeroUsize::try_from of a non-usize", call.span());
                    }
                    k(c, Tm::app(format!("if {} =? 0 then None else Some {}", t.s, t.s), Ty::Opt(Box::new(Ty::NonZero))))
                } else {
                    if t.ty != Ty::ISize {
                        return unsup("usize::try_from of a value that is not a signed 64-bit integer", call.span());
                    }
                    k(c, Tm::app(format!("isize_try_from {}", t.s), Ty::Opt(Box::new(Ty::Int(64)))))
                }
            });
        }
        // isize::try_from(usize): Err above isize::MAX
        if last == "try_from" && path.segments.len() == 2 && path.segments[0].ident == "isize" && args.len() == 1 {
            return self.expr(args[0], &|c, t| {
                if !is_w64(&t.ty) {
                    return unsup("isize::try_from of a non-usize", call.span());
                }
                k(c, Tm::app(format!("isize_try_from {}", t.s), Ty::Res(Box::new(Ty::ISize))))
            });
        }
        // std::cmp::min / max
        if (last == "min" || last == "max") && args.len() == 2 && (path.segments.len() == 1 || path.segments.iter().any(|s| s.ident == "cmp")) {
            return self.exprs(&args, &|c, t| k(c, Tm::app(format!("N.{} {} {}", last, t[0].s, t[1].s), t[0].ty.clone())));
        }
        // std::mem::take(slice): the slice itself (what is left behind is overwritten by the assignment)
        if last == "take" && args.len() == 1 && path.segments.iter().any(|s| s.ident == "mem") {
            return self.expr(args[0], k);
        }
        // another kernel of the same group (free function, or Self::f / Type::f)
        let key = format!("{}::{}", self.spec.group, last);
        if let Some(mut sig) = self.sigs.get(&key).cloned() {
            if sig.module != self.spec.module {
                sig.coq = format!("Gen.{}.{}", sig.module, sig.coq);
            }
            return self.exprs(&args, &|c, t| c.call_kernel(&sig, t, line, k));
        }
        // a private helper of the same file that the table does not know: its body
        let plain = path.segments.len() == 1 || (path.segments.len() == 2 && path.segments[0].ident == "Self");
        if plain {
            if let Some((hsig, hbody)) = self.find_helper(&last) {
                if hsig.receiver().is_none() {
                    return self.exprs(&args, &|c, t| c.inline_call(&last, &hsig, &hbody, t, call.span(), k));
                }
            }
        }
        unsup(&format!("call of `{}`", norm(&call.func)), call.span())
    }

    /// a local bound to `&v[i]`
    fn is_idx_ref(&self, e: &Expr) -> bool {
        if let Expr::Path(p) = strip_paren(e) {
            if let Some(id) = p.path.get_ident() {
                return matches!(self.lookup(&id.to_string()), Some(Tm { ty: Ty::IdxRef, .. }));
            }
        }
        false
    }

    fn select_args<'e>(&self, name: &str, args: &[&'e Expr]) -> Vec<&'e Expr> {
        match self.spec.argsel.iter().find(|(n, _)| *n == name) {
            Some((_, keep)) => keep.iter().filter_map(|i| args.get(*i).copied()).collect(),
            None => args.to_vec(),
        }
    }

    /// an opaque unit-returning call: recorded in the call list the kernel returns
    fn effect_call(&mut self, name: &str, all: Vec<&Expr>, sp: proc_macro2::Span, k: K) -> R {
        let name = name.to_string();
        self.exprs(&all, &|c, tms| {
            let mut parts = vec![];
            for t in &tms {
                match &t.ty {
                    ty if is_int(ty) => parts.push(t.s.clone()),
                    Ty::Ptr | Ty::Slice | Ty::IdxRef => parts.push(t.s.clone()),
                    Ty::TPtr(w) => {
                        parts.push(t.s.clone());
                        parts.push(format!("{}", w));
                    }
                    Ty::Bool => parts.push(format!("(N.b2n {})", t.s)),
                    Ty::Unit | Ty::Abs(_) => {}
                    _ => return unsup("non-integer argument of an effect call", sp),
                }
            }
            let rest = k(c, Tm::unit())?;
            let l = parts.join("; ");
            let call = format!("Call \"{}\" [{}]", name, l);
            Ok(match (c.spec.step.is_some() || c.spec.effects_ret, c.monadic) {
                (false, false) => format!("{} ::\n{}", call, rest),
                (false, true) => format!("ocons ({})\n({})", call, rest),
                (true, false) => format!("ecall ({})\n({})", call, rest),
                (true, true) => format!("oecall ({})\n({})", call, rest),
            })
        })
    }

    /// one-parameter closure applied to a value of type `ty`: (Coq pattern, bindings, body)
    fn closure1<'e>(&mut self, e: &'e Expr, ty: &Ty) -> std::result::Result<(String, Vec<(String, Tm)>, &'e Expr), TErr> {
        match e {
            Expr::Closure(c) if c.inputs.len() == 1 => {
                self.closure_renames(c);
                let (ps, binds) = self.pattern(&c.inputs[0], ty)?;
                if !self.pat_guards.is_empty() {
                    self.pat_guards.clear();
                    return unsup("closure parameter pattern", e.span());
                }
                Ok((ps, binds, &c.body))
            }
            _ => unsup("expected a one-parameter closure", e.span()),
        }
    }

    /// canonical names (table: closure_params) for the identifiers a closure's parameters bind, positionally
    fn closure_renames(&mut self, cl: &ExprClosure) {
        let mut ids = vec![];
        for p in &cl.inputs {
            let before = ids.len();
            pat_idents(p, &mut ids);
            if ids.len() == before {
                ids.push("_".to_string()); // a wildcard keeps its position
            }
        }
        for (actual, (cn, _)) in ids.iter().zip(self.spec.closure_params.iter()) {
            if actual != "_" && actual != cn && !self.rename.iter().any(|(a, _)| a == actual) {
                self.rename.push((actual.clone(), cn.to_string()));
            }
        }
    }

    /// binders and bindings of a closure translated as a Coq function: one binder per parameter,
    /// types from the table (closure_params, positional; Unit = opaque object without binder)
    fn closure_binders(&mut self, cl: &ExprClosure) -> std::result::Result<(Vec<String>, Vec<(String, Tm)>), TErr> {
        self.closure_renames(cl);
        let mut binders = vec![];
        let mut binds = vec![];
        for (i, p) in cl.inputs.iter().enumerate() {
            let ty = self.spec.closure_params.get(i).map(|(_, t)| t.clone()).unwrap_or(Ty::Int(64));
            let mut q = p;
            if let Pat::Type(pt) = q {
                q = &pt.pat;
            }
            match q {
                Pat::Wild(_) => {
                    if ty != Ty::Unit {
                        binders.push("_".to_string());
                    }
                }
                Pat::Ident(pi) => {
                    let name = pi.ident.to_string();
                    if ty == Ty::Unit {
                        binds.push((name, Tm::atom("tt", Ty::Unit)));
                    } else {
                        let v = self.fresh(&format!("v_{}", self.canon(&name)));
                        binders.push(v.clone());
                        binds.push((name, Tm::atom(v, ty)));
                    }
                }
                _ => return unsup("closure parameter pattern", p.span()),
            }
        }
        if binders.is_empty() {
            binders.push("_".to_string());
        }
        Ok((binders, binds))
    }

    fn method(&mut self, mc: &ExprMethodCall, k: K) -> R {
        let name = self.canon(&mc.method.to_string());
        let line = line_of(mc.method.span());
        let args: Vec<&Expr> = mc.args.iter().collect();
        // builder-style setters the table declares as not looked at
        if self.spec.chain_methods.iter().any(|m| *m == name) {
            return self.expr(&mc.receiver, k);
        }
        // self.iter().map(F).fold(INIT, G)  ->  (INIT, fun <extras of F> => F .., G)
        if let (Some(grp), "fold", 2) = (self.spec.iter_fold, name.as_str(), args.len()) {
            if let Expr::MethodCall(mapc) = &*mc.receiver {
                if mapc.method == "map" && mapc.args.len() == 1 && self.nk(&*mapc.receiver) == "self . iter ()" {
                    let fname = match &mapc.args[0] {
                        Expr::Path(p) => p.path.segments.last().unwrap().ident.to_string(),
                        _ => return unsup("iter_fold: the mapped function is not a path", mapc.span()),
                    };
                    let sig = match self.sigs.get(&format!("{}::{}", grp, fname)).cloned() {
                        Some(s) => s,
                        None => return unsup(&format!("iter_fold: `{}` is not a kernel of group {}", fname, grp), mapc.span()),
                    };
                    let g = match &args[1] {
                        Expr::Path(p) => match p.path.segments.last().unwrap().ident.to_string().as_str() {
                            "max" => "N.max",
                            "min" => "N.min",
                            _ => return unsup("iter_fold: the combining function is not max / min", mc.span()),
                        },
                        _ => return unsup("iter_fold: the combining function is not a path", mc.span()),
                    };
                    if sig.monadic && !self.monadic {
                        return Err(TErr::NeedMonad);
                    }
                    let mut coq = sig.coq.clone();
                    if sig.module != self.spec.module {
                        coq = format!("Gen.{}.{}", sig.module, coq);
                    }
                    let xs = sig.extra.join(" ");
                    let f = format!("(fun {} => {}{} {})", xs, coq, if sig.monadic { " m" } else { "" }, xs);
                    return self.expr(args[0], &|c, init| {
                        k(c, Tm { s: format!("({}, {}, {})", init.s, f, g), ty: Ty::Unknown, atomic: false })
                    });
                }
            }
            return unsup("iter_fold: expected self.iter().map(F).fold(INIT, G)", mc.span());
        }
        // opaque unit-returning calls of effect kernels
        if self.spec.effects.iter().any(|m| *m == name) {
            let mut all: Vec<&Expr> = vec![];
            if let Expr::Index(ix) = &*mc.receiver {
                all.push(&ix.index);
            } else if self.spec.recv_arg.iter().any(|m| *m == name) || self.is_idx_ref(&mc.receiver) {
                all.push(&*mc.receiver);
            }
            for a in self.select_args(&name, &args) {
                if !norm(a).starts_with("Ordering ::") {
                    all.push(a);
                }
            }
            return self.effect_call(&name, all, mc.span(), k);
        }
        // opaque value-returning calls (function parameters)
        if let Some(f) = self.spec.fns.iter().find(|f| f.method == name) {
            let mut all: Vec<&Expr> = vec![];
            if let Expr::Index(ix) = &*mc.receiver {
                all.push(&ix.index);
            } else if self.spec.recv_arg.iter().any(|m| *m == name) || self.is_idx_ref(&mc.receiver) {
                all.push(&*mc.receiver);
            }
            for a in self.select_args(&name, &args) {
                if !norm(a).starts_with("Ordering ::") {
                    all.push(a);
                }
            }
            let (p, ty) = (f.param, f.ret.clone());
            return self.exprs(&all, &|c, tms| {
                let tms: Vec<&Tm> = tms.iter().filter(|t| t.ty != Ty::Unit).collect();
                let l = tms.iter().map(|t| t.s.clone()).collect::<Vec<_>>().join(" ");
                if tms.is_empty() { k(c, Tm::atom(p, ty.clone())) } else { k(c, Tm::app(format!("{} {}", p, l), ty.clone())) }
            });
        }
        // method of an object whose methods are kernels of another group (`region.to_region_addr(..)`)
        let rk = self.nk(&*mc.receiver);
        if let Some((_, g)) = self.spec.recv_groups.iter().find(|(r, _)| *r == rk) {
            let key = format!("{}::{}", g, name);
            if let Some(mut sig) = self.sigs.get(&key).cloned() {
                if sig.module != self.spec.module {
                    sig.coq = format!("Gen.{}.{}", sig.module, sig.coq);
                }
                return self.exprs(&args, &|c, t| c.call_kernel(&sig, t, line, k));
            }
            return unsup(&format!("method `{}` of `{}` is not a kernel of group {}", name, rk, g), mc.span());
        }
        // method of `self` that is another kernel of the group
        if norm(&*mc.receiver) == "self" {
            let key = format!("{}::{}", self.spec.group, name);
            if let Some(sig) = self.sigs.get(&key).cloned() {
                return self.exprs(&args, &|c, t| c.call_kernel(&sig, t, line, k));
            }
            // a private method of the same type that the table does not know: its body
            if let Some((hsig, hbody)) = self.find_helper(&name) {
                if hsig.receiver().is_some() {
                    return self.exprs(&args, &|c, t| c.inline_call(&name, &hsig, &hbody, t, mc.span(), k));
                }
            }
            if !self.spec.extra.iter().any(|x| x.pat == "self") && self.lookup("self").is_none() {
                return unsup(&format!("method `self.{}` (not a kernel of this group, not declared opaque)", name), mc.span());
            }
        }
        self.expr(&mc.receiver, &|c, recv| {
            match (&recv.ty, name.as_str()) {
                // ---- Option
                (Ty::Opt(inner), "map") | (Ty::Opt(inner), "and_then") if args.len() == 1 => {
                    // `.map(NewType)`: the wrapper is dropped
                    if name == "map" {
                        if let Expr::Path(p) = args[0] {
                            if let Some(id) = p.path.get_ident() {
                                if c.spec.newtypes.iter().any(|n| id == n) {
                                    return k(c, Tm { ty: Ty::Opt(Box::new(Ty::Addr)), ..recv.clone() });
                                }
                            }
                        }
                    }
                    let (v, binds, body) = c.closure1(args[0], inner)?;
                    let envlen = c.env.len();
                    c.env.extend(binds.clone());
                    let b = c.probe(&|c, kk| c.expr(body, kk));
                    c.env.truncate(envlen);
                    match b? {
                        Some(b) => {
                            if name == "map" {
                                k(c, Tm::app(format!("match {} with Some {} => Some {} | None => None end", recv.s, v, b.s), Ty::Opt(Box::new(b.ty))))
                            } else {
                                k(c, Tm::app(format!("match {} with Some {} => {} | None => None end", recv.s, v, b.s), b.ty))
                            }
                        }
                        None => {
                            // the body panics / branches: the rest of the function goes into both arms
                            let is_map = name == "map";
                            let some = c.branch(|c| {
                                c.env.extend(binds.clone());
                                c.expr(body, &|c, b| {
                                    if is_map {
                                        k(c, Tm::app(format!("Some {}", b.s), Ty::Opt(Box::new(b.ty.clone()))))
                                    } else {
                                        k(c, b)
                                    }
                                })
                            })?;
                            let none = c.branch(|c| k(c, Tm::atom("None", Ty::Opt(Box::new(Ty::Unknown)))))?;
                            Ok(format!("match {} with Some {} =>\n{}\n| None =>\n{} end", recv.s, v, some, none))
                        }
                    }
                }
                // ---- Result: and_then / map with a pure one-expression closure
                (Ty::Res(inner), "and_then") | (Ty::Res(inner), "map") if args.len() == 1 && matches!(args[0], Expr::Closure(_)) => {
                    let (v, binds, body) = c.closure1(args[0], inner)?;
                    let envlen = c.env.len();
                    c.env.extend(binds);
                    let b = c.probe(&|c, kk| c.expr(body, kk));
                    c.env.truncate(envlen);
                    let ev = c.fresh("e");
                    match b? {
                        Some(b) => {
                            if name == "map" {
                                k(c, Tm::app(format!("match {} with ROk {} => ROk {} | RErr {} => RErr {} end", recv.s, v, b.s, ev, ev), Ty::Res(Box::new(b.ty))))
                            } else {
                                k(c, Tm::app(format!("match {} with ROk {} => {} | RErr {} => RErr {} end", recv.s, v, b.s, ev, ev), b.ty))
                            }
                        }
                        None => unsup("closure body with panicking operations / control flow", mc.span()),
                    }
                }
                // ---- byte slices seen as their length
                (Ty::Slice, "len") if args.is_empty() => k(c, Tm { ty: Ty::Int(64), ..recv.clone() }),
                (Ty::Slice, "is_empty") if args.is_empty() => k(c, Tm::app(format!("{} =? 0", recv.s), Ty::Bool)),
                (Ty::Slice, "split_at") | (Ty::Slice, "split_at_mut") if args.len() == 1 => c.expr(args[0], &|c, a| {
                    if !is_w64(&a.ty) {
                        return unsup("split_at of a non-usize", mc.span());
                    }
                    if !c.monadic {
                        return Err(TErr::NeedMonad);
                    }
                    let rest = k(c, Tm { s: format!("({}, {} - {})", a.s, recv.s, a.s), ty: Ty::Tup(vec![Ty::Slice, Ty::Slice]), atomic: false })?;
                    Ok(format!("let* _ := passert {} ({} <=? {}) in\n{}", line, a.s, recv.s, rest))
                }),
                // isize -> usize: fails for negative values
                (Ty::ISize, "try_into") if args.is_empty() => k(c, Tm::app(format!("isize_try_from {}", recv.s), Ty::Opt(Box::new(Ty::Int(64))))),
                // `<*mut u8>::cast::<T>()` is `self as *mut T`
                (Ty::Ptr, "cast") if args.is_empty() => {
                    let w = mc.turbofish.as_ref().and_then(|t| t.args.first()).map(|a| norm(a)).unwrap_or_default();
                    let to = match w.as_str() {
                        "u64" | "usize" => Ty::TPtr(8),
                        "u32" => Ty::TPtr(4),
                        "u16" => Ty::TPtr(2),
                        "u8" => Ty::TPtr(1),
                        _ => Ty::Ptr,
                    };
                    k(c, Tm { ty: to, ..recv.clone() })
                }
                (Ty::Ptr, "add") if args.len() == 1 && c.spec.ptr_checked => c.expr(args[0], &|c, a| {
                    if !is_w64(&a.ty) {
                        return unsup("pointer add of a non-usize", mc.span());
                    }
                    c.bind_op(format!("padd m {} {} {}", line, recv.s, a.s), Ty::Ptr, k)
                }),
                (Ty::Res(inner), "ok") if args.is_empty() && **inner == Ty::ISize => {
                    // only for isize::try_from: `isize_try_from` already is the option
                    k(c, Tm { ty: Ty::Opt(inner.clone()), ..recv.clone() })
                }
                (Ty::Ptr, "add") | (Ty::Ptr, "wrapping_add") if args.len() == 1 => c.expr(args[0], &|c, a| {
                    if !is_w64(&a.ty) {
                        return unsup("pointer add of a non-usize", mc.span());
                    }
                    k(c, Tm::app(format!("ptr_add {} {}", recv.s, a.s), Ty::Ptr))
                }),
                (t, m) if (is_int(t) || matches!(t, Ty::Abs(_))) && c.spec.id_methods.iter().any(|x| *x == m) && args.is_empty() => k(c, recv.clone()),
                (Ty::ISize, "checked_mul") if args.len() == 1 => c.expr(args[0], &|c, a| {
                    if a.ty != Ty::ISize {
                        return unsup("isize::checked_mul with a non-isize operand", mc.span());
                    }
                    k(c, Tm::app(format!("checked_mul_i64 {} {}", recv.s, a.s), Ty::Opt(Box::new(Ty::ISize))))
                }),
                // the failure of an opaque effect call is not modelled
                (Ty::Unit, "unwrap") if args.is_empty() => k(c, recv.clone()),
                // `.map_err(<conversion function>)`: the error is converted, nothing else happens (a CLOSURE is not accepted)
                (Ty::Res(_), "map_err") if args.len() == 1 && matches!(args[0], Expr::Path(_)) => k(c, recv.clone()),
                (Ty::Ptr, "offset") if args.len() == 1 => c.expr(args[0], &|c, a| {
                    if a.ty != Ty::ISize {
                        return unsup("pointer offset by a non-isize", mc.span());
                    }
                    k(c, Tm::app(format!("ptr_add {} {}", recv.s, a.s), Ty::Ptr))
                }),
                (Ty::Opt(_), "is_none") => k(c, Tm::app(format!("match {} with Some _ => false | None => true end", recv.s), Ty::Bool)),
                (Ty::Opt(_), "is_some") => k(c, Tm::app(format!("match {} with Some _ => true | None => false end", recv.s), Ty::Bool)),
                (Ty::Opt(inner), "unwrap") => {
                    if !c.monadic {
                        return Err(TErr::NeedMonad);
                    }
                    let v = c.fresh("u");
                    let rest = k(c, Tm::atom(v.clone(), (**inner).clone()))?;
                    Ok(format!("match {} with Some {} =>\n{}\n| None => Panic {} end", recv.s, v, rest, line))
                }
                (Ty::Opt(inner), "ok_or") if args.len() == 1 => {
                    let inner = (**inner).clone();
                    c.err_value(args[0], &|c, e| {
                        k(c, Tm::app(format!("match {} with Some x => ROk x | None => RErr {} end", recv.s, e.s), Ty::Res(Box::new(inner.clone()))))
                    })
                }
                // ---- address newtypes: Address trait methods are kernels of group "Address"
                (Ty::Addr, "raw_value") => k(c, Tm { ty: Ty::Int(64), ..recv.clone() }),
                (Ty::Addr, m) => {
                    let key = format!("Address::{}", m);
                    match c.sigs.get(&key).cloned() {
                        Some(mut sig) => {
                            if c.spec.group != "Address" {
                                sig.coq = format!("Gen.Address.{}", sig.coq);
                            }
                            // the receiver is the callee's `self.0`
                            sig.extra.clear();
                            sig.nparams += 1;
                            c.exprs(&args, &|c, t| {
                                let mut all = vec![recv.clone()];
                                all.extend(t);
                                c.call_kernel(&sig, all, line, k)
                            })
                        }
                        None => unsup(&format!("method `{}` on an address (no such Address kernel)", m), mc.span()),
                    }
                }
                // ---- integers
                (Ty::NonZero, "get") => k(c, recv.clone()),
                (t, "bits") if is_int(t) => k(c, recv.clone()),
                (t, "contains") if is_int(t) && args.len() == 1 => c.expr(args[0], &|c, a| {
                    k(c, Tm::app(format!("N.land {} {} =? {}", recv.s, a.s, a.s), Ty::Bool))
                }),
                (t, m) if is_int(t) => {
                    let w64 = is_w64(t);
                    c.exprs(&args, &|c, a| {
                        let two = a.len() == 1 && is_int(&a[0].ty);
                        match m {
                            "checked_add" | "checked_sub" | "checked_mul" if two && w64 =>
                                k(c, Tm::app(format!("MachInt.{} {} {}", m, recv.s, a[0].s), Ty::Opt(Box::new(Ty::Int(64))))),
                            "overflowing_add" | "overflowing_sub" if two && w64 =>
                                k(c, Tm::app(format!("MachInt.{} {} {}", m, recv.s, a[0].s), Ty::Tup(vec![Ty::Int(64), Ty::Bool]))),
                            "wrapping_add" | "wrapping_sub" | "saturating_add" if two && w64 =>
                                k(c, Tm::app(format!("MachInt.{} {} {}", m, recv.s, a[0].s), Ty::Int(64))),
                            "min" | "max" if two => k(c, Tm::app(format!("N.{} {} {}", m, recv.s, a[0].s), recv.ty.clone())),
                            "div_ceil" if two => {
                                let nonzero_lit = a[0].atomic && a[0].s.parse::<u128>().map(|v| v != 0).unwrap_or(false);
                                if matches!(a[0].ty, Ty::NonZero) || nonzero_lit {
                                    k(c, Tm::app(format!("dceil {} {}", recv.s, a[0].s), Ty::Int(64)))
                                } else {
                                    c.bind_op(format!("pdceil {} {} {}", line, recv.s, a[0].s), Ty::Int(64), k)
                                }
                            }
                            _ => unsup(&format!("integer method `{}`", m), mc.span()),
                        }
                    })
                }
                _ => unsup(&format!("method `{}` on `{}`", name, norm(&*mc.receiver)), mc.span()),
            }
        })
    }
}

/// `Ctor(x)` / `Ctor(_)` / `None`: the constructor the pattern covers completely
fn full_ctor(p: &Pat, _newtypes: &[&str]) -> Option<String> {
    let irrefutable = |q: &Pat| match q {
        Pat::Wild(_) => true,
        Pat::Ident(pi) => pi.ident != "None",
        _ => false,
    };
    match p {
        Pat::Paren(pp) => full_ctor(&pp.pat, _newtypes),
        Pat::Ident(pi) if pi.ident == "None" => Some("None".into()),
        Pat::Path(pp) => Some(pp.path.segments.last().unwrap().ident.to_string()),
        Pat::TupleStruct(ts) if ts.elems.len() == 1 && irrefutable(&ts.elems[0]) => Some(ts.path.segments.last().unwrap().ident.to_string()),
        _ => None,
    }
}

/// a statement under `#[cfg(vm_memory_verif)]`: a verification hook, not part of the crate's behaviour
fn is_verif_hook(e: &Expr) -> bool {
    let attrs: &[Attribute] = match e {
        Expr::Call(x) => &x.attrs,
        Expr::MethodCall(x) => &x.attrs,
        Expr::Macro(x) => &x.attrs,
        Expr::Block(x) => &x.attrs,
        Expr::Unsafe(x) => &x.attrs,
        Expr::If(x) => &x.attrs,
        _ => return false,
    };
    attrs.iter().any(|a| a.path().is_ident("cfg") && a.to_token_stream().to_string().contains("vm_memory_verif"))
}

fn strip_paren(e: &Expr) -> &Expr {
    match e {
        Expr::Paren(p) => strip_paren(&p.expr),
        Expr::Group(g) => strip_paren(&g.expr),
        _ => e,
    }
}
