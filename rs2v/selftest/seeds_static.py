#!/usr/bin/env python3
"""Static tie vs. the seeded defects: for every seeded/<name>/patch.diff (or the names given) apply the patch to a
scratch copy of /repo, regenerate the kernels and build every GenEq file; prints `<name> :: <broken lemma> ...`.
Used to compare detection before / after a change of the translator (run it from two worktrees and diff the outputs).
usage: python3 rs2v/selftest/seeds_static.py [-o out.txt] [seed ...]"""
import sys, os, glob, subprocess
ROOT = os.path.dirname(os.path.dirname(os.path.dirname(os.path.abspath(__file__))))
sys.path.insert(0, os.path.join(ROOT, 'lib'))
import rs2v
args = sys.argv[1:]
out = None
if args[:1] == ['-o']:
    out = open(args[1], 'w'); args = args[2:]
SEEDS = os.environ.get('SEEDS_DIR', os.path.join(ROOT, 'seeded'))
names = args or sorted(os.path.basename(d) for d in glob.glob(os.path.join(SEEDS, 'C*')))
COPY = '/root/scratch/%s-seeds-%d/repo' % (os.path.basename(ROOT), os.getpid())
files = sorted('GenEq/' + os.path.basename(f) for f in glob.glob(os.path.join(ROOT, 'coq', 'GenEq', '*.v')))
def emit(l):
    print(l, flush=True)
    if out:
        out.write(l + '\n'); out.flush()
for n in names:
    patch = os.path.join(SEEDS, n, 'patch.diff')
    if not os.path.exists(patch):
        continue
    os.makedirs(COPY, exist_ok=True)
    subprocess.run(['rsync', '-a', '--delete', '--exclude', 'target', '--exclude', '.git', '/repo/', COPY + '/'], check=True)
    r = subprocess.run(['patch', '-p1', '-s', '-f', '-d', COPY, '-i', patch], stdout=subprocess.PIPE, stderr=subprocess.STDOUT)
    if r.returncode != 0:
        emit('%s :: PATCH-DOES-NOT-APPLY' % n)
        continue
    st = rs2v.regenerate(COPY)
    res = rs2v.check_geneq({'geneq': files}, st)
    broken = sorted(set(b.split(' ')[0].replace('geneq:', '') for b in res['broken']))
    emit('%s :: %s' % (n, ' '.join(broken) if broken else '-'))
import shutil
shutil.rmtree(os.path.dirname(COPY), ignore_errors=True)
rs2v.regenerate(os.environ.get('VERIF_REPO', '/repo'))
