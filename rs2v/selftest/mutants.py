#!/usr/bin/env python3
"""Self-test of the STATIC tie: source mutants that must each break a geneq lemma (docs/RS2V.md, self-test tables).
usage: python3 rs2v/selftest/mutants.py [name-prefix ...]      (scratch copy under /root/scratch/<worktree>/mut)
For every mutant: restore the scratch copy of /repo, apply ONE textual replacement (must match exactly once),
regenerate the kernels from the copy, build the GenEq files and name the broken lemmas.  Exit 1 if a mutant
breaks nothing (detection lost).  coq/Gen is regenerated from /repo at the end."""
import sys, os, subprocess
ROOT = os.path.dirname(os.path.dirname(os.path.dirname(os.path.abspath(__file__))))
sys.path.insert(0, os.path.join(ROOT, 'lib'))
import rs2v
COPY = '/root/scratch/%s/mut/repo' % os.path.basename(ROOT)
IO, VM, GM, BM, XEN = 'src/io.rs', 'src/volatile_memory.rs', 'src/guest_memory.rs', 'src/bitmap/backend/atomic_bitmap.rs', 'src/mmap/xen.rs'
G_IO, G_CS, G_G, G_B, G_X = 'GenEq/Io.v', 'GenEq/CopySlice.v', 'GenEq/Guest.v,GenEq/IoGuest.v', 'GenEq/AtomicBitmap.v,GenEq/BitmapConc.v', 'GenEq/Xen.v'
M = [
 ('A1', IO, '                    continue;\n                }\n            }\n\n            break r;', '                    break r;\n                }\n            }\n\n            break r;', G_IO),
 ('A2', IO, 'Ok(bytes_read) => partial_buf = partial_buf.offset(bytes_read)?,', 'Ok(bytes_read) => partial_buf = buf.offset(bytes_read)?,', G_IO),
 ('A3', IO, '                        ErrorKind::WriteZero,\n                        "failed to write whole buffer",\n                    )))\n                }\n                Ok(bytes_written)', '                        ErrorKind::UnexpectedEof,\n                        "failed to write whole buffer",\n                    )))\n                }\n                Ok(bytes_written)', G_IO),
 ('A4', IO, '        let read = unsafe { copy_to_volatile_slice(buf, self.as_ptr(), total) };', '        let read = unsafe { copy_to_volatile_slice(buf, self.as_ptr(), buf.len()) };', G_IO),
 ('A5', IO, '        if buf.len() > self.len() {', '        if buf.len() >= self.len() {', G_IO),
 ('A6', IO, '            self.set_len(len + count);', '            self.set_len(len + copied_len + 1);', G_IO),
 ('A7', IO, '        let len = self.position().min(inner.len() as u64);\n        let n = ReadVolatile::read_volatile', '        let len = self.position();\n        let n = ReadVolatile::read_volatile', G_IO),
 ('A8', IO, '        let n = WriteVolatile::write_volatile(&mut &mut self.get_mut()[(pos as usize)..], buf)?;\n        self.set_position(self.position() + n as u64);', '        let n = WriteVolatile::write_volatile(&mut &mut self.get_mut()[(pos as usize)..], buf)?;\n        self.set_position(pos + n as u64);', G_IO),
 ('A9', IO, '        buf.bitmap().mark_dirty(0, buf.len());\n', '', G_IO),
 ('A10', IO, '    if bytes_written < 0 {', '    if bytes_written <= 0 {', G_IO),
 ('A11', IO, '        if self.write_volatile(buf)? == buf.len() {', '        if self.write_volatile(buf)? <= buf.len() {', G_IO),
 ('B1', VM, 'let align = min(alignment(src as usize), alignment(dst as usize));', 'let align = max(alignment(src as usize), alignment(dst as usize));', G_CS),
 ('B2', VM, '        copy_aligned_slice(4);\n        copy_aligned_slice(2);', '        copy_aligned_slice(2);\n        copy_aligned_slice(4);', G_CS),
 ('B3', VM, '            while left >= min_align {', '            while left > min_align {', G_CS),
 ('B4', VM, '        if total <= size_of::<usize>() {', '        if total < size_of::<usize>() {', G_CS),
 ('B5', VM, '        let count = copy_slice(guard.as_ptr(), src, total);\n        slice.bitmap.mark_dirty(0, count);', '        let count = copy_slice(guard.as_ptr(), src, total);\n        slice.bitmap.mark_dirty(0, total - 1);', G_CS),
 ('B6', VM, '            if align < min_align {', '            if align <= min_align {', G_CS),
 ('B7', VM, '                    dst = dst.add(min_align);', '                    dst = dst.add(1);', G_CS),
 ('B8', VM, '4 => write_volatile(dst_addr as *mut u32, read_volatile(src_addr as *const u32)),', '4 => write_volatile(dst_addr as *mut u32, read_volatile(src_addr as *const u16) as u32),', G_CS),
 ('B9', VM, '2 => write_volatile(dst_addr as *mut u16, read_volatile(src_addr as *const u16)),', '2 | 3 => write_volatile(dst_addr as *mut u16, read_volatile(src_addr as *const u16)),', G_CS),
 ('C1', GM, '            Ok(count) => count == len,', '            Ok(count) => count <= len,', G_G),
 ('C2', GM, '|_, count, _, _| -> Result<usize> { Ok(count) }', '|_, _count, _, _| -> Result<usize> { Ok(0) }', G_G),
 ('C3', GM, '        if total == 0 {\n            Err(Error::InvalidGuestAddress(addr))', '        if total == 0 {\n            Err(Error::InvalidBackendAddress)', G_G),
 ('C4', GM, '        let res = self.write(buf, addr)?;\n        if res != buf.len() {', '        let res = self.write(buf, addr)?;\n        if res > buf.len() {', G_G),
 ('C5', GM, '        let res = self.read_volatile_from(addr, src, count)?;\n        if res != count {\n            return Err(Error::PartialBuffer {\n                expected: count,\n                completed: res,', '        let res = self.read_volatile_from(addr, src, count)?;\n        if res != count {\n            return Err(Error::PartialBuffer {\n                expected: res,\n                completed: count,', G_G),
 ('C6', GM, '            .and_then(|(r, addr)| r.get_slice(addr, count))', '            .and_then(|(r, _addr)| r.get_slice(addr.0.into(), count))', G_G),
 ('C7', GM, '                region.write(&buf[offset..], caddr)', '                region.write(&buf[offset + 1..], caddr)', G_G),
 ('C8', GM, '        let mut total = 0;\n        while let Some(region)', '        let mut total = 1;\n        while let Some(region)', G_G),
 ('C9', GM, '.fold(GuestAddress(0), std::cmp::max)', '.fold(GuestAddress(0), std::cmp::min)', G_G),
 ('C10', 'src/bytes.rs', '        self.write_slice(val.as_slice(), addr)\n    }', '        self.write_slice(&val.as_slice()[1..], addr)\n    }', G_G),
 ('D1', BM, '.map(|u| u.fetch_and(0, Ordering::SeqCst))', '.map(|u| u.fetch_and(1, Ordering::SeqCst))', G_B),
 ('D2', BM, '            it.store(0, Ordering::Release);', '            it.store(1, Ordering::Release);', G_B),
 ('D3', BM, "            size: self.size,\n            byte_size: self.byte_size,\n            page_size: self.page_size,\n        }\n    }\n}\n\nimpl<'a>", "            size: self.size,\n            byte_size: self.size,\n            page_size: self.page_size,\n        }\n    }\n}\n\nimpl<'a>", G_B),
 ('D4', BM, '        self.set_addr_range(offset, len)', '        self.reset_addr_range(offset, len)', G_B),
 ('D5', BM, '        self.set_reset_addr_range(start_addr, len, false);', '        self.set_reset_addr_range(start_addr, len, true);', G_B),
 ('D6', BM, '        RefSlice::new(self, offset)', '        RefSlice::new(self, offset + 1)', G_B),
 ('E1', XEN, '        drop(unix_mmap);\n        self.unmap_ioctl(count as u32, index).unwrap();', '        self.unmap_ioctl(count as u32, index).unwrap();\n        drop(unix_mmap);', G_X),
 ('E2', XEN, 'let index = self.mmap_ioctl(addr, count)?;', 'let index = self.mmap_ioctl(addr, size)?;', G_X),
 ('E3', XEN, 'let base = ((addr.0 & !XEN_GRANT_ADDR_OFF) / page_size()) as u32;', 'let base = (addr.0 / page_size()) as u32;', G_X),
 ('E4', XEN, 'let unix_mmap = MmapUnix::new(size, prot, self.flags, self.as_raw_fd(), index)?;\n\n        Ok((unix_mmap, index))', 'let unix_mmap = MmapUnix::new(size, prot, self.flags, self.as_raw_fd(), index)?;\n\n        Ok((unix_mmap, 0))', G_X),
 # ---- mutants INSIDE what the normal form touches (w1b): private helpers reached through call sites, renamed-able locals,
 # early returns, the inlined lets
 ('N1', VM, '        if ((self.addr as usize) & (alignment - 1)) != 0 {', '        if ((self.addr as usize) & alignment) != 0 {', 'GenEq/Volatile.v'),
 ('N2', BM, '        let last_bit = start_addr.saturating_add(len - 1) / self.page_size;', '        let last_bit = start_addr.saturating_add(len) / self.page_size;', G_B),
 ('N3', 'src/mmap/mod.rs', "            Err(x) if (x > 0 && addr <= self.regions[x - 1].last_addr()) => Some(x - 1),", "            Err(x) if (x > 0 && addr < self.regions[x - 1].last_addr()) => Some(x - 1),", 'GenEq/Mmap.v'),
 ('N4', 'src/mmap/mod.rs', '        index.map(|x| self.regions[x].as_ref())', '        index.map(|x| self.regions[x.saturating_sub(1)].as_ref())', 'GenEq/Mmap.v'),
 ('N5', GM, '            let len = std::cmp::min(cap, (count - total) as GuestUsize);', '            let len = std::cmp::max(cap, (count - total) as GuestUsize);', G_G + ',GenEq/Dirty.v'),
 ('N6', BM, '        if index < self.size {\n            (self.map[index >> 6]', '        if index <= self.size {\n            (self.map[index >> 6]', G_B),
]

# mutants of a REFACTORED tree (docs/benign/pN.diff applied first): the normal form must not hide a real change
# inside a renamed private function, an extracted helper or a rewritten control structure
MP = [
 ('P1a', 'p1', BM, 'let last_page = start_addr.saturating_add(len - 1) / self.page_size;', 'let last_page = start_addr.saturating_add(len) / self.page_size;', G_B),
 ('P1b', 'p1', VM, '        if ((self.addr as usize) & (alignment - 1)) != 0 {', '        if ((self.addr as usize) & alignment) != 0 {', 'GenEq/Volatile.v'),
 ('P1c', 'p1', VM, '            while remaining >= width {', '            while remaining > width {', G_CS),
 ('P1d', 'p1', VM, '        copy_chunks(4);\n        copy_chunks(2);', '        copy_chunks(2);\n        copy_chunks(4);', G_CS),
 ('P1e', 'p1', 'src/mmap/mod.rs', 'Err(pos) if (pos > 0 && addr <= self.regions[pos - 1].last_addr()) => Some(pos - 1),', 'Err(pos) if (pos > 0 && addr <= self.regions[pos - 1].last_addr()) => Some(pos),', 'GenEq/Mmap.v'),
 ('P3a', 'p3', BM, '        if index >= self.size {\n            // Out-of-range', '        if index > self.size {\n            // Out-of-range', G_B),
 ('P3b', 'p3', BM, '            let mask: u64 = 1 << (n & 63);', '            let mask: u64 = 1 << (n & 31);', G_B),
 ('P3c', 'p3', GM, '            let len = cap.min(remaining);', '            let len = cap.max(remaining);', G_G + ',GenEq/Dirty.v'),
 ('P3d', 'p3', GM, '        if res == buf.len() {\n            Ok(())', '        if res <= buf.len() {\n            Ok(())', G_G),
 ('P3e', 'p3', 'src/mmap/mod.rs', '        if self.regions.get(region_index).unwrap().mapping.size() as GuestUsize != size {', '        if self.regions.get(region_index).unwrap().mapping.size() as GuestUsize > size {', 'GenEq/Mmap.v'),
 ('P3f', 'p3', VM, '            None => return Err(Error::OutOfBounds { addr: new_addr }),', '            None => return Err(Error::OutOfBounds { addr: count }),', 'GenEq/Volatile.v'),
 ('P4a', 'p4', BM, '        1 << (index & 63)', '        1 << (index & 31)', G_B),
 ('P4b', 'p4', BM, '        index >> 6\n', '        index >> 5\n', G_B),
 ('P4c', 'p4', VM, '    if mem_end > len {', '    if mem_end >= len {', 'GenEq/Volatile.v'),
 ('P4d', 'p4', IO, 'fn unexpected_eof() -> VolatileMemoryError {\n    VolatileMemoryError::IOError(std::io::Error::new(\n        ErrorKind::UnexpectedEof,', 'fn unexpected_eof() -> VolatileMemoryError {\n    VolatileMemoryError::IOError(std::io::Error::new(\n        ErrorKind::WriteZero,', G_IO),
 ('P4e', 'p4', VM, '        self.len() * self.element_size()\n', '        self.len() + self.element_size()\n', 'GenEq/Volatile.v'),
 ('P4f', 'p4', 'src/mmap/mod.rs', '            Ok(x) => Some(x),\n            // Within the closest', '            Ok(x) => Some(x + 1),\n            // Within the closest', 'GenEq/Mmap.v'),
]

def restore():
    os.makedirs(COPY, exist_ok=True)
    subprocess.run(['rsync', '-a', '--delete', '--exclude', 'target', '--exclude', '.git', '/repo/', COPY + '/'], check=True)
    subprocess.run('find %s/src -name "*.rs" -exec touch {} +' % COPY, shell=True, check=True)

def run(sel):
    lost = []
    for (name, f, old, new, files) in M:
        if sel and not any(name.startswith(s) for s in sel):
            continue
        restore()
        p = os.path.join(COPY, f)
        s = open(p).read()
        if s.count(old) != 1:
            print('===== %s: PATTERN COUNT %d' % (name, s.count(old)))
            lost.append(name)
            continue
        open(p, 'w').write(s.replace(old, new))
        st = rs2v.regenerate(COPY)
        res = rs2v.check_geneq({'geneq': files.split(',')}, st)
        names = [b.split(' ')[0].replace('geneq:', '') for b in res['broken']]
        print('===== %-4s %-34s broken: %s' % (name, f, ', '.join(names) or 'NOTHING'))
        if not res['broken']:
            lost.append(name)
    for (name, patch, f, old, new, files) in MP:
        if sel and not any(name.startswith(s) for s in sel):
            continue
        restore()
        r = subprocess.run(['patch', '-p1', '-s', '-d', COPY, '-i', os.path.join(ROOT, 'docs', 'benign', patch + '.diff')])
        p = os.path.join(COPY, f)
        s = open(p).read()
        if r.returncode != 0 or s.count(old) != 1:
            print('===== %s: patch rc %d, PATTERN COUNT %d' % (name, r.returncode, s.count(old)))
            lost.append(name)
            continue
        open(p, 'w').write(s.replace(old, new))
        st = rs2v.regenerate(COPY)
        res = rs2v.check_geneq({'geneq': files.split(',')}, st)
        names = [b.split(' ')[0].replace('geneq:', '') for b in res['broken']]
        print('===== %-4s %s + %-30s broken: %s' % (name, patch, f, ', '.join(names) or 'NOTHING'))
        if not res['broken']:
            lost.append(name)
    rs2v.regenerate(os.environ.get('VERIF_REPO', '/repo'))
    print('detection lost for: %s' % (', '.join(lost) or 'none'))
    return 1 if lost else 0

if __name__ == '__main__':
    sys.exit(run(sys.argv[1:]))
