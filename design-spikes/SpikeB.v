From Coq Require Import ZArith NArith List Lia Bool Arith.
Import ListNotations.
Open Scope N_scope.
Ltac Zify.zify_post_hook ::= Z.div_mod_to_equations.
Definition div_ceil (a b : N) : N := (a + b - 1) / b.
Record bitmap := { words : list N; size : N; byte_size : N; ps : N }.
Fixpoint upd (l : list N) (i : nat) (f : N -> N) : list N :=
  match l, i with [], _ => [] | x :: t, O => f x :: t | x :: t, S j => x :: upd t j f end.
Definition with_words (b : bitmap) (w : list N) := {| words := w; size := size b; byte_size := byte_size b; ps := ps b |}.
Definition fetch_or (b : bitmap) (n : N) := with_words b (upd (words b) (N.to_nat (n / 64)) (fun w => N.lor w (2 ^ (n mod 64)))).
Definition fetch_andn (b : bitmap) (n : N) := with_words b (upd (words b) (N.to_nat (n / 64)) (fun w => N.ldiff w (2 ^ (n mod 64)))).
Definition is_bit_set (b : bitmap) (i : N) : bool :=
  if i <? size b then N.testbit (nth (N.to_nat (i / 64)) (words b) 0) (i mod 64) else false.
Definition Inv (b : bitmap) : Prop := N.of_nat (length (words b)) = div_ceil (size b) 64.

Lemma upd_length l i f : length (upd l i f) = length l.
Proof. revert i; induction l as [|x t IH]; intros [|i]; cbn; auto. Qed.
Lemma nth_upd l i f j : (i < length l)%nat -> nth j (upd l i f) 0 = if Nat.eqb i j then f (nth i l 0) else nth j l 0.
Proof.
  revert i j; induction l as [|x t IH]; intros i j H; [cbn in H; lia|].
  destruct i, j; cbn; auto. apply IH. cbn in H. lia.
Qed.
Lemma word_in_range b n : Inv b -> n < size b -> (N.to_nat (n / 64) < length (words b))%nat.
Proof. unfold Inv, div_ceil. intros HI Hn. lia. Qed.

Lemma fetch_or_spec b n p : Inv b -> n < size b ->
  is_bit_set (fetch_or b n) p = is_bit_set b p || (p =? n).
Proof.
  intros HI Hn. unfold is_bit_set, fetch_or, with_words; cbn [size words].
  destruct (N.ltb_spec p (size b)) as [Hp|Hp].
  - rewrite nth_upd by (apply word_in_range; assumption).
    destruct (Nat.eqb_spec (N.to_nat (n / 64)) (N.to_nat (p / 64))) as [E|E].
    + rewrite N.lor_spec, N.pow2_bits_eqb. rewrite E. f_equal.
      assert (Hq : n / 64 = p / 64) by lia.
      destruct (N.eqb_spec (n mod 64) (p mod 64)) as [Hm|Hm]; destruct (N.eqb_spec p n) as [Hpn|Hpn]; try reflexivity; exfalso.
      * apply Hpn. rewrite (N.div_mod p 64), (N.div_mod n 64) by lia. rewrite Hq, Hm. reflexivity.
      * subst. apply Hm. reflexivity.
    + destruct (N.eqb_spec p n); [subst; lia|]. rewrite orb_false_r. reflexivity.
  - destruct (N.eqb_spec p n); [lia|reflexivity].
Qed.
Lemma fetch_andn_spec b n p : Inv b -> n < size b ->
  is_bit_set (fetch_andn b n) p = is_bit_set b p && negb (p =? n).
Proof.
  intros HI Hn. unfold is_bit_set, fetch_andn, with_words; cbn [size words].
  destruct (N.ltb_spec p (size b)) as [Hp|Hp]; [|reflexivity].
  rewrite nth_upd by (apply word_in_range; assumption).
  destruct (Nat.eqb_spec (N.to_nat (n / 64)) (N.to_nat (p / 64))) as [E|E].
  - rewrite N.ldiff_spec, N.pow2_bits_eqb. rewrite E. f_equal.
    assert (Hq : n / 64 = p / 64) by lia.
    destruct (N.eqb_spec (n mod 64) (p mod 64)) as [Hm|Hm]; destruct (N.eqb_spec p n) as [Hpn|Hpn]; try reflexivity; exfalso.
    + apply Hpn. rewrite (N.div_mod p 64), (N.div_mod n 64) by lia. rewrite Hq, Hm. reflexivity.
    + subst. apply Hm. reflexivity.
  - destruct (N.eqb_spec p n); [subst; lia|]. rewrite andb_true_r. reflexivity.
Qed.
Lemma fetch_or_inv b n : Inv b -> Inv (fetch_or b n).
Proof. unfold Inv, fetch_or, with_words; cbn. rewrite upd_length. auto. Qed.

(* the range loop: set semantics for every range, incl. the saturating / ignored tail *)
Fixpoint range_loop (cnt : nat) (n : N) (b : bitmap) : bitmap :=
  match cnt with O => b | S c => if size b <=? n then b else range_loop c (n + 1) (fetch_or b n) end.
Lemma range_loop_size cnt : forall n b, size (range_loop cnt n b) = size b.
Proof. induction cnt as [|c IH]; intros n b; cbn [range_loop]; [reflexivity|]. destruct (size b <=? n); [reflexivity|]. rewrite IH. reflexivity. Qed.
Lemma range_loop_spec cnt : forall n b p, Inv b ->
  is_bit_set (range_loop cnt n b) p = is_bit_set b p || ((n <=? p) && (p <? n + N.of_nat cnt) && (p <? size b)).
Proof.
  induction cnt as [|c IH]; intros n b p HI; cbn [range_loop].
  - replace (p <? n + N.of_nat 0) with (p <? n) by (f_equal; lia).
    destruct (N.leb_spec n p); destruct (N.ltb_spec p n); cbn; try lia; rewrite ?orb_false_r; reflexivity.
  - destruct (N.leb_spec (size b) n) as [Hs|Hs].
    + destruct (N.leb_spec n p); destruct (N.ltb_spec p (size b)); cbn; rewrite ?andb_false_r, ?orb_false_r; try reflexivity; lia.
    + rewrite IH by (apply fetch_or_inv; exact HI). rewrite fetch_or_spec by assumption.
      unfold fetch_or, with_words; cbn [size].
      destruct (is_bit_set b p); cbn [orb]; [reflexivity|].
      destruct (N.eqb_spec p n); destruct (N.leb_spec (n+1) p); destruct (N.leb_spec n p);
      destruct (N.ltb_spec p (n + 1 + N.of_nat c)); destruct (N.ltb_spec p (n + N.of_nat (S c)));
      destruct (N.ltb_spec p (size b)); cbn; try reflexivity; lia.
Qed.
Print Assumptions range_loop_spec.
