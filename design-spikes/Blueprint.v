(* Design-round blueprint of the core model definitions (see DESIGN.md Appendix B).
   Not framework code: nothing builds this file. *)
From Coq Require Import ZArith NArith List Lia Bool.
Import ListNotations.
Open Scope N_scope.
Arguments N.add : simpl never. Arguments N.sub : simpl never. Arguments N.mul : simpl never.
Arguments N.div : simpl never. Arguments N.modulo : simpl never.

(* ---------- MachInt ---------- *)
Definition W64 : N := 2^64.
Definition checked_add (a b : N) : option N := if a + b <? W64 then Some (a + b) else None.
Definition checked_sub (a b : N) : option N := if b <=? a then Some (a - b) else None.
Definition overflowing_add (a b : N) : N * bool := ((a + b) mod W64, W64 <=? a + b).
Definition saturating_add (a b : N) : N := N.min (a + b) (W64 - 1).
Definition div_ceil (a b : N) : N := (a + b - 1) / b.
Definition not64 (a : N) : N := W64 - 1 - a.

(* ---------- outcome monad with build mode ---------- *)
Inductive mode := Debug | Release.
Inductive outcome (A : Type) := Val (a : A) | Panic (site : N) | OutOfFuel.
Arguments Val {A}. Arguments Panic {A}. Arguments OutOfFuel {A}.
Definition bind {A B} (x : outcome A) (f : A -> outcome B) : outcome B :=
  match x with Val a => f a | Panic s => Panic s | OutOfFuel => OutOfFuel end.
Notation "'let*' x := e 'in' k" := (bind e (fun x => k)) (at level 200, x pattern, right associativity).
Definition padd (m : mode) (site a b : N) : outcome N :=
  if a + b <? W64 then Val (a + b) else match m with Debug => Panic site | Release => Val ((a + b) mod W64) end.

(* ---------- copy plan (volatile_memory.rs:1309-1406) ---------- *)
Definition alignment (m : mode) (a : N) : outcome N :=
  let* x := padd m 1309 (not64 a) 1 in Val (N.land a x).
Inductive access := Acc (width soff doff : N) | Bulk (total : N).
Fixpoint chunk_loop (fuel : nat) (w off lft : N) : list access * N * N :=
  match fuel with
  | O => ([], off, lft)
  | S f => if w <=? lft
           then let lft1 := lft - w in
                if lft1 =? 0 then ([Acc w off off], off, 0)   (* break before advancing *)
                else let '(l, off', lft2) := chunk_loop f w (off + w) lft1 in (Acc w off off :: l, off', lft2)
           else ([], off, lft)
  end.
Definition copy_aligned (align w : N) (st : list access * N * N) : list access * N * N :=
  let '(acc, off, lft) := st in
  if align <? w then st else let '(l, off', lft1) := chunk_loop 9 w off lft in (acc ++ l, off', lft1).
Definition copy_plan (m : mode) (src dst total : N) : outcome (list access) :=
  if total <=? 8 then
    let* a1 := alignment m src in let* a2 := alignment m dst in
    let align := N.min a1 a2 in
    let '(l, _, _) := copy_aligned align 1 (copy_aligned align 2 (copy_aligned align 4 (copy_aligned align 8 ([], 0, total)))) in
    Val l
  else Val [Bulk total].
Eval vm_compute in copy_plan Debug 4096 8192 8.   (* Val [Acc 8 0 0] *)
Eval vm_compute in copy_plan Debug 4096 8196 8.   (* Val [Acc 4 0 0; Acc 4 4 4] *)
Eval vm_compute in copy_plan Debug 4098 8194 7.   (* Val [Acc 2 0 0; Acc 2 2 2; Acc 2 4 4; Acc 1 6 6] *)
Eval vm_compute in copy_plan Debug 4097 8192 3.   (* three byte accesses *)
Eval vm_compute in copy_plan Debug 4096 8192 0.   (* Val [] *)
Eval vm_compute in copy_plan Debug 0 8192 0.      (* Panic 1309: `!0 + 1` *)
Eval vm_compute in copy_plan Release 0 8192 4.    (* Val []: null source copies nothing *)

(* ---------- AtomicBitmap range op (atomic_bitmap.rs:74-96) ---------- *)
Record bitmap := { words : list N; size : N; byte_size : N; ps : N }.
Definition bm_new (bs p : N) : bitmap :=
  let np := div_ceil bs p in {| words := repeat 0 (N.to_nat (div_ceil np 64)); size := np; byte_size := bs; ps := p |}.
Fixpoint upd (l : list N) (i : nat) (f : N -> N) : list N :=
  match l, i with [], _ => [] | x :: t, O => f x :: t | x :: t, S j => x :: upd t j f end.
Definition with_words (b : bitmap) (w : list N) := {| words := w; size := size b; byte_size := byte_size b; ps := ps b |}.
Definition fetch_or (b : bitmap) (n : N) := with_words b (upd (words b) (N.to_nat (n / 64)) (fun w => N.lor w (2 ^ (n mod 64)))).
Definition fetch_andn (b : bitmap) (n : N) := with_words b (upd (words b) (N.to_nat (n / 64)) (fun w => N.ldiff w (2 ^ (n mod 64)))).
Fixpoint range_loop (cnt : nat) (n : N) (b : bitmap) (set : bool) : bitmap :=
  match cnt with O => b | S c =>
    if size b <=? n then b (* break *) else range_loop c (n + 1) (if set then fetch_or b n else fetch_andn b n) set end.
Definition set_reset_addr_range (b : bitmap) (start len : N) (set : bool) : bitmap :=
  if len =? 0 then b else
  let first := start / ps b in
  let last := saturating_add start (len - 1) / ps b in
  range_loop (N.to_nat (N.min (last + 1) (size b) - first)) first b set.
Definition is_bit_set (b : bitmap) (i : N) : bool :=
  if i <? size b then N.testbit (nth (N.to_nat (i / 64)) (words b) 0) (i mod 64) else false.
Definition dirty_pages (b : bitmap) : list N := filter (is_bit_set b) (map N.of_nat (seq 0 (N.to_nat (size b) + 3))).
Eval vm_compute in dirty_pages (set_reset_addr_range (bm_new 100 7) 13 3 true).      (* [1; 2], as the real crate *)
Eval vm_compute in dirty_pages (set_reset_addr_range (bm_new 1000 7) 440 20 true).   (* [62;63;64;65]: crosses words *)
Eval vm_compute in dirty_pages (set_reset_addr_range (bm_new 100 7) 90 (W64 - 1) true). (* [12;13;14]: tail ignored *)
Eval vm_compute in (size (bm_new 10 3), length (words (bm_new 10 3))).                (* (4, 1) *)
