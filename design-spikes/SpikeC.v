From Coq Require Import ZArith NArith List Lia Bool Arith.
Import ListNotations.
Open Scope N_scope.
Ltac Zify.zify_post_hook ::= Z.div_mod_to_equations.
Definition W64 : N := 2^64.
Definition checked_add (a b : N) : option N := if a + b <? W64 then Some (a + b) else None.
Definition overflowing_add (a b : N) : N * bool := ((a + b) mod W64, W64 <=? a + b).

Record region := { rstart : N; rbytes : list N }.
Definition rlen (r : region) : N := N.of_nat (length (rbytes r)).
Definition rend (r : region) : N := rstart r + rlen r.
Definition contains (r : region) (a : N) : bool := (rstart r <=? a) && (a - rstart r <? rlen r).
Fixpoint find_idx (L : list region) (a : N) (i : nat) : option nat :=
  match L with [] => None | r :: t => if contains r a then Some i else find_idx t a (S i) end.
Fixpoint overwrite (l src : list N) : list N :=
  match l, src with x :: t, s :: u => s :: overwrite t u | _, _ => l end.
Fixpoint write_at (l : list N) (o : nat) (src : list N) {struct o} : list N :=
  match o, l with
  | O, _ => overwrite l src
  | S o', x :: t => x :: write_at t o' src
  | S _, [] => []
  end.
Fixpoint upd_region (L : list region) (i : nat) (f : region -> region) : list region :=
  match L, i with [], _ => [] | r :: t, O => f r :: t | r :: t, S j => r :: upd_region t j f end.
Definition wr (start : N) (src : list N) (r : region) : region :=
  {| rstart := rstart r; rbytes := write_at (rbytes r) (N.to_nat start) src |}.
Inductive res := Ok (n : N) | InvalidGuestAddress (a : N) | CallbackOutOfRange | GuestAddressOverflow | OutOfFuel.
Definition dummy := {| rstart := 0; rbytes := [] |}.

Fixpoint gm_write (fuel : nat) (L : list region) (buf : list N) (addr cur total : N) : list region * res :=
  let count := N.of_nat (length buf) in
  match fuel with O => (L, OutOfFuel) | S f =>
  match find_idx L cur 0 with
  | None => (L, if total =? 0 then InvalidGuestAddress addr else Ok total)
  | Some i =>
      let r := nth i L dummy in
      let start := cur - rstart r in
      let cap := rlen r - start in
      let rest := skipn (N.to_nat total) buf in
      let n := N.min (N.of_nat (length rest)) cap in
      let L' := upd_region L i (wr start (firstn (N.to_nat n) rest)) in
      if n =? 0 then (L', Ok total) else
      match checked_add total n with
      | None => (L', CallbackOutOfRange)
      | Some x =>
        if x <? count then
          let '(c, ovf) := overflowing_add cur n in
          if (c =? 0) || negb ovf then gm_write f L' buf addr c x else (L', GuestAddressOverflow)
        else if x =? count then (L', Ok x) else (L', CallbackOutOfRange)
      end
  end end.

(* ---------- flat view ---------- *)
Definition rd (L : list region) (a : N) : option N :=
  match find_idx L a 0 with
  | Some i => let r := nth i L dummy in nth_error (rbytes r) (N.to_nat (a - rstart r))
  | None => None end.
Definition mapped (L : list region) (a : N) : bool := match find_idx L a 0 with Some _ => true | None => false end.
Definition shape (L : list region) : list (N * N) := map (fun r => (rstart r, rlen r)) L.

(* ---------- list lemmas ---------- *)
Lemma write_at_length l o src : length (write_at l o src) = length l.
Proof.
  revert l; induction o as [|o IH]; intros l.
  - cbn [write_at]. revert src; induction l as [|x t IHl]; intros [|s u]; cbn [overwrite length]; try reflexivity.
    f_equal. apply IHl.
  - destruct l; cbn [write_at length]; [reflexivity|]. f_equal. apply IH.
Qed.
Lemma write_at0_nth l src k : 
  nth_error (write_at l 0 src) k = if (k <? length src)%nat && (k <? length l)%nat then nth_error src k else nth_error l k.
Proof.
  cbn [write_at]. revert src k; induction l as [|x t IH]; intros src k.
  - destruct src; cbn [overwrite length]; rewrite ?andb_false_r; destruct k; reflexivity.
  - destruct src as [|s u]; [destruct k; reflexivity|]. destruct k as [|k]; [reflexivity|].
    cbn [overwrite nth_error length]. rewrite IH. reflexivity.
Qed.
Lemma write_at_nth l o src k :
  nth_error (write_at l o src) k =
  if (o <=? k)%nat && (k <? o + length src)%nat && (k <? length l)%nat then nth_error src (k - o) else nth_error l k.
Proof.
  revert l k; induction o as [|o IH]; intros l k.
  - rewrite write_at0_nth. cbn [Nat.leb andb Nat.add]. rewrite Nat.sub_0_r. reflexivity.
  - destruct l as [|x t]; [cbn; destruct k; cbn; rewrite ?andb_false_r; reflexivity|].
    destruct k as [|k]; [reflexivity|]. cbn [write_at nth_error length]. rewrite IH.
    replace (S o + length src)%nat with (S (o + length src)) by lia. reflexivity.
Qed.

Lemma wr_shape s src r : rstart (wr s src r) = rstart r /\ rlen (wr s src r) = rlen r.
Proof. unfold wr, rlen; cbn. rewrite write_at_length. auto. Qed.
Lemma contains_wr s src r a : contains (wr s src r) a = contains r a.
Proof. unfold contains. destruct (wr_shape s src r) as [-> ->]. reflexivity. Qed.
Lemma find_upd L i s src a : forall k, find_idx (upd_region L i (wr s src)) a k = find_idx L a k.
Proof.
  revert i; induction L as [|r t IH]; intros i k; [destruct i; reflexivity|].
  destruct i as [|i]; cbn [upd_region find_idx]; rewrite ?contains_wr; [reflexivity|]. rewrite IH. reflexivity.
Qed.
Lemma nth_upd_region L i f j : nth j (upd_region L i f) dummy = if Nat.eqb i j then (if (i <? length L)%nat then f (nth i L dummy) else dummy) else nth j L dummy.
Proof.
  revert i j; induction L as [|r t IH]; intros i j.
  - destruct i, j; cbn; try reflexivity; destruct (Nat.eqb i j); reflexivity.
  - destruct i as [|i], j as [|j]; cbn [upd_region nth Nat.eqb]; try reflexivity.
    rewrite IH. cbn [length]. replace (S i <? S (length t))%nat with (i <? length t)%nat by reflexivity. reflexivity.
Qed.
Lemma find_idx_bound L a : forall k i, find_idx L a k = Some i -> (k <= i < k + length L)%nat /\ contains (nth (i - k) L dummy) a = true.
Proof.
  induction L as [|r t IH]; intros k i H; [discriminate|]. cbn [find_idx] in H.
  destruct (contains r a) eqn:E.
  - inversion H; subst. cbn [length]. split; [lia|]. rewrite Nat.sub_diag. exact E.
  - apply IH in H. destruct H as [H1 H2]. cbn [length]. split; [lia|].
    replace (i - k)%nat with (S (i - S k)) by lia. exact H2.
Qed.

(* rd after one region write *)
Lemma rd_upd L i s src a : find_idx L a 0 = Some i \/ find_idx L a 0 <> Some i ->
  rd (upd_region L i (wr s src)) a =
  match find_idx L a 0 with
  | Some j => if Nat.eqb i j then
                 let r := nth i L dummy in let k := N.to_nat (a - rstart r) in
                 if (N.to_nat s <=? k)%nat && (k <? N.to_nat s + length src)%nat && (k <? length (rbytes r))%nat
                 then nth_error src (k - N.to_nat s) else nth_error (rbytes r) k
               else rd L a
  | None => None end.
Proof.
  intros _. unfold rd. rewrite find_upd. destruct (find_idx L a 0) as [j|] eqn:F; [|reflexivity].
  rewrite nth_upd_region. destruct (Nat.eqb_spec i j) as [->|N]; [|reflexivity].
  apply find_idx_bound in F. destruct F as [[_ Hj] _]. cbn in Hj.
  destruct (Nat.ltb_spec j (length L)); [|lia].
  cbn [wr rstart rbytes]. rewrite write_at_nth. reflexivity.
Qed.
Print Assumptions rd_upd.
