From Coq Require Import ZArith NArith List Lia Bool Arith.
Import ListNotations.
Require Import SpikeC.
Open Scope N_scope.

Definition wf (L : list region) : Prop :=
  (forall i, (i < length L)%nat -> 0 < rlen (nth i L dummy) /\ rend (nth i L dummy) <= W64 - 1) /\
  (forall i j a, (i < length L)%nat -> (j < length L)%nat ->
       contains (nth i L dummy) a = true -> contains (nth j L dummy) a = true -> i = j).

Lemma find_idx_complete L a : forall k j, (j < length L)%nat -> contains (nth j L dummy) a = true ->
  exists i, find_idx L a k = Some i.
Proof.
  induction L as [|r t IH]; intros k j Hj Hc; [cbn in Hj; lia|]. cbn [find_idx].
  destruct (contains r a) eqn:E; [eauto|]. destruct j as [|j]; [cbn in Hc; congruence|].
  cbn in Hj, Hc. apply (IH (S k) j); [lia|exact Hc].
Qed.
Lemma find_idx_iff L a i : wf L -> (find_idx L a 0 = Some i <-> (i < length L)%nat /\ contains (nth i L dummy) a = true).
Proof.
  intros [_ Hd]. split.
  - intros H. apply find_idx_bound in H. rewrite Nat.sub_0_r in H. destruct H as [[_ H1] H2]. split; [lia|exact H2].
  - intros [Hi Hc]. destruct (find_idx_complete L a 0%nat i Hi Hc) as [j Hj]. rewrite Hj. f_equal.
    pose proof (find_idx_bound _ _ _ _ Hj) as [[_ B1] B2]. rewrite Nat.sub_0_r in B2. cbn in B1. apply (Hd j i a); auto.
Qed.

Lemma shape_upd L i s src : shape (upd_region L i (wr s src)) = shape L.
Proof.
  revert i; induction L as [|r t IH]; intros [|i]; cbn [upd_region shape map]; try reflexivity.
  - destruct (wr_shape s src r) as [-> ->]. reflexivity.
  - f_equal. apply IH.
Qed.
Lemma nth_shape L i : nth i (shape L) (0,0) = (rstart (nth i L dummy), rlen (nth i L dummy)).
Proof. revert i; induction L as [|r t IH]; intros [|i]; cbn; auto. Qed.
Lemma shape_length L : length (shape L) = length L.
Proof. unfold shape. apply map_length. Qed.
Lemma wf_shape L L' : shape L' = shape L -> wf L -> wf L'.
Proof.
  intros Hs [H1 H2].
  assert (Hl : length L' = length L) by (rewrite <- (shape_length L'), Hs; apply shape_length).
  assert (Hn : forall i, rstart (nth i L' dummy) = rstart (nth i L dummy) /\ rlen (nth i L' dummy) = rlen (nth i L dummy)).
  { intros i. pose proof (nth_shape L' i) as A. rewrite Hs, nth_shape in A. inversion A. auto. }
  assert (Hc : forall i a, contains (nth i L' dummy) a = contains (nth i L dummy) a).
  { intros i a. unfold contains. destruct (Hn i) as [-> ->]. reflexivity. }
  split.
  - intros i Hi. unfold rend. destruct (Hn i) as [-> ->]. apply H1. lia.
  - intros i j a Hi Hj. rewrite !Hc. apply H2; lia.
Qed.

Lemma nth_error_firstn' {A} (l : list A) n k : (k < n)%nat -> nth_error (firstn n l) k = nth_error l k.
Proof. revert n k; induction l as [|x t IH]; intros [|n] [|k] H; cbn; try reflexivity; try lia. apply IH. lia. Qed.
Lemma nth_error_skipn' {A} (l : list A) n k : nth_error (skipn n l) k = nth_error l (n + k).
Proof. revert l; induction n as [|n IH]; intros [|x t]; cbn; try reflexivity. - destruct k; reflexivity. - apply IH. Qed.

Lemma filter_le {A} (f g : A -> bool) l : (forall x, g x = true -> f x = true) -> (length (filter g l) <= length (filter f l))%nat.
Proof. intros H. induction l as [|x t IH]; cbn; [lia|]. destruct (g x) eqn:G; [rewrite (H x G); cbn; lia|]. destruct (f x); cbn; lia. Qed.
Lemma filter_lt {A} (f g : A -> bool) l d i : (forall x, g x = true -> f x = true) -> (i < length l)%nat ->
  f (nth i l d) = true -> g (nth i l d) = false -> (length (filter g l) < length (filter f l))%nat.
Proof.
  intros H. revert i; induction l as [|x t IH]; intros i Hi Hf Hg; [cbn in Hi; lia|].
  destruct i as [|i]; cbn in Hf, Hg |- *.
  - rewrite Hf, Hg. cbn. pose proof (filter_le f g t H). lia.
  - cbn in Hi. specialize (IH i ltac:(lia) Hf Hg). destruct (g x) eqn:G; [rewrite (H x G); cbn; lia|]. destruct (f x); cbn; lia.
Qed.
Definition msr (cur : N) (L : list region) : nat := length (filter (fun p => N.ltb cur (fst p + snd p)) (shape L)).
Lemma mapped_shape L L' x : shape L' = shape L -> mapped L' x = mapped L x.
Proof.
  intros Hs. unfold mapped.
  assert (G : forall k, find_idx L' x k = find_idx L x k).
  { revert L' Hs; induction L as [|r t IH]; intros [|r' t'] Hs k; try discriminate; [reflexivity|].
    cbn in Hs. inversion Hs as [[E1 E2 E3]]. cbn [find_idx]. unfold contains. rewrite E1, E2. destruct (_ && _); [reflexivity|]. apply IH. exact E3. }
  rewrite G. reflexivity.
Qed.

Definition count_of (buf : list N) := N.of_nat (length buf).

(* the specification of one guest write, pointwise, relative to the loop head (cur,total) *)
Definition post (L0 L' : list region) (buf : list N) (cur total k' : N) : Prop :=
  (forall x, cur <= x < cur + k' -> mapped L0 x = true) /\
  (forall x, rd L' x = if (cur <=? x) && (x <? cur + k') then nth_error buf (N.to_nat (total + (x - cur))) else rd L0 x) /\
  shape L' = shape L0.

Lemma contains_range r a : contains r a = true <-> rstart r <= a < rend r.
Proof. unfold contains, rend. destruct (N.leb_spec (rstart r) a); destruct (N.ltb_spec (a - rstart r) (rlen r)); cbn; split; intros; try discriminate; try lia; auto. Qed.

Lemma gm_write_gen : forall fuel L0 buf addr cur total,
  wf L0 -> count_of buf < W64 -> cur < W64 ->
  (total < count_of buf \/ total = 0) ->
  (msr cur L0 < fuel)%nat ->
  let '(L', r) := gm_write fuel L0 buf addr cur total in
  exists k', total + k' <= count_of buf /\ post L0 L' buf cur total k' /\
    (total + k' = count_of buf \/ mapped L0 (cur + k') = false \/ cur + k' = W64) /\
    r = (if total + k' =? 0 then (if mapped L0 cur then Ok 0 else InvalidGuestAddress addr) else Ok (total + k')).
Proof.
  induction fuel as [|f IH]; intros L0 buf addr cur total Hwf Hcnt Hcur Htot Hfuel; [cbn in Hfuel; lia|].
  cbn [gm_write]. fold (count_of buf).
  destruct (find_idx L0 cur 0) as [i|] eqn:F.
  2:{ (* hole at cur *)
    exists 0. assert (M : mapped L0 cur = false) by (unfold mapped; rewrite F; reflexivity).
    split; [lia|]. split; [|split].
    - split; [intros; lia|]. split; [|reflexivity]. intros x.
      destruct (N.leb_spec cur x); destruct (N.ltb_spec x (cur + 0)); cbn; try reflexivity; lia.
    - right; left. rewrite N.add_0_r. exact M.
    - rewrite N.add_0_r, M. destruct (N.eqb_spec total 0); reflexivity. }
  pose proof (proj1 (find_idx_iff L0 cur i Hwf) F) as [Hi Hc].
  set (r := nth i L0 dummy) in *.
  apply contains_range in Hc. destruct (proj1 Hwf i Hi) as [Hpos Hend]. fold r in Hpos, Hend.
  assert (Hskip : N.of_nat (length (skipn (N.to_nat total) buf)) = count_of buf - total).
  { rewrite skipn_length. unfold count_of. lia. }
  rewrite Hskip.
  set (cap := rlen r - (cur - rstart r)).
  assert (Hcap : cur + cap = rend r /\ 0 < cap) by (unfold cap, rend in *; lia).
  set (n := N.min (count_of buf - total) cap).
  set (src := firstn (N.to_nat n) (skipn (N.to_nat total) buf)).
  assert (Hsrc : length src = N.to_nat n).
  { unfold src. rewrite firstn_length, skipn_length. unfold n, count_of. lia. }
  set (L1 := upd_region L0 i (wr (cur - rstart r) src)).
  assert (Hshape : shape L1 = shape L0) by apply shape_upd.
  assert (M0 : mapped L0 cur = true) by (unfold mapped; rewrite F; reflexivity).
  (* memory after this region write *)
  assert (Hrd : forall x, rd L1 x = if (cur <=? x) && (x <? cur + n) then nth_error buf (N.to_nat (total + (x - cur))) else rd L0 x).
  { intros x. unfold L1. rewrite rd_upd by (destruct (find_idx L0 x 0) as [j|]; [destruct (Nat.eq_dec j i); [left; congruence|right; congruence]|right; discriminate]).
    destruct (find_idx L0 x 0) as [j|] eqn:Fx.
    - destruct (Nat.eqb_spec i j) as [<-|Nij].
      + fold r. pose proof (proj1 (find_idx_iff L0 x i Hwf) Fx) as [_ Hcx]. fold r in Hcx. apply contains_range in Hcx.
        rewrite Hsrc. unfold rd. rewrite Fx. fold r.
        assert (Hlen : N.of_nat (length (rbytes r)) = rlen r) by reflexivity.
        destruct (N.leb_spec cur x); destruct (N.ltb_spec x (cur + n)); cbn [andb].
        * replace ((N.to_nat (cur - rstart r) <=? N.to_nat (x - rstart r))%nat) with true by (symmetry; apply Nat.leb_le; lia).
          replace ((N.to_nat (x - rstart r) <? N.to_nat (cur - rstart r) + N.to_nat n)%nat) with true by (symmetry; apply Nat.ltb_lt; lia).
          replace ((N.to_nat (x - rstart r) <? length (rbytes r))%nat) with true by (symmetry; apply Nat.ltb_lt; unfold rend in *; lia).
          cbn [andb]. unfold src. rewrite nth_error_firstn' by lia. rewrite nth_error_skipn'. f_equal. lia.
        * replace ((N.to_nat (x - rstart r) <? N.to_nat (cur - rstart r) + N.to_nat n)%nat) with false by (symmetry; apply Nat.ltb_ge; lia).
          rewrite andb_false_r. reflexivity.
        * replace ((N.to_nat (cur - rstart r) <=? N.to_nat (x - rstart r))%nat) with false by (symmetry; apply Nat.leb_gt; lia).
          reflexivity.
        * replace ((N.to_nat (cur - rstart r) <=? N.to_nat (x - rstart r))%nat) with false by (symmetry; apply Nat.leb_gt; lia).
          reflexivity.
      + (* x belongs to another region: outside [cur, cur+n) *)
        destruct (N.leb_spec cur x); destruct (N.ltb_spec x (cur + n)); cbn [andb]; try reflexivity.
        exfalso. apply Nij. symmetry. pose proof (proj1 (find_idx_iff L0 x j Hwf) Fx) as [Hj Hcj].
        apply (proj2 Hwf j i x Hj Hi Hcj). apply contains_range. fold r. unfold n in *. lia.
    - assert (R0 : rd L0 x = None) by (unfold rd; rewrite Fx; reflexivity). rewrite R0.
      destruct (N.leb_spec cur x); destruct (N.ltb_spec x (cur + n)); cbn [andb]; try reflexivity.
      exfalso. destruct (find_idx_complete L0 x 0%nat i Hi) as [j Hj]; [|congruence].
      apply contains_range. fold r. unfold n in *. lia. }
  assert (Hmap : forall x, cur <= x < cur + n -> mapped L0 x = true).
  { intros x Hx. unfold mapped. destruct (find_idx_complete L0 x 0%nat i Hi) as [j ->]; [|reflexivity].
    apply contains_range. fold r. unfold n in *. lia. }
  destruct (N.eqb_spec n 0) as [Hn0|Hn0].
  { (* nothing to write: count = total = 0 *)
    exists 0. assert (total = 0 /\ count_of buf = 0) as [-> Hc0] by (unfold n in *; lia).
    split; [lia|]. split; [|split].
    - split; [intros; lia|]. split; [|exact Hshape]. intros x. rewrite Hrd, Hn0. reflexivity.
    - left. lia.
    - cbn. rewrite M0. reflexivity. }
  unfold checked_add. destruct (N.ltb_spec (total + n) W64) as [_|Hov]; [|unfold n in *; lia].
  destruct (N.ltb_spec (total + n) (count_of buf)) as [Hlt|Hge].
  - (* more to write: this chunk filled the region tail *)
    assert (Hncap : n = cap) by (unfold n in *; lia).
    unfold overflowing_add. rewrite N.mod_small by lia.
    replace (W64 <=? cur + n) with false by (symmetry; apply N.leb_gt; lia). rewrite orb_true_r.
    specialize (IH L1 buf addr (cur + n) (total + n) (wf_shape _ _ Hshape Hwf) Hcnt ltac:(lia) ltac:(left; lia)).
    assert (Hf' : (msr (cur + n) L1 < f)%nat).
    { unfold msr in *. rewrite Hshape.
      assert (Hlt' : (length (filter (fun p => N.ltb (cur + n) (fst p + snd p)) (shape L0)) < length (filter (fun p => N.ltb cur (fst p + snd p)) (shape L0)))%nat).
      { apply (filter_lt _ _ _ (0,0) i).
        - intros p Hp. apply N.ltb_lt in Hp. apply N.ltb_lt. lia.
        - rewrite shape_length. exact Hi.
        - rewrite nth_shape. fold r. cbn [fst snd]. apply N.ltb_lt. unfold rend in *. lia.
        - rewrite nth_shape. fold r. cbn [fst snd]. apply N.ltb_ge. unfold rend in *. lia. }
      lia. }
    specialize (IH Hf').
    destruct (gm_write f L1 buf addr (cur + n) (total + n)) as [L2 res]. destruct IH as (k2 & Hk2 & (P1 & P2 & P3) & Hmax & Hres).
    exists (n + k2). split; [lia|]. split; [|split].
    + split; [|split].
      * intros x Hx. destruct (N.lt_ge_cases x (cur + n)); [apply Hmap; lia|].
        specialize (P1 x ltac:(lia)). rewrite <- (mapped_shape L0 L1 x Hshape). exact P1.
      * intros x. rewrite P2, Hrd.
        destruct (N.leb_spec (cur + n) x); destruct (N.ltb_spec x (cur + n + k2)); destruct (N.leb_spec cur x); destruct (N.ltb_spec x (cur + (n + k2)));
        destruct (N.ltb_spec x (cur + n)); cbn [andb]; try reflexivity; try lia. f_equal. lia.
      * rewrite P3. exact Hshape.
    + replace (cur + (n + k2)) with (cur + n + k2) by lia. replace (total + (n + k2)) with (total + n + k2) by lia.
      rewrite <- (mapped_shape L0 L1 _ Hshape). exact Hmax.
    + rewrite Hres. replace (total + n + k2) with (total + (n + k2)) by lia.
      destruct (N.eqb_spec (total + (n + k2)) 0); [lia|reflexivity].
  - (* the buffer is exhausted here *)
    assert (Hx : total + n = count_of buf) by (unfold n in *; lia).
    rewrite Hx, N.eqb_refl. exists n. split; [lia|]. split; [|split].
    + split; [exact Hmap|]. split; [exact Hrd|exact Hshape].
    + left. exact Hx.
    + rewrite Hx. destruct (N.eqb_spec (count_of buf) 0); [lia|reflexivity].
Qed.
Print Assumptions gm_write_gen.
