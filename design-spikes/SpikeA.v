From Coq Require Import ZArith NArith List Lia Bool.
Open Scope N_scope.
Ltac Zify.zify_post_hook ::= Z.div_mod_to_equations.
Definition W64 : N := 2^64.

(* lowest set bit, by recursion on the binary representation *)
Fixpoint lowp (p : positive) : N := match p with xO q => 2 * lowp q | _ => 1 end.
Definition low (a : N) : N := match a with 0 => 0 | Npos p => lowp p end.

Lemma land_double a b : N.land (2*a) (2*b) = 2 * N.land a b.
Proof. destruct a as [|p], b as [|q]; cbn; try reflexivity; try (destruct (Pos.land p q); reflexivity). Qed.
Lemma land_odd a b : N.land (2*a+1) (2*b+1) = 2 * N.land a b + 1.
Proof. destruct a as [|p], b as [|q]; cbn; try reflexivity; try (destruct (Pos.land p q); reflexivity). Qed.

Lemma land_compl a n : a < 2^n -> N.land a (2^n - 1 - a) = 0.
Proof.
  intros H. destruct (N.eq_dec a 0) as [->|Hz]; [apply N.land_0_l|].
  assert (Hl : N.log2 a < n) by (apply N.log2_lt_pow2; lia).
  rewrite <- (N.land_lnot_diag_low a n Hl). f_equal.
  rewrite N.lnot_sub_low by exact Hl. rewrite N.ones_equiv. lia.
Qed.

Lemma align_low_pos p : forall n, Npos p < 2^n -> N.land (Npos p) (2^n - Npos p) = lowp p.
Proof.
  induction p as [q IH|q IH|]; intros n H.
  - (* 2q+1 *) destruct n as [|n] using N.peano_ind; [cbn in H; lia|].
    rewrite N.pow_succ_r' in *.
    replace (N.pos q~1) with (2 * N.pos q + 1) in * by reflexivity.
    replace (2 * 2^n - (2 * N.pos q + 1)) with (2 * (2^n - 1 - N.pos q) + 1) by lia.
    rewrite land_odd, land_compl by lia. reflexivity.
  - destruct n as [|n] using N.peano_ind; [cbn in H; lia|].
    rewrite N.pow_succ_r' in *.
    replace (N.pos q~0) with (2 * N.pos q) in * by reflexivity.
    replace (2 * 2^n - 2 * N.pos q) with (2 * (2^n - N.pos q)) by lia.
    rewrite land_double, IH by lia. reflexivity.
  - destruct n as [|n] using N.peano_ind; [cbn in H; lia|].
    rewrite N.pow_succ_r' in *.
    replace (2 * 2^n - 1) with (2 * (2^n - 1) + 1) by (assert (0 < 2^n) by (apply N.neq_0_lt_0, N.pow_nonzero; lia); lia).
    change 1 with (2*0+1) at 1. rewrite land_odd, N.land_0_l. reflexivity.
Qed.

Definition alignment (a : N) : N := N.land a ((W64 - 1 - a + 1) mod W64).
Theorem alignment_low a : 0 < a < W64 -> alignment a = low a.
Proof.
  intros [H0 H1]. unfold alignment. destruct a as [|p]; [lia|].
  replace ((W64 - 1 - N.pos p + 1) mod W64) with (W64 - N.pos p).
  - apply (align_low_pos p 64 H1).
  - rewrite N.mod_small; lia.
Qed.

(* what the copy loop needs: comparisons of the alignment with 2,4,8 are divisibility tests *)
Lemma lowp_pos p : 0 < lowp p.
Proof. induction p; cbn [lowp]; lia. Qed.
Lemma lowp_dvd p k : (2^k <=? lowp p) = (N.pos p mod 2^k =? 0).
Proof.
  revert p. induction k as [|k IHk] using N.peano_ind; intros p.
  - rewrite N.pow_0_r, N.mod_1_r. pose proof (lowp_pos p). destruct (N.leb_spec 1 (lowp p)); cbn; lia.
  - rewrite N.pow_succ_r'. assert (0 < 2^k) by (apply N.neq_0_lt_0, N.pow_nonzero; lia).
    destruct p as [q|q|].
    + cbn [lowp]. replace (N.pos q~1) with (2 * N.pos q + 1) by reflexivity.
      rewrite N.mod_mul_r by lia.
      replace ((2 * N.pos q + 1) mod 2) with 1 by (rewrite N.add_comm, N.mul_comm, N.mod_add by lia; reflexivity).
      destruct (N.leb_spec (2*2^k) 1); destruct (N.eqb_spec (1 + 2 * (((2 * N.pos q + 1) / 2) mod 2^k)) 0); try lia; reflexivity.
    + cbn [lowp]. replace (N.pos q~0) with (2 * N.pos q) by reflexivity.
      rewrite N.mul_mod_distr_l by lia. specialize (IHk q).
      destruct (N.leb_spec (2^k) (lowp q)); destruct (N.eqb_spec (N.pos q mod 2^k) 0); try discriminate;
      destruct (N.leb_spec (2*2^k) (2*lowp q)); destruct (N.eqb_spec (2 * (N.pos q mod 2^k)) 0); try lia; reflexivity.
    + cbn [lowp]. rewrite N.mod_small by lia. destruct (N.leb_spec (2*2^k) 1); cbn; lia.
Qed.

Theorem alignment_ge_iff a k : 0 < a < W64 -> (2^k <=? alignment a) = (a mod 2^k =? 0).
Proof. intros H. rewrite alignment_low by exact H. destruct a; [lia|]. apply lowp_dvd. Qed.
Print Assumptions alignment_ge_iff.
