// C13: reading from a File into volatile memory must move the same bytes, return the same count and leave the file
// at the same position as std::io::Read::read with an ordinary buffer of the same length (3 MiB here).
use std::io::{Read, Seek, SeekFrom, Write};
use vm_memory::{ReadVolatile, VolatileSlice, WriteVolatile};

fn main() {
    let len = 3 << 20;
    let path = std::env::temp_dir().join(format!("rt4-c13-3-{}", std::process::id()));
    let mut f = std::fs::OpenOptions::new().read(true).write(true).create(true).truncate(true).open(&path).unwrap();
    let data: Vec<u8> = (0..len).map(|i| (i % 251) as u8).collect();
    f.write_all(&data).unwrap();
    // read
    f.seek(SeekFrom::Start(0)).unwrap();
    let mut b = vec![0u8; len];
    let n_std = f.read(&mut b).unwrap();
    let p_std = f.stream_position().unwrap();
    f.seek(SeekFrom::Start(0)).unwrap();
    let mut m = vec![0u8; len];
    let n_vm = f.read_volatile(&mut VolatileSlice::from(&mut m[..])).unwrap();
    let p_vm = f.stream_position().unwrap();
    println!("read : std -> {} (pos {}), read_volatile -> {} (pos {})", n_std, p_std, n_vm, p_vm);
    // write
    f.seek(SeekFrom::Start(0)).unwrap();
    let w_std = f.write(&data).unwrap();
    f.seek(SeekFrom::Start(0)).unwrap();
    let mut src = data.clone();
    let w_vm = f.write_volatile(&VolatileSlice::from(&mut src[..])).unwrap();
    println!("write: std -> {}, write_volatile -> {}", w_std, w_vm);
    let _ = std::fs::remove_file(&path);
    if n_std != n_vm || p_std != p_vm || b != m || w_std != w_vm {
        eprintln!("VIOLATION: File adapter does not transfer like std::io::Read / Write for a 3 MiB buffer");
        std::process::exit(1);
    }
}
