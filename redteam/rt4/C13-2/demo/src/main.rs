// C13: WriteVolatile for Stdout must behave like ONE std::io::Write::write on the same descriptor:
// same bytes moved, same count returned.  Stdout is redirected to a non-blocking pipe (64 KiB capacity);
// a 100 KiB write is therefore SHORT: write(2) accepts 65536 bytes and returns that count.
use std::io::Write;
use std::os::fd::FromRawFd;
use vm_memory::{VolatileSlice, WriteVolatile};

fn nb_pipe() -> (i32, i32) {
    let mut fds = [0i32; 2];
    assert_eq!(unsafe { libc::pipe2(fds.as_mut_ptr(), libc::O_NONBLOCK) }, 0);
    (fds[0], fds[1])
}

fn main() {
    let len = 100 * 1024;
    // std twin: a File around a pipe of the same kind
    let (_r1, w1) = nb_pipe();
    let mut f = unsafe { std::fs::File::from_raw_fd(w1) };
    let data = vec![0x41u8; len];
    let std_res = f.write(&data).map_err(|e| e.kind());
    // adapter: Stdout redirected to an identical pipe
    let (r2, w2) = nb_pipe();
    assert!(unsafe { libc::dup2(w2, 1) } == 1);
    let mut mem = vec![0x41u8; len];
    let vs = VolatileSlice::from(&mut mem[..]);
    let vm_res = std::io::stdout().write_volatile(&vs).map_err(|e| format!("{:?}", e));
    let mut queued: libc::c_int = 0;
    unsafe { libc::ioctl(r2, libc::FIONREAD, &mut queued) };
    eprintln!("std Write::write -> {:?}; Stdout::write_volatile -> {:?} (bytes in the pipe: {})", std_res, vm_res, queued);
    let same = match (&std_res, &vm_res) {
        (Ok(a), Ok(b)) => a == b && *b as i32 == queued,
        _ => false,
    };
    if !same {
        eprintln!("VIOLATION: Stdout adapter does not return the count std::io::Write::write returns");
        std::process::exit(1);
    }
}
