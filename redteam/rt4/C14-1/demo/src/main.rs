// C14: write_all_volatile_to must return success precisely when the full count was transferred; a writer that takes
// 3 bytes per call can take all 10 bytes, so the exact form has to keep going and succeed, handing over every byte once.
use vm_memory::bitmap::BitmapSlice;
use vm_memory::{Bytes, GuestAddress, GuestMemory, GuestMemoryMmap, VolatileMemoryError, VolatileSlice, WriteVolatile};

struct Short(Vec<u8>);
impl WriteVolatile for Short {
    fn write_volatile<B: BitmapSlice>(&mut self, buf: &VolatileSlice<B>) -> Result<usize, VolatileMemoryError> {
        let k = buf.len().min(3);
        let mut tmp = vec![0u8; k];
        buf.subslice(0, k)?.copy_to(&mut tmp[..]);
        self.0.extend_from_slice(&tmp);
        Ok(k)
    }
}

fn main() {
    let gm = GuestMemoryMmap::<()>::from_ranges(&[(GuestAddress(0x1000), 16)]).unwrap();
    let data: Vec<u8> = (1..=16).collect();
    gm.write_slice(&data, GuestAddress(0x1000)).unwrap();
    let region = gm.find_region(GuestAddress(0x1000)).unwrap();
    let mut w = Short(vec![]);
    let r = region.write_all_volatile_to(vm_memory::MemoryRegionAddress(2), &mut w, 10);
    println!("region.write_all_volatile_to -> {:?}, sink {:?}", r, w.0);
    let mut w2 = Short(vec![]);
    let r2 = gm.write_all_volatile_to(GuestAddress(0x1002), &mut w2, 10);
    println!("memory.write_all_volatile_to -> {:?}, sink {:?}", r2, w2.0);
    if r.is_err() || r2.is_err() || w.0 != data[2..12] || w2.0 != data[2..12] {
        eprintln!("VIOLATION: the exact form gave up after a short write");
        std::process::exit(1);
    }
}
