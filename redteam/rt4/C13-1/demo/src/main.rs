// C13: ReadVolatile for TcpStream must behave like std::io::Read::read on the same stream:
// a read returns what is available (3 bytes), it does not wait for the buffer to fill.
use std::io::{Read, Write};
use std::net::{TcpListener, TcpStream};
use std::time::Duration;
use vm_memory::{ReadVolatile, VolatileSlice};

fn pair() -> (TcpStream, std::thread::JoinHandle<()>) {
    let l = TcpListener::bind("127.0.0.1:0").unwrap();
    let addr = l.local_addr().unwrap();
    let h = std::thread::spawn(move || {
        let (mut s, _) = l.accept().unwrap();
        s.set_nodelay(true).unwrap();
        s.write_all(&[1, 2, 3]).unwrap();
        std::thread::sleep(Duration::from_millis(400));
        s.write_all(&[4, 5, 6, 7, 8]).unwrap();
        std::thread::sleep(Duration::from_millis(200));
    });
    (TcpStream::connect(addr).unwrap(), h)
}

fn main() {
    // std twin
    let (mut c, h) = pair();
    std::thread::sleep(Duration::from_millis(100));
    let mut b = [0u8; 8];
    let n_std = c.read(&mut b).unwrap();
    drop(c);
    h.join().unwrap();
    // adapter
    let (mut c, h) = pair();
    std::thread::sleep(Duration::from_millis(100));
    let mut m = [0u8; 8];
    let n_vm = c.read_volatile(&mut VolatileSlice::from(&mut m[..])).unwrap();
    drop(c);
    h.join().unwrap();
    println!("std read -> {} {:?}; read_volatile -> {} {:?}", n_std, &b[..n_std], n_vm, &m[..n_vm]);
    if n_std != n_vm || b != m {
        eprintln!("VIOLATION: TcpStream adapter does not transfer like std::io::Read");
        std::process::exit(1);
    }
}
