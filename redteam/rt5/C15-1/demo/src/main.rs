// C15 (Xen build): "For a shared file-backed region, byte i of the region is byte offset+i of the file
// in both directions" - for the file-backed regions the Xen build makes through
// GuestRegionMmap::from_range / GuestMemoryMmap::from_ranges_with_files (MmapRange::new_unix),
// documented (standard build) as "a shared file mapping".
use std::fs::File;
use std::os::unix::fs::FileExt;
use std::os::unix::io::FromRawFd;
use vm_memory::{Bytes, FileOffset, GuestAddress, GuestMemory, GuestMemoryMmap, GuestMemoryRegion};

const PAGE: usize = 4096;

fn main() {
    let fd = unsafe { libc::memfd_create(b"demo\0".as_ptr() as *const libc::c_char, 0) };
    assert!(fd >= 0);
    let f = unsafe { File::from_raw_fd(fd) };
    f.set_len(2 * PAGE as u64).unwrap();
    f.write_all_at(&[0x11; 64], PAGE as u64).unwrap();
    let fo = FileOffset::new(f.try_clone().unwrap(), PAGE as u64);
    let gm = GuestMemoryMmap::<()>::from_ranges_with_files(&[(GuestAddress(0x1000), PAGE, Some(fo))]).expect("accepted request");
    let r = gm.find_region(GuestAddress(0x1000)).unwrap();
    let mut bad = 0;
    if r.flags() & libc::MAP_SHARED == 0 {
        eprintln!("the file-backed region is not a shared mapping: flags {:#x}", r.flags());
        bad += 1;
    }
    // file -> region
    let mut b = [0u8; 8];
    gm.read_slice(&mut b, GuestAddress(0x1000)).unwrap();
    if b != [0x11; 8] {
        eprintln!("region byte 0 shows {:#x}, file byte offset+0 is 0x11", b[0]);
        bad += 1;
    }
    // region -> file
    gm.write_slice(&[0xEE; 8], GuestAddress(0x1000 + 16)).unwrap();
    let mut back = [0u8; 8];
    f.read_exact_at(&mut back, PAGE as u64 + 16).unwrap();
    if back != [0xEE; 8] {
        eprintln!("a write to region byte 16 did not reach file byte offset+16 (file shows {:#x})", back[0]);
        bad += 1;
    }
    // file -> region after the region was written (a private copy no longer follows the file)
    f.write_all_at(&[0x77; 8], PAGE as u64 + 32).unwrap();
    gm.read_slice(&mut b, GuestAddress(0x1000 + 32)).unwrap();
    if b != [0x77; 8] {
        eprintln!("a write to file byte offset+32 is not seen at region byte 32 (region shows {:#x})", b[0]);
        bad += 1;
    }
    if bad != 0 {
        std::process::exit(1);
    }
    println!("ok: shared in both directions");
}
