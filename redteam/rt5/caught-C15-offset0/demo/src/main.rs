// C15 (Xen build): "For a shared file-backed region, byte i of the region is byte offset+i of the file
// in both directions."  A unix-type region of the Xen build over a file at a NON-ZERO offset.
use std::fs::File;
use std::os::unix::fs::FileExt;
use std::os::unix::io::FromRawFd;
use vm_memory::{Bytes, FileOffset, GuestAddress, GuestRegionMmap, MemoryRegionAddress, MmapRange, MmapRegion, MmapXenFlags};

const PAGE: usize = 4096;

fn main() {
    let fd = unsafe { libc::memfd_create(b"demo\0".as_ptr() as *const libc::c_char, 0) };
    assert!(fd >= 0);
    let f = unsafe { File::from_raw_fd(fd) };
    f.set_len(4 * PAGE as u64).unwrap();
    for p in 0..4u8 {
        f.write_all_at(&vec![0x10 + p; PAGE], p as u64 * PAGE as u64).unwrap();
    }
    let offset = 2 * PAGE as u64;
    let fo = FileOffset::new(f.try_clone().unwrap(), offset);
    let range = MmapRange::new(PAGE, Some(fo), GuestAddress(0x1000), MmapXenFlags::UNIX.bits(), 0);
    let region = MmapRegion::<()>::from_range(range).expect("accepted request");
    assert_eq!(region.file_offset().unwrap().start(), offset); // reports the requested offset
    let g = GuestRegionMmap::new(region, GuestAddress(0x1000)).unwrap();
    let mut bad = 0;
    // file -> region
    let mut b = [0u8; 8];
    g.read_slice(&mut b, MemoryRegionAddress(0)).unwrap();
    if b != [0x12; 8] {
        eprintln!("region byte 0 shows {:#x}, file byte offset+0 is 0x12", b[0]);
        bad += 1;
    }
    // region -> file
    g.write_slice(&[0xEE; 8], MemoryRegionAddress(16)).unwrap();
    let mut back = [0u8; 8];
    f.read_exact_at(&mut back, offset + 16).unwrap();
    if back != [0xEE; 8] {
        eprintln!("a write to region byte 16 did not reach file byte offset+16 (file shows {:#x})", back[0]);
        bad += 1;
    }
    let mut first = [0u8; 8];
    f.read_exact_at(&mut first, 16).unwrap();
    if first != [0x10; 8] {
        eprintln!("... it overwrote file byte 16 of page 0 instead");
        bad += 1;
    }
    if bad != 0 {
        std::process::exit(1);
    }
    println!("ok: region bytes are the file bytes at offset+i in both directions");
}
