// C15 (standard build): an accepted request "yields a region that reports exactly the requested size,
// protection, flags ..." and BUILDS WHAT WAS ASKED.  A PROT_NONE region (address space reserved for
// guest memory that is not accessible yet) must be a PROT_NONE mapping, not only report prot() == 0.
use vm_memory::mmap::MmapRegionBuilder;
use vm_memory::MmapRegion;

/// permission column of the /proc/self/maps line covering `addr`
fn perms(addr: usize) -> String {
    let maps = std::fs::read_to_string("/proc/self/maps").unwrap();
    for l in maps.lines() {
        let mut it = l.split_whitespace();
        let range = it.next().unwrap();
        let p = it.next().unwrap();
        let (a, b) = range.split_once('-').unwrap();
        let (a, b) = (usize::from_str_radix(a, 16).unwrap(), usize::from_str_radix(b, 16).unwrap());
        if a <= addr && addr < b {
            return p.to_string();
        }
    }
    "unmapped".into()
}

fn want(prot: i32) -> String {
    format!(
        "{}{}{}p",
        if prot & libc::PROT_READ != 0 { 'r' } else { '-' },
        if prot & libc::PROT_WRITE != 0 { 'w' } else { '-' },
        if prot & libc::PROT_EXEC != 0 { 'x' } else { '-' }
    )
}

fn main() {
    let mut bad = 0;
    let flags = libc::MAP_ANONYMOUS | libc::MAP_PRIVATE | libc::MAP_NORESERVE;
    for prot in [libc::PROT_NONE, libc::PROT_READ, libc::PROT_READ | libc::PROT_WRITE] {
        let regions: [(&str, MmapRegion<()>); 2] = [
            ("builder", MmapRegionBuilder::<()>::new(0x3000).with_mmap_prot(prot).with_mmap_flags(flags).build().unwrap()),
            ("MmapRegion::build", MmapRegion::<()>::build(None, 0x3000, prot, flags).unwrap()),
        ];
        for (how, r) in regions.iter() {
            assert_eq!(r.prot(), prot);
            let got = perms(r.as_ptr() as usize);
            if got != want(prot) {
                eprintln!("{}: requested (and reported) prot {:#x} = {}, the mapping made is {}", how, prot, want(prot), got);
                bad += 1;
            }
        }
    }
    if bad != 0 {
        std::process::exit(1);
    }
    println!("ok: every mapping has the protection that was requested and is reported");
}
