// C15 (Xen build): an accepted request "builds what was asked" - the region carries the hugetlbfs label of the
// request (the unix-build checker demands o_huge = c_huge; in the Xen build the label is MmapRange::set_hugetlbfs).
use std::fs::File;
use std::os::unix::io::FromRawFd;
use vm_memory::{FileOffset, GuestAddress, GuestMemoryRegion, GuestRegionMmap, MmapRange, MmapRegion, MmapXenFlags};

fn main() {
    let fd = unsafe { libc::memfd_create(b"demo\0".as_ptr() as *const libc::c_char, 0) };
    assert!(fd >= 0);
    let f = unsafe { File::from_raw_fd(fd) };
    f.set_len(0x2000).unwrap();
    let mut bad = 0;
    for hint in [Some(true), Some(false), None] {
        let mut range = MmapRange::new(0x2000, Some(FileOffset::new(f.try_clone().unwrap(), 0)), GuestAddress(0), MmapXenFlags::UNIX.bits(), 0);
        if let Some(h) = hint {
            range.set_hugetlbfs(h);
        }
        let region = MmapRegion::<()>::from_range(range).expect("accepted");
        if region.is_hugetlbfs() != hint {
            eprintln!("MmapRegion: requested hugetlbfs label {:?}, the region reports {:?}", hint, region.is_hugetlbfs());
            bad += 1;
        }
        let g = GuestRegionMmap::new(region, GuestAddress(0)).unwrap();
        if GuestMemoryRegion::is_hugetlbfs(&g) != hint {
            eprintln!("GuestRegionMmap: requested {:?}, reports {:?}", hint, GuestMemoryRegion::is_hugetlbfs(&g));
            bad += 1;
        }
    }
    if bad != 0 {
        std::process::exit(1);
    }
    println!("ok: the hugetlbfs label of the request is the label of the region");
}
