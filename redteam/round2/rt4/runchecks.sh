#!/bin/bash
# usage: runchecks.sh <cand-dir> <prop>...
d=$1; shift
cd /root/work/rt4
for p in "$@"; do
  VERIF_REPO=/tmp/rtb4-wt ./check $p > $d/check_$p.log 2>&1
  rc=$?
  echo "cd /root/work/rt4 && VERIF_REPO=/tmp/rtb4-wt ./check $p   # exit $rc" >> $d/checks.txt
  grep -E "^$p: |VIOLATION|broken" $d/check_$p.log | tail -3 >> $d/checks.txt
done
