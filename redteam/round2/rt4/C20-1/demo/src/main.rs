// C20: comparison with a native integer is true exactly for the represented value.
// `w != x` must be the negation of `w == x` for every wrapper and value.
use vm_memory::{Be16, Be32, Be64, BeSize, Le32};

fn main() {
    let mut bad = 0;
    macro_rules! chk {
        ($W:ty, $U:ty, $v:expr) => {{
            let v: $U = $v;
            let w = <$W>::from(v);
            // the represented value: must compare equal, hence NOT unequal
            if !(w == v) || (w != v) {
                eprintln!("{}: from({:#x}) != {:#x} is {}", stringify!($W), v, v, w != v);
                bad += 1;
            }
            // a different value (the byte-swapped one): must compare unequal
            let x = v.swap_bytes();
            if x != v && ((w == x) || !(w != x)) {
                eprintln!("{}: from({:#x}) != {:#x} is {}", stringify!($W), v, x, w != x);
                bad += 1;
            }
        }};
    }
    chk!(Be16, u16, 0x0102);
    chk!(Be32, u32, 1);
    chk!(Be64, u64, 0x1122334455667788);
    chk!(BeSize, usize, 0xff00);
    chk!(Le32, u32, 0xdeadbeef);
    if bad != 0 {
        std::process::exit(1);
    }
    println!("ok");
}
