// C07: a guest-chosen LENGTH must never make the library panic.
// A device model reinterprets a guest-supplied byte buffer (e.g. the payload of a request whose
// length field the guest wrote) as a header structure with ByteValued::from_slice /
// from_mut_slice.  A buffer of the wrong length - shorter or longer - must give None.
use vm_memory::ByteValued;

#[repr(C)]
#[derive(Copy, Clone, Default)]
struct Hdr {
    a: u32,
    b: u32,
    c: u64,
}
// SAFETY: plain old data without padding
unsafe impl ByteValued for Hdr {}

fn parse(payload: &[u8]) -> Option<u64> {
    Hdr::from_slice(payload).map(|h| h.c)
}

fn main() {
    // keep the report quiet: the panic itself is the observation
    std::panic::set_hook(Box::new(|_| {}));
    let mut backing = [0u64; 8]; // 8-aligned storage
    let bytes: &mut [u8] = unsafe { std::slice::from_raw_parts_mut(backing.as_mut_ptr() as *mut u8, 64) };
    let mut bad = 0;
    for guest_len in [0usize, 1, 7, 15, 16, 17, 64] {
        let buf = &bytes[..guest_len];
        let r = std::panic::catch_unwind(|| parse(buf));
        match r {
            Ok(v) => {
                if v.is_some() != (guest_len == 16) {
                    eprintln!("len {}: wrong answer", guest_len);
                    bad += 1;
                }
            }
            Err(_) => {
                eprintln!("len {}: ByteValued::from_slice PANICKED on a guest-chosen length", guest_len);
                bad += 1;
            }
        }
    }
    for guest_len in [0usize, 3, 15] {
        let mut tmp = [0u64; 2];
        let b: &mut [u8] = unsafe { std::slice::from_raw_parts_mut(tmp.as_mut_ptr() as *mut u8, guest_len) };
        let r = std::panic::catch_unwind(std::panic::AssertUnwindSafe(|| u64::from_mut_slice(b).is_some()));
        if r.is_err() {
            eprintln!("len {}: ByteValued::from_mut_slice PANICKED on a guest-chosen length", guest_len);
            bad += 1;
        }
    }
    if bad != 0 {
        std::process::exit(1);
    }
    println!("ok");
}
