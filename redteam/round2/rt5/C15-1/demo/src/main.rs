// C15 (Xen build): a Xen-UNIX range over a file, requested MAP_PRIVATE (copy-on-write view of the file).
// The region must report the requested flags AND be what was asked: writes through the region must not
// reach the file.  Exit 0 = as requested, 1 = the mapping that was built is shared although flags() says private.
use std::fs::File;
use std::os::unix::io::FromRawFd;
use vm_memory::{Bytes, FileOffset, GuestAddress, GuestRegionMmap, MemoryRegionAddress, MmapRange, MmapRegion, MmapXenFlags};

fn perms_at(addr: usize) -> String {
    let text = std::fs::read_to_string("/proc/self/maps").unwrap();
    for l in text.lines() {
        let mut it = l.split_whitespace();
        let (range, perms) = (it.next().unwrap(), it.next().unwrap());
        let mut ab = range.split('-');
        let a = usize::from_str_radix(ab.next().unwrap(), 16).unwrap();
        let b = usize::from_str_radix(ab.next().unwrap(), 16).unwrap();
        if a <= addr && addr < b {
            return perms.to_string();
        }
    }
    "????".into()
}

fn main() {
    let size = 0x2000usize;
    let fd = unsafe { libc::memfd_create(b"demo-c15-1\0".as_ptr() as *const libc::c_char, 0) };
    assert!(fd >= 0);
    assert_eq!(unsafe { libc::ftruncate(fd, size as libc::off_t) }, 0);
    let file = unsafe { File::from_raw_fd(libc::dup(fd)) };

    let mut range = MmapRange::new(size, Some(FileOffset::new(file, 0)), GuestAddress(0x1000), MmapXenFlags::UNIX.bits(), 0);
    range.set_flags(libc::MAP_PRIVATE);
    let region = MmapRegion::<()>::from_range(range).expect("from_range");
    let reported = region.flags();
    let perms = perms_at(region.as_ptr() as usize);
    let g = GuestRegionMmap::new(region, GuestAddress(0x1000)).unwrap();

    g.write_slice(&[0xAB; 64], MemoryRegionAddress(0x100)).unwrap();
    let mut back = [0u8; 64];
    let n = unsafe { libc::pread(fd, back.as_mut_ptr() as *mut libc::c_void, 64, 0x100) };
    assert_eq!(n, 64);
    let leaked = back.iter().any(|b| *b != 0);

    println!("flags() = {:#x} (MAP_PRIVATE = {:#x}), /proc/self/maps perms = {}, guest write visible in the file: {}",
             reported, libc::MAP_PRIVATE, perms, leaked);
    let private_reported = reported & libc::MAP_TYPE == libc::MAP_PRIVATE;
    if private_reported && (leaked || perms.ends_with('s')) {
        println!("VIOLATION: a private mapping was requested and is reported, a shared one was built");
        std::process::exit(1);
    }
    println!("ok");
}
