// C15 (Xen build): a Xen-UNIX range requested with PROT_NONE (address space reserved, every access must fault)
// and one requested write-only.  The region must report the requested protection AND be what was asked.
// Exit 0 = the kernel's view of the mapping agrees with prot(), 1 = it does not.
use vm_memory::{GuestAddress, MmapRange, MmapRegion, MmapXenFlags};

fn perms_at(addr: usize) -> String {
    let text = std::fs::read_to_string("/proc/self/maps").unwrap();
    for l in text.lines() {
        let mut it = l.split_whitespace();
        let (range, perms) = (it.next().unwrap(), it.next().unwrap());
        let mut ab = range.split('-');
        let a = usize::from_str_radix(ab.next().unwrap(), 16).unwrap();
        let b = usize::from_str_radix(ab.next().unwrap(), 16).unwrap();
        if a <= addr && addr < b {
            return perms.to_string();
        }
    }
    "????".into()
}

fn main() {
    let mut bad = 0;
    for prot in [libc::PROT_NONE, libc::PROT_WRITE, libc::PROT_READ, libc::PROT_READ | libc::PROT_WRITE] {
        let mut range = MmapRange::new(0x3000, None, GuestAddress(0), MmapXenFlags::UNIX.bits(), 0);
        range.set_prot(prot);
        range.set_flags(libc::MAP_ANONYMOUS | libc::MAP_PRIVATE);
        let r = MmapRegion::<()>::from_range(range).expect("from_range");
        let p = perms_at(r.as_ptr() as usize);
        let mapped = (p.as_bytes()[0] == b'r') as i32 * libc::PROT_READ | (p.as_bytes()[1] == b'w') as i32 * libc::PROT_WRITE;
        let ok = r.prot() == prot && mapped == prot;
        println!("requested {} reported {} mapped {} ({})  {}", prot, r.prot(), mapped, p, if ok { "ok" } else { "MISMATCH" });
        if !ok {
            bad += 1;
        }
    }
    if bad > 0 {
        println!("VIOLATION: the region reports the requested protection, the mapping that was built has another");
        std::process::exit(1);
    }
}
