// C15 (Xen build): a FOREIGN range of 3 pages at guest address 0x10000 of domain 7.  "Builds what was asked": the
// privcmd batch request must name the guest frames 0x10, 0x11, 0x12 of that domain for the three pages of the mapping.
// The privcmd device is emulated through the crate's verification hook (--cfg vm_memory_verif, see .cargo/config.toml);
// it records the whole request.  Exit 0 = the frames asked for were requested, 1 = not.
use std::fs::File;
use std::os::unix::io::FromRawFd;
use std::sync::{Arc, Mutex};
use vm_memory::{FileOffset, GuestAddress, MmapRange, MmapRegion, MmapXenFlags};

fn main() {
    let page = unsafe { libc::sysconf(libc::_SC_PAGESIZE) } as u64;
    let seen: Arc<Mutex<Vec<(u32, u16, Vec<u64>)>>> = Arc::new(Mutex::new(Vec::new()));
    let s2 = seen.clone();
    vm_memory::verif::set_xen_ioctl(Some(Box::new(move |_fd, req, arg, _sz| unsafe {
        // struct privcmd_mmapbatch_v2 { u32 num; u16 dom; void *addr; const u64 *arr; int *err; }
        if ((req >> 8) & 0xff) as u8 == b'P' && (req & 0xff) == 4 {
            let num = std::ptr::read_unaligned(arg as *const u32);
            let dom = std::ptr::read_unaligned(arg.add(4) as *const u16);
            let arr = std::ptr::read_unaligned(arg.add(16) as *const *const u64);
            let frames = (0..num as usize).map(|i| *arr.add(i)).collect();
            s2.lock().unwrap().push((num, dom, frames));
            0
        } else {
            -1
        }
    })));
    let fd = unsafe { libc::memfd_create(b"demo-privcmd\0".as_ptr() as *const libc::c_char, 0) };
    assert!(fd >= 0 && unsafe { libc::ftruncate(fd, 16 * page as libc::off_t) } == 0);
    let file = unsafe { File::from_raw_fd(fd) };
    let gaddr = 0x10 * page;
    let range = MmapRange::new(3 * page as usize, Some(FileOffset::new(file, 0)), GuestAddress(gaddr), MmapXenFlags::FOREIGN.bits(), 7);
    let r = MmapRegion::<()>::from_range(range).expect("foreign from_range");
    let reqs = seen.lock().unwrap().clone();
    println!("region size {:#x}, privcmd requests: {:x?}", r.size(), reqs);
    let want: Vec<u64> = (0..3).map(|i| gaddr / page + i).collect();
    if reqs.len() != 1 || reqs[0].0 != 3 || reqs[0].1 != 7 || reqs[0].2 != want {
        println!("VIOLATION: the foreign mapping does not cover guest frames {:x?} of domain 7", want);
        std::process::exit(1);
    }
    println!("ok");
}
