// C12 / C15: a guest memory of three file-backed ranges is requested; the LAST range extends past the end of its file,
// so the construction fails.  "Creating ... fails, leaving nothing mapped behind" / "neither leaks address space":
// afterwards no mapping of the three uniquely named backing files may exist.  Exit 0 = nothing left, 1 = stray mappings.
use std::fs::File;
use std::os::unix::io::FromRawFd;
use vm_memory::{FileOffset, GuestAddress, GuestMemoryMmap};

fn memfd(name: &str, len: usize) -> File {
    let c = std::ffi::CString::new(name).unwrap();
    let fd = unsafe { libc::memfd_create(c.as_ptr(), 0) };
    assert!(fd >= 0 && unsafe { libc::ftruncate(fd, len as libc::off_t) } == 0);
    unsafe { File::from_raw_fd(fd) }
}
fn stray() -> usize {
    std::fs::read_to_string("/proc/self/maps").unwrap().lines().filter(|l| l.contains("/memfd:demo-c12-1-")).count()
}

fn main() {
    let mut total = 0;
    for round in 0..4 {
        let ranges = vec![
            (GuestAddress(0x0), 0x4000, Some(FileOffset::new(memfd("demo-c12-1-a", 0x4000), 0))),
            (GuestAddress(0x10_0000), 0x8000, Some(FileOffset::new(memfd("demo-c12-1-b", 0x8000), 0))),
            // one page past EOF: refused (MappingPastEof)
            (GuestAddress(0x20_0000), 0x2000, Some(FileOffset::new(memfd("demo-c12-1-c", 0x1000), 0))),
        ];
        let res = GuestMemoryMmap::<()>::from_ranges_with_files(ranges);
        assert!(res.is_err(), "the request must be refused");
        drop(res);
        let n = stray();
        println!("round {}: refused; mappings of the request's files still in /proc/self/maps: {}", round, n);
        total = n;
    }
    if total != 0 {
        println!("VIOLATION: a refused construction left {} mappings behind (nobody owns them, they are never unmapped)", total);
        std::process::exit(1);
    }
    println!("ok");
}
