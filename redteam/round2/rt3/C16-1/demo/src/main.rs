// C16: obtaining a typed reference and a pointer guard for it writes nothing, so it must mark nothing.
use std::num::NonZeroUsize;
use vm_memory::bitmap::{AtomicBitmap, Bitmap};
use vm_memory::mmap::MmapRegionBuilder;
use vm_memory::{GuestAddress, GuestMemoryRegion, GuestRegionMmap, VolatileMemory};

fn main() {
    let size = 0x400usize;
    let ps = 0x80usize;
    let map = MmapRegionBuilder::new_with_bitmap(size, AtomicBitmap::new(size, NonZeroUsize::new(ps).unwrap()))
        .with_mmap_prot(libc::PROT_READ | libc::PROT_WRITE)
        .with_mmap_flags(libc::MAP_ANONYMOUS | libc::MAP_PRIVATE)
        .build()
        .unwrap();
    let r = GuestRegionMmap::new(map, GuestAddress(0x1000)).unwrap();
    let s = r.as_volatile_slice().unwrap();
    // derivations + a load + a guard: none of them modifies guest memory
    let vr = s.get_ref::<u64>(0x7c).unwrap(); // straddles pages 0 and 1
    let _ = vr.load();
    {
        let g = vr.ptr_guard_mut();
        assert_eq!(g.len(), 8);
    }
    let dirty: Vec<usize> = (0..size / ps).filter(|p| r.bitmap().dirty_at(p * ps)).collect();
    if !dirty.is_empty() {
        eprintln!("C16 violated: pages {:?} are dirty although no byte of guest memory was written", dirty);
        std::process::exit(1);
    }
    println!("ok: nothing marked");
}
