// C05: a write into a FILE-BACKED region built by the crate's own default constructors
// (MmapRegion::from_file / GuestMemoryMmap::from_ranges_with_files) must be reported dirty.
use std::os::fd::FromRawFd;
use vm_memory::bitmap::{AtomicBitmap, Bitmap};
use vm_memory::{Bytes, FileOffset, GuestAddress, GuestMemory, GuestMemoryMmap, GuestMemoryRegion};

fn memfd(len: u64) -> std::fs::File {
    let fd = unsafe { libc::memfd_create(b"demo\0".as_ptr() as *const libc::c_char, 0) };
    assert!(fd >= 0);
    let f = unsafe { std::fs::File::from_raw_fd(fd) };
    f.set_len(len).unwrap();
    f
}

fn main() {
    let size = 0x3000usize;
    let gm = GuestMemoryMmap::<AtomicBitmap>::from_ranges_with_files(&[(
        GuestAddress(0x1000),
        size,
        Some(FileOffset::new(memfd(size as u64), 0)),
    )])
    .unwrap();
    gm.write_slice(&[0xeeu8; 16], GuestAddress(0x1000 + 0x1ff8)).unwrap();
    let r = gm.iter().next().unwrap();
    let mut bad = 0;
    for off in 0x1ff8..0x2008usize {
        if !r.bitmap().dirty_at(off) {
            bad += 1;
        }
    }
    if bad != 0 {
        eprintln!("C05 violated: {} written bytes on pages the region's bitmap reports clean", bad);
        std::process::exit(1);
    }
    println!("ok: every written byte is on a dirty page");
}
