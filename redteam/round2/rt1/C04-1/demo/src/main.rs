//! C04: an element-array copy transfers exactly the addressed bytes, in address order.
//! Here: `VolatileArrayRef::<u16>::copy_to` / `VolatileSlice::copy_to::<u32>` with MORE than 1024 elements.
//! Exit 0 = every element arrives, 1 = not.
use vm_memory::{VolatileMemory, VolatileSlice};

fn main() {
    let n = 3000usize;
    let mut mem = vec![0u8; 2 * n];
    for i in 0..n {
        mem[2 * i..2 * i + 2].copy_from_slice(&(i as u16).to_le_bytes());
    }
    let vs = VolatileSlice::from(&mut mem[..]);
    let mut bad = 0;
    for cnt in [5usize, 24, 600, 1024, 1025, 3000] {
        let arr = vs.get_array_ref::<u16>(0, cnt).unwrap();
        let mut buf = vec![0xffffu16; cnt];
        let got = arr.copy_to(&mut buf);
        let wrong = (0..cnt).filter(|&i| buf[i] != i as u16).count();
        // the single-element route observes the same memory
        let via_load = (0..cnt).filter(|&i| arr.load(i) != i as u16).count();
        println!("copy_to::<u16> of {cnt} elements: returned {got}, {wrong} wrong elements (load route: {via_load} wrong)");
        if got != cnt || wrong != 0 {
            bad += 1;
        }
    }
    let mut buf32 = vec![0u32; 1500];
    let got = vs.copy_to::<u32>(&mut buf32);
    let wrong = (0..1500).filter(|&i| buf32[i] != ((2 * i) as u32 | (((2 * i + 1) as u32) << 16))).count();
    println!("VolatileSlice::copy_to::<u32> of 1500 elements: returned {got}, {wrong} wrong elements");
    if got != 1500 || wrong != 0 {
        bad += 1;
    }
    if bad != 0 {
        println!("FAIL");
        std::process::exit(1);
    }
    println!("PASS");
}
