//! C17: on a Xen grant region mapped ON DEMAND every access the library performs must run inside a
//! temporary mapping that covers the bytes it touches.  Here: whole-object reads and writes
//! (`Bytes::write_obj` / `Bytes::read_obj`) at REGION level (`GuestRegionMmap`).
//! Exit 0 = property holds, 1 = violated.
use std::fs::OpenOptions;
use std::os::unix::fs::FileExt;
use std::sync::Mutex;
use vm_memory::{Bytes, FileOffset, GuestAddress, GuestRegionMmap, MemoryRegionAddress, MmapRange, MmapRegion, MmapXenFlags};

const PAGE: usize = 0x1000;
const REGION: usize = 4 * PAGE;
static LIVE: Mutex<Vec<(u64, u32)>> = Mutex::new(Vec::new());
static MAPS: Mutex<usize> = Mutex::new(0);

fn install_gntdev() {
    vm_memory::verif::set_xen_ioctl(Some(Box::new(|_fd, req, arg, _size| unsafe {
        match req & 0xff {
            0 => {
                let count = *(arg as *const u32);
                let first = *(arg.add(20) as *const u32);
                if count == 0 {
                    return -1;
                }
                let index = first as u64 * PAGE as u64;
                *(arg.add(8) as *mut u64) = index;
                *MAPS.lock().unwrap() += 1;
                LIVE.lock().unwrap().push((index, count));
                0
            }
            1 => {
                let key = (*(arg as *const u64), *(arg.add(8) as *const u32));
                let mut l = LIVE.lock().unwrap();
                match l.iter().position(|m| *m == key) {
                    Some(p) => {
                        l.remove(p);
                        0
                    }
                    None => -1,
                }
            }
            _ => -1,
        }
    })));
}

fn main() {
    install_gntdev();
    let path = std::env::temp_dir().join(format!("rtb1-c17-1-{}", std::process::id()));
    let file = OpenOptions::new().read(true).write(true).create(true).truncate(true).open(&path).unwrap();
    let _ = std::fs::remove_file(&path);
    file.set_len(REGION as u64).unwrap();
    let backing = file.try_clone().unwrap();
    let pattern: Vec<u8> = (0..REGION).map(|i| (i * 7 + i / 256) as u8).collect();
    backing.write_all_at(&pattern, 0).unwrap();
    let range = MmapRange::new(
        REGION,
        Some(FileOffset::new(file, 0)),
        GuestAddress(0),
        (MmapXenFlags::GRANT | MmapXenFlags::NO_ADVANCE_MAP).bits(),
        1,
    );
    let region = GuestRegionMmap::new(MmapRegion::<()>::from_range(range).unwrap(), GuestAddress(0)).unwrap();

    // in a child: an access outside every temporary mapping kills it
    let pid = unsafe { libc::fork() };
    if pid == 0 {
        let mut code = 0;
        let at = PAGE + 40;
        // the buffer form (driven by the framework) ...
        let before = *MAPS.lock().unwrap();
        let mut buf = [0u8; 8];
        let r = region.read_slice(&mut buf, MemoryRegionAddress(at as u64));
        let maps = *MAPS.lock().unwrap() - before;
        let ok = r.is_ok() && buf[..] == pattern[at..at + 8] && maps == 1 && LIVE.lock().unwrap().is_empty();
        println!("read_slice: ok={ok} map requests={maps}");
        if !ok {
            code = 3;
        }
        // ... and the whole-object forms
        let before = *MAPS.lock().unwrap();
        let v: u64 = region.read_obj(MemoryRegionAddress(at as u64)).unwrap();
        let maps = *MAPS.lock().unwrap() - before;
        let ok = v.to_le_bytes()[..] == pattern[at..at + 8] && maps == 1 && LIVE.lock().unwrap().is_empty();
        println!("read_obj: ok={ok} map requests={maps}");
        if !ok {
            code = 3;
        }
        let before = *MAPS.lock().unwrap();
        region.write_obj(0x1122334455667788u64, MemoryRegionAddress(at as u64)).unwrap();
        let maps = *MAPS.lock().unwrap() - before;
        let mut back = [0u8; 8];
        backing.read_exact_at(&mut back, at as u64).unwrap();
        let ok = back == 0x1122334455667788u64.to_le_bytes() && maps == 1 && LIVE.lock().unwrap().is_empty();
        println!("write_obj: ok={ok} map requests={maps}");
        if !ok {
            code = 3;
        }
        unsafe { libc::_exit(code) };
    }
    let mut status = 0;
    unsafe { libc::waitpid(pid, &mut status, 0) };
    if libc::WIFSIGNALED(status) {
        println!("FAIL: a whole-object access was killed by signal {} (no temporary mapping)", libc::WTERMSIG(status));
        std::process::exit(1);
    }
    if libc::WEXITSTATUS(status) != 0 {
        println!("FAIL: an access did not run inside exactly one temporary mapping");
        std::process::exit(1);
    }
    println!("PASS");
}
