//! C17 (Xen build, FOREIGN regions): a foreign region is mapped in advance; every later access goes
//! through that mapping, so the mapping must be OF the guest pages the region stands for: the
//! privcmd MMAPBATCH_V2 request has to name guest frame `guest_base / page + i` for page i.
//! The privcmd device is emulated through the crate's own hook (src/verif.rs) and records the request.
//! Exit 0 = the request names the region's frames, 1 = it does not.
use std::fs::OpenOptions;
use std::sync::Mutex;
use vm_memory::{FileOffset, GuestAddress, MmapRange, MmapRegion, MmapXenFlags, VolatileMemory};

const PAGE: u64 = 0x1000;
static REQ: Mutex<Option<(u32, u16, usize, Vec<u64>)>> = Mutex::new(None);

fn main() {
    vm_memory::verif::set_xen_ioctl(Some(Box::new(|_fd, req, arg, _size| unsafe {
        // PrivCmdMmapBatchV2 { num: u32 @0, domid: u16 @4, addr @8, arr @16, err @24 }, 'P' nr 4
        if (req >> 8) & 0xff == b'P' as u64 && req & 0xff == 4 {
            let num = *(arg as *const u32);
            let domid = *(arg.add(4) as *const u16);
            let addr = *(arg.add(8) as *const usize);
            let arr = *(arg.add(16) as *const *const u64);
            let v = (0..num as usize).map(|i| *arr.add(i)).collect();
            *REQ.lock().unwrap() = Some((num, domid, addr, v));
            0
        } else {
            -1
        }
    })));
    let gbase = 0x40 * PAGE;
    let size = 3 * PAGE as usize - 5;
    let path = std::env::temp_dir().join(format!("rtb1-c17-2-{}", std::process::id()));
    let file = OpenOptions::new().read(true).write(true).create(true).truncate(true).open(&path).unwrap();
    let _ = std::fs::remove_file(&path);
    file.set_len(4 * PAGE).unwrap();
    let range = MmapRange::new(size, Some(FileOffset::new(file, 0)), GuestAddress(gbase), MmapXenFlags::FOREIGN.bits(), 7);
    let region = MmapRegion::<()>::from_range(range).expect("foreign region");
    let (num, domid, addr, frames) = REQ.lock().unwrap().clone().expect("no privcmd request seen");
    println!("privcmd request: num={num} domid={domid} addr==as_ptr:{} frames={frames:x?}", addr == region.as_ptr() as usize);
    let want: Vec<u64> = (0..3).map(|i| gbase / PAGE + i).collect();
    // an access through the advance mapping works either way (the emulated device cannot tell) ...
    let s = region.get_slice(PAGE as usize, 8).unwrap();
    assert_eq!(s.ptr_guard().len(), 8);
    // ... but it reaches the guest's bytes only if the mapping was requested for the guest's frames
    if num != 3 || domid != 7 || addr != region.as_ptr() as usize || frames != want {
        println!("FAIL: the advance mapping does not cover guest frames {want:x?}: accesses to the region touch other guest pages");
        std::process::exit(1);
    }
    println!("PASS");
}
