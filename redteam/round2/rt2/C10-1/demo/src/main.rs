// C10: "inserting a region or removing one ... returns a new map ...; the map it was derived from, and every
// snapshot or region handle obtained earlier, keeps describing and reaching the same memory as before."
use std::sync::Arc;
use vm_memory::{Bytes, GuestAddress, GuestMemory, GuestMemoryMmap, GuestRegionMmap, MemoryRegionAddress};

fn main() {
    let old: GuestMemoryMmap<()> = GuestMemoryMmap::from_ranges(&[(GuestAddress(0), 0x1000), (GuestAddress(0x2000), 0x1000)]).unwrap();
    old.write_slice(b"guest kernel image", GuestAddress(0x10)).unwrap();
    old.write_obj(0xdead_beef_u32, GuestAddress(0x2ff0)).unwrap();
    let handle = old.find_region(GuestAddress(0x2000)).unwrap() as *const GuestRegionMmap<()>;
    let _ = handle;
    let mut bad = 0;

    // hot-plug attempt that is rolled back (or any temporary derived map): the NEW map is dropped, the old one lives on
    let dimm = Arc::new(GuestRegionMmap::<()>::from_range(GuestAddress(0x10_0000), 0x1000, None).unwrap());
    let new = old.insert_region(dimm.clone()).unwrap();
    assert_eq!(new.num_regions(), 3);
    drop(new);
    let mut b = [0u8; 18];
    old.read_slice(&mut b, GuestAddress(0x10)).unwrap();
    if &b != b"guest kernel image" {
        println!("after dropping the map derived by insert_region the old map reads {:?}", &b[..8]);
        bad += 1;
    }
    if old.read_obj::<u32>(GuestAddress(0x2ff0)).unwrap() != 0xdead_beef {
        println!("old map lost the object at 0x2ff0");
        bad += 1;
    }

    // the same through remove_region: the removed handle and the old map must keep their bytes when the new map goes
    old.write_slice(b"second try", GuestAddress(0x2000)).unwrap();
    let (smaller, removed) = old.remove_region(GuestAddress(0), 0x1000).unwrap();
    removed.write_slice(b"still mine", MemoryRegionAddress(0x20)).unwrap();
    drop(smaller);
    let mut c = [0u8; 10];
    old.read_slice(&mut c, GuestAddress(0x2000)).unwrap();
    if &c != b"second try" {
        println!("after dropping the map derived by remove_region the old map reads {:?}", c);
        bad += 1;
    }
    removed.read_slice(&mut c, MemoryRegionAddress(0x20)).unwrap();
    if &c != b"still mine" {
        println!("removed-region handle reads {:?}", c);
        bad += 1;
    }
    println!("{bad} violations");
    std::process::exit(if bad == 0 { 0 } else { 1 });
}
