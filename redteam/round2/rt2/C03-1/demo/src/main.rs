// C03: "The all-or-error forms (slices, objects, exact stream transfers) succeed exactly when the whole range is
// such a run [of consecutively mapped addresses, also across region boundaries] ...; what was written is what is
// later read back, through any route."   Two ADJACENT regions; a snapshot writer dumps / restores a range that
// crosses the boundary, spelled as every user spells it: a method call on the GuestMemoryMmap value.
use vm_memory::{Bytes, GuestAddress, GuestMemoryMmap};

fn main() {
    let m: GuestMemoryMmap<()> =
        GuestMemoryMmap::from_ranges(&[(GuestAddress(0), 0x1000), (GuestAddress(0x1000), 0x1000)]).unwrap();
    let pat: Vec<u8> = (0..64u32).map(|i| (i * 7 + 3) as u8).collect();
    m.write_slice(&pat, GuestAddress(0xfe0)).unwrap(); // 32 bytes in each region
    let mut bad = 0;

    let mut sink: Vec<u8> = Vec::new();
    match m.write_all_volatile_to(GuestAddress(0xfe0), &mut sink, 64) {
        Ok(()) if sink == pat => {}
        r => {
            println!("write_all_volatile_to over the boundary: {r:?}, {} bytes delivered", sink.len());
            bad += 1;
        }
    }
    // the same call through the trait (what a caller generic over GuestMemory gets)
    let mut sink2: Vec<u8> = Vec::new();
    let r2 = <GuestMemoryMmap<()> as Bytes<GuestAddress>>::write_all_volatile_to(&m, GuestAddress(0xfe0), &mut sink2, 64);
    println!("through the trait: {r2:?}, {} bytes", sink2.len());

    let mut src: &[u8] = &pat;
    match m.read_exact_volatile_from(GuestAddress(0xff0), &mut src, 64) {
        Ok(()) => {}
        r => {
            println!("read_exact_volatile_from over the boundary: {r:?}");
            bad += 1;
        }
    }
    println!("{bad} violations");
    std::process::exit(if bad == 0 { 0 } else { 1 });
}
