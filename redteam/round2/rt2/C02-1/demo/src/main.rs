// C02: "A range is reported valid exactly when every one of its bytes is mapped without interruption".
// Three adjacent regions (and a fourth behind a hole); check_range is called the way every user calls it:
// as a method on a GuestMemoryMmap value.  Oracle: byte-by-byte address_in_range.
use vm_memory::{GuestAddress, GuestMemory, GuestMemoryMmap};

fn main() {
    let lay = [(0x0u64, 0x1000usize), (0x1000, 0x1000), (0x2000, 0x1000), (0x4000, 0x1000)];
    let ranges: Vec<(GuestAddress, usize)> = lay.iter().map(|&(s, l)| (GuestAddress(s), l)).collect();
    let m: GuestMemoryMmap<()> = GuestMemoryMmap::from_ranges(&ranges).unwrap();
    let mapped = |a: u64| lay.iter().any(|&(s, l)| a >= s && a - s < l as u64);
    let mut bad = 0;
    for base in (0u64..0x5000).step_by(0x800) {
        for len in (0x800usize..=0x5000).step_by(0x800) {
            let exact = (0..len as u64).all(|i| mapped(base + i));
            let got = m.check_range(GuestAddress(base), len);
            let via_trait = <GuestMemoryMmap<()> as GuestMemory>::check_range(&m, GuestAddress(base), len);
            if got != exact {
                if bad < 6 {
                    println!("check_range({base:#x}, {len:#x}) = {got}, exact {exact}, through the trait {via_trait}");
                }
                bad += 1;
            }
        }
    }
    println!("{bad} wrong answers");
    std::process::exit(if bad == 0 { 0 } else { 1 });
}
