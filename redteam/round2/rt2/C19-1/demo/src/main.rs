// C19: "the checked operations return a result exactly when the mathematically exact ... aligned-up value
// fits in 64 bits and nothing otherwise".  The caller writes what every caller writes: a method call on a
// GuestAddress value.  The oracle is u128 arithmetic.
use vm_memory::{Address, GuestAddress};

fn exact(a: u64, p: u64) -> Option<u64> {
    let r = ((a as u128 + p as u128 - 1) / p as u128) * p as u128;
    if r < (1u128 << 64) { Some(r as u64) } else { None }
}

fn main() {
    let mut bad = 0;
    for k in 0..64u32 {
        let p = 1u64 << k;
        for a in [0u64, 1, p.wrapping_neg(), p.wrapping_neg().wrapping_sub(1), p.wrapping_neg().wrapping_add(1), u64::MAX, u64::MAX - 15, 1 << 63] {
            let got = GuestAddress(a).checked_align_up(p).map(|x| x.raw_value());
            // the same operation through the trait (what the generic harness calls)
            let via_trait = <GuestAddress as Address>::checked_align_up(&GuestAddress(a), p).map(|x| x.raw_value());
            if got != exact(a, p) {
                if bad < 8 {
                    println!("GuestAddress({a:#x}).checked_align_up({p:#x}) = {got:x?}, exact {:x?}, via trait {via_trait:x?}", exact(a, p));
                }
                bad += 1;
            }
        }
    }
    println!("{bad} wrong answers");
    std::process::exit(if bad == 0 { 0 } else { 1 });
}
