// C18: a copy of zero-sized elements is a successful no-op and never panics.
use vm_memory::{Bytes, VolatileMemory, VolatileSlice};

fn main() {
    let mut a = [0x11u8; 64];
    let mut b = [0x22u8; 64];
    let sa = VolatileSlice::from(&mut a[..]);
    let sb = VolatileSlice::from(&mut b[..]);
    let r = std::panic::catch_unwind(|| {
        // five zero-sized elements at offset 8: names no bytes
        let arr = sa.get_array_ref::<[u64; 0]>(8, 5).unwrap();
        arr.copy_to_volatile_slice(sb.get_slice(0, 16).unwrap());
    });
    let untouched = (0..64).all(|i| sb.load::<u8>(i, std::sync::atomic::Ordering::Relaxed).unwrap() == 0x22);
    if r.is_err() || !untouched {
        eprintln!("copy of zero-sized elements panicked or touched memory");
        std::process::exit(1);
    }
    println!("ok");
}
