// C05 in the Xen build: a write through an accessor obtained with get_slice at a page-unaligned
// offset of a Xen region (unix-style mapping: needs no Xen devices) must leave every touched page
// dirty in the region's bitmap.
use vm_memory::bitmap::{AtomicBitmap, Bitmap};
use vm_memory::{Bytes, GuestAddress, GuestMemoryRegion, GuestRegionMmap, MemoryRegionAddress, MmapRange, MmapRegion};

fn main() {
    let page = page();
    let range = MmapRange::new_unix(4 * page, None, GuestAddress(0));
    let region = MmapRegion::<AtomicBitmap>::from_range(range).unwrap();
    let region = GuestRegionMmap::new(region, GuestAddress(0)).unwrap();

    let slice = region.get_slice(MemoryRegionAddress(page as u64 - 8), 16).unwrap();
    slice.write_slice(&[0xeeu8; 16], 0).unwrap();

    let first = region.bitmap().dirty_at(page - 8);
    let second = region.bitmap().dirty_at(page);
    println!("page 0 dirty: {first}, page 1 dirty: {second}");
    let mut back = [0u8; 8];
    region.read_slice(&mut back, MemoryRegionAddress(page as u64)).unwrap();
    assert_eq!(back, [0xee; 8]);
    if !(first && second) {
        eprintln!("bytes were written to a page that is reported clean");
        std::process::exit(1);
    }
}

fn page() -> usize {
    extern "C" {
        fn sysconf(name: i32) -> i64;
    }
    (unsafe { sysconf(30) }) as usize // _SC_PAGESIZE on Linux
}
