// C16: a request that is rejected before any byte was written must mark nothing.
// Region-level `read_exact_volatile_from` from an in-memory source that is too short is refused
// by the pre-check of `ReadVolatile for &[u8]` (UnexpectedEof, nothing stored); an out-of-bounds
// request is refused by the bounds check.  Neither may dirty a page.
use std::num::NonZeroUsize;
use vm_memory::bitmap::{AtomicBitmap, Bitmap};
use vm_memory::mmap::MmapRegionBuilder;
use vm_memory::{Bytes, GuestAddress, GuestMemoryRegion, GuestRegionMmap, MemoryRegionAddress};

fn main() {
    let size = 0x4000;
    let bm = AtomicBitmap::new(size, NonZeroUsize::new(0x1000).unwrap());
    let region = MmapRegionBuilder::new_with_bitmap(size, bm).build().unwrap();
    let region = GuestRegionMmap::new(region, GuestAddress(0)).unwrap();

    let mut bad = 0;
    // (1) source shorter than the request: rejected before a single byte is stored
    let src = [0x5au8; 16];
    let mut s: &[u8] = &src[..];
    let r = region.read_exact_volatile_from(MemoryRegionAddress(0x1000), &mut s, 0x1800);
    assert!(r.is_err());
    assert_eq!(s.len(), 16, "nothing was consumed");
    // (2) request that does not fit the region: rejected by the bounds check
    let big = vec![0u8; 0x2000];
    let mut s2: &[u8] = &big[..];
    let r = region.read_exact_volatile_from(MemoryRegionAddress(0x3000), &mut s2, 0x2000);
    assert!(r.is_err());
    for page in 0..4 {
        if region.bitmap().dirty_at(page * 0x1000) {
            eprintln!("page {} dirty although no byte of guest memory was written", page);
            bad += 1;
        }
    }
    if bad > 0 {
        std::process::exit(1);
    }
    println!("ok: rejected requests marked nothing");
}
