// C05: a write through an accessor obtained with get_slice at a page-unaligned guest address must
// leave every page it touched dirty in the owning region's bitmap (here: a 16-byte write that
// starts 8 bytes before a page boundary - the typical virtio descriptor / used-ring update).
use vm_memory::bitmap::{AtomicBitmap, Bitmap};
use vm_memory::{Bytes, GuestAddress, GuestMemory, GuestMemoryMmap, GuestMemoryRegion};

fn main() {
    // page size of the bitmap = host page size (NewBitmap::with_len)
    let gm = GuestMemoryMmap::<AtomicBitmap>::from_ranges(&[(GuestAddress(0x10000), 0x4000)]).unwrap();
    let page = unsafe { libc_page() };
    let addr = GuestAddress(0x10000 + page as u64 - 8);
    let slice = gm.get_slice(addr, 16).unwrap();
    slice.write_slice(&[0xeeu8; 16], 0).unwrap();

    let region = gm.find_region(GuestAddress(0x10000)).unwrap();
    let first = region.bitmap().dirty_at(page - 8);
    let second = region.bitmap().dirty_at(page);
    println!("page 0 dirty: {first}, page 1 dirty: {second}");
    // the 8 bytes at region offset `page .. page+8` were changed
    let mut back = [0u8; 8];
    gm.read_slice(&mut back, GuestAddress(0x10000 + page as u64)).unwrap();
    assert_eq!(back, [0xee; 8]);
    if !(first && second) {
        eprintln!("bytes were written to a page that is reported clean");
        std::process::exit(1);
    }
}

unsafe fn libc_page() -> usize {
    extern "C" {
        fn sysconf(name: i32) -> i64;
    }
    sysconf(30) as usize // _SC_PAGESIZE on Linux
}
