// C09: a bitmap created for a byte size behaves like the set of page indices below
// ceil(byte_size / page_size); marking a byte range adds exactly the pages it overlaps.
// C05: consequently a write into the last, partial page of a tracked region must be reported.
use vm_memory::bitmap::{AtomicBitmap, Bitmap, NewBitmap};
use vm_memory::{Bytes, GuestAddress, GuestMemory, GuestMemoryMmap, GuestMemoryRegion};

fn page() -> usize {
    extern "C" {
        fn sysconf(name: i32) -> i64;
    }
    (unsafe { sysconf(30) }) as usize // _SC_PAGESIZE on Linux
}

fn main() {
    let p = page();
    let mut bad = 0;

    // the bitmap itself: one and a half pages
    let len = p + p / 2;
    let b = AtomicBitmap::with_len(len);
    println!("with_len({len}): byte_size {} pages {}", b.byte_size(), b.len());
    if b.byte_size() != len || b.len() != 2 {
        eprintln!("a bitmap for {len} bytes must hold ceil({len}/{p}) = 2 pages and report its byte size");
        bad += 1;
    }
    b.mark_dirty(p + 8, 1);
    if !b.dirty_at(p + 8) || !b.is_bit_set(1) {
        eprintln!("marking byte {} (page 1 of 2) is lost", p + 8);
        bad += 1;
    }

    // the same through the usual constructor of tracked guest memory
    let gm = GuestMemoryMmap::<AtomicBitmap>::from_ranges(&[(GuestAddress(0), len)]).unwrap();
    gm.write_slice(&[0xee; 4], GuestAddress(p as u64 + 16)).unwrap();
    let r = gm.find_region(GuestAddress(0)).unwrap();
    if !r.bitmap().dirty_at(p + 16) {
        eprintln!("guest bytes at {:#x} changed but the region reports the page clean", p + 16);
        bad += 1;
    }
    std::process::exit(if bad > 0 { 1 } else { 0 });
}
