//! C06: "The atomic load and store operations give the same guarantee WITH THE REQUESTED ORDERING".
//! Store-buffering litmus test through `Bytes::store` / `Bytes::load` of a VolatileSlice with
//! `Ordering::SeqCst` on the crate's own atomics (u32 -> std AtomicU32):
//!     thread 0: X := 1; r0 := Y        thread 1: Y := 1; r1 := X
//! With sequentially consistent stores and loads r0 == 0 && r1 == 0 is impossible; it shows up
//! within a few thousand rounds on x86 when the store is really only a Release (plain mov) store.
//! Exit 0 = never observed, 1 = observed (ordering weaker than requested).
use std::sync::atomic::{AtomicUsize, Ordering};
use vm_memory::{Bytes, VolatileSlice};

const X: usize = 0;
const Y: usize = 256;
const ROUNDS: usize = 3_000_000;

struct Shared(*mut u8);
unsafe impl Sync for Shared {}
unsafe impl Send for Shared {}

fn main() {
    let mem = Box::leak(vec![0u64; 128].into_boxed_slice()).as_mut_ptr() as *mut u8;
    let sh = Shared(mem);
    let sh = &sh;
    let arrive = AtomicUsize::new(0);
    let r = [AtomicUsize::new(9), AtomicUsize::new(9)];
    let (arrive, r) = (&arrive, &r);
    let weak = AtomicUsize::new(0);
    let weak = &weak;
    // spin barrier: both threads pass point k when arrive >= 2k
    let barrier = |k: usize| {
        arrive.fetch_add(1, Ordering::SeqCst);
        while arrive.load(Ordering::SeqCst) < 2 * k {
            std::hint::spin_loop();
        }
    };
    std::thread::scope(|s| {
        for t in 0..2usize {
            s.spawn(move || {
                let vs = unsafe { VolatileSlice::new(sh.0, 1024) };
                let (mine, other) = if t == 0 { (X, Y) } else { (Y, X) };
                let mut k = 0;
                for round in 0..ROUNDS {
                    vs.store(0u32, mine, Ordering::SeqCst).unwrap();
                    k += 1;
                    barrier(k);
                    // a little jitter so that the two critical sections overlap in different ways
                    for _ in 0..(round * (t + 1)) % 7 { std::hint::spin_loop(); }
                    vs.store(1u32, mine, Ordering::SeqCst).unwrap();
                    let seen: u32 = vs.load(other, Ordering::SeqCst).unwrap();
                    r[t].store(seen as usize, Ordering::SeqCst);
                    k += 1;
                    barrier(k);
                    if t == 0 && r[0].load(Ordering::SeqCst) == 0 && r[1].load(Ordering::SeqCst) == 0 {
                        weak.fetch_add(1, Ordering::SeqCst);
                    }
                    k += 1;
                    barrier(k);
                    if weak.load(Ordering::SeqCst) >= 3 { break; }
                }
            });
        }
    });
    let w = weak.load(Ordering::SeqCst);
    if w > 0 {
        println!("FAIL: r0 == 0 && r1 == 0 observed {w} time(s): Bytes::store(.., SeqCst) is not sequentially consistent");
        std::process::exit(1);
    }
    println!("PASS: store-buffering outcome never observed in {ROUNDS} rounds");
}
