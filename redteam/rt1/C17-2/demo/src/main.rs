//! C17: on a Xen grant region mapped ON DEMAND every access must run inside a temporary mapping.
//! Here: the byte array obtained with `VolatileArrayRef::<u8>::from(VolatileSlice)`.
//! Exit 0 = property holds, 1 = violated.
use std::fs::OpenOptions;
use std::os::unix::fs::FileExt;
use std::sync::Mutex;
use vm_memory::{VolatileArrayRef, FileOffset, GuestAddress, MmapRange, MmapRegion, MmapXenFlags, VolatileMemory};

const PAGE: usize = 0x1000;
const REGION: usize = 4 * PAGE;
static LIVE: Mutex<Vec<(u64, u32)>> = Mutex::new(Vec::new());
static MAPS: Mutex<usize> = Mutex::new(0);

fn install_gntdev() {
    vm_memory::verif::set_xen_ioctl(Some(Box::new(|_fd, req, arg, _size| unsafe {
        match req & 0xff {
            0 => {
                let count = *(arg as *const u32);
                let first = *(arg.add(20) as *const u32);
                if count == 0 { return -1; }
                let index = first as u64 * PAGE as u64;
                *(arg.add(8) as *mut u64) = index;
                *MAPS.lock().unwrap() += 1;
                LIVE.lock().unwrap().push((index, count));
                0
            }
            1 => {
                let key = (*(arg as *const u64), *(arg.add(8) as *const u32));
                let mut l = LIVE.lock().unwrap();
                match l.iter().position(|m| *m == key) { Some(p) => { l.remove(p); 0 } None => -1 }
            }
            _ => -1,
        }
    })));
}

fn main() {
    install_gntdev();
    let path = std::env::temp_dir().join(format!("rt1-c17-2-{}", std::process::id()));
    let file = OpenOptions::new().read(true).write(true).create(true).truncate(true).open(&path).unwrap();
    let _ = std::fs::remove_file(&path);
    file.set_len(REGION as u64).unwrap();
    let backing = file.try_clone().unwrap();
    let pattern: Vec<u8> = (0..REGION).map(|i| (i * 7 + i / 256) as u8).collect();
    backing.write_all_at(&pattern, 0).unwrap();
    let range = MmapRange::new(REGION, Some(FileOffset::new(file, 0)), GuestAddress(0),
        (MmapXenFlags::GRANT | MmapXenFlags::NO_ADVANCE_MAP).bits(), 0);
    let region = MmapRegion::<()>::from_range(range).unwrap();
    let sl = region.get_slice(PAGE + 8, 64).unwrap();
    let via_get: VolatileArrayRef<u8, ()> = region.get_array_ref::<u8>(PAGE + 8, 64).unwrap();
    let via_from: VolatileArrayRef<u8, ()> = VolatileArrayRef::from(sl);

    let pid = unsafe { libc::fork() };
    if pid == 0 {
        let mut code = 0;
        for (name, a) in [("get_array_ref", via_get), ("From<VolatileSlice>", via_from)] {
            let before = *MAPS.lock().unwrap();
            let mut buf = [0u8; 16];
            let n = a.copy_to(&mut buf);
            let maps = *MAPS.lock().unwrap() - before;
            let ok = n == 16 && buf[..] == pattern[PAGE + 8..PAGE + 24] && maps == 1 && LIVE.lock().unwrap().is_empty();
            println!("{name}: copy_to ok={ok} map requests={maps}");
            if !ok { code = 3; }
        }
        unsafe { libc::_exit(code) };
    }
    let mut status = 0;
    unsafe { libc::waitpid(pid, &mut status, 0) };
    if libc::WIFSIGNALED(status) {
        println!("FAIL: access through VolatileArrayRef::from(slice) was killed by signal {} (no temporary mapping)", libc::WTERMSIG(status));
        std::process::exit(1);
    }
    if libc::WEXITSTATUS(status) != 0 {
        println!("FAIL: an access did not run inside exactly one temporary mapping");
        std::process::exit(1);
    }
    println!("PASS");
}
