//! C17: on a Xen grant region mapped ON DEMAND every access must run inside a temporary mapping.
//! Here: a window of SEVERAL pages. The emulated gntdev is faithful: the i-th page of the window that is
//! mmap'ed afterwards shows the guest page named by the i-th grant reference of the request (the harness's
//! emulation derives everything from the FIRST reference and the count).
//! Exit 0 = property holds, 1 = violated.
use std::fs::OpenOptions;
use std::os::unix::fs::FileExt;
use std::sync::Mutex;
use vm_memory::{Bytes, FileOffset, GuestAddress, MmapRange, MmapRegion, MmapXenFlags, VolatileMemory};

const PAGE: usize = 0x1000;
const REGION: usize = 4 * PAGE;
static LIVE: Mutex<Vec<(u64, u32)>> = Mutex::new(Vec::new());
static MAPS: Mutex<usize> = Mutex::new(0);

/// grant references of every map request
static REFS: Mutex<Vec<Vec<u32>>> = Mutex::new(Vec::new());
fn install_gntdev() {
    vm_memory::verif::set_xen_ioctl(Some(Box::new(|_fd, req, arg, _size| unsafe {
        match req & 0xff {
            0 => {
                let count = *(arg as *const u32);
                if count == 0 { return -1; }
                let refs: Vec<u32> = (0..count as usize).map(|i| *(arg.add(16 + 8 * i + 4) as *const u32)).collect();
                let index = refs[0] as u64 * PAGE as u64;
                *(arg.add(8) as *mut u64) = index;
                REFS.lock().unwrap().push(refs);
                *MAPS.lock().unwrap() += 1;
                LIVE.lock().unwrap().push((index, count));
                0
            }
            1 => {
                let key = (*(arg as *const u64), *(arg.add(8) as *const u32));
                let mut l = LIVE.lock().unwrap();
                match l.iter().position(|m| *m == key) { Some(p) => { l.remove(p); 0 } None => -1 }
            }
            _ => -1,
        }
    })));
}

fn main() {
    install_gntdev();
    let path = std::env::temp_dir().join(format!("rt1-c17-3-{}", std::process::id()));
    let file = OpenOptions::new().read(true).write(true).create(true).truncate(true).open(&path).unwrap();
    let _ = std::fs::remove_file(&path);
    file.set_len(REGION as u64).unwrap();
    let backing = file.try_clone().unwrap();
    let pattern: Vec<u8> = (0..REGION).map(|i| (i * 7 + i / 256) as u8).collect();
    backing.write_all_at(&pattern, 0).unwrap();
    let range = MmapRange::new(REGION, Some(FileOffset::new(file, 0)), GuestAddress(0),
        (MmapXenFlags::GRANT | MmapXenFlags::NO_ADVANCE_MAP).bits(), 0);
    let region = MmapRegion::<()>::from_range(range).unwrap();
    // a write of 2 pages + 100 bytes starting 16 bytes before the end of guest page 0
    let data = vec![0xabu8; 2 * PAGE + 100];
    region.as_volatile_slice().write_slice(&data, PAGE - 16).unwrap();
    let mut bad = false;
    for refs in REFS.lock().unwrap().iter() {
        println!("map request: grant references {:?}", refs);
        // the window must name consecutive guest pages: page i of the window = grant first + i
        for (i, r) in refs.iter().enumerate() {
            if *r != refs[0] + i as u32 { bad = true; }
        }
    }
    let (first, last) = (PAGE - 16, PAGE - 16 + data.len() - 1);
    let touched: Vec<u32> = ((first / PAGE) as u32..=(last / PAGE) as u32).collect();
    let covered = REFS.lock().unwrap().iter().any(|refs| touched.iter().all(|p| refs.contains(p)));
    if bad || !covered {
        println!("FAIL: the temporary mapping does not cover guest pages {:?}: bytes of the access land in pages the window does not map", touched);
        std::process::exit(1);
    }
    println!("PASS");
}
