//! C04: a whole-object store through a typed reference transfers exactly the bytes of the object,
//! for every provided plain-data type (here byte arrays of 17..=32 bytes, `[u16; 9]`, `[u32; 5]`).
//! Exit 0 = holds, 1 = violated.
use vm_memory::{ByteValued, Bytes, VolatileMemory, VolatileSlice};

fn check<T: ByteValued + PartialEq + std::fmt::Debug>(v: T, bad: &mut u32) {
    let n = std::mem::size_of::<T>();
    let mut mem = vec![0x5au8; n + 16];
    let vs = VolatileSlice::from(&mut mem[..]);
    vs.get_ref::<T>(3).unwrap().store(v);
    let via_ref = vs.get_ref::<T>(3).unwrap().load();
    let via_obj: T = vs.read_obj(3).unwrap();
    let raw_ok = mem[3..3 + n] == *v.as_slice() && mem[..3].iter().chain(&mem[3 + n..]).all(|b| *b == 0x5a);
    let ok = via_ref == v && via_obj == v && raw_ok;
    println!("{:>2}-byte object {}: {}", n, std::any::type_name::<T>(), if ok { "ok" } else { "WRONG bytes in memory" });
    if !ok { *bad += 1; }
}

fn main() {
    let mut bad = 0;
    check(0x1122_3344_5566_7788u64, &mut bad);
    check(0x0102_0304_0506_0708_090a_0b0c_0d0e_0f10u128, &mut bad);
    check(std::array::from_fn::<u8, 17, _>(|i| i as u8 + 1), &mut bad);
    check(std::array::from_fn::<u8, 20, _>(|i| i as u8 + 1), &mut bad);
    check(std::array::from_fn::<u8, 24, _>(|i| i as u8 + 1), &mut bad);
    check(std::array::from_fn::<u8, 31, _>(|i| i as u8 + 1), &mut bad);
    check(std::array::from_fn::<u16, 9, _>(|i| i as u16 * 257 + 1), &mut bad);
    check(std::array::from_fn::<u32, 5, _>(|i| i as u32 * 0x01010101 + 7), &mut bad);
    check(std::array::from_fn::<u64, 4, _>(|i| i as u64 * 0x0101010101010101 + 9), &mut bad);
    if bad > 0 {
        println!("FAIL: {bad} whole-object stores did not transfer the object's bytes");
        std::process::exit(1);
    }
    println!("PASS");
}
