//! C01 (and C06): an atomic reference is only ever produced for an address aligned for the ATOMIC type.
//! `Pair` is a third-party `AtomicInteger` (an 8-byte atomic seen as two u32 halves): its value type
//! `[u32; 2]` has alignment 4, the atomic itself needs 8.  (Same situation as std's AtomicU64 / u64 on
//! 32-bit x86, where align_of::<u64>() == 4 and align_of::<AtomicU64>() == 8.)
//! Exit 0 = misaligned requests are refused, 1 = a misaligned atomic reference was handed out.
use std::sync::atomic::{AtomicU64, Ordering};
use vm_memory::{AtomicInteger, VolatileMemory, VolatileSlice};

#[repr(transparent)]
struct Pair(AtomicU64);
// SAFETY: consists of exactly one std atomic integer
unsafe impl AtomicInteger for Pair {
    type V = [u32; 2];
    fn new(v: [u32; 2]) -> Self { Pair(AtomicU64::new(v[0] as u64 | (v[1] as u64) << 32)) }
    fn load(&self, o: Ordering) -> [u32; 2] { let x = self.0.load(o); [x as u32, (x >> 32) as u32] }
    fn store(&self, v: [u32; 2], o: Ordering) { self.0.store(v[0] as u64 | (v[1] as u64) << 32, o) }
}

fn main() {
    assert_eq!(std::mem::align_of::<Pair>(), 8);
    let mut mem = [0u64; 8]; // 8-aligned
    let base = mem.as_mut_ptr() as usize;
    let vs = unsafe { VolatileSlice::new(mem.as_mut_ptr() as *mut u8, 64) };
    let mut bad = 0;
    for off in 0..48usize {
        match vs.get_atomic_ref::<Pair>(off) {
            Ok(r) => {
                let a = r as *const Pair as usize;
                if a % std::mem::align_of::<Pair>() != 0 {
                    println!("offset {off}: atomic reference at {a:#x} (base {base:#x}) is NOT 8-aligned");
                    bad += 1;
                }
            }
            Err(_) => assert!(off % 8 != 0, "an aligned request was refused"),
        }
    }
    if bad > 0 {
        println!("FAIL: {bad} misaligned atomic references handed out");
        std::process::exit(1);
    }
    println!("PASS: every misaligned request refused");
}
