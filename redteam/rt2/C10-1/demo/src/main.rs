// C10: "A region whose end would exceed the address space is refused at creation."  (xen build of the crate:
// GuestRegionMmap::from_range / GuestMemoryMmap::from_ranges create Xen-UNIX regions)
use vm_memory::mmap::Error;
use vm_memory::{GuestAddress, GuestMemory, GuestMemoryMmap, GuestMemoryRegion, GuestRegionMmap};

fn main() {
    let mut bad = 0;
    // base + size > 2^64 for every case
    for (base, size) in [(u64::MAX, 2usize), (u64::MAX - 4095, 8192), (u64::MAX - 1, 4096), (1u64 << 63, usize::MAX / 2 + 2)] {
        match GuestRegionMmap::<()>::from_range(GuestAddress(base), size, None) {
            Err(Error::InvalidGuestRegion) => {}
            Err(Error::MmapRegion(_)) => {} // the host refused the mapping itself
            Err(e) => {
                println!("VIOLATION: unexpected error {e:?}");
                bad += 1;
            }
            Ok(r) => {
                println!(
                    "VIOLATION: region base={:#x} size={:#x} accepted although its end exceeds the address space (len()={:#x})",
                    base, size, r.len()
                );
                bad += 1;
            }
        }
    }
    match GuestMemoryMmap::<()>::from_ranges(&[(GuestAddress(0x1000), 4096), (GuestAddress(u64::MAX - 15), 4096)]) {
        Err(_) => {}
        Ok(m) => {
            println!("VIOLATION: from_ranges built a map with {} regions, one of them wrapping around 2^64", m.num_regions());
            bad += 1;
        }
    }
    // in-range regions are still accepted
    assert!(GuestRegionMmap::<()>::from_range(GuestAddress(u64::MAX - 4096), 4096, None).is_ok());
    if bad > 0 {
        std::process::exit(1);
    }
    println!("ok: regions ending beyond 2^64 are refused");
}
