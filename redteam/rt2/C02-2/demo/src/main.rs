// C02: "an address resolves to ... the right offset and host pointer, and resolves to nothing when it
// falls in a hole or beyond the ends ... for any other implementation of the traits that relies on the
// provided default methods".
// "a single contiguous slice is granted exactly for the non-empty ranges contained in one region".
// HeapRegion ("device memory") implements the REQUIRED methods plus get_host_address; get_slice is the crate's default.
use std::sync::atomic::Ordering;
use vm_memory::guest_memory::{Error, Result};
use vm_memory::{
    AtomicAccess, Bytes, GuestAddress, GuestMemory, GuestMemoryRegion, GuestUsize,
    MemoryRegionAddress, ReadVolatile, VolatileSlice, WriteVolatile,
};

struct HeapRegion {
    start: u64,
    buf: Box<[u8]>,
}
impl HeapRegion {
    fn vs(&self) -> VolatileSlice<'_, ()> {
        // SAFETY: the block lives as long as self
        unsafe { VolatileSlice::new(self.buf.as_ptr() as *mut u8, self.buf.len()) }
    }
}
impl Bytes<MemoryRegionAddress> for HeapRegion {
    type E = Error;
    fn write(&self, b: &[u8], a: MemoryRegionAddress) -> Result<usize> {
        self.vs().write(b, a.0 as usize).map_err(Into::into)
    }
    fn read(&self, b: &mut [u8], a: MemoryRegionAddress) -> Result<usize> {
        self.vs().read(b, a.0 as usize).map_err(Into::into)
    }
    fn write_slice(&self, b: &[u8], a: MemoryRegionAddress) -> Result<()> {
        self.vs().write_slice(b, a.0 as usize).map_err(Into::into)
    }
    fn read_slice(&self, b: &mut [u8], a: MemoryRegionAddress) -> Result<()> {
        self.vs().read_slice(b, a.0 as usize).map_err(Into::into)
    }
    fn read_volatile_from<F: ReadVolatile>(&self, a: MemoryRegionAddress, s: &mut F, c: usize) -> Result<usize> {
        self.vs().read_volatile_from(a.0 as usize, s, c).map_err(Into::into)
    }
    fn read_exact_volatile_from<F: ReadVolatile>(&self, a: MemoryRegionAddress, s: &mut F, c: usize) -> Result<()> {
        self.vs().read_exact_volatile_from(a.0 as usize, s, c).map_err(Into::into)
    }
    fn write_volatile_to<F: WriteVolatile>(&self, a: MemoryRegionAddress, d: &mut F, c: usize) -> Result<usize> {
        self.vs().write_volatile_to(a.0 as usize, d, c).map_err(Into::into)
    }
    fn write_all_volatile_to<F: WriteVolatile>(&self, a: MemoryRegionAddress, d: &mut F, c: usize) -> Result<()> {
        self.vs().write_all_volatile_to(a.0 as usize, d, c).map_err(Into::into)
    }
    fn store<T: AtomicAccess>(&self, v: T, a: MemoryRegionAddress, o: Ordering) -> Result<()> {
        self.vs().store(v, a.0 as usize, o).map_err(Into::into)
    }
    fn load<T: AtomicAccess>(&self, a: MemoryRegionAddress, o: Ordering) -> Result<T> {
        self.vs().load(a.0 as usize, o).map_err(Into::into)
    }
}
impl GuestMemoryRegion for HeapRegion {
    type B = ();
    fn len(&self) -> GuestUsize {
        self.buf.len() as u64
    }
    fn start_addr(&self) -> GuestAddress {
        GuestAddress(self.start)
    }
    fn bitmap(&self) -> &() {
        &()
    }
    fn get_host_address(&self, a: MemoryRegionAddress) -> Result<*mut u8> {
        self.check_address(a)
            .ok_or(Error::InvalidBackendAddress)
            .map(|a| (self.buf.as_ptr() as *mut u8).wrapping_add(a.0 as usize))
    }
    // get_slice: the provided default
}
struct HeapMem(Vec<HeapRegion>);
impl GuestMemory for HeapMem {
    type R = HeapRegion;
    fn num_regions(&self) -> usize {
        self.0.len()
    }
    fn find_region(&self, a: GuestAddress) -> Option<&HeapRegion> {
        self.0.iter().find(|r| r.to_region_addr(a).is_some())
    }
    fn iter(&self) -> impl Iterator<Item = &HeapRegion> {
        self.0.iter()
    }
}

fn main() {
    let m = HeapMem(vec![
        HeapRegion { start: 0x1000, buf: vec![0u8; 16].into_boxed_slice() },
        HeapRegion { start: 0x2000, buf: vec![0u8; 8].into_boxed_slice() },
    ]);
    let mut bad = 0;
    for r in m.iter() {
        for off in [0u64, 1, r.len() - 1, r.len(), r.len() + 7] {
            for count in [1usize, 2, r.len() as usize, r.len() as usize + 1, 4096, usize::MAX] {
                let contained = (off as u128) + (count as u128) <= r.len() as u128;
                let a = GuestAddress(r.start + off);
                if let Ok(s) = m.get_slice(a, count) {
                    if !contained {
                        if bad < 6 {
                            println!(
                                "VIOLATION: get_slice({:#x}, {:#x}) granted a slice of {:#x} bytes although region [{:#x},+{}) ends {} bytes after the address",
                                a.0, count, s.len(), r.start, r.len(), r.len().saturating_sub(off)
                            );
                        }
                        bad += 1;
                    }
                }
                if let Ok(s) = r.get_slice(MemoryRegionAddress(off), count) {
                    if !contained {
                        let _ = s;
                        bad += 1;
                    }
                }
            }
        }
    }
    if bad > 0 {
        println!("{bad} slices reach beyond the end of their region");
        std::process::exit(1);
    }
    println!("ok: no slice is granted beyond the end of a region");
}
