// C03 (xen build, file-backed Xen-UNIX regions): "what was written is what is later read back, through any
// route ... for anonymous, file-backed and Xen-UNIX backed regions".  The backing file is a route: the harness of
// C03 itself re-reads the backing file with pread after every step for the file-backed regions it builds.
use std::fs::OpenOptions;
use std::os::unix::fs::FileExt;
use vm_memory::{Bytes, FileOffset, GuestAddress, GuestMemoryMmap};

fn main() {
    let path = std::env::temp_dir().join(format!("rt2-c03-1-{}", std::process::id()));
    let f = OpenOptions::new().read(true).write(true).create(true).truncate(true).open(&path).unwrap();
    f.set_len(8192).unwrap();
    let probe = f.try_clone().unwrap();
    std::fs::remove_file(&path).unwrap();
    // file content before the guest memory exists
    probe.write_all_at(&[0xAA; 16], 4096 + 8).unwrap();

    // two touching file-backed regions over the two pages of the file
    let gm = GuestMemoryMmap::<()>::from_ranges_with_files(&[
        (GuestAddress(0x1000), 4096, Some(FileOffset::new(f.try_clone().unwrap(), 0))),
        (GuestAddress(0x2000), 4096, Some(FileOffset::new(f, 4096))),
    ])
    .unwrap();

    let mut bad = 0;
    // file -> guest memory (initial content)
    let mut b = [0u8; 16];
    gm.read_slice(&mut b, GuestAddress(0x2008)).unwrap();
    if b != [0xAA; 16] {
        println!("VIOLATION: guest memory does not show the file's content");
        bad += 1;
    }
    // guest memory -> file: a write crossing the boundary of the two regions
    let data: Vec<u8> = (1..=32u8).collect();
    gm.write_slice(&data, GuestAddress(0x2000 - 16)).unwrap();
    let mut back = vec![0u8; 32];
    gm.read_slice(&mut back, GuestAddress(0x2000 - 16)).unwrap();
    assert_eq!(back, data, "read back through the guest memory");
    let mut from_file = vec![0u8; 32];
    probe.read_exact_at(&mut from_file, 4096 - 16).unwrap();
    if from_file != data {
        println!("VIOLATION: bytes written to file-backed guest memory are not in the backing file: {:?}", &from_file[..8]);
        bad += 1;
    }
    // file -> guest memory after creation (another process / device writing the shared file)
    probe.write_all_at(&[0x55; 8], 100).unwrap();
    let mut c = [0u8; 8];
    gm.read_slice(&mut c, GuestAddress(0x1000 + 100)).unwrap();
    if c != [0x55; 8] {
        println!("VIOLATION: bytes written to the backing file are not seen through the guest memory");
        bad += 1;
    }
    if bad > 0 {
        std::process::exit(1);
    }
    println!("ok: file-backed guest memory and its backing file agree");
}
