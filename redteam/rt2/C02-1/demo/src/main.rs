// C02: "an address resolves to ... the right offset and host pointer, and resolves to nothing when it
// falls in a hole or beyond the ends ... for any other implementation of the traits that relies on the
// provided default methods".
// HeapRegion implements only the REQUIRED methods plus get_slice; get_host_address is the crate's default.
use std::sync::atomic::Ordering;
use vm_memory::bitmap::BS;
use vm_memory::guest_memory::{Error, Result};
use vm_memory::{
    AtomicAccess, Bytes, GuestAddress, GuestMemory, GuestMemoryRegion, GuestUsize,
    MemoryRegionAddress, ReadVolatile, VolatileMemory, VolatileSlice, WriteVolatile,
};

struct HeapRegion {
    start: u64,
    buf: Box<[u8]>,
}
impl HeapRegion {
    fn vs(&self) -> VolatileSlice<'_, ()> {
        // SAFETY: the block lives as long as self
        unsafe { VolatileSlice::new(self.buf.as_ptr() as *mut u8, self.buf.len()) }
    }
}
impl Bytes<MemoryRegionAddress> for HeapRegion {
    type E = Error;
    fn write(&self, b: &[u8], a: MemoryRegionAddress) -> Result<usize> {
        self.vs().write(b, a.0 as usize).map_err(Into::into)
    }
    fn read(&self, b: &mut [u8], a: MemoryRegionAddress) -> Result<usize> {
        self.vs().read(b, a.0 as usize).map_err(Into::into)
    }
    fn write_slice(&self, b: &[u8], a: MemoryRegionAddress) -> Result<()> {
        self.vs().write_slice(b, a.0 as usize).map_err(Into::into)
    }
    fn read_slice(&self, b: &mut [u8], a: MemoryRegionAddress) -> Result<()> {
        self.vs().read_slice(b, a.0 as usize).map_err(Into::into)
    }
    fn read_volatile_from<F: ReadVolatile>(&self, a: MemoryRegionAddress, s: &mut F, c: usize) -> Result<usize> {
        self.vs().read_volatile_from(a.0 as usize, s, c).map_err(Into::into)
    }
    fn read_exact_volatile_from<F: ReadVolatile>(&self, a: MemoryRegionAddress, s: &mut F, c: usize) -> Result<()> {
        self.vs().read_exact_volatile_from(a.0 as usize, s, c).map_err(Into::into)
    }
    fn write_volatile_to<F: WriteVolatile>(&self, a: MemoryRegionAddress, d: &mut F, c: usize) -> Result<usize> {
        self.vs().write_volatile_to(a.0 as usize, d, c).map_err(Into::into)
    }
    fn write_all_volatile_to<F: WriteVolatile>(&self, a: MemoryRegionAddress, d: &mut F, c: usize) -> Result<()> {
        self.vs().write_all_volatile_to(a.0 as usize, d, c).map_err(Into::into)
    }
    fn store<T: AtomicAccess>(&self, v: T, a: MemoryRegionAddress, o: Ordering) -> Result<()> {
        self.vs().store(v, a.0 as usize, o).map_err(Into::into)
    }
    fn load<T: AtomicAccess>(&self, a: MemoryRegionAddress, o: Ordering) -> Result<T> {
        self.vs().load(a.0 as usize, o).map_err(Into::into)
    }
}
impl GuestMemoryRegion for HeapRegion {
    type B = ();
    fn len(&self) -> GuestUsize {
        self.buf.len() as u64
    }
    fn start_addr(&self) -> GuestAddress {
        GuestAddress(self.start)
    }
    fn bitmap(&self) -> &() {
        &()
    }
    fn get_slice(&self, off: MemoryRegionAddress, count: usize) -> Result<VolatileSlice<BS<()>>> {
        let off = off.0 as usize;
        match off.checked_add(count) {
            Some(end) if end <= self.buf.len() => {
                // SAFETY: [off, off+count) lies inside the block owned by self
                Ok(unsafe { VolatileSlice::new((self.buf.as_ptr() as *mut u8).add(off), count) })
            }
            _ => Err(Error::InvalidBackendAddress),
        }
    }
    // get_host_address: the provided default
}
struct HeapMem(Vec<HeapRegion>);
impl GuestMemory for HeapMem {
    type R = HeapRegion;
    fn num_regions(&self) -> usize {
        self.0.len()
    }
    fn find_region(&self, a: GuestAddress) -> Option<&HeapRegion> {
        self.0.iter().find(|r| r.to_region_addr(a).is_some())
    }
    fn iter(&self) -> impl Iterator<Item = &HeapRegion> {
        self.0.iter()
    }
}

fn main() {
    let m = HeapMem(vec![
        HeapRegion { start: 0x1000, buf: vec![0u8; 16].into_boxed_slice() },
        HeapRegion { start: 0x2000, buf: vec![0u8; 8].into_boxed_slice() },
    ]);
    let mut bad = 0;
    for r in m.iter() {
        let base = r.buf.as_ptr() as usize;
        for off in [0u64, 1, r.len() - 1, r.len(), r.len() + 1, 4096, 1 << 40, u64::MAX] {
            let inside = off < r.len();
            match r.get_host_address(MemoryRegionAddress(off)) {
                Ok(p) => {
                    let p = p as usize;
                    if !inside {
                        println!(
                            "VIOLATION: region [{:#x},+{}) resolves offset {:#x} (beyond its end) to host {:#x}, {} bytes outside its block",
                            r.start, r.len(), off, p, p.wrapping_sub(base + r.len() as usize)
                        );
                        bad += 1;
                    } else if p != base + off as usize {
                        println!("VIOLATION: wrong host pointer for offset {off}");
                        bad += 1;
                    }
                }
                Err(_) => {} // unmapped offsets (and, on the unchanged crate, every offset): resolves to nothing
            }
        }
    }
    // memory level: holes and addresses beyond the ends must resolve to nothing
    for a in [0u64, 0xfff, 0x1010, 0x1fff, 0x2008, u64::MAX] {
        if m.get_host_address(GuestAddress(a)).is_ok() {
            println!("VIOLATION: unmapped guest address {a:#x} resolves to a host pointer");
            bad += 1;
        }
    }
    if bad > 0 {
        std::process::exit(1);
    }
    println!("ok: no unmapped offset resolves to a host pointer");
}
