// C19: "ordering and equality follow the raw values" - for guest AND region addresses, for all
// 64-bit operands.  Every comparison operator must agree with the comparison of the raw u64 values.
use vm_memory::{Address, MemoryRegionAddress, GuestAddress};

fn main() {
    let vals: [u64; 8] = [0, 1, 2, (1 << 63) - 1, 1 << 63, (1 << 63) + 1, u64::MAX - 1, u64::MAX];
    let mut bad = 0;
    for &a in &vals {
        for &b in &vals {
            let (x, y) = (MemoryRegionAddress::new(a), MemoryRegionAddress::new(b));
            let (g, h) = (GuestAddress::new(a), GuestAddress::new(b));
            let checks = [
                ("region <", x < y, a < b),
                ("region <=", x <= y, a <= b),
                ("region >", x > y, a > b),
                ("region >=", x >= y, a >= b),
                ("region partial_cmp", x.partial_cmp(&y) == Some(a.cmp(&b)), true),
                ("region cmp", x.cmp(&y) == a.cmp(&b), true),
                ("guest <", g < h, a < b),
                ("guest partial_cmp", g.partial_cmp(&h) == Some(a.cmp(&b)), true),
            ];
            for (what, got, want) in checks {
                if got != want {
                    if bad < 5 {
                        println!("VIOLATION {what}: a={a:#x} b={b:#x} got {got} want {want}");
                    }
                    bad += 1;
                }
            }
        }
    }
    if bad > 0 {
        println!("{bad} comparisons disagree with the raw values");
        std::process::exit(1);
    }
    println!("ok: all comparison operators follow the raw values");
}
