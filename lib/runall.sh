#!/bin/bash
# runs every claimed check (quick tier) and prints one line per property
cd "$(dirname "$0")/.."
for f in manifest.d/C*.json; do
  id=$(basename $f .json)
  s=$(date +%s)
  out=$(./check $id --tier ${1:-quick} 2>&1); rc=$?; out=$(echo "$out" | tail -3)
  echo "$id rc=$rc $(( $(date +%s) - s ))s :: $(echo "$out" | tail -1)"
  echo "$out" | grep -E "VIOLATION|KNOWN-FINDING|CHECK-ERROR" 
done
