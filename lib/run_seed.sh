#!/bin/bash
# lib/run_seed.sh <seed-name> <property> [tier]  - runs ./check <property> against /repo + seeded/<name>/patch.diff
# in a scratch worktree (VERIF_REPO override, so /repo itself is not touched while other work uses it).
# VERIF_ROOT=<dir> runs the check from a synchronised copy of /verif (see lib/seed_batch.sh) so that seed runs do not
# share the harness build directory with work going on in /verif.
# Prints the check's verdict lines; exit code = the check's exit code (1 expected = detected).
set -u
NAME=$1; PROP=$2; TIER=${3:-quick}
WT=/tmp/runseed-$(echo $NAME | tr "/" "_")-$$
rm -rf $WT; git -C /repo worktree prune
git -C /repo worktree add -q --detach $WT HEAD || exit 2
git -C $WT apply ${SEED_DIR:-/verif/seeded}/$NAME/patch.diff || { echo "patch does not apply"; exit 2; }
cp /repo/Cargo.lock $WT/Cargo.lock
cd ${VERIF_ROOT:-/verif} && VERIF_REPO=$WT ./check $PROP --tier $TIER 2>&1 | tail -4; RC=${PIPESTATUS[0]}
git -C /repo worktree remove --force $WT
echo "run_seed $NAME $PROP: rc=$RC"
exit $RC
