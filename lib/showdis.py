#!/usr/bin/env python3
"""showdis.py trace [maxlen] : prints short disagreeing / spec-failing lines with model output"""
import sys, subprocess, os
trace = sys.argv[1]; maxlen = int(sys.argv[2]) if len(sys.argv) > 2 else 400
root = os.path.dirname(os.path.dirname(os.path.abspath(__file__)))
out = subprocess.run([root + '/ocaml/_build/driver'], stdin=open(trace), capture_output=True, text=True).stdout
lines = open(trace).read().split('\n')
shown = 0
for l in out.split('\n'):
    w = l.split(' ', 2)
    if len(w) >= 2 and w[1] in ('DISAGREE', 'SPECFAIL', 'MALFORMED'):
        src = lines[int(w[0]) - 1]
        if len(src) <= maxlen:
            print('---', w[1], w[0]); print('  real :', src)
            if w[1] == 'DISAGREE': print('  model:', ' ' * (src.index('=>') - 7), w[2].replace('model= ', ''))
            shown += 1
            if shown >= int(os.environ.get('N', '12')): break
print(out.strip().split('\n')[-1])
