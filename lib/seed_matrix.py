#!/usr/bin/env python3
"""lib/seed_matrix.py [seed ...]  - re-runs every seeded change (default: all of seeded/*) against the CURRENT checks,
in the synchronised copy of /verif (lib/seed_batch.sh), and writes docs/SEED_MATRIX.md: per seed, the verdict of the check
of the property it was written against and - when that check passes - of the checks recorded as catching it in
seeded/<seed>/meta.json.  A regression test of the machinery itself (takes about 1.5 minutes per run)."""
import json, os, re, subprocess, sys, time
ROOT = os.path.dirname(os.path.dirname(os.path.abspath(__file__)))
seeds = sys.argv[1:] or sorted(os.listdir(os.path.join(ROOT, 'seeded')))
rows = []
# one synchronisation at the start; the runs then use that copy even if /verif is edited meanwhile
subprocess.run(['rsync', '-a', '--delete', '--exclude', '/work', '--exclude', '/.git', ROOT + '/', '/root/work/vcopy-matrix/'], check=True)
os.makedirs('/root/work/vcopy-matrix/work', exist_ok=True)
os.environ['SEED_VCOPY'] = '/root/work/vcopy-matrix'
os.environ['SEED_NOSYNC'] = '1'
def run(seed, prop):
    out = subprocess.run([os.path.join(ROOT, 'lib', 'seed_batch.sh'), '%s %s' % (seed, prop)], capture_output=True, text=True).stdout
    m = re.search(r'run_seed \S+ \S+: rc=(\d+)', out)
    rc = int(m.group(1)) if m else -1
    nfi = 'no-failing-input-found' in out
    summ = [l for l in out.split('\n') if re.match(r'^C\d\d\w*: (PASS|FAIL)', l)]
    return rc, nfi, (summ[-1] if summ else out.strip().split('\n')[-1][:160])
for sd in seeds:
    mp = os.path.join(ROOT, 'seeded', sd, 'meta.json')
    meta = json.load(open(mp)) if os.path.exists(mp) else {}
    own = sd.split('-')[0]
    others = []
    for c in meta.get('checks_run', []):
        m = re.search(r'run_seed\.sh \S+ (C\d\d)', c.get('cmd', ''))
        if m and 'VIOLATION' in c.get('result', '') and m.group(1) != own and m.group(1) not in others:
            others.append(m.group(1))
    t = time.time()
    rc, nfi, summ = run(sd, own)
    verdicts = ['%s: %s' % (own, 'VIOLATION' + (' (no-failing-input-found)' if nfi else ' with failing input') if rc == 1 else ('pass' if rc == 0 else 'ERROR rc=%d' % rc))]
    if rc != 1:
        for o in others:
            rc2, nfi2, _ = run(sd, o)
            verdicts.append('%s: %s' % (o, 'VIOLATION' + (' (no-failing-input-found)' if nfi2 else ' with failing input') if rc2 == 1 else ('pass' if rc2 == 0 else 'ERROR rc=%d' % rc2)))
    rows.append((sd, meta.get('needs_to_manifest', '')[:150], '; '.join(verdicts)))
    print(sd, verdicts, '%.0fs' % (time.time() - t), flush=True)
    with open(os.environ.get('SEED_MATRIX_OUT', os.path.join(ROOT, 'docs', 'SEED_MATRIX.md')), 'w') as f:
        f.write('# Seeded changes against the current checks\n\nWritten by `lib/seed_matrix.py` (re-runs every seed; commit of /verif at the time: see git log of this file).\n\n| seed | change | verdicts |\n|---|---|---|\n')
        for r in rows:
            f.write('| %s | %s | %s |\n' % r)
