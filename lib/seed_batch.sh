#!/bin/bash
# lib/seed_batch.sh "<seed> <prop>" ...   - runs each seed against a synchronised COPY of /verif (/root/work/vcopy),
# so that the seeded runs neither disturb nor are disturbed by builds going on in /verif (shared harness target dirs).
# The copy is refreshed (rsync, build outputs included, work/ excluded) before the batch; output of each run: 3 lines.
set -u
V=${SEED_VCOPY:-/root/work/vcopy}
mkdir -p $V
if [ -z "${SEED_NOSYNC:-}" ]; then rsync -a --delete --exclude /work --exclude /.git /verif/ $V/; fi
mkdir -p $V/work; echo "SYNCED $(date +%T)"
for sp in "$@"; do
  set -- $sp
  VERIF_ROOT=$V /verif/lib/run_seed.sh $1 $2 ${3:-quick} 2>&1 | grep -v "^KNOWN\|WARNING conda" | cut -c1-400
done
