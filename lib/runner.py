"""Check runner: see ../check for the contract and DESIGN.md section 5 for the decision procedure."""
import sys, os, re, json, time, subprocess, hashlib, glob, fcntl, random, shutil

ROOT = os.path.dirname(os.path.dirname(os.path.abspath(__file__)))
sys.path.insert(0, os.path.join(ROOT, 'lib'))
import glue
import rs2v

COQ = os.path.join(ROOT, 'coq')
WORK = os.path.join(ROOT, 'work')
REPLAYS = os.path.join(ROOT, 'replays')
HARNESS = os.path.join(ROOT, 'harness')
GUARD_RUSTFLAGS = '--cfg vm_memory_verif'
# the tree under test; only mutation self-tests override it (VERIF_REPO=<scratch copy of /repo>)
REPO = os.environ.get('VERIF_REPO', '/repo')

FORBIDDEN = re.compile(r'\b(Admitted|admit|Axiom|Axioms|Parameter|Parameters|Conjecture|Conjectures)\b'
                       r'|Unset\s+Guard|bypass_check|type-in-type|impredicative-set|Admit\s+Obligations'
                       r'|Unset\s+Positivity|Unset\s+Universe\s+Checking|native_compute')
SECTION_ONLY = re.compile(r'^\s*(Variable|Variables|Hypothesis|Hypotheses|Context)\b')


class CheckError(Exception):
    pass


def log(*a):
    print(*a, file=sys.stderr, flush=True)


def sh(cmd, cwd=None, env=None, timeout=1800, stdin=None, stdout_path=None):
    e = dict(os.environ)
    e.update({'CARGO_NET_OFFLINE': 'true', 'GOPROXY': 'off', 'PIP_NO_INDEX': '1'})
    if env:
        e.update(env)
    t0 = time.time()
    try:
        if stdout_path:
            with open(stdout_path, 'wb') as fo:
                p = subprocess.run(cmd, cwd=cwd, env=e, timeout=timeout, stdin=stdin, stdout=fo,
                                   stderr=subprocess.PIPE, shell=isinstance(cmd, str))
            out = ''
        else:
            p = subprocess.run(cmd, cwd=cwd, env=e, timeout=timeout, stdin=stdin, stdout=subprocess.PIPE,
                               stderr=subprocess.STDOUT, shell=isinstance(cmd, str))
            out = p.stdout.decode('utf-8', 'replace')
        err = p.stderr.decode('utf-8', 'replace') if p.stderr else ''
        return p.returncode, out, err, time.time() - t0
    except subprocess.TimeoutExpired as ex:
        return -999, '', 'TIMEOUT after %ss' % timeout, time.time() - t0


# ----------------------------------------------------------------------------- property config
def load_prop(pid):
    p = os.path.join(ROOT, 'manifest.d', pid + '.json')
    if not os.path.exists(p):
        raise CheckError('no such property fragment: ' + p)
    d = json.load(open(p))
    d.setdefault('suites', [pid])
    d.setdefault('builds', ['debug'])
    d.setdefault('coq_files', ['Properties/%s.v' % pid])
    d.setdefault('allowed_axioms', [])
    d.setdefault('reeval_samples', 40)
    d.setdefault('trivial_obs', None)
    d.setdefault('hist_case_idx', [])
    d.setdefault('hist_obs_idx', [0])
    d.setdefault('gen_timeout', 900)
    return d


# ----------------------------------------------------------------------------- source gates
def _strip_rust_comments(src):
    """`//` line comments and `/* */` block comments removed (string literals are not parsed: a gate
    regex is written for item headers - attributes, `impl .. for ..` - where none occur)."""
    src = re.sub(r'/\*.*?\*/', ' ', src, flags=re.S)
    return '\n'.join(re.sub(r'//.*$', '', l) for l in src.split('\n'))


def check_source_gates(prop):
    """Fragment key "source_gates": a list of {"file": <path or glob relative to the tree under test>,
    "must_match": <regex or list>, "must_not_match": <regex or list>, "name": <optional label>,
    "describe": <optional words for the report instead of the regex>}.  The
    regexes (re.M | re.S) are evaluated on the comment-stripped text of the file(s) of the tree under
    test: every must_match regex has to match in at least one of the files, no must_not_match regex may
    match in any.  One obligation per gate; a failing gate (or a gate whose file is gone) is a broken
    obligation 'source-gate:...', reported like a broken GenEq lemma.  Returns None without the key."""
    gates = prop.get('source_gates')
    if not gates:
        return None
    res = {'obligations': len(gates), 'broken': [], 'gates': []}
    for i, g in enumerate(gates):
        name = g.get('name') or ('gate%d' % i)
        pat = g['file']
        files = sorted(glob.glob(os.path.join(REPO, pat), recursive=True))
        as_list = lambda v: [] if v is None else ([v] if isinstance(v, str) else list(v))
        why = []
        if not files:
            why.append('no file matches %s in the tree under test' % pat)
        texts = []
        for f in files:
            try:
                texts.append((os.path.relpath(f, REPO), _strip_rust_comments(open(f, errors='replace').read())))
            except OSError as ex:
                why.append('cannot read %s: %s' % (f, ex))
        for rx in as_list(g.get('must_match')):
            if texts and not any(re.search(rx, t, re.M | re.S) for _, t in texts):
                why.append('required pattern not found in %s: %s' % (pat, g.get('describe') or rx))
        for rx in as_list(g.get('must_not_match')):
            for rel, t in texts:
                m = re.search(rx, t, re.M | re.S)
                if m:
                    line = t.count('\n', 0, m.start()) + 1
                    why.append('forbidden pattern found at %s:%d `%s`' % (rel, line, ' '.join(m.group(0).split())[:120]))
        res['gates'].append({'name': name, 'file': pat, 'files': len(files), 'ok': not why})
        if why:
            res['broken'].append('source-gate:%s %s' % (name, '; '.join(why)))
    return res



# ----------------------------------------------------------------------------- Coq side
def coq_gate():
    """Textual gate over the whole development: no Admitted/Axiom/..., Variables only in sections."""
    bad = []
    for f in glob.glob(os.path.join(COQ, '**', '*.v'), recursive=True):
        depth = 0
        txt = open(f).read()
        # strip comments (nested) before matching
        out, i, lvl = [], 0, 0
        while i < len(txt):
            if txt.startswith('(*', i):
                lvl += 1; i += 2
            elif txt.startswith('*)', i) and lvl > 0:
                lvl -= 1; i += 2
            else:
                if lvl == 0:
                    out.append(txt[i])
                elif txt[i] == '\n':
                    out.append('\n')
                i += 1
        for ln, line in enumerate(''.join(out).split('\n'), 1):
            if re.match(r'^\s*Section\b', line):
                depth += 1
            elif re.match(r'^\s*End\b', line) and depth > 0:
                depth -= 1
            m = FORBIDDEN.search(line)
            if m:
                bad.append('%s:%d: %s' % (os.path.relpath(f, ROOT), ln, m.group(0)))
            if SECTION_ONLY.match(line) and depth == 0:
                bad.append('%s:%d: %s outside a section' % (os.path.relpath(f, ROOT), ln, line.strip()[:40]))
    return bad


THM_RE = re.compile(r'^(Theorem|Corollary)\s+(\w+)\s*:(.*?)\nProof\.\s*exact\s+([\w.@]+)\s*\.\s*Qed\.', re.S | re.M)


def theorem_statements(relfile):
    txt = open(os.path.join(COQ, relfile)).read()
    res = []
    for m in THM_RE.finditer(txt):
        stmt = ' '.join(m.group(3).split())
        res.append((m.group(2), stmt, m.group(4)))
    return res


def pins_path():
    return os.path.join(COQ, 'Properties', 'pins.json')


def check_pins(prop, update=False):
    pins = json.load(open(pins_path())) if os.path.exists(pins_path()) else {}
    problems, thms = [], []
    for f in prop['coq_files']:
        if not f.startswith('Properties/'):
            continue
        for name, stmt, lemma in theorem_statements(f):
            h = hashlib.sha256(stmt.encode()).hexdigest()[:16]
            thms.append((f, name, stmt))
            if update:
                pins[name] = h
            elif pins.get(name) != h:
                problems.append('%s: statement of %s differs from its pin (run ./check --update-pins after review)' % (f, name))
    if update:
        json.dump(pins, open(pins_path(), 'w'), indent=1, sort_keys=True)
    return thms, problems


def ensure_makefile():
    glue.main()
    mk = os.path.join(COQ, 'Makefile')
    cp = os.path.join(COQ, '_CoqProject')
    if not os.path.exists(mk) or os.path.getmtime(mk) < os.path.getmtime(cp):
        rc, out, err, _ = sh(['coq_makefile', '-f', '_CoqProject', '-o', 'Makefile'], cwd=COQ, timeout=120)
        if rc != 0:
            raise CheckError('coq_makefile failed: ' + out + err)


def build_coq(prop):
    """Builds the property's .vo files and the extraction.  Returns (ok, log)."""
    ensure_makefile()
    targets = [f[:-2] + '.vo' for f in prop['coq_files']] + ['Extract.vo']
    rc, out, err, dt = sh(['timeout', '3000', 'make', '-j16'] + targets, cwd=COQ, timeout=3100)
    return rc == 0, out + err, dt


def print_assumptions(prop, thms):
    """Re-runs Print Assumptions for every pinned theorem (fresh coqc on a generated file)."""
    os.makedirs(WORK, exist_ok=True)
    mods = sorted(set(f[:-2].replace('/', '.') for f, _, _ in thms))
    path = os.path.join(WORK, 'Assumptions_%s.v' % prop['property_id'])
    with open(path, 'w') as fo:
        fo.write('From VM Require Import %s.\n' % ' '.join(mods))
        for _, name, _ in thms:
            fo.write('Print Assumptions %s.\n' % name)
    rc, out, err, _ = sh(['timeout', '600', 'coqc', '-Q', COQ, 'VM', path], cwd=WORK, timeout=700)
    if rc != 0:
        return None, out + err
    # split the output per theorem: each Print Assumptions prints either "Closed under the global context"
    # or "Axioms:" followed by indented entries
    blocks, cur = [], None
    for line in out.split('\n'):
        if line.startswith('Closed under the global context'):
            blocks.append([])
            cur = None
        elif line.startswith('Axioms:'):
            cur = []
            blocks.append(cur)
        elif cur is not None and line.strip():
            m = re.match(r'^(\S+)\s*:', line)
            if m and not line.startswith(' '):
                cur.append(m.group(1))
    return blocks, out


# ----------------------------------------------------------------------------- driver / harness
def build_driver():
    b = os.path.join(ROOT, 'ocaml', '_build')
    os.makedirs(b, exist_ok=True)
    srcs = [os.path.join(COQ, 'extracted', 'model.mli'), os.path.join(COQ, 'extracted', 'model.ml'),
            os.path.join(ROOT, 'ocaml', 'suites.ml'), os.path.join(ROOT, 'ocaml', 'driver.ml')]
    exe = os.path.join(b, 'driver')
    h = hashlib.sha256()
    for s in srcs:
        h.update(open(s, 'rb').read())
    stamp = os.path.join(b, 'stamp')
    if os.path.exists(exe) and os.path.exists(stamp) and open(stamp).read() == h.hexdigest():
        return exe
    for s in srcs:
        shutil.copy(s, b)
    rc, out, err, _ = sh(['ocamlfind', 'ocamlopt', '-w', '-a', '-inline', '100', 'model.mli', 'model.ml',
                          'suites.ml', 'driver.ml', '-o', 'driver'], cwd=b, timeout=900)
    if rc != 0:
        raise CheckError('driver build failed:\n' + out + err)
    open(stamp, 'w').write(h.hexdigest())
    return exe


def harness_exe(build):
    xen = build.startswith('xen-')
    rel = build.endswith('release')
    tdir = os.path.join(HARNESS, 'target-xen' if xen else 'target')
    return os.path.join(tdir, 'release' if rel else 'debug', 'vmh')


def build_harness(build):
    xen = build.startswith('xen-')
    rel = build.endswith('release')
    shutil.copy(os.path.join(REPO, 'Cargo.lock'), os.path.join(HARNESS, 'Cargo.lock'))
    toml = open(os.path.join(HARNESS, 'Cargo.toml.in')).read().replace('@REPO@', REPO)
    glue.write_if_changed(os.path.join(HARNESS, 'Cargo.toml'), toml)
    cmd = ['cargo', 'build', '--offline', '--quiet']
    if rel:
        cmd.append('--release')
    if xen:
        cmd += ['--features', 'xen']
    env = {'RUSTFLAGS': GUARD_RUSTFLAGS + ' -Awarnings',
           'CARGO_TARGET_DIR': os.path.join(HARNESS, 'target-xen' if xen else 'target')}
    rc, out, err, dt = sh(cmd, cwd=HARNESS, env=env, timeout=1500)
    if rc != 0:
        raise CheckError('harness build (%s) failed against the current /repo tree:\n%s' % (build, (out + err)[-4000:]))
    return harness_exe(build), dt


def corpus_lines(suite):
    lines = []
    for f in sorted(glob.glob(os.path.join(ROOT, 'corpus', suite, '*.case'))):
        for l in open(f):
            l = l.strip()
            if l and not l.startswith('#'):
                lines.append(l)
    return lines


def run_vmh(exe, args, stdin_text=None, out_path=None, timeout=900, env=None):
    """Runs the harness; returns (returncode, stderr).  Trace goes to out_path."""
    e = dict(os.environ)
    if env:
        e.update(env)
    with open(out_path, 'wb') as fo:
        try:
            p = subprocess.run([exe] + args, input=(stdin_text.encode() if stdin_text is not None else None),
                               stdout=fo, stderr=subprocess.PIPE, timeout=timeout, env=e)
            return p.returncode, p.stderr.decode('utf-8', 'replace')
        except subprocess.TimeoutExpired:
            return -999, 'TIMEOUT'


def run_driver(driver, trace_path, timeout=1800):
    # bounded stack / address space / time: a perturbed or shrunk candidate may carry absurd numbers that make
    # the model build astronomically large unary naturals or lists; that must fail fast, not hang the check
    rc, out, err, dt = sh('ulimit -s 1000000 2>/dev/null; ulimit -v 12000000 2>/dev/null; exec %s' % driver,
                          stdin=open(trace_path, 'rb'), timeout=timeout)
    if rc != 0:
        raise CheckError('driver failed rc=%s: %s' % (rc, (out + err)[-2000:]))
    res = {'disagree': {}, 'specfail': set(), 'malformed': set(), 'summary': None}
    for line in out.split('\n'):
        m = re.match(r'^(\d+) (DISAGREE|SPECFAIL|MALFORMED)(.*)$', line)
        if m:
            n = int(m.group(1))
            if m.group(2) == 'DISAGREE':
                res['disagree'][n] = m.group(3).replace(' model= ', '', 1).strip()
            elif m.group(2) == 'SPECFAIL':
                res['specfail'].add(n)
            else:
                res['malformed'].add(n)
        elif line.startswith('SUMMARY'):
            res['summary'] = dict(kv.split('=') for kv in line.split()[1:])
    if res['summary'] is None:
        raise CheckError('driver printed no summary')
    return res


# ----------------------------------------------------------------------------- tokens (python side)
def parse_tok(w):
    if w.startswith('['):
        inner = w[1:-1]
        return [int(x, 16) for x in inner.split(',')] if inner else []
    return int(w, 16)


def show_tok(t):
    if isinstance(t, list):
        return '[' + ','.join('%x' % x for x in t) + ']'
    return '%x' % t


def split_line(line):
    w = line.split()
    suite = w[0]
    if '=>' in w:
        i = w.index('=>')
        return suite, w[1:i], w[i + 1:]
    return suite, w[1:], []


def coq_tok(w):
    t = parse_tok(w)
    if isinstance(t, list):
        return 'TL [' + '; '.join(str(x) for x in t) + ']'
    return 'TN %d' % t


def coq_reeval(prop, lines, expect):
    """Evaluates the extracted functions' Gallina originals inside Coq on sampled lines."""
    if not lines:
        return 0, 0
    pid = prop['property_id']
    suites = sorted(set(split_line(l)[0] for l in lines))
    mods = set()
    for name, sfun in glue.suites():
        if sfun[len('suite_'):] in suites:
            mods.add('Suite.' + name)
    path = os.path.join(WORK, 'Cases_%s.v' % pid)
    with open(path, 'w') as fo:
        fo.write('From VM Require Import Prelude.MachInt Prelude.Tok %s.\n' % ' '.join(sorted(mods)))
        fo.write('Definition chk (obs : list tok) (v : verdict) : bool := toks_eqb (v_model v) obs && v_ok v && v_wellformed v.\n')
        for l in lines:
            s, inp, obs = split_line(l)
            ci = '[' + '; '.join(coq_tok(w) for w in inp) + ']'
            co = '[' + '; '.join(coq_tok(w) for w in obs) + ']'
            fo.write('Eval vm_compute in (chk %s (suite_%s %s %s)).\n' % (co, s, ci, co))
    rc, out, err, dt = sh(['timeout', '900', 'coqc', '-Q', COQ, 'VM', path], cwd=WORK, timeout=1000)
    if rc != 0:
        raise CheckError('in-Coq re-evaluation failed to compile:\n' + (out + err)[-3000:])
    got = re.findall(r'=\s*(true|false)\s*\n?\s*:\s*bool', out)
    if len(got) != len(lines):
        raise CheckError('in-Coq re-evaluation: %d answers for %d cases' % (len(got), len(lines)))
    mism = sum(1 for g, e in zip(got, expect) if (g == 'true') != e)
    return len(lines), mism


# ----------------------------------------------------------------------------- known findings
def load_known():
    known, fixed = [], []
    p = os.path.join(ROOT, 'known_findings.txt')
    if os.path.exists(p):
        for l in open(p):
            l = l.strip()
            if l.startswith('known:'):
                m = re.match(r'known:\s*property=(\S+)\s+key=(\S+)\s+(.*)$', l)
                if m:
                    known.append({'property': m.group(1), 'key': re.compile(m.group(2)), 'what': m.group(3)})
            elif l.startswith('fixed:'):
                fixed.append(l)
    return known, fixed


# ----------------------------------------------------------------------------- search helpers
def perturbations(inp, rnd, limit=400):
    """Token-level neighbours of a case: every number +-1,2,8, halved, doubled, zeroed,
    boundary values; lists shortened / extended / element-changed."""
    toks = [parse_tok(w) for w in inp]
    cands = []
    for i, t in enumerate(toks):
        if isinstance(t, int):
            vs = {t + 1, t + 2, t + 8, t - 1, t - 2, t - 8, t // 2, t * 2, 0, 1, t ^ 1, t + 4096, t - 4096,
                  (1 << 64) - 1, (1 << 64) - 1 - t if t < (1 << 64) else 0}
            for v in vs:
                if v >= 0 and v != t and v < (1 << 128):
                    c = list(toks); c[i] = v; cands.append(c)
        else:
            if t:
                c = list(toks); c[i] = t[:-1]; cands.append(c)
                c = list(toks); c[i] = t[1:]; cands.append(c)
                c = list(toks); c[i] = t[:len(t) // 2]; cands.append(c)
                c = list(toks); c[i] = t + [t[-1]]; cands.append(c)
                for j in range(min(len(t), 6)):
                    for v in (t[j] + 1, max(t[j] - 1, 0), 0):
                        if v != t[j]:
                            c = list(toks); c[i] = t[:j] + [v] + t[j + 1:]; cands.append(c)
            else:
                c = list(toks); c[i] = [0]; cands.append(c)
    rnd.shuffle(cands)
    return [[show_tok(t) for t in c] for c in cands[:limit]]


def shrink_candidates(inp):
    toks = [parse_tok(w) for w in inp]
    cands = []
    for i, t in enumerate(toks):
        if isinstance(t, int):
            for v in (0, t // 2, t - 1):
                if 0 <= v < t:
                    c = list(toks); c[i] = v; cands.append(c)
        else:
            n = len(t)
            if n:
                for c2 in (t[:n // 2], t[n // 2:], t[:-1], t[1:]):
                    if len(c2) < n:
                        c = list(toks); c[i] = c2; cands.append(c)
                for j in range(min(n, 8)):
                    if t[j] > 0:
                        c = list(toks); c[i] = t[:j] + [t[j] // 2] + t[j + 1:]; cands.append(c)
    return [[show_tok(t) for t in c] for c in cands]


class Session:
    """Replays explicit cases of one suite on one build and classifies them with the driver."""

    def __init__(self, exe, driver, suite, tag):
        self.exe, self.driver, self.suite, self.tag = exe, driver, suite, tag
        self.n = 0

    def classify(self, cases):
        """cases: list of token-word lists -> list of (line, status) with status in
        {'ok','specfail','disagree','both','malformed','crash'}"""
        if not cases:
            return []
        self.n += 1
        tp = os.path.join(WORK, 'replay_%s_%d.trace' % (self.tag, self.n % 4))
        text = '\n'.join(' '.join(c) for c in cases) + '\n'
        rc, err = run_vmh(self.exe, ['replay', self.suite], stdin_text=text, out_path=tp, timeout=300,
                          env={'VMH_FLUSH': '1'})
        lines = [l.rstrip('\n') for l in open(tp)]
        try:
            res = run_driver(self.driver, tp, timeout=45)
        except CheckError as ex:
            # a perturbed / shrunk candidate made the model blow up: ignore this batch
            log('note: driver failed on a candidate batch (%s); batch ignored' % str(ex)[:120])
            return []
        out = []
        for i, l in enumerate(lines, 1):
            st = 'ok'
            if i in res['malformed']:
                st = 'malformed'
            elif i in res['specfail'] and i in res['disagree']:
                st = 'both'
            elif i in res['specfail']:
                st = 'specfail'
            elif i in res['disagree']:
                st = 'disagree'
            out.append((l, st))
        if rc != 0 and len(lines) < len(cases):
            out.append(('%s %s => CRASH rc=%s' % (self.suite, ' '.join(cases[len(lines)]), rc), 'crash'))
        return out


def shrink(sess, line, rounds=25):
    suite, inp, obs = split_line(line)
    best = line
    for _ in range(rounds):
        cands = shrink_candidates(inp)
        if not cands:
            break
        res = sess.classify(cands[:300])
        hit = next((l for l, st in res if st in ('specfail', 'both', 'crash')), None)
        if hit is None:
            break
        best = hit
        _, inp, obs = split_line(hit)
    return best


# ----------------------------------------------------------------------------- main
def write_replay(pid, kind, build, header, lines):
    os.makedirs(REPLAYS, exist_ok=True)
    h = hashlib.sha256(('\n'.join(lines) + kind + '\n'.join(header)).encode()).hexdigest()[:12]
    path = os.path.join(REPLAYS, '%s-%s.case' % (pid, h))
    with open(path, 'w') as fo:
        fo.write('# property=%s kind=%s build=%s\n' % (pid, kind, build))
        for hline in header:
            fo.write('# ' + hline + '\n')
        for l in lines:
            fo.write(l + '\n')
    return path


def write_evidence(prop, ev):
    # evidence/ describes runs against /repo itself; a mutation self-test (VERIF_REPO=<scratch copy>) writes elsewhere
    edir = os.path.join(ROOT, 'evidence') if REPO == '/repo' else os.path.join(WORK, 'evidence-mutant')
    os.makedirs(edir, exist_ok=True)
    path = os.path.join(edir, prop['property_id'] + '.json')
    json.dump(ev, open(path, 'w'), indent=1)
    return path


def do_replay(prop, path, driver):
    txt = open(path).read().split('\n')
    bl = [l for l in txt if l.startswith('#borrow ')]
    if bl:
        import borrowck
        res = borrowck.run(REPO)
        still = [p for p in bl[0].split()[1:] if p in res['accepted']]
        for p in bl[0].split()[1:]:
            print('%-9s borrow/src/bin/%s.rs' % ('ACCEPTED' if p in still else 'rejected', p))
        if still:
            print('VIOLATION property=%s replay=%s' % (prop['property_id'], path))
            return 1
        print('replay: every listed program is rejected by the borrow checker')
        return 0
    build = 'debug'
    m = re.search(r'build=(\S+)', txt[0]) if txt else None
    if m:
        build = m.group(1)
    if build not in prop['builds']:
        build = prop['builds'][0]
    exe, _ = build_harness(build)
    bad = 0
    by_suite = {}
    for l in txt:
        l = l.strip()
        if l and not l.startswith('#'):
            s, inp, _ = split_line(l)
            by_suite.setdefault(s, []).append(inp)
    for s, cases in by_suite.items():
        sess = Session(exe, driver, s, 'rp')
        for l, st in sess.classify(cases):
            print('%-9s %s' % (st.upper(), l))
            if st != 'ok':
                bad += 1
    if bad:
        print('VIOLATION property=%s replay=%s' % (prop['property_id'], path))
        return 1
    print('replay: all cases agree with the model and satisfy the spec checker')
    return 0


def main(argv):
    import argparse
    ap = argparse.ArgumentParser()
    ap.add_argument('property', nargs='?')
    ap.add_argument('--tier', default=os.environ.get('VERIF_TIER', 'quick'))
    ap.add_argument('--replay')
    ap.add_argument('--update-pins', action='store_true')
    ap.add_argument('--no-lock', action='store_true')
    a = ap.parse_args(argv)
    if a.tier not in ('quick', 'thorough'):
        a.tier = 'quick'
    seed = int(os.environ.get('VERIF_SEED', '1') or 1)
    os.makedirs(WORK, exist_ok=True)
    lockf = open(os.path.join(ROOT, '.check.lock'), 'w')
    if not a.no_lock:
        fcntl.flock(lockf, fcntl.LOCK_EX)
    try:
        if a.update_pins:
            for f in sorted(glob.glob(os.path.join(ROOT, 'manifest.d', 'C*.json'))):
                p = load_prop(os.path.basename(f)[:-5])
                check_pins(p, update=True)
            print('pins updated')
            return 0
        if not a.property:
            ap.error('property id required')
        prop = load_prop(a.property)
        return run_check(prop, a.tier, seed, a.replay)
    except CheckError as ex:
        log('CHECK-ERROR: ' + str(ex))
        return 2


def run_check(prop, tier, seed, replay):
    pid = prop['property_id']
    t0 = time.time()
    rnd = random.Random(seed)
    broken = []          # broken proof obligations (names)
    notes = []

    # ---- 1. Coq
    gate = coq_gate()
    if gate:
        raise CheckError('forbidden constructs in the Coq development:\n  ' + '\n  '.join(gate))
    thms, pinproblems = check_pins(prop)
    if pinproblems:
        raise CheckError('\n'.join(pinproblems))
    # kernel translator: regenerate coq/Gen/*.v from the CURRENT source (before the Makefile is refreshed)
    try:
        gen_status = rs2v.regenerate(REPO)
    except rs2v.Rs2vError as ex:
        raise CheckError(str(ex))
    ok, coqlog, coq_dt = build_coq(prop)
    if not ok:
        # a theorem file (or the generated kernel equality) no longer compiles
        m = re.search(r'File "\./([^"]+)", line (\d+)', coqlog)
        where = '%s:%s' % (m.group(1), m.group(2)) if m else 'unknown'
        if m and not m.group(1).startswith(('Gen', 'Proofs/GenEq')):
            raise CheckError('Coq build failed in hand-written file %s (not caused by /repo):\n%s' % (where, coqlog[-3000:]))
        broken.append('coq:' + where)
    blocks, paout = (None, '')
    obligations = len(thms)
    discharged = 0
    axioms_seen = set()
    if ok:
        blocks, paout = print_assumptions(prop, thms)
        if blocks is None or len(blocks) != len(thms):
            raise CheckError('Print Assumptions run failed or printed %s blocks for %d theorems:\n%s'
                             % (None if blocks is None else len(blocks), len(thms), paout[-2000:]))
        for (f, name, _), ax in zip(thms, blocks):
            extra = [x for x in ax if x not in prop['allowed_axioms']]
            axioms_seen.update(ax)
            if extra:
                raise CheckError('theorem %s depends on axioms outside the allow-list: %s' % (name, extra))
            discharged += 1
    # the GenEq lemmas (generated kernel = hand model) this property registered: one obligation each;
    # a lemma that no longer compiles is a broken proof obligation, the correspondence search still runs
    geneq = rs2v.check_geneq(prop, gen_status)
    obligations += len(geneq['lemmas'])
    discharged += len(geneq['discharged'])
    broken += geneq['broken']
    for b in geneq['broken']:
        log('BROKEN OBLIGATION ' + b)
    # panic-site inventory (fragment key "panic_inventory", docs/RS2V.md): a new panic site in a watched file
    # is a broken obligation; the counts go into the evidence
    psites = rs2v.check_panic_sites(prop)
    if psites:
        obligations += psites['obligations']
        discharged += psites['obligations']
        broken += psites['broken']
        for b in psites['broken']:
            log('BROKEN OBLIGATION ' + b)
    # impl inventory (fragment key "impl_inventory", docs/RS2V.md): code added BESIDE the tied functions (a shadowing inherent
    # method, an override inside an existing impl block, a new Drop / Clone / comparison / crate-trait impl)
    iinv = rs2v.check_impl_inventory(prop)
    if iinv:
        obligations += iinv['obligations']
        discharged += iinv['obligations']
        broken += iinv['broken']
        for b in iinv['broken']:
            log('BROKEN OBLIGATION ' + b)
    # source gates (fragment key "source_gates"): facts about the source text of the tree under test that a
    # theorem's reading relies on and no kernel regenerates (e.g. a derive list); a failing gate is a broken obligation
    sgates = check_source_gates(prop)
    if sgates:
        obligations += sgates['obligations']
        discharged += sgates['obligations']
        broken += sgates['broken']
        for b in sgates['broken']:
            log('BROKEN OBLIGATION ' + b)
    # compile-fail corpus (fragment key "borrow_corpus", borrow/README.md): a client program that lets an accessor
    # outlive its owner and COMPILES is a failing input; a program whose outcome is neither is a broken obligation
    borrow = None
    if prop.get('borrow_corpus'):
        import borrowck
        borrow = borrowck.run(REPO)
        obligations += borrow['checked']
        discharged += borrow['checked'] - len(borrow['accepted']) - len(borrow['other'])
        for name, why in borrow['other']:
            broken.append('borrow:%s %s' % (name, why))
            log('BROKEN OBLIGATION borrow:%s %s' % (name, why[:300]))
    driver = build_driver()

    if replay:
        return do_replay(prop, replay, driver)

    # ---- 2/3. harness runs + driver
    known, fixed = load_known()
    known = [k for k in known if k['property'] == pid]
    total = 0
    agree_ok = 0
    all_spec = []      # (build, suite, line)
    all_dis = []       # (build, suite, line, model)
    hist = {}
    distinct = set()
    distinct_nontrivial = set()
    samples = []
    reeval_pool = []
    build_times = {}
    sessions = {}
    triv = re.compile(prop['trivial_obs']) if prop['trivial_obs'] else None
    hung = False
    for build in prop['builds']:
        exe, bdt = build_harness(build)
        build_times[build] = round(bdt, 1)
        for suite in prop['suites']:
            sessions[(build, suite)] = Session(exe, driver, suite, '%s_%s_%s' % (pid, build, suite))
            if hung:
                continue    # a case that never returns was found: that is the verdict, do not wait for it again in every build
            tp = os.path.join(WORK, 'trace_%s_%s_%s.txt' % (pid, build, suite))
            # corpus first
            corp = corpus_lines(suite)
            ctp = tp + '.corpus'
            crash = None
            crash_line = None
            # a suite may be an empty stand-in in this build flavour (e.g. Xen suites in the standard build):
            # then its corpus does not apply here either
            ptp = tp + '.probe'
            run_vmh(exe, ['gen', suite, 'quick', '0'], out_path=ptp, timeout=prop['gen_timeout'], env={'VMH_PROBE': '1'})
            if corp and os.path.getsize(ptp) == 0:
                corp = []
            if corp:
                rc, err = run_vmh(exe, ['replay', suite], stdin_text='\n'.join(corp) + '\n', out_path=ctp, timeout=600)
                if rc != 0:
                    crash = ('corpus', rc, err)
            else:
                open(ctp, 'w').close()
            gtp = tp + '.gen'
            rc, err = run_vmh(exe, ['gen', suite, tier, str(seed)], out_path=gtp, timeout=prop['gen_timeout'] * (6 if tier == 'thorough' else 1))
            if rc != 0:
                crash = ('gen', rc, err)
            with open(tp, 'w') as fo:
                fo.write(open(ctp).read())
                fo.write(open(gtp).read())
            if crash:
                # find the culprit: rerun with per-case announcement + flush
                atp = tp + '.announce'
                if crash[0] == 'gen':
                    # a hang (TIMEOUT) recurs at the same case: the announcing re-run needs no more time than the first run
                    run_vmh(exe, ['gen', suite, tier, str(seed)], out_path=atp,
                            timeout=prop['gen_timeout'] * (1 if crash[1] == -999 else 6),
                            env={'VMH_ANNOUNCE': '1', 'VMH_FLUSH': '1'})
                else:
                    run_vmh(exe, ['replay', suite], stdin_text='\n'.join(corp) + '\n', out_path=atp, timeout=600,
                            env={'VMH_ANNOUNCE': '1', 'VMH_FLUSH': '1'})
                last = None
                for l in open(atp, errors='replace'):
                    if l.startswith('#CASE '):
                        last = l[len('#CASE '):].strip()
                if crash[1] == -999:
                    hung = True
                culprit = '%s %s => CRASH rc=%s' % (suite, last or '?', crash[1])
                crash_line = (build, suite, culprit)
                notes.append('harness process died (rc=%s, %s) while running suite %s [%s]: %s'
                             % (crash[1], crash[2].strip()[-200:], suite, build, culprit))
                if crash[0] == 'gen':
                    # the buffered output of the crashed run is lost; the cases completed (and flushed) before the
                    # crash in the announce run are judged like any others - one of them may be the cause of the crash
                    done = [l for l in open(atp, errors='replace') if not l.startswith('#CASE ') and ' => ' in l]
                    with open(tp, 'w') as fo:
                        fo.write(open(ctp).read())
                        fo.writelines(done)
            res = run_driver(driver, tp)
            lines = [l.rstrip('\n') for l in open(tp)]
            total += len(lines)
            for i, l in enumerate(lines, 1):
                s, inp, obs = split_line(l)
                key = (s, tuple(inp))
                if key not in distinct:
                    distinct.add(key)
                    if triv is None or not triv.search(' '.join(obs)):
                        distinct_nontrivial.add(key)
                hk = '%s/%s->%s' % (s, ','.join(inp[j] for j in prop['hist_case_idx'] if j < len(inp)),
                                   ','.join(obs[j] for j in prop['hist_obs_idx'] if j < len(obs)))
                hist[hk] = hist.get(hk, 0) + 1
                bad = False
                if i in res['specfail']:
                    all_spec.append((build, suite, l)); bad = True
                if i in res['disagree']:
                    all_dis.append((build, suite, l, res['disagree'][i])); bad = True
                if i in res['malformed']:
                    all_dis.append((build, suite, l, 'MALFORMED')); bad = True
                if not bad:
                    agree_ok += 1
            if crash_line:
                # after the cases that completed: a failing case that precedes the crash is reported first
                all_spec.append(crash_line)
            k = max(1, prop['reeval_samples'] // (len(prop['builds']) * len(prop['suites'])))
            idxs = sorted(rnd.sample(range(len(lines)), min(k, len(lines))))
            for i in idxs:
                isbad = (i + 1) in res['specfail'] or (i + 1) in res['disagree'] or (i + 1) in res['malformed']
                if 'CRASH' not in lines[i] and len(lines[i]) < 20000:
                    reeval_pool.append((lines[i], not isbad))
            for i in idxs[:3]:
                samples.append(lines[i][:600])

    # ---- in-Coq re-evaluation of a sample (cross-checks extraction + driver conversions)
    n_re, mism = coq_reeval(prop, [l for l, _ in reeval_pool], [e for _, e in reeval_pool]) if ok else (0, 0)
    if mism:
        raise CheckError('%d of %d sampled cases evaluate differently inside Coq and in the extracted driver' % (mism, n_re))

    # ---- 4. verdict
    exit_code = 0
    out_lines = []
    known_hit = {}
    unknown_spec = []
    for b, s, l in all_spec:
        k = next((k for k in known if k['key'].search(l)), None)
        if k:
            known_hit.setdefault(k['what'], []).append(l)
        else:
            unknown_spec.append((b, s, l))
    for what, ls in known_hit.items():
        out_lines.append('KNOWN-FINDING: property=%s %s (%d cases, e.g. %s)' % (pid, what, len(ls), ls[0][:200]))
    violations = 0
    if borrow and borrow['accepted'] and not unknown_spec:
        progs = borrow['accepted']
        src = open(os.path.join(ROOT, 'borrow', 'src', 'bin', progs[0] + '.rs')).read().split('\n')
        path = write_replay(pid, 'borrow-violation', prop['builds'][0],
                            ['client program(s) that let an accessor outlive the region / map it came from are ACCEPTED by rustc '
                             'against the current source: ' + ', '.join(progs),
                             'replay: cd borrow && cargo check --offline --bin %s   (must fail with a borrow-checker error)' % progs[0],
                             'source of borrow/src/bin/%s.rs:' % progs[0]] + ['    ' + x for x in src]
                            + ['broken proof obligation: ' + x for x in broken], ['#borrow ' + ' '.join(progs)])
        out_lines.append('VIOLATION property=%s replay=%s' % (pid, path))
        violations = len(progs)
        exit_code = 1
    elif unknown_spec:
        b, s, l = unknown_spec[0]
        if 'CRASH' in l:
            small = l
        else:
            small = shrink(sessions[(b, s)], l)
        path = write_replay(pid, 'spec-violation', b,
                            ['the real library\'s observation is rejected by the spec checker ok_%s (or the process died)' % pid,
                             'first failing case (unshrunk): ' + l[:1000],
                             '%d failing cases in this run' % len(unknown_spec)] + notes
                            + ['broken proof obligation: ' + x for x in broken], [small])
        out_lines.append('VIOLATION property=%s replay=%s' % (pid, path))
        violations = len(unknown_spec)
        exit_code = 1
    elif all_dis or broken:
        # the model and the code differ (or an obligation no longer checks) but every observed
        # behaviour satisfied the spec: search around the disagreeing cases for a failing input
        found = None
        searched = 0
        for b, s, l, model in all_dis[:12]:
            _, inp, _ = split_line(l)
            res = sessions[(b, s)].classify(perturbations(inp, rnd))
            searched += len(res)
            hit = next(((l2, st) for l2, st in res if st in ('specfail', 'both', 'crash')), None)
            if hit and not any(k['key'].search(hit[0]) for k in known):
                found = (b, s, hit[0]); break
        if found is None:
            # widen: other seeds of the generator
            for extra in range(1, 4):
                for (b, s), sess in sessions.items():
                    gtp = os.path.join(WORK, 'search_%s_%s_%s.txt' % (pid, b, s))
                    run_vmh(sess.exe, ['gen', s, 'quick', str(seed + 1000 * extra)], out_path=gtp, timeout=prop['gen_timeout'])
                    res = run_driver(driver, gtp)
                    lines = [x.rstrip('\n') for x in open(gtp)]
                    searched += len(lines)
                    for i in sorted(res['specfail']):
                        if not any(k['key'].search(lines[i - 1]) for k in known):
                            found = (b, s, lines[i - 1]); break
                    if found:
                        break
                if found:
                    break
        if found:
            b, s, l = found
            small = shrink(sessions[(b, s)], l) if 'CRASH' not in l else l
            path = write_replay(pid, 'spec-violation', b,
                                ['found by neighbourhood search after %d correspondence disagreements' % len(all_dis)]
                                + ['broken proof obligation: ' + x for x in broken], [small])
            out_lines.append('VIOLATION property=%s replay=%s' % (pid, path))
            violations = 1
        else:
            hdr = ['no input violating the property was found (%d neighbours / regenerated cases searched)' % searched,
                   'what no longer checks:']
            for x in broken:
                hdr.append('  proof obligation: ' + x)
            if all_dis:
                hdr.append('  correspondence of suite(s) %s: %d cases where the real library and the Coq model differ'
                           % (sorted(set(s for _, s, _, _ in all_dis)), len(all_dis)))
            body = []
            for b, s, l, model in all_dis[:40]:
                body.append(l)
                hdr.append('  [%s] model says: %s' % (b, model[:300]))
            path = write_replay(pid, 'correspondence', all_dis[0][0] if all_dis else prop['builds'][0], hdr, body)
            out_lines.append('VIOLATION property=%s replay=%s no-failing-input-found' % (pid, path))
            violations = len(all_dis) + len(broken)
        exit_code = 1

    wall = time.time() - t0
    trusted = ['Coq 8.16.1 kernel (coqc, vm_compute; no native_compute)',
               'axioms reported by Print Assumptions: ' + (', '.join(sorted(axioms_seen)) if axioms_seen else 'none (closed under the global context)'),
               'OCaml extraction with ExtrOcamlBasic only (no Extract Constant / Extract Inductive of our own); cross-checked in Coq on %d sampled cases' % n_re,
               'ocaml/driver.ml (hex token conversion, comparison)',
               'Rust harness /verif/harness (case construction, observation), rustc/std semantics',
               'hand-written model coq/Impl/* tied to /repo by the correspondence runs'
               + (' and, for the kernels of %s, by the rs2v translator (rs2v/src: kernel table, translated subset; docs/RS2V.md)'
                  % ', '.join(geneq['files']) if geneq['files'] else ' only')] + prop.get('trusted_extra', [])
    ev = {
        'property_id': pid, 'tier': tier, 'seed': seed, 'level': prop.get('level', 'proof'),
        'coverage': {
            'obligations': obligations,
            'discharged': discharged if not [x for x in broken if not x.startswith('geneq:')] else max(discharged - len(broken), 0),
            'geneq': {'files': geneq['files'], 'lemmas': geneq['lemmas'], 'discharged': len(geneq['discharged']),
                      'broken': geneq['broken'], 'kernels_regenerated': sum(1 for k in gen_status if k['ok']),
                      'kernels_failed': geneq['kernels_failed']},
            'panic_sites': psites['summary'] if psites else None,
            'impl_inventory': iinv['summary'] if iinv else None,
            'source_gates': sgates['gates'] if sgates else None,
            'checker_cmd': 'make -C coq ' + ' '.join(f[:-2] + '.vo' for f in prop['coq_files']) + ' && coqc work/Assumptions_%s.v' % pid,
            'trusted_base': trusted,
            'theorems': [n for _, n, _ in thms],
            'evaluations': total, 'distinct_nontrivial': len(distinct_nontrivial), 'distinct_cases': len(distinct),
            'rule': prop.get('nontrivial_rule', 'distinct case lines (suite, input tokens) whose observation is not a trivial rejection'),
            'samples': samples[:8],
            'agree_and_spec_ok': agree_ok, 'correspondence_disagreements': len(all_dis), 'spec_failures': len(all_spec),
            'known_findings_matched': {k: len(v) for k, v in known_hit.items()},
            'in_coq_reevaluated': n_re,
            'histogram_case_to_obs': dict(sorted(hist.items(), key=lambda kv: -kv[1])[:60]),
            'builds': prop['builds'], 'suites': prop['suites'], 'harness_build_s': build_times, 'coq_build_s': round(coq_dt, 1),
            'exhaustive': False,
            'explanation': prop.get('explanation', ''),
        },
        'assumptions': prop.get('assumptions', []),
        'wall_s': round(wall, 2), 'violations': violations,
    }
    write_evidence(prop, ev)
    for l in out_lines:
        print(l)
    print('%s: %s  theorems %d/%d  cases %d (distinct non-trivial %d)  disagreements %d  spec failures %d  %.1fs'
          % (pid, 'PASS' if exit_code == 0 else 'FAIL', ev['coverage']['discharged'], obligations, total,
             len(distinct_nontrivial), len(all_dis), len(all_spec), wall))
    return exit_code
