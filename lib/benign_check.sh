#!/bin/bash
# Robustness of the STATIC tie (rs2v + GenEq) against behaviour-preserving rewrites: for each docs/benign/p*.diff
# (or the patches given as arguments) apply it to a scratch copy of /repo, regenerate the kernels from the copy and
# build every GenEq file; prints per patch how many kernels regenerate and how many geneq lemmas still hold, and
# names what does not.  Afterwards coq/Gen is regenerated from /repo again.  usage: lib/benign_check.sh [patch.diff ...]
cd "$(dirname "$0")/.."
exec python3 - "$@" <<'PY'
import sys, os, glob, subprocess, shutil
ROOT = os.getcwd()
sys.path.insert(0, os.path.join(ROOT, 'lib'))
import rs2v
patches = sys.argv[1:] or sorted(glob.glob(os.path.join(ROOT, 'docs', 'benign', 'p*.diff')))
scratch = os.environ.get('BENIGN_SCRATCH', '/root/scratch/%s/benign' % os.path.basename(ROOT))
files = sorted('GenEq/' + os.path.basename(f) for f in glob.glob(os.path.join(ROOT, 'coq', 'GenEq', '*.v')))
rc_all = 0
for p in ['(unchanged /repo)'] + patches:
    copy = os.path.join(scratch, 'repo')
    os.makedirs(scratch, exist_ok=True)
    subprocess.run(['rsync', '-a', '--delete', '--exclude', 'target', '--exclude', '.git', '/repo/', copy + '/'], check=True)
    if not p.startswith('('):
        r = subprocess.run(['patch', '-p1', '-s', '-d', copy, '-i', os.path.abspath(p)], stdout=subprocess.PIPE, stderr=subprocess.STDOUT)
        if r.returncode != 0:
            print('%s: PATCH DOES NOT APPLY: %s' % (os.path.basename(p), r.stdout.decode()[-300:]))
            rc_all = 2
            continue
    st = rs2v.regenerate(copy)
    bad = [k for k in st if not k['ok']]
    res = rs2v.check_geneq({'geneq': files}, st)
    print('%-18s kernels %d/%d  lemmas %d/%d' % ((p if p.startswith('(') else os.path.basename(p)), len(st) - len(bad), len(st), len(res['discharged']), len(res['lemmas'])))
    for k in bad:
        print('    kernel FAILED %s.%s: %s' % (k['module'], k['kernel'], k.get('error', '')[:170]))
    for b in res['broken']:
        print('    ' + b[:230])
    if bad or res['broken']:
        rc_all = max(rc_all, 1)
shutil.rmtree(scratch, ignore_errors=True)
rs2v.regenerate(os.environ.get('VERIF_REPO', '/repo'))
sys.exit(rc_all)
PY
