#!/usr/bin/env python3
"""Generates MANIFEST.json from manifest.d/*.json fragments (+ manifest.d/_base.json)."""
import json, glob, os
ROOT = os.path.dirname(os.path.dirname(os.path.abspath(__file__)))
base = json.load(open(os.path.join(ROOT, 'manifest.d', '_base.json')))
checks, claimed = [], set()
for f in sorted(glob.glob(os.path.join(ROOT, 'manifest.d', 'C*.json'))):
    d = json.load(open(f))
    pid = d['property_id']
    if d.get('disabled'):
        continue
    claimed.add(pid)
    checks.append({
        'property_id': pid,
        'quick_cmd': './check %s --tier quick' % pid,
        'thorough_cmd': './check %s --tier thorough' % pid,
        'evidence_file': '/verif/evidence/%s.json' % pid,
        'replay_cmd_template': './check %s --replay {path}' % pid,
        'engine': 'coq-model+correspondence',
        'level_claimed': {'category': d.get('level', 'proof'), 'text': d['level_text'], 'design_ref': d.get('design_ref', '')},
        'level_note': d['level_note'],
        'technique': d['technique'],
    })
props = [json.loads(l)['id'] for l in open(os.path.join(ROOT, 'properties.jsonl'))]
na = [x for x in base.get('not_applicable', []) if x['property_id'] not in claimed]
listed = set(x['property_id'] for x in na)
for p in props:
    if p not in claimed and p not in listed:
        na.append({'property_id': p, 'reason': base.get('pending_reason', 'not yet claimed: check under construction')})
m = {'version': 1, 'setup_cmd': base['setup_cmd'], 'hooks': base['hooks'], 'engines': base['engines'],
     'checks': checks, 'notes': base.get('notes', ''), 'not_applicable': sorted(na, key=lambda x: x['property_id'])}
for e in m['engines']:
    e['serves_properties'] = sorted(claimed)
json.dump(m, open(os.path.join(ROOT, 'MANIFEST.json'), 'w'), indent=1)
print('MANIFEST.json: %d checks, %d not claimed' % (len(checks), len(na)))
