#!/usr/bin/env python3
"""Compile-fail corpus of C12 (see borrow/README.md).  run(repo) -> dict:
   checked: number of programs, rejected: bad_* rejected by the borrow checker, accepted: [bad_* that COMPILE],
   other: [(program, reason)] programs whose outcome is neither (ok_* not compiling; bad_* failing for another reason)."""
import glob, os, re, shutil, subprocess
ROOT = os.path.dirname(os.path.dirname(os.path.abspath(__file__)))
BORROW = os.path.join(ROOT, 'borrow')
BORROW_CODES = {'E0597', 'E0505', 'E0515', 'E0716', 'E0499', 'E0502', 'E0506', 'E0521', 'E0373', 'E0713'}

def run(repo):
    toml = open(os.path.join(BORROW, 'Cargo.toml.in')).read().replace('@REPO@', repo)
    tp = os.path.join(BORROW, 'Cargo.toml')
    if not os.path.exists(tp) or open(tp).read() != toml:
        open(tp, 'w').write(toml)
    shutil.copy(os.path.join(repo, 'Cargo.lock'), os.path.join(BORROW, 'Cargo.lock'))
    env = dict(os.environ, CARGO_NET_OFFLINE='true', CARGO_TARGET_DIR=os.path.join(BORROW, 'target'),
               RUSTFLAGS='--cfg vm_memory_verif -Awarnings')
    res = {'checked': 0, 'rejected': 0, 'accepted': [], 'other': [], 'programs': []}
    for f in sorted(glob.glob(os.path.join(BORROW, 'src', 'bin', '*.rs'))):
        name = os.path.basename(f)[:-3]
        p = subprocess.run(['cargo', 'check', '--offline', '--quiet', '--bin', name, '--message-format', 'short'],
                           cwd=BORROW, env=env, capture_output=True, text=True, timeout=900)
        codes = set(re.findall(r'error\[(E\d+)\]', p.stderr))
        res['checked'] += 1
        res['programs'].append(name)
        if name.startswith('ok_'):
            if p.returncode != 0:
                res['other'].append((name, 'control program no longer compiles: ' + p.stderr.strip()[-400:]))
        else:
            if p.returncode == 0:
                res['accepted'].append(name)
            elif codes & BORROW_CODES:
                res['rejected'] += 1
            else:
                res['other'].append((name, 'rejected, but not by the borrow checker (%s): %s'
                                     % (','.join(sorted(codes)) or 'no error code', p.stderr.strip()[-400:])))
    return res

if __name__ == '__main__':
    import json, sys
    print(json.dumps(run(sys.argv[1] if len(sys.argv) > 1 else '/repo'), indent=1))
