#!/bin/bash
# lib/redteam_matrix.sh [rtK/Cxx-n ...]  - runs every white-box red-team candidate (redteam/rt*/C*/patch.diff) against the check of
# the property it was written against, in a synchronised copy of /verif (as lib/seed_batch.sh), and appends one line per candidate
# to docs/REDTEAM_MATRIX.md:  candidate | verdict (pass = still MISSED / VIOLATION with failing input / no-failing-input-found).
cd "$(dirname "$0")/.."
ROOT=$(pwd)
V=${SEED_VCOPY:-/root/work/vcopy-rt}
mkdir -p $V; rsync -a --delete --exclude /work --exclude /.git $ROOT/ $V/; mkdir -p $V/work
CANDS="$@"; [ -z "$CANDS" ] && CANDS=$(cd redteam && ls -d rt*/C* round2/rt*/C*)
OUT=docs/REDTEAM_MATRIX.md
echo "# White-box red-team candidates against the current checks (lib/redteam_matrix.sh, $(git log --format=%h -1))" > $OUT
echo >> $OUT; echo "| candidate | check | verdict |" >> $OUT; echo "|---|---|---|" >> $OUT
for c in $CANDS; do
  prop=$(basename $c | cut -d- -f1)
  res=$(SEED_DIR=$ROOT/redteam VERIF_ROOT=$V $ROOT/lib/run_seed.sh $c $prop 2>&1 | grep -v "WARNING conda\|^KNOWN")
  rc=$(echo "$res" | grep -o "rc=[0-9]*" | tail -1)
  if echo "$res" | grep -q "no-failing-input-found"; then v="VIOLATION no-failing-input-found"; elif [ "$rc" = "rc=1" ]; then v="VIOLATION with failing input"; elif [ "$rc" = "rc=0" ]; then v="pass (MISSED)"; else v="error ($rc)"; fi
  sum=$(echo "$res" | grep -E "^C[0-9]+\w*: " | tail -1 | cut -c1-120)
  echo "| $c | $prop | $v - $sum |" >> $OUT
  echo "$c $prop: $v"
done
