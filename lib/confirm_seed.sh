#!/bin/bash
# Confirms a seeded change produced by an independent sub-agent:
#   lib/confirm_seed.sh <ID> [<name>]     reads /tmp/seed-<ID>-out/{patch.diff,demo,notes.md}
# In a fresh scratch worktree of /repo: the patch applies, the crate builds, the baseline tests pass with it,
# the demo FAILS with it and PASSES without it.  On success the material is copied to /verif/seeded/<name>/.
set -u
ID=$1; NAME=${2:-$ID}
PFX=${SEEDPFX:-seed}
OUT=/tmp/$PFX-$ID-out
WT=/tmp/confirm-$ID
export CARGO_NET_OFFLINE=true
rm -rf $WT; git -C /repo worktree prune
git -C /repo worktree add -q --detach $WT HEAD || exit 2
cd $WT
git apply $OUT/patch.diff || { echo "CONFIRM-FAIL: patch does not apply"; exit 1; }
cp /repo/Cargo.lock . 2>/dev/null
T=$(cargo test --offline 2>&1 | grep -E "^test result" | head -1)
echo "baseline with patch: $T"
echo "$T" | grep -q "81 passed; 0 failed" || { echo "CONFIRM-FAIL: baseline tests do not pass with the patch"; exit 1; }
T2=$(cargo test --offline --features backend-mmap,backend-bitmap,backend-atomic 2>&1 | grep -E "^test result" | head -1)
echo "all-features tests with patch: $T2"
# demo against this worktree
rm -rf /tmp/confirm-$ID-demo; cp -r $OUT/demo /tmp/confirm-$ID-demo
sed -i "s|/tmp/$PFX-$ID\b|$WT|g" /tmp/confirm-$ID-demo/Cargo.toml
cp /repo/Cargo.lock /tmp/confirm-$ID-demo/Cargo.lock
( cd /tmp/confirm-$ID-demo && timeout 600 cargo run --offline -q >/tmp/confirm-$ID-with.log 2>&1 ); RC1=$?
git checkout -q -- . 
( cd /tmp/confirm-$ID-demo && timeout 600 cargo run --offline -q >/tmp/confirm-$ID-without.log 2>&1 ); RC2=$?
echo "demo rc with patch: $RC1   without: $RC2"
if [ $RC1 -ne 0 ] && [ $RC2 -eq 0 ]; then
  mkdir -p /verif/seeded/$NAME
  cp $OUT/patch.diff /verif/seeded/$NAME/patch.diff
  rm -rf /verif/seeded/$NAME/demo; cp -r $OUT/demo /verif/seeded/$NAME/demo; rm -rf /verif/seeded/$NAME/demo/target
  cp $OUT/notes.md /verif/seeded/$NAME/notes.md 2>/dev/null
  echo "CONFIRMED $NAME (baseline: $T ; all-features: $T2)"
  RES=0
else
  echo "CONFIRM-FAIL: demo does not discriminate"; tail -5 /tmp/confirm-$ID-with.log /tmp/confirm-$ID-without.log; RES=1
fi
cd /; git -C /repo worktree remove --force $WT; rm -rf /tmp/confirm-$ID-demo
exit $RES
