#!/usr/bin/env python3
"""Integration of the kernel translator rs2v (DESIGN.md section 4.3, docs/RS2V.md).

  regenerate(repo)      builds the tool if its sources changed (cargo, offline) and rewrites
                        coq/Gen/*.v + coq/Gen/status.json from the CURRENT source under `repo`
                        (files are only touched when their content changes, so `make` rebuilds
                        exactly the kernels whose source changed)
  check_geneq(prop, st) builds the GenEq files listed in the property fragment ("geneq": [...])
                        and returns the obligations (one per `Lemma geneq_*`), the discharged
                        ones and a description of every broken one (naming the lemma)

Run as a script it regenerates against VERIF_REPO or /repo (used by setup.sh)."""
import os, re, sys, json, hashlib, glob, subprocess

ROOT = os.path.dirname(os.path.dirname(os.path.abspath(__file__)))
CRATE = os.path.join(ROOT, 'rs2v')
COQ = os.path.join(ROOT, 'coq')
GEN = os.path.join(COQ, 'Gen')
EXE = os.path.join(CRATE, 'target', 'release', 'rs2v')
LEMMA_RE = re.compile(r'^Lemma\s+(geneq_\w+)', re.M)


class Rs2vError(Exception):
    pass


def _run(cmd, cwd=None, timeout=900):
    e = dict(os.environ)
    e.update({'CARGO_NET_OFFLINE': 'true'})
    e.pop('RUSTFLAGS', None)
    e.pop('CARGO_TARGET_DIR', None)
    try:
        p = subprocess.run(cmd, cwd=cwd, env=e, timeout=timeout, stdout=subprocess.PIPE, stderr=subprocess.PIPE)
        return p.returncode, p.stdout.decode('utf-8', 'replace'), p.stderr.decode('utf-8', 'replace')
    except subprocess.TimeoutExpired:
        return -999, '', 'TIMEOUT after %ss' % timeout


def build_tool():
    srcs = sorted(glob.glob(os.path.join(CRATE, 'src', '*.rs'))) + [os.path.join(CRATE, 'Cargo.toml'), os.path.join(CRATE, 'Cargo.lock')]
    h = hashlib.sha256()
    for s in srcs:
        if os.path.exists(s):
            h.update(open(s, 'rb').read())
    stamp = os.path.join(CRATE, 'target', 'rs2v.stamp')
    if os.path.exists(EXE) and os.path.exists(stamp) and open(stamp).read() == h.hexdigest():
        return EXE
    rc, out, err = _run(['timeout', '850', 'cargo', 'build', '--offline', '--release', '--quiet'], cwd=CRATE)
    if rc != 0:
        raise Rs2vError('building the rs2v translator failed:\n' + (out + err)[-3000:])
    open(stamp, 'w').write(h.hexdigest())
    return EXE


def regenerate(repo):
    """Returns the list of kernel status records (module, kernel, file, ok, error/line)."""
    exe = build_tool()
    os.makedirs(GEN, exist_ok=True)
    rc, out, err = _run(['timeout', '60', exe, repo, GEN], timeout=70)
    if rc not in (0, 3):
        raise Rs2vError('rs2v failed (rc=%s): %s' % (rc, (out + err)[-2000:]))
    status = json.load(open(os.path.join(GEN, 'status.json')))
    mods = set(k['module'] for k in status)
    for f in glob.glob(os.path.join(GEN, '*.v')):          # stale modules of an older kernel table
        if os.path.basename(f)[:-2] not in mods:
            os.remove(f)
    return status


def lemmas(relfile):
    """[(name, first line)] of the geneq lemmas of a GenEq file"""
    txt = open(os.path.join(COQ, relfile)).read()
    return [(m.group(1), txt.count('\n', 0, m.start()) + 1) for m in LEMMA_RE.finditer(txt)]


def check_geneq(prop, status, make_timeout=1200):
    res = {'files': list(prop.get('geneq', [])), 'lemmas': [], 'discharged': [], 'broken': [], 'log': '',
           'kernels_failed': ['%s.%s: %s' % (k['module'], k['kernel'], k.get('error', '')) for k in status if not k['ok']]}
    for rel in res['files']:
        ls = lemmas(rel)
        res['lemmas'] += [n for n, _ in ls]
        mod = os.path.basename(rel)[:-2]
        rc, out, err = _run(['timeout', str(make_timeout), 'make', '-j8', rel[:-2] + '.vo'], cwd=COQ, timeout=make_timeout + 60)
        log = out + err
        if rc == 0:
            res['discharged'] += [n for n, _ in ls]
            continue
        res['log'] += log[-3000:]
        m = re.search(r'File "\./([^"]+)", line (\d+), characters [^\n]*\n((?:.*\n){0,6})', log)
        failed_kernels = [k for k in status if k['module'] == mod and not k['ok']]
        why = ''
        if failed_kernels:
            why = '; rs2v could not regenerate ' + ', '.join('%s (%s)' % (k['kernel'], k.get('error', '')[:160]) for k in failed_kernels)
        if m and m.group(1) == rel:
            # name EVERY lemma of the file that no longer holds: cut the failing lemma out of a scratch
            # copy (work/, never under coq/) and recompile until the rest goes through
            txt = open(os.path.join(COQ, rel)).read()
            bad, good = [], [n for n, _ in ls]
            os.makedirs(os.path.join(ROOT, 'work'), exist_ok=True)
            probe = os.path.join(ROOT, 'work', 'GenEqProbe_%s.v' % mod)
            line, msg = int(m.group(2)), ' '.join(m.group(3).split('make:')[0].split())[:300]
            for _ in range(len(ls) + 1):
                cur = [(mm.group(1), txt.count('\n', 0, mm.start()) + 1, mm.start()) for mm in LEMMA_RE.finditer(txt)]
                before = [c for c in cur if c[1] <= line]
                if not before:
                    bad.append(('?', line, msg)); good = []
                    break
                name, _, pos = before[-1]
                orig_line = dict(ls).get(name, line)
                bad.append((name, orig_line, msg))
                good = [g for g in good if g != name]
                endm = re.compile(r'\bQed\.').search(txt, pos)
                cut_to = endm.end() if endm else len(txt)
                # keep the line structure so that later line numbers stay meaningful
                txt = txt[:pos] + '\n' * txt.count('\n', pos, cut_to) + txt[cut_to:]
                open(probe, 'w').write(txt)
                rc2, out2, err2 = _run(['timeout', '600', 'coqc', '-Q', COQ, 'VM', probe], cwd=os.path.join(ROOT, 'work'), timeout=660)
                if rc2 == 0:
                    break
                m2 = re.search(r'File "[^"]+", line (\d+), characters [^\n]*\n((?:.*\n){0,6})', out2 + err2)
                if not m2:
                    good = []
                    break
                line, msg = int(m2.group(1)), ' '.join(m2.group(2).split())[:300]
            res['discharged'] += good
            for name, l, msg in bad:
                res['broken'].append('geneq:%s (%s:%d) no longer holds for the current source: %s%s' % (name, rel, l, msg, why))
        elif m:
            res['broken'].append('geneq:%s: %s:%s does not compile: %s%s'
                                 % (rel, m.group(1), m.group(2), ' '.join(m.group(3).split())[:300], why))
        else:
            res['broken'].append('geneq:%s: build failed: %s%s' % (rel, log.strip()[-300:], why))
    return res


# ---------------------------------------------------------------- panic-site inventory
BASELINE = os.path.join(CRATE, 'panic_baseline.json')


def _site_groups(sites):
    """{(file, fn, kind): [site, ...]}; the key does not mention lines, so comment / whitespace edits and
    moved functions leave it unchanged"""
    g = {}
    for s in sites:
        g.setdefault((s['file'], s['fn'], s['kind']), []).append(s)
    return g


def load_sites():
    return json.load(open(os.path.join(GEN, 'panic_sites.json')))


def make_baseline(sites):
    out = {}
    for (f, fn, kind), l in sorted(_site_groups(sites).items()):
        out['%s :: %s :: %s' % (f, fn, kind)] = {'count': len(l), 'class': l[0]['class'], 'snippets': sorted(x['snippet'] for x in l)}
    return out


def _match_file(f, pats):
    import fnmatch
    return any(fnmatch.fnmatch(f, p) for p in pats)


def check_panic_sites(prop):
    """Compares coq/Gen/panic_sites.json (regenerated from the tree under test by `regenerate`) with the
    committed baseline rs2v/panic_baseline.json.  Informational: counts per class / kind / file.  One
    obligation per function of the watched files that has panic sites in the baseline ("no panic site
    beyond those the hand model / kernel accounts for"); a NEW site (more sites of one kind in one
    function than the baseline has, or a function that had none) in a watched file is a broken
    obligation named by its location."""
    cfg = prop.get('panic_inventory')
    if not cfg:
        return None
    watched = cfg.get('files', [])
    inv = load_sites()
    sites = inv['sites']
    base = json.load(open(BASELINE)) if os.path.exists(BASELINE) else {}
    cur = _site_groups(sites)
    by_class, by_kind, by_file = {}, {}, {}
    for s in sites:
        by_class[s['class']] = by_class.get(s['class'], 0) + 1
        by_kind[s['kind']] = by_kind.get(s['kind'], 0) + 1
        d = by_file.setdefault(s['file'], {})
        d[s['class']] = d.get(s['class'], 0) + 1
    fns = sorted(set((k.split(' :: ')[0], k.split(' :: ')[1]) for k in base if _match_file(k.split(' :: ')[0], watched)))
    broken, new_sites, gone = [], [], []
    for (f, fn, kind), l in sorted(cur.items()):
        if not _match_file(f, watched):
            continue
        b = base.get('%s :: %s :: %s' % (f, fn, kind), {'count': 0, 'snippets': []})
        if len(l) <= b['count']:
            continue
        # name the new site(s): the snippets the baseline does not have (all of them if that is not conclusive)
        old = list(b['snippets'])
        fresh = []
        for x in l:
            if x['snippet'] in old:
                old.remove(x['snippet'])
            else:
                fresh.append(x)
        if len(fresh) != len(l) - b['count']:
            fresh = fresh or l
        for x in fresh:
            cov = ('kernel ' + ','.join(x['kernels'])) if x['class'] == 'kernel' else ('model ' + x['model']) if x['class'] == 'model' else 'UNMODELLED function'
            new_sites.append(x)
            broken.append('panic:%s:%d new panic site `%s` (%s) in fn %s [%s]: not accounted for by the no-panic theorems; baseline has %d `%s` site(s) there, the source now %d'
                          % (x['file'], x['line'], x['snippet'][:100], x['kind'], fn, cov, b['count'], kind, len(l)))
    for k, b in sorted(base.items()):
        f, fn, kind = k.split(' :: ')
        if _match_file(f, watched) and len(cur.get((f, fn, kind), [])) < b['count']:
            gone.append('%s (%d -> %d)' % (k, b['count'], len(cur.get((f, fn, kind), []))))
    # A site that merely MOVED (private function renamed, expression extracted into a helper of the same file) or whose
    # identifiers were renamed is not a new site: pair every fresh site with a site that vanished from the same file, of
    # the same kind and the same shape (the snippet with every identifier erased), one to one.  What cannot be paired stays.
    import re as _re
    def _shape(t):
        return _re.sub(r'[A-Za-z_][A-Za-z0-9_]*', 'I', t).replace(' ', '')
    vanished = {}
    for k, b in base.items():
        f, fn, kind = k.split(' :: ')
        have = [x['snippet'] for x in cur.get((f, fn, kind), [])]
        for sn in b['snippets']:
            if sn in have:
                have.remove(sn)
            else:
                vanished.setdefault((f, kind, _shape(sn)), []).append(k)
    kept_new, kept_broken, moved = [], [], []
    for x, msg in zip(new_sites, broken):
        key = (x['file'], x['kind'], _shape(x['snippet']))
        if vanished.get(key):
            moved.append('%s:%d `%s` (%s) in fn %s <- %s' % (x['file'], x['line'], x['snippet'][:60], x['kind'], x['fn'], vanished[key].pop()))
        else:
            kept_new.append(x); kept_broken.append(msg)
    new_sites, broken = kept_new, kept_broken
    return {'obligations': len(fns), 'broken': broken,
            'summary': {'sites': len(sites), 'by_class': by_class, 'by_kind': by_kind, 'by_file': by_file,
                        'watched_files': watched, 'watched_functions_with_sites': len(fns),
                        'new_sites': [{'file': x['file'], 'line': x['line'], 'fn': x['fn'], 'kind': x['kind'], 'class': x['class'], 'snippet': x['snippet']} for x in new_sites],
                        'sites_removed_since_baseline': gone, 'sites_moved_or_renamed': moved, 'unparsed': inv.get('unparsed', []),
                        'baseline': os.path.relpath(BASELINE, ROOT)}}


# ---------------------------------------------------------------- impl inventory (code ADDED BESIDE the tied functions)
IMPL_BASELINE = os.path.join(CRATE, 'impl_baseline.json')
STD_TRAIT_METHODS = {
    'PartialEq': ['eq', 'ne'], 'Eq': [], 'PartialOrd': ['partial_cmp', 'lt', 'le', 'gt', 'ge'],
    'Ord': ['cmp', 'max', 'min', 'clamp'], 'Clone': ['clone', 'clone_from'], 'Drop': ['drop'], 'Default': ['default'],
    'From': ['from'], 'Into': ['into'], 'Deref': ['deref'], 'DerefMut': ['deref_mut'], 'AsRef': ['as_ref'], 'AsMut': ['as_mut'],
    'BitAnd': ['bitand'], 'BitOr': ['bitor'], 'Borrow': ['borrow'], 'Hash': ['hash'],
}
SENSITIVE_STD = ['Drop', 'Clone', 'PartialEq', 'Eq', 'PartialOrd', 'Ord', 'Deref', 'DerefMut']


def load_impls():
    return json.load(open(os.path.join(GEN, 'impl_inventory.json')))


def make_impl_baseline(inv):
    """No line numbers: inherent method names per type, methods DEFINED per (file, trait, type) impl, crate traits."""
    inherent, impls = {}, {}
    for x in inv['inherent']:
        inherent.setdefault(x['type'], set()).add(x['fn'])
    for x in inv['impls']:
        k = '%s :: %s for %s' % (x['file'], x['trait_full'], x['type'])
        impls.setdefault(k, set()).update(x['methods'])
    return {'inherent': {k: sorted(v) for k, v in sorted(inherent.items())},
            'impls': {k: sorted(v) for k, v in sorted(impls.items())},
            'traits': {t['trait']: sorted(t['methods']) for t in inv['traits']}}


def check_impl_inventory(prop):
    """Compares coq/Gen/impl_inventory.json (tree under test) with rs2v/impl_baseline.json for the files the fragment
    watches ("impl_inventory": {"files": [globs]}).  Broken obligations: a NEW inherent method whose name is a method of
    a trait implemented for that type (or of a blanket impl that applies to it); a NEW method defined inside an
    existing trait impl block; a NEW (trait, type) impl of Drop / Clone / PartialEq / Eq / PartialOrd / Ord / Deref or
    of a trait of the crate.  Quiet: new inherent methods that shadow nothing, impls of other std traits, an impl
    block whose type or trait was only renamed (same file, same methods, the old key gone)."""
    cfg = prop.get('impl_inventory')
    if not cfg:
        return None
    watched = cfg.get('files', [])
    inv = load_impls()
    base = json.load(open(IMPL_BASELINE)) if os.path.exists(IMPL_BASELINE) else {'inherent': {}, 'impls': {}, 'traits': {}}
    crate_traits = {t['trait']: t['methods'] for t in inv['traits']}
    methods_of = lambda tr: crate_traits.get(tr, STD_TRAIT_METHODS.get(tr, []))
    # traits implemented for each type (anywhere in the crate), blanket impls
    traits_of, blankets = {}, []
    for x in inv['impls']:
        if x['blanket']:
            blankets.append(x)
        else:
            traits_of.setdefault(x['type'], set()).add(x['trait'])
    def shadowed_by(ty, fn):
        ts = set(traits_of.get(ty, set()))
        for b in blankets:
            if any(bt in ts for bt in b['bounds']):
                ts.add(b['trait'])
        return sorted(t for t in ts if fn in methods_of(t))
    broken = []
    cur = make_impl_baseline(inv)
    # (1) new inherent methods that shadow a trait method
    for x in inv['inherent']:
        if not _match_file(x['file'], watched) or x['fn'] in base['inherent'].get(x['type'], []):
            continue
        sh = shadowed_by(x['type'], x['fn'])
        if sh:
            broken.append('impl:%s:%d new INHERENT method `%s::%s` shadows the method of the same name of trait %s implemented for that type: '
                          'callers on the concrete type reach it instead of the tied trait method (not in rs2v/impl_baseline.json)%s'
                          % (x['file'], x['line'], x['type'], x['fn'], '/'.join(sh), (' [in %s]' % x['ctx']) if x['ctx'] else ''))
    # (2) new methods inside existing impl blocks, (3) new sensitive (trait, type) pairs
    gone = [k for k in base['impls'] if k not in cur['impls']]
    seen = set()
    for x in inv['impls']:
        if not _match_file(x['file'], watched):
            continue
        k = '%s :: %s for %s' % (x['file'], x['trait_full'], x['type'])
        if k in base['impls']:
            for mth in x['methods']:
                if mth not in base['impls'][k] and (k, mth) not in seen:
                    seen.add((k, mth))
                    broken.append('impl:%s:%d new method `%s` DEFINED inside the existing `impl %s for %s` (an override of a provided method?) - not in rs2v/impl_baseline.json%s'
                                  % (x['file'], x['line'], mth, x['trait_full'], x['type'], (' [in %s]' % x['ctx']) if x['ctx'] else ''))
        elif k not in seen:
            seen.add(k)
            if x['trait'] in SENSITIVE_STD or x['trait'] in crate_traits:
                # a pure rename: an impl of the same file with the same methods disappeared
                ren = [g for g in gone if g.startswith(x['file'] + ' :: ') and base['impls'][g] == sorted(x['methods'])
                       and (g.split(' :: ')[1].split(' for ')[0] == x['trait_full'] or g.endswith(' for ' + x['type']))]
                if ren:
                    gone.remove(ren[0])
                    continue
                broken.append('impl:%s:%d new `impl %s for %s` (methods: %s) - not in rs2v/impl_baseline.json%s'
                              % (x['file'], x['line'], x['trait_full'], x['type'], ', '.join(x['methods']) or '-', (' [in %s]' % x['ctx']) if x['ctx'] else ''))
    keys = sorted(k for k in base['impls'] if _match_file(k.split(' :: ')[0], watched))
    return {'obligations': len(keys) + 1, 'broken': broken,
            'summary': {'watched_files': watched, 'impl_blocks': len(keys), 'inherent_methods': len(inv['inherent']),
                        'crate_traits': len(crate_traits), 'baseline': os.path.relpath(IMPL_BASELINE, ROOT)}}



if __name__ == '__main__':
    st = regenerate(os.environ.get('VERIF_REPO', '/repo'))
    if '--update-panic-baseline' in sys.argv:
        b = make_baseline(load_sites()['sites'])
        open(BASELINE, 'w').write(json.dumps(b, indent=1, sort_keys=True) + '\n')
        print('rs2v: panic baseline written: %d (file, fn, kind) groups, %d sites' % (len(b), sum(x['count'] for x in b.values())))
    if '--update-impl-baseline' in sys.argv:
        b = make_impl_baseline(load_impls())
        open(IMPL_BASELINE, 'w').write(json.dumps(b, indent=1, sort_keys=True) + '\n')
        print('rs2v: impl baseline written: %d types with inherent methods, %d trait impl blocks, %d crate traits' % (len(b['inherent']), len(b['impls']), len(b['traits'])))
    bad = [k for k in st if not k['ok']]
    print('rs2v: %d kernels regenerated, %d failed' % (len(st) - len(bad), len(bad)))
    for k in bad:
        print('  FAILED %s.%s: %s' % (k['module'], k['kernel'], k.get('error')))
    sys.exit(1 if bad else 0)
