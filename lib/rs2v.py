#!/usr/bin/env python3
"""Integration of the kernel translator rs2v (DESIGN.md section 4.3, docs/RS2V.md).

  regenerate(repo)      builds the tool if its sources changed (cargo, offline) and rewrites
                        coq/Gen/*.v + coq/Gen/status.json from the CURRENT source under `repo`
                        (files are only touched when their content changes, so `make` rebuilds
                        exactly the kernels whose source changed)
  check_geneq(prop, st) builds the GenEq files listed in the property fragment ("geneq": [...])
                        and returns the obligations (one per `Lemma geneq_*`), the discharged
                        ones and a description of every broken one (naming the lemma)

Run as a script it regenerates against VERIF_REPO or /repo (used by setup.sh)."""
import os, re, sys, json, hashlib, glob, subprocess

ROOT = os.path.dirname(os.path.dirname(os.path.abspath(__file__)))
CRATE = os.path.join(ROOT, 'rs2v')
COQ = os.path.join(ROOT, 'coq')
GEN = os.path.join(COQ, 'Gen')
EXE = os.path.join(CRATE, 'target', 'release', 'rs2v')
LEMMA_RE = re.compile(r'^Lemma\s+(geneq_\w+)', re.M)


class Rs2vError(Exception):
    pass


def _run(cmd, cwd=None, timeout=900):
    e = dict(os.environ)
    e.update({'CARGO_NET_OFFLINE': 'true'})
    e.pop('RUSTFLAGS', None)
    e.pop('CARGO_TARGET_DIR', None)
    try:
        p = subprocess.run(cmd, cwd=cwd, env=e, timeout=timeout, stdout=subprocess.PIPE, stderr=subprocess.PIPE)
        return p.returncode, p.stdout.decode('utf-8', 'replace'), p.stderr.decode('utf-8', 'replace')
    except subprocess.TimeoutExpired:
        return -999, '', 'TIMEOUT after %ss' % timeout


def build_tool():
    srcs = sorted(glob.glob(os.path.join(CRATE, 'src', '*.rs'))) + [os.path.join(CRATE, 'Cargo.toml'), os.path.join(CRATE, 'Cargo.lock')]
    h = hashlib.sha256()
    for s in srcs:
        if os.path.exists(s):
            h.update(open(s, 'rb').read())
    stamp = os.path.join(CRATE, 'target', 'rs2v.stamp')
    if os.path.exists(EXE) and os.path.exists(stamp) and open(stamp).read() == h.hexdigest():
        return EXE
    rc, out, err = _run(['timeout', '850', 'cargo', 'build', '--offline', '--release', '--quiet'], cwd=CRATE)
    if rc != 0:
        raise Rs2vError('building the rs2v translator failed:\n' + (out + err)[-3000:])
    open(stamp, 'w').write(h.hexdigest())
    return EXE


def regenerate(repo):
    """Returns the list of kernel status records (module, kernel, file, ok, error/line)."""
    exe = build_tool()
    os.makedirs(GEN, exist_ok=True)
    rc, out, err = _run(['timeout', '60', exe, repo, GEN], timeout=70)
    if rc not in (0, 3):
        raise Rs2vError('rs2v failed (rc=%s): %s' % (rc, (out + err)[-2000:]))
    status = json.load(open(os.path.join(GEN, 'status.json')))
    mods = set(k['module'] for k in status)
    for f in glob.glob(os.path.join(GEN, '*.v')):          # stale modules of an older kernel table
        if os.path.basename(f)[:-2] not in mods:
            os.remove(f)
    return status


def lemmas(relfile):
    """[(name, first line)] of the geneq lemmas of a GenEq file"""
    txt = open(os.path.join(COQ, relfile)).read()
    return [(m.group(1), txt.count('\n', 0, m.start()) + 1) for m in LEMMA_RE.finditer(txt)]


def check_geneq(prop, status, make_timeout=1200):
    res = {'files': list(prop.get('geneq', [])), 'lemmas': [], 'discharged': [], 'broken': [], 'log': '',
           'kernels_failed': ['%s.%s: %s' % (k['module'], k['kernel'], k.get('error', '')) for k in status if not k['ok']]}
    for rel in res['files']:
        ls = lemmas(rel)
        res['lemmas'] += [n for n, _ in ls]
        mod = os.path.basename(rel)[:-2]
        rc, out, err = _run(['timeout', str(make_timeout), 'make', '-j8', rel[:-2] + '.vo'], cwd=COQ, timeout=make_timeout + 60)
        log = out + err
        if rc == 0:
            res['discharged'] += [n for n, _ in ls]
            continue
        res['log'] += log[-3000:]
        m = re.search(r'File "\./([^"]+)", line (\d+), characters [^\n]*\n((?:.*\n){0,6})', log)
        failed_kernels = [k for k in status if k['module'] == mod and not k['ok']]
        why = ''
        if failed_kernels:
            why = '; rs2v could not regenerate ' + ', '.join('%s (%s)' % (k['kernel'], k.get('error', '')[:160]) for k in failed_kernels)
        if m and m.group(1) == rel:
            # name EVERY lemma of the file that no longer holds: cut the failing lemma out of a scratch
            # copy (work/, never under coq/) and recompile until the rest goes through
            txt = open(os.path.join(COQ, rel)).read()
            bad, good = [], [n for n, _ in ls]
            os.makedirs(os.path.join(ROOT, 'work'), exist_ok=True)
            probe = os.path.join(ROOT, 'work', 'GenEqProbe_%s.v' % mod)
            line, msg = int(m.group(2)), ' '.join(m.group(3).split('make:')[0].split())[:300]
            for _ in range(len(ls) + 1):
                cur = [(mm.group(1), txt.count('\n', 0, mm.start()) + 1, mm.start()) for mm in LEMMA_RE.finditer(txt)]
                before = [c for c in cur if c[1] <= line]
                if not before:
                    bad.append(('?', line, msg)); good = []
                    break
                name, _, pos = before[-1]
                orig_line = dict(ls).get(name, line)
                bad.append((name, orig_line, msg))
                good = [g for g in good if g != name]
                endm = re.compile(r'\bQed\.').search(txt, pos)
                cut_to = endm.end() if endm else len(txt)
                # keep the line structure so that later line numbers stay meaningful
                txt = txt[:pos] + '\n' * txt.count('\n', pos, cut_to) + txt[cut_to:]
                open(probe, 'w').write(txt)
                rc2, out2, err2 = _run(['timeout', '600', 'coqc', '-Q', COQ, 'VM', probe], cwd=os.path.join(ROOT, 'work'), timeout=660)
                if rc2 == 0:
                    break
                m2 = re.search(r'File "[^"]+", line (\d+), characters [^\n]*\n((?:.*\n){0,6})', out2 + err2)
                if not m2:
                    good = []
                    break
                line, msg = int(m2.group(1)), ' '.join(m2.group(2).split())[:300]
            res['discharged'] += good
            for name, l, msg in bad:
                res['broken'].append('geneq:%s (%s:%d) no longer holds for the current source: %s%s' % (name, rel, l, msg, why))
        elif m:
            res['broken'].append('geneq:%s: %s:%s does not compile: %s%s'
                                 % (rel, m.group(1), m.group(2), ' '.join(m.group(3).split())[:300], why))
        else:
            res['broken'].append('geneq:%s: build failed: %s%s' % (rel, log.strip()[-300:], why))
    return res


# ---------------------------------------------------------------- panic-site inventory
BASELINE = os.path.join(CRATE, 'panic_baseline.json')


def _site_groups(sites):
    """{(file, fn, kind): [site, ...]}; the key does not mention lines, so comment / whitespace edits and
    moved functions leave it unchanged"""
    g = {}
    for s in sites:
        g.setdefault((s['file'], s['fn'], s['kind']), []).append(s)
    return g


def load_sites():
    return json.load(open(os.path.join(GEN, 'panic_sites.json')))


def make_baseline(sites):
    out = {}
    for (f, fn, kind), l in sorted(_site_groups(sites).items()):
        out['%s :: %s :: %s' % (f, fn, kind)] = {'count': len(l), 'class': l[0]['class'], 'snippets': sorted(x['snippet'] for x in l)}
    return out


def _match_file(f, pats):
    import fnmatch
    return any(fnmatch.fnmatch(f, p) for p in pats)


def check_panic_sites(prop):
    """Compares coq/Gen/panic_sites.json (regenerated from the tree under test by `regenerate`) with the
    committed baseline rs2v/panic_baseline.json.  Informational: counts per class / kind / file.  One
    obligation per function of the watched files that has panic sites in the baseline ("no panic site
    beyond those the hand model / kernel accounts for"); a NEW site (more sites of one kind in one
    function than the baseline has, or a function that had none) in a watched file is a broken
    obligation named by its location."""
    cfg = prop.get('panic_inventory')
    if not cfg:
        return None
    watched = cfg.get('files', [])
    inv = load_sites()
    sites = inv['sites']
    base = json.load(open(BASELINE)) if os.path.exists(BASELINE) else {}
    cur = _site_groups(sites)
    by_class, by_kind, by_file = {}, {}, {}
    for s in sites:
        by_class[s['class']] = by_class.get(s['class'], 0) + 1
        by_kind[s['kind']] = by_kind.get(s['kind'], 0) + 1
        d = by_file.setdefault(s['file'], {})
        d[s['class']] = d.get(s['class'], 0) + 1
    fns = sorted(set((k.split(' :: ')[0], k.split(' :: ')[1]) for k in base if _match_file(k.split(' :: ')[0], watched)))
    broken, new_sites, gone = [], [], []
    for (f, fn, kind), l in sorted(cur.items()):
        if not _match_file(f, watched):
            continue
        b = base.get('%s :: %s :: %s' % (f, fn, kind), {'count': 0, 'snippets': []})
        if len(l) <= b['count']:
            continue
        # name the new site(s): the snippets the baseline does not have (all of them if that is not conclusive)
        old = list(b['snippets'])
        fresh = []
        for x in l:
            if x['snippet'] in old:
                old.remove(x['snippet'])
            else:
                fresh.append(x)
        if len(fresh) != len(l) - b['count']:
            fresh = fresh or l
        for x in fresh:
            cov = ('kernel ' + ','.join(x['kernels'])) if x['class'] == 'kernel' else ('model ' + x['model']) if x['class'] == 'model' else 'UNMODELLED function'
            new_sites.append(x)
            broken.append('panic:%s:%d new panic site `%s` (%s) in fn %s [%s]: not accounted for by the no-panic theorems; baseline has %d `%s` site(s) there, the source now %d'
                          % (x['file'], x['line'], x['snippet'][:100], x['kind'], fn, cov, b['count'], kind, len(l)))
    for k, b in sorted(base.items()):
        f, fn, kind = k.split(' :: ')
        if _match_file(f, watched) and len(cur.get((f, fn, kind), [])) < b['count']:
            gone.append('%s (%d -> %d)' % (k, b['count'], len(cur.get((f, fn, kind), []))))
    # A site that merely MOVED (private function renamed, expression extracted into a helper of the same file) or whose
    # identifiers were renamed is not a new site: pair every fresh site with a site that vanished from the same file, of
    # the same kind and the same shape (the snippet with every identifier erased), one to one.  What cannot be paired stays.
    import re as _re
    def _shape(t):
        return _re.sub(r'[A-Za-z_][A-Za-z0-9_]*', 'I', t).replace(' ', '')
    vanished = {}
    for k, b in base.items():
        f, fn, kind = k.split(' :: ')
        have = [x['snippet'] for x in cur.get((f, fn, kind), [])]
        for sn in b['snippets']:
            if sn in have:
                have.remove(sn)
            else:
                vanished.setdefault((f, kind, _shape(sn)), []).append(k)
    kept_new, kept_broken, moved = [], [], []
    for x, msg in zip(new_sites, broken):
        key = (x['file'], x['kind'], _shape(x['snippet']))
        if vanished.get(key):
            moved.append('%s:%d `%s` (%s) in fn %s <- %s' % (x['file'], x['line'], x['snippet'][:60], x['kind'], x['fn'], vanished[key].pop()))
        else:
            kept_new.append(x); kept_broken.append(msg)
    new_sites, broken = kept_new, kept_broken
    return {'obligations': len(fns), 'broken': broken,
            'summary': {'sites': len(sites), 'by_class': by_class, 'by_kind': by_kind, 'by_file': by_file,
                        'watched_files': watched, 'watched_functions_with_sites': len(fns),
                        'new_sites': [{'file': x['file'], 'line': x['line'], 'fn': x['fn'], 'kind': x['kind'], 'class': x['class'], 'snippet': x['snippet']} for x in new_sites],
                        'sites_removed_since_baseline': gone, 'sites_moved_or_renamed': moved, 'unparsed': inv.get('unparsed', []),
                        'baseline': os.path.relpath(BASELINE, ROOT)}}


if __name__ == '__main__':
    st = regenerate(os.environ.get('VERIF_REPO', '/repo'))
    if '--update-panic-baseline' in sys.argv:
        b = make_baseline(load_sites()['sites'])
        open(BASELINE, 'w').write(json.dumps(b, indent=1, sort_keys=True) + '\n')
        print('rs2v: panic baseline written: %d (file, fn, kind) groups, %d sites' % (len(b), sum(x['count'] for x in b.values())))
    bad = [k for k in st if not k['ok']]
    print('rs2v: %d kernels regenerated, %d failed' % (len(st) - len(bad), len(bad)))
    for k in bad:
        print('  FAILED %s.%s: %s' % (k['module'], k['kernel'], k.get('error')))
    sys.exit(1 if bad else 0)
