#!/bin/bash
# runs every check against /repo + each benign patch, in a copy of /verif
V=/root/work/vcopy-benign
mkdir -p $V; rsync -a --delete --exclude /work --exclude /.git /verif/ $V/; mkdir -p $V/work
for p in "$@"; do
  WT=/tmp/benignwt-$p
  rm -rf $WT; git -C /repo worktree prune; git -C /repo worktree add -q --detach $WT HEAD
  git -C $WT apply /verif/docs/benign/$p.diff || { echo "$p: patch does not apply"; continue; }
  cp /repo/Cargo.lock $WT/
  for id in C01 C02 C03 C04 C05 C06 C07 C08 C09 C10 C11 C12 C13 C14 C15 C16 C17 C18 C19 C20; do
    (cd $V && VERIF_REPO=$WT ./check $id 2>&1 | grep -E "^C[0-9]+\w*: |VIOLATION|CHECK-ERROR" | cut -c1-300 | sed "s/^/$p /")
  done
  git -C /repo worktree remove --force $WT
done
