(* Trace tokens: the wire format between the Rust harness and the model.
   A trace line is  <suite> tok* => tok*  where tok is a decimal number or [n,n,...]. *)
From VM Require Import Prelude.MachInt.

Inductive tok := TN (n : N) | TL (l : list N).

Fixpoint list_eqb (a b : list N) : bool :=
  match a, b with
  | [], [] => true
  | x :: a', y :: b' => (x =? y) && list_eqb a' b'
  | _, _ => false
  end.
Definition tok_eqb (a b : tok) : bool :=
  match a, b with
  | TN x, TN y => x =? y
  | TL x, TL y => list_eqb x y
  | _, _ => false
  end.
Fixpoint toks_eqb (a b : list tok) : bool :=
  match a, b with
  | [], [] => true
  | x :: a', y :: b' => tok_eqb x y && toks_eqb a' b'
  | _, _ => false
  end.

Lemma list_eqb_eq a b : list_eqb a b = true <-> a = b.
Proof.
  revert b. induction a as [|x a IH]; intros [|y b]; cbn [list_eqb]; split; intros H;
    try reflexivity; try discriminate.
  - apply andb_true_iff in H. destruct H as [H1 H2]. apply N.eqb_eq in H1. apply IH in H2. congruence.
  - inversion H; subst. rewrite N.eqb_refl. cbn. apply IH. reflexivity.
Qed.

Definition bool_tok (b : bool) : tok := TN (if b then 1 else 0).
Definition opt_toks (o : option N) : list tok :=
  match o with Some v => [TN 1; TN v] | None => [TN 0; TN 0] end.

(* the result every suite entry point returns: what the model says the observation is,
   and the verdict of the spec checker on the REAL observation.  malformed = the line could
   not be parsed (a harness/driver bug, reported as an error, never as a violation). *)
Record verdict := { v_model : list tok; v_ok : bool; v_wellformed : bool }.
Definition malformed : verdict := {| v_model := []; v_ok := false; v_wellformed := false |}.
