(* List helpers indexed by N (usize) for the stream models of C13/C14:
   ntake / ndrop / nlen and the host-memory write [mem_write]. *)
From VM Require Import Prelude.MachInt.

Definition nlen {A} (l : list A) : N := N.of_nat (length l).
Definition ntake {A} (n : N) (l : list A) : list A := firstn (N.to_nat n) l.
Definition ndrop {A} (n : N) (l : list A) : list A := skipn (N.to_nat n) l.
(* bytes [bs] stored at offset [off] of the byte array [m] (callers stay in bounds; theorems prove it) *)
Definition mem_write (m : list N) (off : N) (bs : list N) : list N :=
  ntake off m ++ bs ++ ndrop (off + nlen bs) m.
Definition mem_read (m : list N) (off len : N) : list N := ntake len (ndrop off m).

Lemma nlen_nil {A} : nlen (@nil A) = 0. Proof. reflexivity. Qed.
Lemma nlen_cons {A} (x : A) l : nlen (x :: l) = 1 + nlen l.
Proof. unfold nlen. cbn [length]. lia. Qed.
Lemma nlen_app {A} (a b : list A) : nlen (a ++ b) = nlen a + nlen b.
Proof. unfold nlen. rewrite app_length. lia. Qed.
Lemma nlen_ntake {A} n (l : list A) : nlen (ntake n l) = N.min n (nlen l).
Proof. unfold nlen, ntake. rewrite firstn_length. lia. Qed.
Lemma nlen_ndrop {A} n (l : list A) : nlen (ndrop n l) = nlen l - n.
Proof. unfold nlen, ndrop. rewrite skipn_length. lia. Qed.
Lemma nlen_zero {A} (l : list A) : nlen l = 0 -> l = [].
Proof. unfold nlen. destruct l; [reflexivity|cbn [length]; lia]. Qed.
Lemma ntake_all {A} n (l : list A) : nlen l <= n -> ntake n l = l.
Proof. unfold nlen, ntake. intros H. apply firstn_all2. lia. Qed.
Lemma ndrop_all {A} n (l : list A) : nlen l <= n -> ndrop n l = [].
Proof. unfold nlen, ndrop. intros H. apply skipn_all2. lia. Qed.
Lemma ntake_0 {A} (l : list A) : ntake 0 l = [].
Proof. reflexivity. Qed.
Lemma ndrop_0 {A} (l : list A) : ndrop 0 l = l.
Proof. reflexivity. Qed.
Lemma ntake_ndrop {A} n (l : list A) : ntake n l ++ ndrop n l = l.
Proof. apply firstn_skipn. Qed.
Lemma ndrop_ndrop {A} a b (l : list A) : ndrop a (ndrop b l) = ndrop (b + a) l.
Proof.
  unfold ndrop. rewrite N2Nat.inj_add. generalize (N.to_nat a) (N.to_nat b). clear.
  intros x y. revert l. induction y as [|y IH]; intros l; [reflexivity|].
  destruct l as [|h t]; [destruct x; reflexivity|]. cbn [Nat.add skipn]. apply IH.
Qed.
Lemma ntake_ntake {A} a b (l : list A) : ntake a (ntake b l) = ntake (N.min a b) l.
Proof. unfold ntake. rewrite firstn_firstn. f_equal. lia. Qed.
Lemma ntake_app_ndrop {A} a b (l : list A) : ntake (a + b) l = ntake a l ++ ntake b (ndrop a l).
Proof.
  unfold ntake, ndrop. rewrite N2Nat.inj_add. generalize (N.to_nat a) (N.to_nat b). clear.
  intros x y. revert l. induction x as [|x IH]; intros l; [reflexivity|].
  destruct l as [|h t]; [destruct y; reflexivity|]. cbn [Nat.add firstn skipn app]. f_equal. apply IH.
Qed.
Lemma ntake_app_exact {A} (a b : list A) : ntake (nlen a) (a ++ b) = a.
Proof.
  unfold ntake, nlen. rewrite Nat2N.id. rewrite firstn_app, Nat.sub_diag, firstn_all. cbn [firstn].
  apply app_nil_r.
Qed.
Lemma ndrop_app_exact {A} (a b : list A) : ndrop (nlen a) (a ++ b) = b.
Proof.
  unfold ndrop, nlen. rewrite Nat2N.id. rewrite skipn_app, Nat.sub_diag, skipn_all. reflexivity.
Qed.
Lemma ntake_app_le {A} n (a b : list A) : n <= nlen a -> ntake n (a ++ b) = ntake n a.
Proof.
  unfold ntake, nlen. intros H. rewrite firstn_app.
  replace (N.to_nat n - length a)%nat with 0%nat by lia. cbn [firstn]. apply app_nil_r.
Qed.
Lemma ndrop_app_le {A} n (a b : list A) : n <= nlen a -> ndrop n (a ++ b) = ndrop n a ++ b.
Proof.
  unfold ndrop, nlen. intros H. rewrite skipn_app.
  replace (N.to_nat n - length a)%nat with 0%nat by lia. reflexivity.
Qed.
Lemma ndrop_app_ge {A} n (a b : list A) : nlen a <= n -> ndrop n (a ++ b) = ndrop (n - nlen a) b.
Proof.
  unfold ndrop, nlen. intros H. rewrite skipn_app. rewrite skipn_all2 by lia.
  cbn [app]. f_equal. lia.
Qed.
Lemma ntake_app_ge {A} n (a b : list A) : nlen a <= n -> ntake n (a ++ b) = a ++ ntake (n - nlen a) b.
Proof.
  unfold ntake, nlen. intros H. rewrite firstn_app. rewrite firstn_all2 by lia.
  f_equal. f_equal. lia.
Qed.

Lemma nth_error_skipn_c {A} (l : list A) n k : nth_error (skipn n l) k = nth_error l (n + k).
Proof.
  revert l. induction n as [|n IH]; intros l; [reflexivity|].
  destruct l as [|h t]; [destruct k; reflexivity|]. cbn [skipn Nat.add nth_error]. apply IH.
Qed.
Lemma nth_error_firstn_c {A} (l : list A) n k :
  nth_error (firstn n l) k = if (k <? n)%nat then nth_error l k else None.
Proof.
  revert l k. induction n as [|n IH]; intros l k.
  - cbn [firstn]. destruct k; reflexivity.
  - destruct l as [|h t]; [destruct k; cbn [firstn nth_error]; [reflexivity|destruct (S k <? S n)%nat; reflexivity]|].
    destruct k as [|k]; [reflexivity|]. cbn [firstn nth_error]. rewrite IH. reflexivity.
Qed.

Lemma mem_write_nil m off : mem_write m off [] = m.
Proof. unfold mem_write. cbn [nlen length app]. rewrite N.add_0_r. apply ntake_ndrop. Qed.
Lemma mem_write_length m off bs : off + nlen bs <= nlen m -> nlen (mem_write m off bs) = nlen m.
Proof.
  intros H. unfold mem_write. rewrite !nlen_app, nlen_ntake, nlen_ndrop. lia.
Qed.
(* two consecutive stores are one store of the concatenation *)
Lemma mem_write_app m off xs ys : off + nlen xs <= nlen m ->
  mem_write (mem_write m off xs) (off + nlen xs) ys = mem_write m off (xs ++ ys).
Proof.
  intros H. unfold mem_write at 1.
  assert (Hl : nlen (ntake off m ++ xs) = off + nlen xs).
  { rewrite nlen_app, nlen_ntake. lia. }
  assert (HM : mem_write m off xs = (ntake off m ++ xs) ++ ndrop (off + nlen xs) m).
  { unfold mem_write. rewrite app_assoc. reflexivity. }
  rewrite HM.
  assert (H1 : ntake (off + nlen xs) ((ntake off m ++ xs) ++ ndrop (off + nlen xs) m) = ntake off m ++ xs).
  { rewrite <- Hl. apply ntake_app_exact. }
  assert (H2 : ndrop (off + nlen xs + nlen ys) ((ntake off m ++ xs) ++ ndrop (off + nlen xs) m)
               = ndrop (off + nlen (xs ++ ys)) m).
  { rewrite ndrop_app_ge by lia. rewrite Hl. rewrite ndrop_ndrop. f_equal. rewrite nlen_app. lia. }
  rewrite H1, H2. unfold mem_write. rewrite <- !app_assoc. reflexivity.
Qed.
Lemma mem_read_write m off bs : off + nlen bs <= nlen m -> mem_read (mem_write m off bs) off (nlen bs) = bs.
Proof.
  intros H. unfold mem_read, mem_write.
  rewrite ndrop_app_ge by (rewrite nlen_ntake; lia). rewrite nlen_ntake.
  replace (off - N.min off (nlen m)) with 0 by lia. rewrite ndrop_0. apply ntake_app_exact.
Qed.
(* frame: bytes outside [off, off + len bs) keep their value *)
Lemma mem_write_nth m off bs j : off + nlen bs <= nlen m ->
  nth_error (mem_write m off bs) (N.to_nat j) =
  if (off <=? j) && (j <? off + nlen bs) then nth_error bs (N.to_nat (j - off)) else nth_error m (N.to_nat j).
Proof.
  intros H. unfold mem_write.
  assert (Ht : length (ntake off m) = N.to_nat off).
  { unfold ntake. rewrite firstn_length. unfold nlen in H. lia. }
  destruct (N.leb_spec off j) as [H1|H1]; cbn [andb].
  - rewrite nth_error_app2 by lia. rewrite Ht.
    destruct (N.ltb_spec j (off + nlen bs)) as [H2|H2].
    + rewrite nth_error_app1 by (unfold nlen in H2; lia). f_equal. lia.
    + rewrite nth_error_app2 by (unfold nlen in H2; lia).
      unfold ndrop. rewrite nth_error_skipn_c. f_equal. unfold nlen in *. lia.
  - rewrite nth_error_app1 by lia. unfold ntake. rewrite nth_error_firstn_c.
    destruct (Nat.ltb_spec (N.to_nat j) (N.to_nat off)); [reflexivity|lia].
Qed.
Lemma mem_read_frame_before m off bs a : off + nlen bs <= nlen m -> a <= off ->
  ntake a (mem_write m off bs) = ntake a m.
Proof.
  intros H Ha. unfold mem_write. rewrite ntake_app_le by (rewrite nlen_ntake; lia).
  rewrite ntake_ntake. f_equal. lia.
Qed.
Lemma mem_read_frame_after m off bs a : off + nlen bs <= nlen m -> off + nlen bs <= a ->
  ndrop a (mem_write m off bs) = ndrop a m.
Proof.
  intros H Ha. unfold mem_write.
  rewrite ndrop_app_ge by (rewrite nlen_ntake; lia). rewrite nlen_ntake.
  rewrite ndrop_app_ge by lia. rewrite ndrop_ndrop. f_equal. lia.
Qed.
