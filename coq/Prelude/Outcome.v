(* The outcome monad: every model function that transcribes Rust code which can panic
   (overflow in checked builds, assert!, unwrap, slice indexing, division by zero) or
   loop is written in it, so that "never panics / always terminates" (C07) is a theorem
   about the same model the functional properties use. *)
From VM Require Import Prelude.MachInt.

Inductive mode := Debug | Release.
Inductive outcome (A : Type) := Val (a : A) | Panic (site : N) | OutOfFuel.
Arguments Val {A}. Arguments Panic {A}. Arguments OutOfFuel {A}.
Definition bind {A B} (x : outcome A) (f : A -> outcome B) : outcome B :=
  match x with Val a => f a | Panic s => Panic s | OutOfFuel => OutOfFuel end.
Notation "'let*' x := e 'in' k" := (bind e (fun x => k))
  (at level 200, x pattern, right associativity).
Definition omap {A B} (f : A -> B) (x : outcome A) : outcome B :=
  match x with Val a => Val (f a) | Panic s => Panic s | OutOfFuel => OutOfFuel end.

(* Rust `a + b`, `a - b`, `a * b` on u64/usize: panic in builds with overflow checks,
   wrap otherwise.  `site` is the source line, for diagnostics only. *)
Definition padd (m : mode) (site a b : N) : outcome N :=
  if a + b <? W64 then Val (a + b)
  else match m with Debug => Panic site | Release => Val ((a + b) mod W64) end.
Definition psub (m : mode) (site a b : N) : outcome N :=
  if b <=? a then Val (a - b)
  else match m with Debug => Panic site | Release => Val ((W64 + a - b) mod W64) end.
Definition pmul (m : mode) (site a b : N) : outcome N :=
  if a * b <? W64 then Val (a * b)
  else match m with Debug => Panic site | Release => Val ((a * b) mod W64) end.
(* `a / b`, `a % b`: panic on zero in every build *)
Definition pdiv (site a b : N) : outcome N := if b =? 0 then Panic site else Val (a / b).
Definition pmod (site a b : N) : outcome N := if b =? 0 then Panic site else Val (a mod b).
Definition passert (site : N) (c : bool) : outcome unit := if c then Val tt else Panic site.

Lemma padd_Val m s a b : a + b < W64 -> padd m s a b = Val (a + b).
Proof. intros H. unfold padd. destruct (N.ltb_spec (a + b) W64); [reflexivity|lia]. Qed.
Lemma psub_Val m s a b : b <= a -> psub m s a b = Val (a - b).
Proof. intros H. unfold psub. destruct (N.leb_spec b a); [reflexivity|lia]. Qed.
Lemma pmul_Val m s a b : a * b < W64 -> pmul m s a b = Val (a * b).
Proof. intros H. unfold pmul. destruct (N.ltb_spec (a * b) W64); [reflexivity|lia]. Qed.
