(* Bytes, little/big-endian encodings of machine integers. *)
From VM Require Import Prelude.MachInt.

Fixpoint enc_le (n : nat) (v : N) : list N :=
  match n with O => [] | S k => (v mod 256) :: enc_le k (v / 256) end.
Fixpoint dec_le (l : list N) : N :=
  match l with [] => 0 | b :: r => b + 256 * dec_le r end.
Definition enc_be (n : nat) (v : N) : list N := rev (enc_le n v).
Definition dec_be (l : list N) : N := dec_le (rev l).
Definition is_byte (b : N) : Prop := b < 256.

Lemma enc_le_length n v : length (enc_le n v) = n.
Proof. revert v. induction n as [|n IH]; intros v; cbn [enc_le length]; [reflexivity|]. rewrite IH. reflexivity. Qed.

Lemma enc_le_bytes n v : Forall is_byte (enc_le n v).
Proof.
  revert v. induction n as [|n IH]; intros v; cbn [enc_le]; constructor.
  - unfold is_byte. apply N.mod_lt. lia.
  - apply IH.
Qed.

Lemma pow256_S n : 256 ^ N.of_nat (S n) = 256 * 256 ^ N.of_nat n.
Proof. rewrite Nat2N.inj_succ, N.pow_succ_r'. reflexivity. Qed.

Lemma dec_enc_le n v : v < 256 ^ N.of_nat n -> dec_le (enc_le n v) = v.
Proof.
  revert v. induction n as [|n IH]; intros v Hv.
  - cbn in Hv. cbn [enc_le dec_le]. change (256 ^ 0) with 1 in Hv. lia.
  - cbn [enc_le dec_le]. rewrite pow256_S in Hv. rewrite IH.
    + pose proof (N.div_mod v 256 ltac:(lia)). lia.
    + apply N.div_lt_upper_bound; lia.
Qed.

Lemma dec_le_bound l : Forall is_byte l -> dec_le l < 256 ^ N.of_nat (length l).
Proof.
  induction 1 as [|b r Hb _ IH]; cbn [dec_le length].
  - change (256 ^ N.of_nat 0) with 1. lia.
  - rewrite pow256_S. unfold is_byte in Hb. lia.
Qed.

Lemma enc_dec_le l : Forall is_byte l -> enc_le (length l) (dec_le l) = l.
Proof.
  induction 1 as [|b r Hb _ IH]; cbn [dec_le length enc_le]; [reflexivity|].
  unfold is_byte in Hb. f_equal.
  - replace (b + 256 * dec_le r) with (b + dec_le r * 256) by lia.
    rewrite N.mod_add by lia. apply N.mod_small. exact Hb.
  - replace (b + 256 * dec_le r) with (b + dec_le r * 256) by lia.
    rewrite N.div_add by lia. rewrite (N.div_small b 256 Hb), N.add_0_l. exact IH.
Qed.

(* byte i (little-endian position) of v *)
Definition byte_at (v : N) (i : nat) : N := (v / 256 ^ N.of_nat i) mod 256.
Lemma enc_le_nth n v i : (i < n)%nat -> nth i (enc_le n v) 0 = byte_at v i.
Proof.
  revert v i. induction n as [|n IH]; intros v i Hi; [lia|].
  destruct i as [|i]; cbn [enc_le nth].
  - unfold byte_at. change (256 ^ N.of_nat 0) with 1. rewrite N.div_1_r. reflexivity.
  - rewrite IH by lia. unfold byte_at. rewrite pow256_S. rewrite N.div_div by (try lia; apply N.pow_nonzero; lia). reflexivity.
Qed.
