(* Machine integers as N with explicit wrap-around.  Mirrors the Rust primitive
   integer operations the crate uses (u64 / usize on a 64-bit host). *)
From Coq Require Export ZArith NArith List Lia Bool.
Export ListNotations.
#[global] Open Scope N_scope.
Ltac Zify.zify_post_hook ::= Z.div_mod_to_equations.
Arguments N.add : simpl never. Arguments N.sub : simpl never. Arguments N.mul : simpl never.
Arguments N.div : simpl never. Arguments N.modulo : simpl never.
Arguments N.eqb : simpl never. Arguments N.ltb : simpl never. Arguments N.leb : simpl never.
Arguments N.pow : simpl never. Arguments N.land : simpl never. Arguments N.lor : simpl never.
Arguments N.min : simpl never. Arguments N.max : simpl never.

Definition W64 : N := 18446744073709551616.          (* 2^64 *)
Definition ISZ_MAX : N := 9223372036854775807.       (* isize::MAX = 2^63-1 *)
Lemma W64_eq : W64 = 2 ^ 64. Proof. reflexivity. Qed.
Lemma W64_pos : 0 < W64. Proof. reflexivity. Qed.
#[global] Opaque W64.
(* after this, lia treats W64 as an atom; use W64_val when the number is needed *)
Lemma W64_val : W64 = 18446744073709551616. Proof. Transparent W64. reflexivity. Opaque W64. Qed.

Definition u64 (a : N) : Prop := a < W64.

Definition wrap (a : N) : N := a mod W64.
Definition checked_add (a b : N) : option N := if a + b <? W64 then Some (a + b) else None.
Definition checked_sub (a b : N) : option N := if b <=? a then Some (a - b) else None.
Definition checked_mul (a b : N) : option N := if a * b <? W64 then Some (a * b) else None.
Definition overflowing_add (a b : N) : N * bool := ((a + b) mod W64, W64 <=? a + b).
Definition overflowing_sub (a b : N) : N * bool :=
  if b <=? a then (a - b, false) else ((W64 + a - b) mod W64, true).
Definition wrapping_add (a b : N) : N := (a + b) mod W64.
Definition wrapping_sub (a b : N) : N := if b <=? a then a - b else (W64 + a - b) mod W64.
Definition saturating_add (a b : N) : N := N.min (a + b) (W64 - 1).
Definition div_ceil (a b : N) : N := (a + b - 1) / b.  (* only used with a + b - 1 < 2^64 checked by callers *)
Definition not64 (a : N) : N := W64 - 1 - a.
Definition and64 (a b : N) : N := N.land a b.
Definition or64 (a b : N) : N := N.lor a b.

Lemma checked_add_Some a b c : checked_add a b = Some c <-> c = a + b /\ a + b < W64.
Proof.
  unfold checked_add. destruct (N.ltb_spec (a + b) W64) as [H|H]; split.
  - intros E; inversion E; split; [reflexivity|assumption].
  - intros [-> _]; reflexivity.
  - discriminate.
  - intros [_ H']; lia.
Qed.
Lemma checked_add_None a b : checked_add a b = None <-> W64 <= a + b.
Proof.
  unfold checked_add. destruct (N.ltb_spec (a + b) W64) as [H|H]; split; intros H'.
  - discriminate. - lia. - assumption. - reflexivity.
Qed.
Lemma checked_sub_Some a b c : checked_sub a b = Some c <-> c = a - b /\ b <= a.
Proof.
  unfold checked_sub. destruct (N.leb_spec b a) as [H|H]; split.
  - intros E; inversion E; split; [reflexivity|assumption].
  - intros [-> _]; reflexivity.
  - discriminate.
  - intros [_ H']; lia.
Qed.
Lemma checked_sub_None a b : checked_sub a b = None <-> a < b.
Proof.
  unfold checked_sub. destruct (N.leb_spec b a) as [H|H]; split; intros H'.
  - discriminate. - lia. - assumption. - reflexivity.
Qed.
