(* C15xu suite glue (Xen build): parse a trace line, run the model (Impl/Xen.v: new_unix, xen_from_range,
   xen_guest_from_range), judge the real observation.
   case:  mode route size hasfile filelen start hasbase base page huge
   obs:   probe res size prot flags hasfile start samefd xflags xdata pos d1 d2 coh1 coh2 huge mprot *)
From VM Require Impl.Mmap.
From VM Require Import Prelude.MachInt Prelude.Outcome Prelude.Tok Impl.MmapBuild Impl.Xen
  Spec.C15 Suite.C15 Spec.C15xu.

Definition os_of_u (c : case15u) (probe : N) : os :=
  {| os_page := cu_page c;
     os_filesize := match cu_file c with Some (flen, _) => flen | None => 0 end;
     os_mmap_ok := probe =? 1; os_ioctl_ok := true |}.
Definition fstart_u (c : case15u) : option N :=
  match cu_file c with Some (_, s) => Some s | None => None end.
Definition base_u (c : case15u) : N := match cu_base c with Some b => b | None => 0 end.

(* the constructor call of the case *)
Definition construct_u (c : case15u) (o : os) : outcome (res xregion * list ev) :=
  let m := cu_mode c in
  match cu_route c with
  | 0 =>
      let* (r, l) := xen_from_range m o (new_unix (cu_size c) (fstart_u c) (base_u c)) in
      match r with
      | Err e => Val (Err e, l)
      | Ok g =>
          match cu_base c with
          | None => Val (Ok g, l)
          | Some b => let* (r2, l2) := xen_guest_region_new m o g b in Val (r2, l ++ l2)
          end
      end
  | 1 => xen_guest_from_range m o (base_u c) (cu_size c) (fstart_u c)
  | _ =>
      (* from_ranges_with_files (mod.rs:391-406): collect the regions (here: one), then from_regions *)
      let* (r, l) := xen_guest_from_range m o (base_u c) (cu_size c) (fstart_u c) in
      match r with
      | Err e => Val (Err e, l)
      | Ok g =>
          match Mmap.from_regions (fun _ : xregion => base_u c) xr_size m [g] with
          | Val (Mmap.Ok _) => Val (Ok g, l)
          | _ => Val (Err UnexpectedError, l)       (* a one-region list is always accepted: C15xu_single_region *)
          end
      end
  end.

Definition obs_err_u (probe code pos d2 : N) : obs15u :=
  {| ou_probe := probe; ou_res := code; ou_size := 0; ou_prot := 0; ou_flags := 0; ou_hasfile := false;
     ou_start := 0; ou_samefd := false; ou_xflags := 0; ou_xdata := 0; ou_pos := pos; ou_d1 := 0; ou_d2 := d2;
     ou_coh1 := 2; ou_coh2 := 2; ou_huge := 0; ou_mprot := 0 |}.

(* the harness examines coherence exactly under this condition *)
Definition coh_tested_u (g : xregion) : bool :=
  (match xr_file g with Some _ => true | None => false end) && (0 <? xr_size g) && (xr_size g <=? 1048576).
(* the permission column of the mapping the back end made: prot and the MAP_SHARED bit of its mmap call *)
Definition mprot_of (prot flags : N) : N := N.land prot 7 + (if hasbit flags MAP_SHARED then 8 else 0).

Definition run_C15xu (c : case15u) (probe : N) : obs15u :=
  let o := os_of_u c probe in
  match construct_u c o with
  | Val (r, l) =>
      let pos := match cu_file c with Some _ => if has_rewind l then 0 else 7 | None => 0 end in
      match r with
      | Err e => obs_err_u probe (berr_code e) pos (Z.to_N (foot (cu_page c) l))
      | Ok g =>
          match xen_drop (cu_mode c) o g with
          | Val ld =>
            let t := coh_tested_u g in
            let anon := hasbit (xr_flags g) MAP_ANONYMOUS in
            {| ou_probe := probe; ou_res := 0; ou_size := xr_size g; ou_prot := xr_prot g;
               ou_flags := xr_flags g;
               ou_hasfile := match xr_file g with Some _ => true | None => false end;
               ou_start := match xr_file g with Some s => s | None => 0 end;
               ou_samefd := match xr_file g with Some _ => true | None => false end;
               ou_xflags := xr_mflags g; ou_xdata := xr_mdata g;
               ou_pos := pos; ou_d1 := Z.to_N (foot (cu_page c) l);
               ou_d2 := Z.to_N (foot (cu_page c) (l ++ ld));
               (* file -> region unless the mapping ignores the file; region -> file only for a shared one *)
               ou_coh1 := if t then (if anon then 0 else 1) else 2;
               ou_coh2 := if t then (if hasbit (xr_flags g) MAP_SHARED && negb anon then 1 else 0) else 2;
               ou_huge := if cu_route c =? 0 then huge_code (xen_region_huge (huge_opt (cu_huge c))) else 0;
               ou_mprot := mprot_of (xr_prot g) (xr_flags g) |}
          | _ => obs_err_u probe 99 pos 0
          end
      end
  | _ => obs_err_u probe 99 (match cu_file c with Some _ => 7 | None => 0 end) 0
  end.

Definition enc15u (o : obs15u) : list tok :=
  [TN (ou_probe o); TN (ou_res o); TN (ou_size o); TN (ou_prot o); TN (ou_flags o); bool_tok (ou_hasfile o);
   TN (ou_start o); bool_tok (ou_samefd o); TN (ou_xflags o); TN (ou_xdata o); TN (ou_pos o);
   TN (ou_d1 o); TN (ou_d2 o); TN (ou_coh1 o); TN (ou_coh2 o); TN (ou_huge o); TN (ou_mprot o)].

(* routes 1 and 2 take a guest base; the label can only be given to a range (route 0) *)
Definition wf_u (c : case15u) : bool :=
  (cu_route c <? 3) && ((cu_route c =? 0) || match cu_base c with Some _ => true | None => false end) &&
  (cu_huge c <? 3) && ((cu_route c =? 0) || (cu_huge c =? 0)).

Definition suite_C15xu (inp obs : list tok) : verdict :=
  match inp, obs with
  | [TN md; TN route; TN size; TN hasfile; TN flen; TN start; TN hasbase; TN base; TN page; TN huge],
    [TN probe; TN res; TN osz; TN oprot; TN oflags; TN ohf; TN ostart; TN osame; TN oxf; TN oxd;
     TN opos; TN d1; TN d2; TN c1; TN c2; TN ohuge; TN omp] =>
      let c := {| cu_mode := if md =? 0 then Debug else Release; cu_route := route; cu_size := size;
                  cu_file := if negb (hasfile =? 0) then Some (flen, start) else None;
                  cu_base := if negb (hasbase =? 0) then Some base else None;
                  cu_page := page; cu_huge := huge |} in
      if wf_u c && (size <? W64) && (flen <? W64) && (start <? W64) && (base <? W64) && is_pow2_page page &&
         (probe <? 2)
      then
        let o := {| ou_probe := probe; ou_res := res; ou_size := osz; ou_prot := oprot; ou_flags := oflags;
                    ou_hasfile := negb (ohf =? 0); ou_start := ostart; ou_samefd := negb (osame =? 0);
                    ou_xflags := oxf; ou_xdata := oxd; ou_pos := opos; ou_d1 := d1; ou_d2 := d2;
                    ou_coh1 := c1; ou_coh2 := c2; ou_huge := ohuge; ou_mprot := omp |} in
        {| v_model := enc15u (run_C15xu c probe); v_ok := ok_C15xu c o; v_wellformed := true |}
      else malformed
  | _, _ => malformed end.
