(* C03 suite glue: a case is one HISTORY of Bytes<GuestAddress> operations on one guest memory.
   case:  kind(0 GuestMemoryMmap, 1 MockMem) mode [starts] [lens] [initial bytes of all regions, concatenated]
          then per operation:  opcode addr count [data]   (opcodes 12/13: data = chunk :: source)
   obs :  per operation:       k v e1 e2 [data] [bytes of all regions after the step, concatenated] *)
From VM Require Import Prelude.MachInt Prelude.Outcome Prelude.Tok Impl.Address Impl.Guest Spec.C03.

Definition to_smem (M : mem) : smem := map (fun r => (rstart r, rbytes r)) M.
Definition of_smem (S : smem) : mem := map (fun r => {| rstart := fst r; rbytes := snd r |}) S.

Definition ob (k v e1 e2 : N) (d : list N) (M : mem) : sobs :=
  {| s_k := k; s_v := v; s_e1 := e1; s_e2 := e2; s_data := d; s_mem := to_smem M |}.
Definition ob_err (e : gerr) (d : list N) (M : mem) : sobs :=
  match e with EPartialBuffer x y => ob 2 3 x y d M | _ => ob 2 (err_code e) 0 0 d M end.
Definition ob_count (r : res N) (d : list N) (M : mem) : sobs :=
  match r with inl n => ob 1 n 0 0 d M | inr e => ob_err e d M end.
Definition ob_unit (r : res unit) (d : list N) (M : mem) : sobs :=
  match r with inl _ => ob 1 0 0 0 d M | inr e => ob_err e d M end.
Definition ob_panic (M : mem) : sobs := ob 3 0 0 0 [] M.

(* one step of the implementation model (GuestMemory defaults over the linear find_region) *)
Definition step_C03 (m : mode) (M : mem) (op : bop) : mem * sobs :=
  match op with
  | BWrite buf a =>
      match gm_write find_lin m M buf a with
      | Val (M', r) => (M', ob_count r [] M') | _ => (M, ob_panic M) end
  | BRead buf0 a =>
      match gm_read find_lin m M buf0 a with
      | Val (b, r) => (M, ob_count r b M) | _ => (M, ob_panic M) end
  | BWriteSlice buf a =>
      match gm_write_slice find_lin m M buf a with
      | Val (M', r) => (M', ob_unit r [] M') | _ => (M, ob_panic M) end
  | BReadSlice buf0 a =>
      match gm_read_slice find_lin m M buf0 a with
      | Val (b, r) => (M, ob_unit r b M) | _ => (M, ob_panic M) end
  | BWriteObj val a =>
      match gm_write_obj find_lin m M val a with
      | Val (M', r) => (M', ob_unit r [] M') | _ => (M, ob_panic M) end
  | BReadObj sz a =>
      match gm_read_obj find_lin m M sz a with
      | Val (inl b) => (M, ob 1 0 0 0 b M) | Val (inr e) => (M, ob_err e [] M) | _ => (M, ob_panic M) end
  | BStore val a =>
      match gm_store find_lin M val a with
      | Val (M', r) => (M', ob_unit r [] M') | _ => (M, ob_panic M) end
  | BLoad sz a =>
      match gm_load find_lin M sz a with
      | Val (inl b) => (M, ob 1 0 0 0 b M) | Val (inr e) => (M, ob_err e [] M) | _ => (M, ob_panic M) end
  | BReadVolFrom ch src cnt a =>
      match gm_read_volatile_from find_lin m M a ch src cnt with
      | Val ((M', rest), r) => (M', ob_count r rest M') | _ => (M, ob_panic M) end
  | BReadExactVolFrom ch src cnt a =>
      match gm_read_exact_volatile_from find_lin m M a ch src cnt with
      | Val ((M', rest), r) => (M', ob_unit r rest M') | _ => (M, ob_panic M) end
  | BWriteVolTo dst cnt a =>
      match gm_write_volatile_to find_lin m M a dst cnt with
      | Val (d, r) => (M, ob_count r d M) | _ => (M, ob_panic M) end
  | BWriteAllVolTo dst cnt a =>
      match gm_write_all_volatile_to find_lin m M a dst cnt with
      | Val (d, r) => (M, ob_unit r d M) | _ => (M, ob_panic M) end
  end.
Fixpoint hist_C03 (m : mode) (M : mem) (ops : list bop) {struct ops} : mem * list sobs :=
  match ops with
  | [] => (M, [])
  | op :: t => let so := step_C03 m M op in
               let r := hist_C03 m (fst so) t in (fst r, snd so :: snd r)
  end.
Definition run_C03 (c : case03) : list sobs := snd (hist_C03 (c3_mode c) (of_smem (c3_mem c)) (c3_ops c)).

(* ---- wire format ---- *)
Definition bop_of (opc addr cnt : N) (d : list N) : option bop :=
  match opc with
  | 0 => Some (BWrite d addr) | 1 => Some (BRead d addr) | 2 => Some (BWriteSlice d addr)
  | 3 => Some (BReadSlice d addr) | 4 => Some (BWriteObj d addr) | 5 => Some (BReadObj cnt addr)
  | 6 => Some (BStore d addr) | 7 => Some (BLoad cnt addr) | 8 => Some (BReadVolFrom W64 d cnt addr)
  | 9 => Some (BReadExactVolFrom W64 d cnt addr) | 10 => Some (BWriteVolTo d cnt addr)
  | 11 => Some (BWriteAllVolTo d cnt addr)
  (* 12 / 13: the source hands out at most chunk bytes per call; data = chunk :: source bytes *)
  | 12 => match d with ch :: src => Some (BReadVolFrom ch src cnt addr) | [] => None end
  | 13 => match d with ch :: src => Some (BReadExactVolFrom ch src cnt addr) | [] => None end
  | _ => None end.
Definition small (x : N) : bool := x <=? 4096.
Definition atomic_sz (x : N) : bool := (x =? 1) || (x =? 2) || (x =? 4) || (x =? 8).
Definition op_guard (opc cnt : N) (d : list N) : bool :=
  small cnt &&
  match opc with
  | 6 => atomic_sz (N.of_nat (length d)) | 7 => atomic_sz cnt
  | 12 | 13 => match d with ch :: _ => 0 <? ch | [] => false end
  | _ => true end.
Fixpoint parse_ops (l : list tok) (fuel : nat) {struct fuel} : option (list bop) :=
  match fuel with O => None | S fu =>
  match l with
  | [] => Some []
  | TN opc :: TN addr :: TN cnt :: TL d :: t =>
      if (addr <? W64) && op_guard opc cnt d then
        match bop_of opc addr cnt d, parse_ops t fu with
        | Some o, Some r => Some (o :: r) | _, _ => None end
      else None
  | _ => None
  end end.
Fixpoint split_by (lens : list N) (bytes : list N) {struct lens} : option (list (list N)) :=
  match lens with
  | [] => match bytes with [] => Some [] | _ => None end
  | n :: t =>
      if N.of_nat (length bytes) <? n then None else
      match split_by t (skipn (N.to_nat n) bytes) with
      | Some r => Some (firstn (N.to_nat n) bytes :: r) | None => None end
  end.
Fixpoint parse_obs (starts lens : list N) (l : list tok) (fuel : nat) {struct fuel} : option (list sobs) :=
  match fuel with O => None | S fu =>
  match l with
  | [] => Some []
  | TN k :: TN v :: TN e1 :: TN e2 :: TL d :: TL mm :: t =>
      match split_by lens mm, parse_obs starts lens t fu with
      | Some bs, Some r =>
          Some ({| s_k := k; s_v := v; s_e1 := e1; s_e2 := e2; s_data := d; s_mem := combine starts bs |} :: r)
      | _, _ => None end
  | _ => None
  end end.
Definition enc_sobs (o : sobs) : list tok :=
  [TN (s_k o); TN (s_v o); TN (s_e1 o); TN (s_e2 o); TL (s_data o); TL (concat (map snd (s_mem o)))].

Definition suite_C03 (inp obs : list tok) : verdict :=
  match inp with
  | TN kind :: TN md :: TL starts :: TL lens :: TL init :: ops =>
      if (length starts =? length lens)%nat && forallb (fun x => x <? W64) starts && forallb small lens then
        match split_by lens init, parse_ops ops (S (length ops)) with
        | Some bs, Some ops' =>
            match parse_obs starts lens obs (S (length obs)) with
            | Some ro =>
                let c := {| c3_mode := if md =? 0 then Debug else Release; c3_mem := combine starts bs;
                            c3_ops := ops' |} in
                {| v_model := concat (map enc_sobs (run_C03 c)); v_ok := forallb (fun o => s_k o <? 10) ro && ok_C03 c ro;   (* kind 10: the two call routes disagree *) v_wellformed := true |}
            | None => malformed end
        | _, _ => malformed end
      else malformed
  | _ => malformed end.
