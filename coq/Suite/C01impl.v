(* C01impl suite glue: the PROVIDED methods of trait VolatileMemory (as_volatile_slice, get_ref,
   get_array_ref, aligned_as_ref, aligned_as_mut, get_atomic_ref - src/volatile_memory.rs:109-277)
   on a THIRD-PARTY implementor, i.e. a `get_slice` the crate did not write.  The trait promises
   its users bounds-checked accessors whatever the implementor's get_slice returns, as long as
   that slice lies in the implementor's own memory: each provided method re-checks the length of
   the slice it was given (`assert_eq!(slice.len(), ...)`) before it fabricates a typed accessor
   of size_of::<T>() bytes from the slice's address.

   The harness (harness/src/suites/c01.rs, struct Odd) implements three such get_slice
   functions over a never-dereferenced address range [base, base+len); `impl_gs` below is their
   transcription.  All three stay inside the parent but do not return `count` bytes:
     5  clamps the count to what is left            (offset, min(count, len-offset))
     6  returns the rest of the memory              (offset, len-offset)
     7  returns one byte less than asked            (offset, count-1)  when offset+count <= len
   each answers OutOfBounds for offset > len.

   Root kind 8 is a CHUNKED implementor (struct Chunked): a memory of L logical bytes that is
   physically made of chunks of c bytes separated by gaps of g >= 1 bytes that do NOT belong to
   it (logical byte i lives at base + (i/c)*(c+g) + i mod c).  A VolatileSlice is contiguous, so
   its get_slice(o, n) answers - as the trait documentation allows - the part of the request
   that lies in the chunk of o: (base + phys o, min(n, c - o mod c)), and OutOfBounds when
   o + n > L.  An accessor of size_of::<T>() bytes fabricated from a shorter slice would reach
   into the gap (or the next chunk): memory the accessor was not derived from.  For this root the
   checker judges containment against the chunk that owns the accessor's first byte.

   Requests are made on the implementor (its own get_slice, code 0, is not a library method:
   answered "not applicable") until one is answered with an accessor; the following requests
   go to whatever accessor came back, exactly as in suite C01chain.

   Wire format: that of C01 (Spec/C01.v) with root kinds 5, 6, 7 and an empty region list, or
   root kind 8 and the list [c, g] in the place of the region list. *)
From VM Require Import Prelude.MachInt Prelude.Outcome Prelude.Tok Impl.Volatile Spec.C01 Suite.C01.

Definition IK_CLAMP : N := 5.
Definition IK_REST : N := 6.
Definition IK_SHORT : N := 7.
Definition IK_CHUNK : N := 8.

Definition impl_gs (k A L : N) : get_slice_fn := fun off cnt =>
  if off <=? L then
    if k =? IK_CLAMP then Val (Ok (VS (A + off) (N.min cnt (L - off))))
    else if k =? IK_REST then Val (Ok (VS (A + off) (L - off)))
    else if off + cnt <=? L then Val (Ok (VS (A + off) (cnt - 1)))
    else Val (Err (EOutOfBounds off))
  else Val (Err (EOutOfBounds off)).

(* struct Chunked: physical offset of logical byte off; get_slice *)
Definition chunk_phys (cc gg off : N) : N := (off / cc) * (cc + gg) + off mod cc.
Definition chunk_gs (A L cc gg : N) : get_slice_fn := fun off cnt =>
  if off + cnt <=? L then Val (Ok (VS (A + chunk_phys cc gg off) (N.min cnt (cc - off mod cc))))
  else Val (Err (EOutOfBounds off)).

(* the case as the checker sees it: a piece of volatile memory at [base, base+len) that offers
   the trait methods only (kind KRegion: no offset/subslice/split_at of its own); for the
   chunked implementor ci_c / ci_g are the chunk and gap sizes (0 otherwise) *)
Record caseimpl := { ci_k : N; ci_c : N; ci_g : N; ci_case : case01 }.

Definition ci_gs (ci : caseimpl) : get_slice_fn :=
  let c := ci_case ci in
  if ci_k ci =? IK_CHUNK then chunk_gs (c_base c) (c_len c) (ci_c ci) (ci_g ci)
  else impl_gs (ci_k ci) (c_base c) (c_len c).

Definition impl_geom (c : case01) : geom :=
  {| g_kind := KRegion; g_ridx := 0; g_off := 0; g_len := c_len c; g_esz := 1; g_nelem := 0 |}.

Definition is_own_get_slice (o : sop) : bool := match s_rq o with QGetSlice => true | _ => false end.

Definition impl_step (ci : caseimpl) (o : sop) : sobs * rstate :=
  let c := ci_case ci in
  let root := SAcc 0 (ARegion (RG (c_base c) (c_len c))) in
  if is_own_get_slice o then (err_obs 7, root)
  else
    match dop_of o with
    | Some d => finish c root 0 (derive_vm (c_mode c) (ci_gs ci) (c_len c) d)
    | None => (err_obs 7, root)
    end.

(* requests go to the implementor until one is answered with an accessor *)
Fixpoint run_impl_chain (ci : caseimpl) (ops : list sop) {struct ops} : list sobs :=
  match ops with
  | [] => []
  | o :: rest =>
      let '(ob, st') := impl_step ci o in
      ob :: (if o_class ob =? 0 then run_chain (ci_case ci) st' rest else run_impl_chain ci rest)
  end.
Definition run_C01impl (ci : caseimpl) : list sobs := run_impl_chain ci (c_ops (ci_case ci)).

(* ------------------------------------------------------------------ the checker
   Contiguous implementors (5, 6, 7): the one of C01 (written from the property text), on the
   implementor's extent [base, base+len).
   Chunked implementor (8): the memory consists of the chunks only.  An answer that is an
   accessor must come from a request that names bytes of the memory (logical offsets: o + size
   <= L), and the bytes it is OBSERVED to designate (off = its pointer minus base, reach = its
   length / its guard's length) must lie inside ONE chunk, the one that owns its first byte:
   chunk j = off / (c+g) occupies [j*(c+g), j*(c+g) + min(c, L - j*c)).  Typed / atomic
   references must be aligned (on the observed address).
   The implementor's own get_slice is not judged (the generator never asks for it and the
   harness answers "not applicable"); an answer that is an accessor to request 0 is refused. *)
Definition chunk_fitsb (L : N) (o : sop) : bool :=
  let a := s_a o in let sz := ty_size (s_ty o) in
  match s_rq o with
  | QAsVolatileSlice => true
  | QGetRef | QAlignedAsRef | QAlignedAsMut | QGetAtomicRef => a + sz <=? L
  | QGetArrayRef => a + s_b o * sz <=? L
  | _ => false
  end.
Definition chunk_containedb (cc gg L off reach : N) : bool :=
  let j := off / (cc + gg) in
  off + reach <=? j * (cc + gg) + N.min cc (L - j * cc).
Definition chunk_step_ok (ci : caseimpl) (o : sop) (ob : sobs) : bool :=
  let c := ci_case ci in
  if o_class ob =? 0 then
    match result_kind KRegion (s_rq o) with
    | Some rk =>
        negb (is_own_get_slice o) && chunk_fitsb (c_len c) o && (o_ridx ob =? 0) &&
        chunk_containedb (ci_c ci) (ci_g ci) (c_len c) (o_off ob) (obs_reach rk o ob) &&
        alignedb c rk o ob
    | None => false
    end
  else true.

Definition impl_step_ok (ci : caseimpl) (o : sop) (ob : sobs) : bool :=
  if ci_k ci =? IK_CHUNK then chunk_step_ok ci o ob
  else negb (is_own_get_slice o && (o_class ob =? 0)) && step_ok (ci_case ci) (impl_geom (ci_case ci)) o ob.

Fixpoint impl_chain_ok (ci : caseimpl) (ops : list sop) (obs : list sobs) {struct ops} : bool :=
  match ops, obs with
  | [], [] => true
  | o :: ops', ob :: obs' =>
      impl_step_ok ci o ob &&
      (if o_class ob =? 0 then chain_ok (ci_case ci) (step_geom (impl_geom (ci_case ci)) o ob) ops' obs'
       else impl_chain_ok ci ops' obs')
  | _, _ => false              (* one answer per request *)
  end.
Definition ok_C01impl (ci : caseimpl) (obs : list sobs) : bool :=
  impl_chain_ok ci (c_ops (ci_case ci)) obs.

(* the physical extent of the chunked memory: L/c + 1 chunk strides *)
Definition chunk_span (L cc gg : N) : N := (L / cc + 1) * (cc + gg).

Definition parse_caseimpl (inp : list tok) : option caseimpl :=
  match inp with
  | TN md :: TN rk :: TN base :: TN len :: TL geo :: ops =>
      match parse_ops ops with
      | Some os =>
          let mk cc gg :=
            {| ci_k := rk; ci_c := cc; ci_g := gg;
               ci_case := {| c_mode := if md =? 0 then Debug else Release; c_rootk := RK_FAKE;
                             c_base := base; c_len := len; c_regions := []; c_ops := os |} |} in
          match geo with
          | [] =>
              if (IK_CLAMP <=? rk) && (rk <=? IK_SHORT) && (base + len <? W64) && (len <=? ISZ_MAX)
              then Some (mk 0 0) else None
          | [cc; gg] =>
              if (rk =? IK_CHUNK) && (1 <=? cc) && (1 <=? gg) && (len <=? ISZ_MAX) &&
                 (base + chunk_span len cc gg <? W64)
              then Some (mk cc gg) else None
          | _ => None
          end
      | None => None
      end
  | _ => None
  end.

Definition suite_C01impl (inp obs : list tok) : verdict :=
  match obs with
  | TN _ :: obs' =>
      match parse_caseimpl inp, parse_obs obs' with
      | Some ci, Some ob =>
          if N.of_nat (length ob) =? N.of_nat (length (c_ops (ci_case ci))) then
            {| v_model := TN (first_class (run_C01impl ci)) :: map enc_obs (run_C01impl ci);
               v_ok := ok_C01impl ci ob; v_wellformed := true |}
          else malformed
      | _, _ => malformed
      end
  | _ => malformed
  end.

(* what the theorems assume of a case (all of it enforced by the parser) *)
Definition wf_caseimpl (ci : caseimpl) : Prop :=
  let c := ci_case ci in
  c_rootk c = RK_FAKE /\ c_base c + c_len c < W64 /\ c_len c <= ISZ_MAX /\
  (ci_k ci = IK_CHUNK ->
   1 <= ci_c ci /\ 1 <= ci_g ci /\ c_base c + chunk_span (c_len c) (ci_c ci) (ci_g ci) < W64).
