(* C01impl suite glue: the PROVIDED methods of trait VolatileMemory (as_volatile_slice, get_ref,
   get_array_ref, aligned_as_ref, aligned_as_mut, get_atomic_ref - src/volatile_memory.rs:109-277)
   on a THIRD-PARTY implementor, i.e. a `get_slice` the crate did not write.  The trait promises
   its users bounds-checked accessors whatever the implementor's get_slice returns, as long as
   that slice lies in the implementor's own memory: each provided method re-checks the length of
   the slice it was given (`assert_eq!(slice.len(), ...)`) before it fabricates a typed accessor
   of size_of::<T>() bytes from the slice's address.

   The harness (harness/src/suites/c01.rs, struct Odd) implements three such get_slice
   functions over a never-dereferenced address range [base, base+len); `impl_gs` below is their
   transcription.  All three stay inside the parent but do not return `count` bytes:
     5  clamps the count to what is left            (offset, min(count, len-offset))
     6  returns the rest of the memory              (offset, len-offset)
     7  returns one byte less than asked            (offset, count-1)  when offset+count <= len
   each answers OutOfBounds for offset > len.  The first request of a case is made on the
   implementor (its own get_slice, code 0, is not a library method: answered "not applicable"),
   the following requests on whatever accessor came back, exactly as in suite C01chain.

   Wire format: that of C01 (Spec/C01.v) with root kinds 5, 6, 7 and an empty region list. *)
From VM Require Import Prelude.MachInt Prelude.Outcome Prelude.Tok Impl.Volatile Spec.C01 Suite.C01.

Definition IK_CLAMP : N := 5.
Definition IK_REST : N := 6.
Definition IK_SHORT : N := 7.

Definition impl_gs (k A L : N) : get_slice_fn := fun off cnt =>
  if off <=? L then
    if k =? IK_CLAMP then Val (Ok (VS (A + off) (N.min cnt (L - off))))
    else if k =? IK_REST then Val (Ok (VS (A + off) (L - off)))
    else if off + cnt <=? L then Val (Ok (VS (A + off) (cnt - 1)))
    else Val (Err (EOutOfBounds off))
  else Val (Err (EOutOfBounds off)).

(* the case as the checker sees it: a piece of volatile memory at [base, base+len) that offers
   the trait methods only (kind KRegion: no offset/subslice/split_at of its own) *)
Record caseimpl := { ci_k : N; ci_case : case01 }.

Definition impl_geom (c : case01) : geom :=
  {| g_kind := KRegion; g_ridx := 0; g_off := 0; g_len := c_len c; g_esz := 1; g_nelem := 0 |}.

Definition is_own_get_slice (o : sop) : bool := match s_rq o with QGetSlice => true | _ => false end.

Definition impl_step (ci : caseimpl) (o : sop) : sobs * rstate :=
  let c := ci_case ci in
  let root := SAcc 0 (ARegion (RG (c_base c) (c_len c))) in
  if is_own_get_slice o then (err_obs 7, root)
  else
    match dop_of o with
    | Some d => finish c root 0 (derive_vm (c_mode c) (impl_gs (ci_k ci) (c_base c) (c_len c)) (c_len c) d)
    | None => (err_obs 7, root)
    end.

Definition run_C01impl (ci : caseimpl) : list sobs :=
  match c_ops (ci_case ci) with
  | [] => []
  | o :: rest => let '(ob, st') := impl_step ci o in ob :: run_chain (ci_case ci) st' rest
  end.

(* the checker: the one of C01 (written from the property text), started on the implementor's
   extent.  The implementor's own get_slice is not judged (the generator never asks for it and
   the harness answers "not applicable"); a first answer that is an accessor to request 0 is
   refused outright. *)
Definition ok_C01impl (ci : caseimpl) (obs : list sobs) : bool :=
  let c := ci_case ci in
  match c_ops c, obs with
  | o :: _, ob :: _ => negb (is_own_get_slice o && (o_class ob =? 0))
  | _, _ => true
  end && chain_ok c (impl_geom c) (c_ops c) obs.

Definition parse_caseimpl (inp : list tok) : option caseimpl :=
  match inp with
  | TN md :: TN rk :: TN base :: TN len :: TL [] :: ops =>
      match parse_ops ops with
      | Some os =>
          if (IK_CLAMP <=? rk) && (rk <=? IK_SHORT) && (base + len <? W64) && (len <=? ISZ_MAX)
          then Some {| ci_k := rk;
                       ci_case := {| c_mode := if md =? 0 then Debug else Release; c_rootk := RK_FAKE;
                                     c_base := base; c_len := len; c_regions := []; c_ops := os |} |}
          else None
      | None => None
      end
  | _ => None
  end.

Definition suite_C01impl (inp obs : list tok) : verdict :=
  match obs with
  | TN _ :: obs' =>
      match parse_caseimpl inp, parse_obs obs' with
      | Some ci, Some ob =>
          if N.of_nat (length ob) =? N.of_nat (length (c_ops (ci_case ci))) then
            {| v_model := TN (first_class (run_C01impl ci)) :: map enc_obs (run_C01impl ci);
               v_ok := ok_C01impl ci ob; v_wellformed := true |}
          else malformed
      | _, _ => malformed
      end
  | _ => malformed
  end.

(* what the theorems assume of a case (all of it enforced by the parser) *)
Definition wf_caseimpl (ci : caseimpl) : Prop :=
  let c := ci_case ci in
  c_rootk c = RK_FAKE /\ c_base c + c_len c < W64 /\ c_len c <= ISZ_MAX.
