(* C10 suite glue: parse a history, run the model (Impl/Mmap.v instantiated at the handle type
   `reg` of Spec/C10.v), judge the real observations. *)
From VM Require Import Prelude.MachInt Prelude.Outcome Prelude.Tok Impl.Mmap Spec.C10.

Definition code_of (e : merr) : N :=
  match e with EInvalidGuestRegion => 1 | EMmapRegion => 2 | ENoMemoryRegion => 3
             | EMemoryRegionOverlap => 4 | EUnsortedMemoryRegions => 5 end.
Definition mkobs (code : N) (regs : list reg) : obs10 := {| o_code := code; o_intact := true; o_regs := regs |}.
Definition mkreg (id s l : N) : reg := {| g_id := id; g_s := s; g_l := l |}.
Definition add_map (st : st10) (x : option (list reg)) : st10 := {| pool := pool st; maps := maps st ++ [x] |}.

(* result of a map-producing call: observation and the new map slot *)
Definition res_map (st : st10) (r : outcome (result (list reg))) : obs10 * st10 :=
  match r with
  | Val (Ok L) => (mkobs 0 L, add_map st (Some L))
  | Val (Err e) => (mkobs (code_of e) [], add_map st None)
  | _ => (mkobs 9 [], add_map st None)
  end.

(* the backing file the harness hands to a constructor route with file tag f, as (start, length of the file):
   1 = a file of exactly `size` bytes mapped from offset 0, 2 = a file of 65536 + size bytes mapped from
   offset 65536 (a multiple of every page size in use), anything else = no file *)
Definition file_of_tag (f size : N) : option (N * N) :=
  match f with
  | 1 => if size <=? 16777216 then Some (0, size) else None             (* no file for sizes beyond 16 MiB *)
  | 2 => if size <=? 16777216 then Some (65536, 65536 + size) else None
  | _ => None end.
Definition with_files (l : list (N * N * N)) : list (N * N * option (N * N)) :=
  map (fun t => (fst (fst t), snd (fst t), file_of_tag (snd t) (snd (fst t)))) l.

(* the implementation model of one operation of the history *)
Definition m_step (m : mode) (st : st10) (op : op10) : obs10 * st10 :=
  let p := pool st in let ms := maps st in
  match op with
  | ONew base size =>
      match region_from_range (mkreg (nlen p)) base size with
      | Ok g => (mkobs 0 [], {| pool := p ++ [Some g]; maps := ms |})
      | Err e => (mkobs (code_of e) [], {| pool := p ++ [None]; maps := ms |})
      end
  | OFromArc ids =>
      match get_all p ids with
      | None => (mkobs 8 [], add_map st None)
      | Some L => res_map st (from_arc_regions g_s g_l m L)
      end
  | OFromRanges l =>
      let no c := (mkobs c [], {| pool := p ++ dead (length l); maps := ms ++ [None] |}) in
      match collect_ranges mkreg (nlen p) l with
      | Err e => no (code_of e)
      | Ok L =>
          match from_regions g_s g_l m L with
          | Val (Ok L') => (mkobs 0 L', {| pool := p ++ map Some L; maps := ms ++ [Some L'] |})
          | Val (Err e) => no (code_of e)
          | _ => no 9
          end
      end
  | OInsert mi r =>
      match get ms mi, get p r with
      | Some old, Some g => res_map st (insert_region g_s g_l m old g)
      | _, _ => (mkobs 8 [], add_map st None)
      end
  | ORemove mi base size =>
      match get ms mi with
      | Some old =>
          match remove_region g_s g_l old base size with
          | Val (Ok (L', g)) => (mkobs 0 (g :: L'), add_map st (Some L'))
          | Val (Err e) => (mkobs (code_of e) [], add_map st None)
          | _ => (mkobs 9 [], add_map st None)
          end
      | None => (mkobs 8 [], add_map st None)
      end
  | OFind mi a =>
      match get ms mi with
      | Some old =>
          match find_region g_s g_l m old a with
          | Val (Some g) => (mkobs 0 [g], st)
          | Val None => (mkobs 0 [], st)
          | _ => (mkobs 9 [], st)
          end
      | None => (mkobs 8 [], st)
      end
  | ONewMap => (mkobs 0 [], add_map st (Some []))
  | ONewVia f base size =>
      match region_from_range_opt (mkreg (nlen p)) base size (file_of_tag f size) with
      | Ok g => (mkobs 0 [], {| pool := p ++ [Some g]; maps := ms |})
      | Err e => (mkobs (code_of e) [], {| pool := p ++ [None]; maps := ms |})
      end
  | ODropMap mi =>
      match get ms mi with
      | Some _ => (mkobs 0 [], {| pool := p; maps := drop_slot ms (N.to_nat mi) |})
      | None => (mkobs 8 [], st)
      end
  | ODropRemoved _ => (mkobs 0 [], st)
  | OFromRangesF l =>
      let no c := (mkobs c [], {| pool := p ++ dead (length l); maps := ms ++ [None] |}) in
      match collect_ranges_files mkreg (nlen p) (with_files l) with
      | Err e => no (code_of e)
      | Ok L =>
          match from_regions g_s g_l m L with
          | Val (Ok L') => (mkobs 0 L', {| pool := p ++ map Some L; maps := ms ++ [Some L'] |})
          | Val (Err e) => no (code_of e)
          | _ => no 9
          end
      end
  end.

Fixpoint m_steps (m : mode) (st : st10) (ops : list op10) {struct ops} : list obs10 :=
  match ops with
  | [] => []
  | op :: t => let '(o, st') := m_step m st op in o :: m_steps m st' t
  end.
Definition run_C10 (c : case10) : list obs10 := m_steps (c_mode c) st0 (c_ops c).
(* the state (all handles, all maps ever produced) after a history *)
Fixpoint m_final (m : mode) (st : st10) (ops : list op10) {struct ops} : st10 :=
  match ops with [] => st | op :: t => m_final m (snd (m_step m st op)) t end.

(* ---------- tokens ---------- *)
Fixpoint pairs_of (l : list N) {struct l} : option (list (N * N)) :=
  match l with
  | [] => Some []
  | s :: t => match t with
              | len :: t' => match pairs_of t' with Some r => Some ((s, len) :: r) | None => None end
              | [] => None end
  end.
Fixpoint regs_of (l : list N) {struct l} : option (list reg) :=
  match l with
  | [] => Some []
  | i :: t => match t with
              | s :: len :: t' => match regs_of t' with Some r => Some (mkreg i s len :: r) | None => None end
              | _ => None end
  end.
Fixpoint triples_of (l : list N) {struct l} : option (list (N * N * N)) :=
  match l with
  | [] => Some []
  | s :: t => match t with
              | len :: f :: t' => match triples_of t' with Some r => Some ((s, len, f) :: r) | None => None end
              | _ => None end
  end.
Definition in64 (x : N) : bool := x <? W64.
Definition tag_ok (f : N) : bool := f <? 3.
Definition op_of (t : tok) : option op10 :=
  match t with
  | TL [0; b; s] => if in64 b && in64 s then Some (ONew b s) else None
  | TL (1 :: ids) => Some (OFromArc ids)
  | TL (2 :: l) => match pairs_of l with
                   | Some ps => if forallb (fun sl => in64 (fst sl) && in64 (snd sl)) ps then Some (OFromRanges ps) else None
                   | None => None end
  | TL [3; m; r] => Some (OInsert m r)
  | TL [4; m; b; s] => if in64 b && in64 s then Some (ORemove m b s) else None
  | TL [5; m; a] => if in64 a then Some (OFind m a) else None
  | TL [6] => Some ONewMap
  | TL [10; m] => if m <? 65536 then Some (ODropMap m) else None
  | TL [11; k] => if k <? 65536 then Some (ODropRemoved k) else None
  | TL [7; f; b; s] => if in64 b && in64 s && tag_ok f then Some (ONewVia f b s) else None
  | TL (9 :: l) => match triples_of l with
                   | Some ts => if forallb (fun t => in64 (fst (fst t)) && in64 (snd (fst t)) && tag_ok (snd t)) ts
                                then Some (OFromRangesF ts) else None
                   | None => None end
  | _ => None
  end.
Fixpoint ops_of (l : list tok) {struct l} : option (list op10) :=
  match l with
  | [] => Some []
  | t :: r => match op_of t, ops_of r with Some o, Some os => Some (o :: os) | _, _ => None end
  end.
Definition obs_of (t : tok) : option obs10 :=
  match t with
  | TL (c :: i :: l) => match regs_of l with
                        | Some rs => Some {| o_code := c; o_intact := (i =? 1); o_regs := rs |}
                        | None => None end
  | _ => None
  end.
Fixpoint obss_of (l : list tok) {struct l} : option (list obs10) :=
  match l with
  | [] => Some []
  | t :: r => match obs_of t, obss_of r with Some o, Some os => Some (o :: os) | _, _ => None end
  end.
Definition enc_obs (o : obs10) : tok :=
  TL (o_code o :: (if o_intact o then 1 else 0) :: flat_map (fun g => [g_id g; g_s g; g_l g]) (o_regs o)).

Definition suite_C10 (inp obs : list tok) : verdict :=
  match inp with
  | TN md :: opt =>
      match ops_of opt, obss_of obs with
      | Some ops, Some os =>
          let c := {| c_mode := if md =? 0 then Debug else Release; c_ops := ops |} in
          {| v_model := map enc_obs (run_C10 c); v_ok := ok_C10 c os; v_wellformed := true |}
      | _, _ => malformed
      end
  | _ => malformed
  end.
