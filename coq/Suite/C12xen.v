(* C12xen suite glue: wire operations -> operations of the Xen ownership machine (Impl/OwnerXen.v), observations, tokens.
   case:  mode [code,a,b,c,d,e, ...]     six numbers per operation
     0 Create kind=a (0 unix, 1 foreign, 2 grant in advance, 3 grant on demand) slot=b
     1 Build handles packed in a (5 bits each), count b | 2 Insert map=a region=b
     3 Remove map=a, b = 2*slot + (1 if the size argument is wrong) | 4 Clone a | 5 Snapshot a | 6 Drop a
     7 Access through handle a: sel=b off=c len=d ak=e (0 write, 1 read, 2 ptr_guard, 3 ptr_guard_mut; through a map or
       snapshot: GuestAddress b*0x10000 + c, write / read only; through a region handle b = 0)
   obs:   one list per operation  [st, val, live, gnt, stray, ev*]
     st 1 done / 2 the library returned Err / 0 not possible / 4 panicked / 3 the process died
     val: bit set of the region ids reachable through the returned handle (ids read from region bytes / inode);
          for an access 1 = the bytes moved are right
     live: bit r iff a mapping of region r's backing is in /proc/self/maps; gnt: bit r iff the device holds region r's
     own grant mapping; stray: other grant mappings the device holds; ev: 1 gref count index | 2 index count *)
From VM Require Import Prelude.MachInt Prelude.Outcome Prelude.Tok Impl.Owner Impl.MmapBuild Impl.Xen Impl.OwnerXen
  Spec.C12 Spec.C12xen.
From VM Require Spec.C17 Suite.C17 Suite.C12.

Definition ymask_live (s : ystate) : N := mask_upto (N.to_nat (ynreg s)) (fun r => y_owned (yreg s r) && y_live (yreg s r)).
Definition ymask_gnt (s : ystate) : N := mask_upto (N.to_nat (ynreg s)) (fun r => y_gnt (yreg s r)).

Definition yop_of (o : ywop) : option yop :=
  match o with
  | YW (WCreate k sl) => Some (YCreate k sl)
  | YW (WBuild hs) => Some (YBuild hs)
  | YW (WInsert a b) => Some (YInsert a b)
  | YW (WRemove a base size) => Some (YRemove a base size)
  | YW (WCloneH h) => Some (YCloneH h)
  | YW (WSnap h) => Some (YSnap h)
  | YW (WDropH h) => Some (YDropH h)
  | YW WNop => None
  | YWAccess h sel off len ak => Some (YAccess h sel off len ak) end.

Definition yobs_of (r : yresult) (s' : ystate) (l : list ev) : yobs :=
  let mk st v := {| yo_st := st; yo_val := v; yo_live := ymask_live s'; yo_gnt := ymask_gnt s'; yo_stray := 0;
                    yo_evs := Suite.C17.dev_evs l |} in
  match r with
  | YDone v => mk 1 (mask_of v)
  | YFailed => mk 2 0
  | YImpossible => mk 0 0
  | YPanicked => mk 4 0 end.

Fixpoint yrun_w (m : mode) (s : ystate) (ops : list ywop) {struct ops} : list yobs :=
  match ops with
  | [] => []
  | o :: t =>
      match yop_of o with
      | Some o' => let l := yevs m o' s in let '(s', r) := yexec m o' s in yobs_of r s' l :: yrun_w m s' t
      | None => yobs_of YImpossible s [] :: yrun_w m s t end
  end.
Definition run_C12x (m : mode) (ops : list ywop) : list yobs := yrun_w m yinit ops.

(* ---- tokens *)
(* STRICT: only legitimate operations are well-formed.  Handle numbers below 2^16; offsets / lengths below 2^16;
   writes keep clear of the 16 identification bytes at the start of a region *)
Definition ywop_of (c a b x y z : N) : option ywop :=
  let small := (a <? 65536) && (b <? 65536) in
  let z3 := (x =? 0) && (y =? 0) && (z =? 0) in
  match c with
  | 0 => if (a <? 4) && (b <? 16) && z3 then Some (YW (WCreate a b)) else None
  | 1 => if (b <=? 8) && (a <? 1099511627776) && z3 then Some (YW (WBuild (Suite.C12.unpack5 (N.to_nat b) a))) else None
  | 2 => if small && z3 then Some (YW (WInsert (N.to_nat a) (N.to_nat b))) else None
  | 3 => if small && z3 then Some (YW (WRemove (N.to_nat a) ((b / 2) * 65536) (if b mod 2 =? 0 then 4096 else 8192))) else None
  | 4 => if small && (b =? 0) && z3 then Some (YW (WCloneH (N.to_nat a))) else None
  | 5 => if small && (b =? 0) && z3 then Some (YW (WSnap (N.to_nat a))) else None
  | 6 => if small && (b =? 0) && z3 then Some (YW (WDropH (N.to_nat a))) else None
  | 7 => if (a <? 65536) && (b <? 16) && (x <? 65536) && (y <? 65536) && (z <? 4)
            && ((z =? 1) || (z =? 2) || (16 <=? x))
         then Some (YWAccess (N.to_nat a) b x y z) else None
  | _ => None end.
Fixpoint yops_of (fuel : nat) (l : list N) {struct fuel} : option (list ywop) :=
  match fuel with
  | O => match l with [] => Some [] | _ => None end
  | S f =>
      match l with
      | [] => Some []
      | c :: a :: b :: x :: y :: z :: r =>
          match ywop_of c a b x y z, yops_of f r with
          | Some o, Some t => Some (o :: t)
          | _, _ => None end
      | _ => None end
  end.

Definition dec_yobs (t : tok) : option yobs :=
  match t with
  | TL (st :: v :: lv :: g :: sy :: evs) =>
      match Suite.C17.dec_evs (S (length evs)) evs with
      | Some es => Some {| yo_st := st; yo_val := v; yo_live := lv; yo_gnt := g; yo_stray := sy; yo_evs := es |}
      | None => None end
  | _ => None end.
Definition enc_yobs (b : yobs) : tok :=
  TL (yo_st b :: yo_val b :: yo_live b :: yo_gnt b :: yo_stray b :: flat_map Suite.C17.enc_ev (yo_evs b)).

Definition suite_C12xen (inp obs : list tok) : verdict :=
  match inp with
  | [TN md; TL l] =>
      if (1 <? md) || (1800 <? N.of_nat (length l)) then malformed else
      match yops_of 300 l, Suite.C17.map_opt dec_yobs obs with
      | Some ops, Some ob =>
          (* the machine (and the harness) create at most 100 regions *)
          if (100 <? length (filter (fun o => match o with YW (WCreate _ _) => true | _ => false end) ops))%nat then malformed else
          let m := if md =? 0 then Debug else Release in
          {| v_model := map enc_yobs (run_C12x m ops); v_ok := ok_C12x ops ob; v_wellformed := true |}
      | _, _ => malformed end
  | _ => malformed end.
