(* C07 suite glue: ONE call of a public entry point with guest-chosen numbers per case; the model
   is assembled from the existing transcriptions (Impl/Volatile.v accessor geometry, Impl/VolMem.v
   container byte ops, Impl/Guest.v region + guest-memory defaults and try_access, Impl/Bitmap.v,
   Impl/Address.v, and - through Suite/C14.v - Impl/Io.v + Impl/IoGuest.v stream loops).

   case:  mode tgt [params] op ty a b c [script]           obs:  class (0 success value, 1 error value, 2 panic)
     tgt 0 VolatileSlice over a real buffer   params [pre, n]   slice = arena[pre, pre+n), arena 4096-aligned
         1 VolatileSlice over a FAKE range    params [A, n]     host address A (never dereferenced; geometry only)
         2 GuestRegionMmap                    params [g, n]     guest base g, n bytes (also as MmapRegion)
         3 GuestMemoryMmap                    params [s1,l1,s2,l2,...]  sorted, end <= 2^64-1
         4 MockMem (default methods only)     params [s1,l1,...]        any order, end <= 2^64
         5 AtomicBitmap                       params [byte_size, page_size]
         6 GuestAddress                       params []
         7 AtomicBitmap::new(byte_size, page_size) then enlarge(k)   params [byte_size, page_size, k], byte_size + k < 2^64
         8 ByteValued::as_bytes() of an object   params [pre, oc]  object of type oc (0 u8 1 u16 2 u32 3 u64 4 [u8;3]
           5 [u8;16] 6 u128) living at arena + pre (pre a multiple of its alignment); the VolatileSlice over its bytes
         9 a ByteValued TYPE   params [oc]  oc as for kind 8, 7 = Be32 (endian wrapper); the byte buffer handed to
           from_slice / from_mut_slice is arena[a .. a+b] (the arena is page aligned: a is the misalignment)
     ty  0..3 = u8 u16 u32 u64 (size = align = 2^ty);  ops 65..69 also 4 = [u8;3], 5 = [u8;16] (align 1)
     op  (VolatileMemory / VolatileSlice)
         0 get_slice(a,b)  1 subslice(a,b)  2 offset(a)  3 split_at(a)  4 get_ref<T>(a)
         5 get_array_ref<T>(a,b)  6 get_atomic_ref<T>(a)  7 aligned_as_ref<T>(a)
         8 get_array_ref<T>(a,b) then ref_at(c)   9 compute_end_offset(a,b)   10 compute_offset(a,b)
         11 get_array_ref<T>(a,b) then load(c)    12 ... then store(c, 0)
         (Bytes<usize> / Bytes<MemoryRegionAddress> / Bytes<GuestAddress>; address a, buffer of b bytes)
         13 write  14 read  15 write_slice  16 read_slice  17 write_obj<T>  18 read_obj<T>
         19 store<T>  20 load<T>
         21 read_volatile_from(a, src, count b)  22 read_exact_volatile_from  23 write_volatile_to
         24 write_all_volatile_to     (scripted stream: [script]; the reader holds c bytes)
         (GuestMemoryRegion)
         30 check_address(a)  31 address_in_range(a)  32 checked_offset(a,b)  33 to_region_addr(a)
         34 get_host_address(a)  35 get_slice(a,b)  36 last_addr()  37 as_volatile_slice()
         (GuestMemory)
         40 address_in_range(a)  41 check_address(a)  42 checked_offset(a,b)  43 check_range(a,b)
         44 to_region_addr(a)  45 get_host_address(a)  46 get_slice(a,b)  47 last_addr()
         48 find_region(a)  49 try_access(count b, addr a, callback answering min(len + c, usize::MAX))
         (AtomicBitmap / BaseSlice)
         50 set_addr_range(a,b)  51 reset_addr_range(a,b)  52 set_bit(a)  53 reset_bit(a)
         54 is_bit_set(a)  55 is_addr_set(a)  56 RefSlice(base c).mark_dirty(a,b)
         57 RefSlice(base c).dirty_at(a)  58 RefSlice(base c).slice_at(a).dirty_at(b)
         (Address)
         60 checked_align_up(a, b)
         (stream entry points with the crate's OWN adapters as the stream; [script] = [kind, dlen, pos]:
          kind 0 &[u8] = data[pos..]  1 &mut [u8] = data[pos..]  2 Vec<u8> of dlen bytes  3 Cursor<&[u8]>  4 Cursor<&mut [u8]>
          5 Cursor<Vec<u8>>  6 File of dlen bytes seeked to pos;  a Cursor's position is ANY u64, also past the end)
         61 read_volatile_from(a, stream, count b)   62 read_exact_volatile_from   63 write_volatile_to   64 write_all_volatile_to
         (typed bulk copies; local buffer of c elements)
         65 get_slice(a,b) then copy_to::<T>(buf)   66 get_slice(a,b) then copy_from::<T>(buf)
         67 get_array_ref<T>(a,b) then copy_to(buf)   68 ... then copy_from(buf)
         69 get_array_ref<T>(a,b) then copy_to_volatile_slice(get_slice(c, len - c))
         (bitmap views)
         70 RefSlice(base c).slice_at(a).slice_at(b).mark_dirty(a,b)   71 ... .dirty_at(b)
         72 Some(bitmap).mark_dirty(a,b)  73 Some(bitmap).dirty_at(a)  74 Some(bitmap).slice_at(c).mark_dirty(a,b)
         75 Some(bitmap).slice_at(c).dirty_at(a)  76 None::<AtomicBitmap>: mark_dirty(a,b), dirty_at(a), slice_at(c).mark_dirty(a,b)
         (ByteValued, target kind 9; buffer = b bytes at misalignment a)
         80 T::from_slice(buf)  81 T::from_mut_slice(buf)  82 T::zeroed()  83 zeroed().as_slice()  84 zeroed().as_mut_slice() *)
From VM Require Import Prelude.MachInt Prelude.Outcome Prelude.Tok Prelude.C1314List.
From VM Require Impl.Address Impl.Volatile Impl.VolMem Impl.Guest Impl.Bitmap Impl.Io Impl.IoGuest Impl.IoEnd.
From VM Require Spec.C14 Suite.C14.
From VM Require Import Spec.C07.

Definition HB : N := IoGuest.HBASE.        (* nominal (page-aligned) host address of every real buffer *)

Definition cls_out {A} (f : A -> N) (o : outcome A) : N := match o with Val a => f a | _ => 2 end.
Definition cls0 {A} (_ : A) : N := 0.
Definition cls_opt {A} (o : option A) : N := match o with Some _ => 0 | None => 1 end.
Definition cls_sum {A E} (r : A + E) : N := match r with inl _ => 0 | inr _ => 1 end.
Definition cls_dres {A E} (r : Volatile.result A E) : N :=
  match r with Volatile.Ok _ => 0 | Volatile.Err _ => 1 end.
Definition cls_vres {A} (r : VolMem.result A) : N := match r with VolMem.Ok _ => 0 | VolMem.Err _ => 1 end.
(* result codes of Suite/C14.v: 0 Ok(n) 1 Ok(()) 2..10 errors 11 panic 12 out of fuel *)
Definition cls_rk (rk : N) : N := if rk <=? 1 then 0 else if rk <=? 10 then 1 else 2.

Definition ety_of (ty : N) : Volatile.ety := {| Volatile.e_size := 2 ^ ty; Volatile.e_align := 2 ^ ty |}.
Definition vty_of (ty : N) : VolMem.vty := {| VolMem.ty_size := 2 ^ ty; VolMem.ty_be := false |}.
Definition zeros (n : N) : list N := repeat 0 (N.to_nat n).

(* the object types of target kind 8 (ByteValued::as_bytes): size and alignment *)
Definition osize (oc : N) : N :=
  match oc with 0 => 1 | 1 => 2 | 2 => 4 | 3 => 8 | 4 => 3 | 5 => 16 | 6 => 16 | 7 => 4 | _ => 0 end.
Definition oalign (oc : N) : N :=
  match oc with 1 => 2 | 2 => 4 | 3 => 8 | 6 => 16 | 7 => 4 | _ => 1 end.
Definition oety (oc : N) : Volatile.ety := {| Volatile.e_size := osize oc; Volatile.e_align := oalign oc |}.
(* ByteValued::from_slice / from_mut_slice (bytes.rs:44-87, Impl/Volatile.v bv_from_slice): Some / None, for every buffer
   length and alignment; zeroed / as_slice / as_mut_slice take no guest-chosen input (class 0) *)
Definition bv_cls (oc op a b : N) : N :=
  if (op =? 80) || (op =? 81) then cls_opt (Volatile.bv_from_slice (oety oc) (HB + a) b) else 0.

(* ------------------------------------------------------------------ accessor geometry *)
Definition geom_root (c : case07) : option Volatile.accessor :=
  match q_tgt c, q_par c with
  | 0, [pre; n] => Some (Volatile.ASlice (Volatile.VS (HB + pre) n))
  | 1, [A; n] => Some (Volatile.ASlice (Volatile.VS A n))
  | 2, [_; n] => Some (Volatile.ARegion (Volatile.RG HB n))
  | 8, [pre; oc] => Some (Volatile.ASlice (Volatile.VS (HB + pre) (osize oc)))
  | _, _ => None
  end.
Definition geom_ops (c : case07) : option (list Volatile.dop) :=
  let T := ety_of (q_ty c) in let a := q_a c in let b := q_b c in
  match q_op c with
  | 0 => Some [Volatile.DGetSlice a b]
  | 1 => Some [Volatile.DSubslice a b]
  | 2 => Some [Volatile.DOffset a]
  | 3 => Some [Volatile.DSplitAtLo a]
  | 4 => Some [Volatile.DGetRef T a]
  | 5 => Some [Volatile.DGetArrayRef T a b]
  | 6 => Some [Volatile.DGetAtomicRef T a]
  | 7 => Some [Volatile.DAlignedAsRef T a]
  | 8 | 11 | 12 => Some [Volatile.DGetArrayRef T a b; Volatile.DRefAt (q_c c)]
  | _ => None
  end.
Definition geom_cls (c : case07) : N :=
  match geom_root c, geom_ops c with
  | Some p, Some ops => cls_out cls_dres (Volatile.derive_chain (q_mode c) p ops)
  | _, _ => 2
  end.

(* ------------------------------------------------------------------ Bytes<usize> on a container *)
Definition heap0 (pre n : N) : VolMem.heap := zeros (pre + n).
Definition data_cls (m : mode) (pre n op ty a b : N) : N :=
  let h := heap0 pre n in
  let s := {| VolMem.vs_addr := pre; VolMem.vs_size := n |} in
  let t := vty_of ty in
  match op with
  | 13 => cls_vres (snd (VolMem.vs_write HB h s (zeros b) a))
  | 14 => cls_vres (snd (VolMem.vs_read HB h s (zeros b) a))
  | 15 => cls_vres (snd (VolMem.vs_write_slice HB h s (zeros b) a))
  | 16 => cls_vres (snd (VolMem.vs_read_slice HB h s (zeros b) a))
  | 17 => cls_vres (snd (VolMem.vs_write_obj HB h s t 0 a))
  | 18 => cls_vres (VolMem.vs_read_obj HB h s t a)
  | 19 => cls_out (fun x => cls_vres (snd x)) (VolMem.vs_store m HB h s t 0 a)
  | 20 => cls_out cls_vres (VolMem.vs_load m HB h s t a)
  | _ => 2
  end.

(* ------------------------------------------------------------------ stream transfers (Suite/C14.v) *)
Definition sop_of (op : N) : option Spec.C14.op14 :=
  match op with
  | 21 => Some Spec.C14.RdUpTo | 22 => Some Spec.C14.RdExact
  | 23 => Some Spec.C14.WrUpTo | 24 => Some Spec.C14.WrAll | _ => None end.
Definition starget_of (c : case07) : option (Spec.C14.target * N) :=     (* target, host bytes *)
  match q_tgt c, q_par c with
  | 0, [pre; n] => Some (Spec.C14.TSlice pre n, pre + n)
  | 2, [g; n] => Some (Spec.C14.TRegion {| IoGuest.g_start := g; IoGuest.g_len := n; IoGuest.g_moff := 0 |}, n)
  | 3, par => match Suite.C14.parse_regions par 0 with
              | Some L => Some (Spec.C14.TGuest L, Suite.C14.total_len L)
              | None => None end
  | _, _ => None
  end.
Definition case14_of (c : case07) : option Spec.C14.case14 :=
  match sop_of (q_op c), starget_of c, Suite.C14.parse_script (q_x c) with
  | Some o, Some (t, ml), Some sc =>
      Some {| Spec.C14.c_mode := q_mode c; Spec.C14.c_target := t; Spec.C14.c_mem := zeros ml;
              Spec.C14.c_addr := q_a c; Spec.C14.c_count := q_b c; Spec.C14.c_op := o;
              Spec.C14.c_script := sc; Spec.C14.c_src := zeros (q_c c) |}
  | _, _, _ => None
  end.
Definition stream_cls (c : case07) : N :=
  match case14_of c with
  | Some c14 => cls_out (fun x => cls_rk (fst (fst (snd x)))) (Suite.C14.exec14 c14)
  | None => 2
  end.

(* ------------------------------------------------------------------ typed bulk copies (Impl/VolMem.v)
   element types: 0..3 = u8..u64, 4 = [u8;3], 5 = [u8;16]; the local buffer holds c elements *)
Definition tsize (ty : N) : N := if ty =? 4 then 3 else if ty =? 5 then 16 else 2 ^ ty.
Definition vty2 (ty : N) : VolMem.vty := {| VolMem.ty_size := tsize ty; VolMem.ty_be := false |}.
Definition copy_cls (m : mode) (pre n op ty a b c : N) : N :=
  let h := heap0 pre n in
  let s := {| VolMem.vs_addr := pre; VolMem.vs_size := n |} in
  let t := vty2 ty in
  let arr_then (k : VolMem.varr -> N) : N :=
    match VolMem.vs_get_array_ref s (tsize ty) a b with
    | Val (VolMem.Ok arr) => k arr
    | Val (VolMem.Err _) => 1
    | _ => 2 end in
  match op with
  | 65 => match VolMem.vs_get_slice s a b with
          | VolMem.Ok sl => cls_out cls0 (VolMem.vs_copy_to m h sl t (zeros c))
          | VolMem.Err _ => 1 end
  | 66 => match VolMem.vs_get_slice s a b with
          | VolMem.Ok sl => cls_out cls0 (VolMem.vs_copy_from m h sl t (zeros c))
          | VolMem.Err _ => 1 end
  | 67 => arr_then (fun arr => cls_out cls0 (VolMem.va_copy_to m h arr t (zeros c)))
  | 68 => arr_then (fun arr => cls_out cls0 (VolMem.va_copy_from m h arr t (zeros c)))
  | 69 => arr_then (fun arr =>
            match VolMem.vs_get_slice s c (n - c) with                   (* get_slice(c, len.saturating_sub(c)) *)
            | VolMem.Ok dsl => cls_out cls0 (VolMem.va_copy_to_volatile_slice m h arr (tsize ty) dsl)
            | VolMem.Err _ => 1 end)
  | _ => 2
  end.

(* ------------------------------------------------------------------ stream transfers with the crate's own endpoints
   (Impl/IoEnd.v over the adapters of Impl/Io.v); [q_x] = [kind, dlen, pos] *)
Definition rk_of (k : N) : option IoEnd.rkind :=
  if k =? 0 then Some IoEnd.RSlice
  else if (3 <=? k) && (k <=? 5) then Some IoEnd.RCursor
  else if k =? 6 then Some IoEnd.RFile else None.
Definition wk_of (k : N) : option IoEnd.wkind :=
  if k =? 1 then Some IoEnd.WSlice else if k =? 2 then Some IoEnd.WVec
  else if k =? 4 then Some IoEnd.WCursor else if k =? 6 then Some IoEnd.WFile else None.
Definition oxfer_of (op k : N) : option IoEnd.oxfer :=
  if op =? 61 then option_map IoEnd.XRdUpTo (rk_of k)
  else if op =? 62 then option_map IoEnd.XRdExact (rk_of k)
  else if op =? 63 then option_map IoEnd.XWrUpTo (wk_of k)
  else if op =? 64 then option_map IoEnd.XWrAll (wk_of k)
  else None.
Definition otarget_of (c : case07) : option (IoEnd.otarget * N) :=     (* target, host bytes *)
  match q_tgt c, q_par c with
  | 0, [pre; n] => Some (IoEnd.OSlice pre n, pre + n)
  | 2, [g; n] => Some (IoEnd.ORegion {| IoGuest.g_start := g; IoGuest.g_len := n; IoGuest.g_moff := 0 |}, n)
  | 3, par => match Suite.C14.parse_regions par 0 with
              | Some L => Some (IoEnd.OGuest L, Suite.C14.total_len L)
              | None => None end
  | _, _ => None
  end.
Definition own_fuel (t : IoEnd.otarget) : nat := S (S (N.to_nat (IoEnd.tbytes t))).
Definition own_cls (c : case07) : N :=
  match otarget_of c, q_x c with
  | Some (t, ml), [k; dlen; pos] =>
      match oxfer_of (q_op c) k with
      | Some x => cls_out snd (IoEnd.own_exec (q_mode c) (own_fuel t) t x
                                 {| Io.s_data := zeros dlen; Io.s_pos := pos; Io.s_out := [] |} (zeros ml) (q_a c) (q_b c))
      | None => 2 end
  | _, _ => 2
  end.
(* legitimate endpoints: a slice is data[pos..] (pos <= dlen), a File is seeked to at most one byte past its
   end, a Vec<u8> and the guest memory fit usize together; a Cursor sits ANYWHERE in [0, 2^64) *)
Definition own_wf (c : case07) : bool :=
  match otarget_of c, q_x c with
  | Some (t, _), [k; dlen; pos] =>
      match oxfer_of (q_op c) k with
      | Some _ =>
          (dlen <? W64) && (pos <? W64)
          && (if (k =? 0) || (k =? 1) then pos <=? dlen else true)
          && (if k =? 6 then pos <=? dlen + 1 else true)
          && (if k =? 2 then dlen + IoEnd.tbytes t <? W64 else true)
      | None => false end
  | _, _ => false
  end.

(* ------------------------------------------------------------------ GuestMemoryRegion *)
Definition region_cls (m : mode) (g n op a b : N) : N :=
  match op with
  | 30 => cls_opt (Guest.r_check_address n a)
  | 31 => cls0 (Guest.r_address_in_range n a)
  | 32 => cls_opt (Guest.r_checked_offset n a b)
  | 33 => cls_opt (Guest.r_to_region_addr g n a)
  | 34 => cls_sum (Guest.reg_get_host_address n a)
  | 35 => cls_sum (Guest.reg_get_slice n a b)
  | 36 => cls_out cls0 (Guest.r_last_addr m g n)
  | 37 => cls_out cls_dres (Volatile.gr_as_volatile_slice m (Volatile.GR (Volatile.RG HB n) g))
  | _ => 2
  end.

(* ------------------------------------------------------------------ GuestMemory *)
Fixpoint layout_of (par : list N) {struct par} : option Guest.layout :=
  match par with
  | [] => Some []
  | s :: l :: t => match layout_of t with Some L => Some ((s, l) :: L) | None => None end
  | _ => None
  end.
Definition mem_of (L : Guest.layout) : Guest.mem :=
  map (fun p => {| Guest.rstart := fst p; Guest.rbytes := zeros (snd p) |}) L.
(* the callback of op 49: claims min(len + k, usize::MAX) bytes, i.e. over-reports by k *)
Definition over_cb (k : N) : unit -> N -> N -> N -> nat -> outcome (unit * Guest.res N) :=
  fun s _ len _ _ => Val (s, inl (N.min (len + k) (W64 - 1))).
Definition guest_cls (m : mode) (L : Guest.layout) (op ty a b c : N) : N :=
  let M := mem_of L in let sz := 2 ^ ty in
  let fl := Guest.find_lin in
  match op with
  | 13 => cls_out (fun x => cls_sum (snd x)) (Guest.gm_write fl m M (zeros b) a)
  | 14 => cls_out (fun x => cls_sum (snd x)) (Guest.gm_read fl m M (zeros b) a)
  | 15 => cls_out (fun x => cls_sum (snd x)) (Guest.gm_write_slice fl m M (zeros b) a)
  | 16 => cls_out (fun x => cls_sum (snd x)) (Guest.gm_read_slice fl m M (zeros b) a)
  | 17 => cls_out (fun x => cls_sum (snd x)) (Guest.gm_write_obj fl m M (zeros sz) a)
  | 18 => cls_out cls_sum (Guest.gm_read_obj fl m M sz a)
  | 19 => cls_out (fun x => cls_sum (snd x)) (Guest.gm_store fl M (zeros sz) a)
  | 20 => cls_out cls_sum (Guest.gm_load fl M sz a)
  | 40 => cls0 (Guest.gm_address_in_range fl L a)
  | 41 => cls_opt (Guest.gm_check_address fl L a)
  | 42 => cls_opt (Guest.gm_checked_offset fl L a b)
  | 43 => cls_out cls0 (Guest.gm_check_range fl m L a b)
  | 44 => cls_out cls_opt (Guest.gm_to_region_addr fl L a)
  | 45 => cls_out cls_sum (Guest.gm_get_host_address fl L a)
  | 46 => cls_out cls_sum (Guest.gm_get_slice fl L a b)
  | 47 => cls_out cls0 (Guest.gm_last_addr m L)
  | 48 => cls_opt (fl L a)
  | 49 => cls_out (fun x => cls_sum (snd x))
                  (Guest.try_access fl m L b (over_cb c) (S (length L)) tt a 0)
  | _ => 2
  end.

(* ------------------------------------------------------------------ bitmaps *)
Definition bitmap_ops_cls (bm : Bitmap.bitmap) (op a b c : N) : N :=
  match op with
  | 50 => cls_out cls0 (Bitmap.bm_set_addr_range_o bm a b)
  | 51 => cls_out cls0 (Bitmap.bm_reset_addr_range_o bm a b)
  | 52 => cls_out cls0 (Bitmap.bm_set_bit_o bm a)
  | 53 => cls_out cls0 (Bitmap.bm_reset_bit_o bm a)
  | 54 => cls_out cls0 (Bitmap.bm_is_bit_set_o bm a)
  | 55 => cls_out cls0 (Bitmap.bm_is_addr_set_o bm a)
  | 56 => cls_out cls0 (Bitmap.bs_mark_dirty_o bm (Bitmap.bs_new c) a b)
  | 57 => cls_out cls0 (Bitmap.bs_dirty_at_o bm (Bitmap.bs_new c) a)
  | 58 => cls_out cls0 (Bitmap.bs_dirty_at_o bm (Bitmap.bs_slice_at (Bitmap.bs_new c) a) b)
  (* nested BaseSlices: the offsets add up with wrapping_add (slice.rs:66-71) *)
  | 70 => cls_out cls0 (Bitmap.view_mark_o Bitmap.RDirect [c; a; b] bm a b)
  | 71 => cls_out cls0 (Bitmap.view_dirty_at_o Bitmap.RDirect [c; a; b] bm b)
  (* impl Bitmap for Option<B> (bitmap/mod.rs:89-109) *)
  | 72 => cls_out cls0 (Bitmap.view_mark_o Bitmap.RSome [] bm a b)
  | 73 => cls_out cls0 (Bitmap.view_dirty_at_o Bitmap.RSome [] bm a)
  | 74 => cls_out cls0 (Bitmap.view_mark_o Bitmap.RSome [c] bm a b)
  | 75 => cls_out cls0 (Bitmap.view_dirty_at_o Bitmap.RSome [c] bm a)
  | 76 => cls_out cls0 (Bitmap.view_mark_o Bitmap.RNone [c] bm a b)
  | _ => 2
  end.
Definition bitmap_cls (bs ps op a b c : N) : N := bitmap_ops_cls (Bitmap.bm_new bs ps) op a b c.
(* the bitmap of target kind 7: created, then enlarged by k bytes (atomic_bitmap.rs:46-51), then ONE operation *)
Definition bitmap_enl_cls (m : mode) (bs ps k op a b c : N) : N :=
  match Bitmap.bm_enlarge_o m (Bitmap.bm_new bs ps) k with
  | Val bm => bitmap_ops_cls bm op a b c
  | _ => 2
  end.

(* ------------------------------------------------------------------ the model's observation *)
Definition run_C07 (c : case07) : N :=
  let m := q_mode c in let op := q_op c in let a := q_a c in let b := q_b c in
  if (21 <=? op) && (op <=? 24) then stream_cls c else
  if (61 <=? op) && (op <=? 64) then own_cls c else
  match q_tgt c, q_par c with
  | 0, [pre; n] =>
      if op =? 9 then cls_dres (Volatile.compute_end_offset n a b)
      else if op =? 10 then cls_dres (Volatile.compute_offset a b)
      else if op <=? 12 then geom_cls c
      else if op <=? 20 then data_cls m pre n op (q_ty c) a b
      else copy_cls m pre n op (q_ty c) a b (q_c c)
  | 8, [pre; oc] =>
      let n := osize oc in
      if op =? 9 then cls_dres (Volatile.compute_end_offset n a b)
      else if op =? 10 then cls_dres (Volatile.compute_offset a b)
      else if op <=? 12 then geom_cls c
      else if op <=? 20 then data_cls m pre n op (q_ty c) a b
      else copy_cls m pre n op (q_ty c) a b (q_c c)
  | 1, [_; n] =>
      if op =? 9 then cls_dres (Volatile.compute_end_offset n a b)
      else if op =? 10 then cls_dres (Volatile.compute_offset a b)
      else geom_cls c
  | 2, [g; n] =>
      if op =? 9 then cls_dres (Volatile.compute_end_offset n a b)
      else if op <=? 12 then geom_cls c
      else if op <=? 20 then data_cls m 0 n op (q_ty c) a b
      else if (65 <=? op) && (op <=? 69) then copy_cls m 0 n op (q_ty c) a b (q_c c)
      else region_cls m g n op a b
  | 3, par | 4, par =>
      match layout_of par with
      | Some L => guest_cls m L op (q_ty c) a b (q_c c)
      | None => 2 end
  | 5, [bs; ps] => bitmap_cls bs ps op a b (q_c c)
  | 7, [bs; ps; k] => bitmap_enl_cls m bs ps k op a b (q_c c)
  | 6, [] => cls_out cls_opt (Address.a_checked_align_up m a b)
  | 9, [oc] => bv_cls oc op a b
  | _, _ => 2
  end.

(* ------------------------------------------------------------------ well-formed cases
   wf07: what makes a case a legitimate case of the suite (no bound on sizes: the theorems are
   about wf07).  small07: the additional size bounds of cases that are actually executed. *)
Definition op_ok (tgt op : N) : bool :=
  match tgt with
  | 0 => (op <=? 24) || ((61 <=? op) && (op <=? 69))
  | 1 => op <=? 10
  | 2 => (op =? 0) || ((4 <=? op) && (op <=? 9)) || ((11 <=? op) && (op <=? 24)) || ((30 <=? op) && (op <=? 37))
         || ((61 <=? op) && (op <=? 69))
  | 3 => ((13 <=? op) && (op <=? 24)) || ((40 <=? op) && (op <=? 49)) || ((61 <=? op) && (op <=? 64))
  | 4 => ((13 <=? op) && (op <=? 20)) || ((40 <=? op) && (op <=? 49))
  | 5 => ((50 <=? op) && (op <=? 58)) || ((70 <=? op) && (op <=? 76))
  | 6 => op =? 60
  | 7 => ((50 <=? op) && (op <=? 58)) || ((70 <=? op) && (op <=? 76))
  | 8 => (op <=? 20) || ((65 <=? op) && (op <=? 69))
  | 9 => (80 <=? op) && (op <=? 84)
  | _ => false
  end.
Definition reg_okb (top : N) (p : N * N) : bool := (0 <? snd p) && (snd p <? W64) && (fst p + snd p <=? top).
Definition disjb (p q : N * N) : bool := (fst p + snd p <=? fst q) || (fst q + snd q <=? fst p).
Fixpoint wf_layb (top : N) (L : Guest.layout) {struct L} : bool :=
  match L with [] => true | p :: t => reg_okb top p && forallb (disjb p) t && wf_layb top t end.
Fixpoint sortedb (L : Guest.layout) {struct L} : bool :=
  match L with
  | p :: ((q :: _) as t) => (fst p + snd p <=? fst q) && sortedb t
  | _ => true
  end.
Definition wf_tgt (c : case07) : bool :=
  match q_tgt c, q_par c with
  | 0, [pre; n] => (pre <=? 4096) && (HB + pre + n <=? ISZ_MAX)
  | 1, [A; n] => (0 <? A) && (A + n <? W64) && (n <=? ISZ_MAX)
  | 2, [g; n] => (0 <? n) && (g + n <? W64) && (HB + n <=? ISZ_MAX)
  | 3, par => match layout_of par with
              | Some L => negb (length L =? 0)%nat && wf_layb (W64 - 1) L && sortedb L
              | None => false end
  | 4, par => match layout_of par with
              | Some L => negb (length L =? 0)%nat && wf_layb W64 L
              | None => false end
  | 5, [bs; ps] => (0 <? ps) && (bs <? W64)
  | 7, [bs; ps; k] => (0 <? ps) && (bs + k <? W64)       (* the sum fits usize: enlarge's `+=` does not overflow *)
  | 6, [] => true
  | 8, [pre; oc] => (pre <=? 4080) && (oc <=? 6) && (pre mod oalign oc =? 0) && (HB + pre + osize oc <=? ISZ_MAX)
  | 9, [oc] => (oc <=? 7) && (q_a c + q_b c <=? 4096)
  | _, _ => false
  end.
Definition wf07 (c : case07) : bool :=
  op_ok (q_tgt c) (q_op c) && wf_tgt c && (q_ty c <=? (if (65 <=? q_op c) && (q_op c <=? 69) then 5 else 3))
  && (q_a c <? W64) && (q_b c <? W64) && (q_c c <? W64)
  && (if (13 <=? q_op c) && (q_op c <=? 16) then q_b c <=? ISZ_MAX else true)
  && (if (21 <=? q_op c) && (q_op c <=? 24)
      then match case14_of c with Some c14 => Suite.C14.wf14 c14 | None => false end
      else if (61 <=? q_op c) && (q_op c <=? 64) then own_wf c
      else match q_x c with [] => true | _ => false end).

Definition SMALL : N := 4096.
Definition small_par (c : case07) : bool :=
  match q_tgt c, q_par c with
  | 0, [pre; n] => (pre <=? SMALL) && (n <=? SMALL)
  | 2, [_; n] => n <=? SMALL
  | 3, par | 4, par =>
      (length par <=? 16)%nat &&
      match layout_of par with Some L => forallb (fun p => snd p <=? SMALL) L | None => false end
  | 5, [bs; ps] => (0 <? ps) && (div_ceil bs ps <=? 4096)
  | 7, [bs; ps; k] => (0 <? ps) && (bs <? W64) && (k <? W64) && (div_ceil bs ps <=? 4096) && (div_ceil (bs + k) ps <=? 4096)
  | 8, [pre; _] => pre <=? SMALL
  | _, _ => true
  end.
Definition small07 (c : case07) : bool :=
  small_par c && (length (q_x c) <=? 64)%nat
  && (if (13 <=? q_op c) && (q_op c <=? 16) then q_b c <=? SMALL else true)
  && (if (21 <=? q_op c) && (q_op c <=? 24) then q_c c <=? SMALL else true)
  && (if (61 <=? q_op c) && (q_op c <=? 64)
      then match q_x c with [k; dlen; pos] => (dlen <=? SMALL) && ((3 <=? k) && (k <=? 5) || (pos <=? SMALL + 1)) | _ => false end
      else true)
  && (if (65 <=? q_op c) && (q_op c <=? 68) then q_c c <=? SMALL else true).

(* ------------------------------------------------------------------ tokens *)
Definition suite_C07 (inp obs : list tok) : verdict :=
  match inp, obs with
  | [TN md; TN tgt; TL par; TN op; TN ty; TN a; TN b; TN cc; TL x], [TN o] =>
      if (md <=? 1) && (length par <=? 64)%nat then
        let c := {| q_mode := if md =? 0 then Debug else Release; q_tgt := tgt; q_par := par;
                    q_op := op; q_ty := ty; q_a := a; q_b := b; q_c := cc; q_x := x |} in
        (* size bounds first: nothing below converts an unchecked number to nat *)
        if small07 c then
          if wf07 c then {| v_model := [TN (run_C07 c)]; v_ok := ok_C07 c o; v_wellformed := true |}
          else malformed
        else malformed
      else malformed
  | _, _ => malformed
  end.
