(* Suite C13big: the stream adapters at LARGE sizes (4095 ... 3*2^20 bytes), at the level of lengths.
   case:  mode kind clen pos op blen [script] cpat bpat
            kind 0 &[u8] (array of clen bytes, slice starts at pos)   2 Vec<u8> (clen initial bytes)
                 3 Cursor<&[u8]>  8 Cursor<Vec<u8>> (position pos)      5 File (offset pos)   20 BorrowedFd of a File
                 6 UnixStream  7 OwnedFd of a UnixStream  16 TcpStream (127.0.0.1)  18 Stdout (fd 1 onto a UnixStream):
                 byte queues holding clen bytes, the peer has shut its sending side down; socket buffers are enlarged so
                 that ONE read(2) / write(2) can move the whole buffer
            op 0 read 1 read_exact 2 write 3 write_all        blen = buffer length
            script (descriptors only): 0 Full 1 Zero 2 Eintr 3..8 hard error 16+k Short k
            cpat / bpat: pattern ids of the stream's / the buffer's bytes (byte i = (31 i + 7 + 13 p) mod 251); the model
            does not depend on them
   obs:   adapter rk n moved d1 d2 margins rest calls apos slen   std twin rk n moved d1 apos slen   (Spec/C13big.v)
   The model is the transcription of src/io.rs at the level of lengths: the adapters move min(buffer, available)
   bytes, retry_eintr!, the provided exact loops, the specialised exact forms; Proofs/C13big.v proves it equal to the
   byte-list model of Impl/Io.v (the one C13 / C13fd run) for all sizes. *)
From VM Require Import Prelude.MachInt Prelude.Outcome Prelude.Tok Prelude.C1314List Impl.Io Impl.Std Spec.C13big.

(* descriptor state: stream, rest of the script, calls received *)
Record bfd := { h_st : bst; h_script : list fbeh; h_calls : N }.
Definition h_next (f : bfd) (st : bst) : bfd := {| h_st := st; h_script := tl (h_script f); h_calls := h_calls f + 1 |}.

(* one read_volatile / write_volatile of the adapter of kind k on a buffer of len bytes *)
Definition b_call (md : mode) (k : bkind) (rd : bool) (f : bfd) (len : N) : outcome (bfd * res N) :=
  let st := h_st f in
  match k with
  | BSliceR =>                                                           (* io.rs:268-289 *)
      let total := N.min len (b_avail k st) in
      Val (h_next f (b_took k st total), Ok total)
  | BCurR =>                                                             (* io.rs:344-353 *)
      let n := N.min len (b_avail k st) in
      let* p := padd md 351 (b_pos st) n in
      Val (h_next f {| b_len := b_len st; b_pos := p; b_out := b_out st |}, Ok n)
  | BVecW =>                                                             (* io.rs:309-335 *)
      let* l := padd md 332 (b_len st) len in
      Val (h_next f {| b_len := l; b_pos := b_pos st; b_out := b_out st |}, Ok len)
  | BFile | BQueue =>                                                    (* io.rs:177-227: one libc::read / libc::write *)
      match b_sys (h_script f) len (b_cap k rd st len) with
      | inl n => Val (h_next f (b_move k rd st n), Ok n)
      | inr e => Val (h_next f st, Err (VIo e))
      end
  end.

(* io.rs:17-31 retry_eintr! *)
Fixpoint b_retry (fuel : nat) (call : bfd -> N -> outcome (bfd * res N)) (f : bfd) (len : N) {struct fuel}
  : outcome (bfd * res N) :=
  match fuel with
  | O => OutOfFuel
  | S fl =>
      let* x := call f len in
      match snd x with
      | Err (VIo EInterrupted) => b_retry fl call (fst x) len           (* :24 continue *)
      | _ => Val x                                                       (* :28 break r *)
      end
  end.
(* io.rs:64-75 / :110-121: while !partial_buf.is_empty() { match retry_eintr!(call(partial_buf)) { Ok(0) => zero_err,
   Ok(n) => partial_buf = partial_buf.offset(n)?, Err(e) => return Err(e) } };  [rem] = partial_buf.len() *)
Fixpoint b_exact_loop (zerr : ioerr) (fi fuel : nat) (call : bfd -> N -> outcome (bfd * res N)) (f : bfd) (rem : N)
  {struct fuel} : outcome (bfd * res unit) :=
  match fuel with
  | O => OutOfFuel
  | S fl =>
      if rem =? 0 then Val (f, Ok tt)
      else
        let* x := b_retry fi call f rem in
        match snd x with
        | Ok n => if n =? 0 then Val (fst x, Err (VIo zerr))
                  else if rem <? n then Val (fst x, Err VOutOfBounds)    (* offset(n) beyond the buffer *)
                  else b_exact_loop zerr fi fl call (fst x) (rem - n)
        | Err e => Val (fst x, Err e)
        end
  end.

Definition b_exact (md : mode) (k : bkind) (rd : bool) (f : bfd) (len : N) : outcome (bfd * res unit) :=
  let st := h_st f in
  let fl := b_fuel (h_script f) in
  match k with
  | BSliceR =>                                                           (* io.rs:291-304 *)
      if b_avail k st <? len then Val (f, Err (VIo EUnexpectedEof))
      else let* x := b_call md k true f len in Val (fst x, match snd x with Ok _ => Ok tt | Err e => Err e end)
  | BCurR =>                                                             (* io.rs:355-365 *)
      if b_avail k st <? len then Val (f, Err (VIo EUnexpectedEof))
      else let* p := padd md 363 (b_pos st) len in
           Val (h_next f {| b_len := b_len st; b_pos := p; b_out := b_out st |}, Ok tt)
  | _ => b_exact_loop (if rd then EUnexpectedEof else EWriteZero) fl fl (b_call md k rd) f len   (* provided loops *)
  end.

Definition b_vm_step (c : case13big) : outcome (bfd * (N * N)) :=
  let f := {| h_st := g_init c; h_script := g_script c; h_calls := 0 |} in
  let rd := b_is_read (g_op c) in
  match g_op c with
  | BRead | BWrite => let* x := b_call (g_mode c) (g_kind c) rd f (g_blen c) in Val (fst x, rc_n (snd x))
  | BReadExact | BWriteAll => let* x := b_exact (g_mode c) (g_kind c) rd f (g_blen c) in Val (fst x, rc_unit (snd x))
  end.

Definition b_moved (k : bkind) (rd : bool) (st0 st : bst) : N :=
  if rd then match k with BQueue => b_len st0 - b_len st | _ => b_pos st - b_pos st0 end
  else match k with BQueue => b_out st - b_out st0 | BVecW => b_len st - b_len st0 | _ => b_pos st - b_pos st0 end.

Definition run_C13big (c : case13big) : obs13big :=
  let k := g_kind c in
  let rd := b_is_read (g_op c) in
  let '(st, rc, calls) :=
    match b_vm_step c with
    | Val (f, rc) => (h_st f, rc, if b_fd k then h_calls f else 0)
    | _ => (g_init c, (8, 0), 0)
    end in
  let moved := b_moved k rd (g_init c) st in
  let '(urc, umoved, ust) :=
    match b_std_step k (g_init c) (g_script c) (g_op c) (g_blen c) with
    | Val (Some st', rc', m') => (rc', m', st')
    | Val (None, rc', _) => (rc', 0, {| b_len := 0; b_pos := 0; b_out := 0 |})
    | _ => ((8, 0), 0, {| b_len := 0; b_pos := 0; b_out := 0 |})
    end in
  {| v_rc := rc; v_moved := moved; v_d1 := moved; v_d2 := g_blen c; v_margins := true; v_rest := true; v_calls := calls;
     v_apos := show_pos k st; v_slen := b_len st;
     u_rc := urc; u_moved := umoved; u_d1 := umoved; u_apos := show_pos k ust; u_slen := b_len ust |}.

(* ------------------------------------------------------------------ tokens *)
Definition bkind_of (n : N) : option bkind :=
  match n with
  | 0 => Some BSliceR | 2 => Some BVecW | 3 | 8 => Some BCurR | 5 | 20 => Some BFile
  | 6 | 7 | 16 | 18 => Some BQueue | _ => None
  end.
Definition bop_of (n : N) : option bop :=
  match n with 0 => Some BRead | 1 => Some BReadExact | 2 => Some BWrite | 3 => Some BWriteAll | _ => None end.
Definition fbeh_big (n : N) : option fbeh :=
  match n with
  | 0 => Some FFull | 1 => Some FZero | 2 => Some FEintr
  | 3 | 4 | 5 | 6 | 7 | 8 => Some FErr
  | _ => if (16 <=? n) && (n <? 16 + 67108864) then Some (FShort (n - 16)) else None
  end.
Fixpoint parse_bscript (l : list N) {struct l} : option (list fbeh) :=
  match l with
  | [] => Some []
  | x :: t => match fbeh_big x, parse_bscript t with Some b, Some r => Some (b :: r) | _, _ => None end
  end.

(* well-formed: sizes up to 64 MiB, a slice starts inside its array, file offsets inside 64 MiB, queues and vectors
   have no position, cursor positions are u64; scripts only on descriptors, at most 16 elements; Stdout (18) only
   writes; the twin state of a failed single call is not reported *)
Definition MAXB : N := 67108864.
Definition wf13big (kd : N) (c : case13big) : bool :=
  let st := g_init c in
  b_allowed (g_kind c) (g_op c) && (b_len st <=? MAXB) && (g_blen c <=? MAXB) && (b_out st =? 0)
  && match g_kind c with
     | BSliceR => b_pos st <=? b_len st
     | BFile => b_pos st <=? MAXB
     | BCurR => b_pos st <? W64
     | BVecW | BQueue => b_pos st =? 0
     end
  && (b_fd (g_kind c) || match g_script c with [] => true | _ => false end)
  && (N.of_nat (length (g_script c)) <=? 16)
  && (negb (kd =? 18) || negb (b_is_read (g_op c))).

Definition enc13big (o : obs13big) : list tok :=
  [TN (fst (v_rc o)); TN (snd (v_rc o)); TN (v_moved o); TN (v_d1 o); TN (v_d2 o); bool_tok (v_margins o);
   bool_tok (v_rest o); TN (v_calls o); TN (v_apos o); TN (v_slen o);
   TN (fst (u_rc o)); TN (snd (u_rc o)); TN (u_moved o); TN (u_d1 o); TN (u_apos o); TN (u_slen o)].

Definition suite_C13big (inp obs : list tok) : verdict :=
  match inp, obs with
  | [TN md; TN kd; TN clen; TN pos; TN op; TN blen; TL script; TN cpat; TN bpat],
    [TN rk; TN n; TN moved; TN d1; TN d2; TN mg; TN rest; TN calls; TN apos; TN slen;
     TN trk; TN tn; TN tmoved; TN td1; TN tapos; TN tslen] =>
      match bkind_of kd, bop_of op, parse_bscript script with
      | Some k, Some o, Some sc =>
          let c := {| g_mode := if md =? 0 then Debug else Release; g_kind := k;
                      g_init := {| b_len := clen; b_pos := pos; b_out := 0 |}; g_op := o; g_blen := blen;
                      g_script := sc |} in
          if wf13big kd c && (cpat <? 251) && (bpat <? 251) then
            {| v_model := enc13big (run_C13big c);
               v_ok := ok_C13big c {| v_rc := (rk, n); v_moved := moved; v_d1 := d1; v_d2 := d2;
                                      v_margins := negb (mg =? 0); v_rest := negb (rest =? 0); v_calls := calls;
                                      v_apos := apos; v_slen := slen;
                                      u_rc := (trk, tn); u_moved := tmoved; u_d1 := td1; u_apos := tapos; u_slen := tslen |};
               v_wellformed := true |}
          else malformed
      | _, _, _ => malformed
      end
  | _, _ => malformed
  end.
