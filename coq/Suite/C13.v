(* C13 suite glue: run a history on the adapter model (Impl/Io.v) and on the std oracle (Impl/Std.v),
   parse trace lines, judge the real observation.
   case:  mode kind [content] pos (opcode [arg])*
            kind 0 &[u8]  1 &mut [u8]  2 Vec<u8>  3 Cursor<&[u8]>  4 Cursor<&mut [u8]>  5 File
                 6 UnixStream  7 pipe (OwnedFd)  8 Cursor<Vec<u8>>
                 9..12 message queue (non-blocking AF_UNIX socketpair, one message per read(2)):
                       9 SOCK_SEQPACKET as OwnedFd   10 SOCK_DGRAM as UnixStream
                       11 SOCK_SEQPACKET as File, 12 SOCK_DGRAM as BorrowedFd, both driven through
                       VolatileSlice::{read_volatile_from, read_exact_volatile_from, write_volatile_to,
                       write_all_volatile_to}(0, fd, len) (volatile_memory.rs:799-831: offset(0) /
                       get_slice(0, len) of the buffer's own slice, then the same ReadVolatile /
                       WriteVolatile call - the same model step).
                       [content] / [out] of a message queue: every message followed by the marker 256.
            opcode 0 read [prefill]  1 read_exact [prefill]  2 write [data]  3 write_all [data]  4 set_position [p]
   obs:   per operation 13 tokens: adapter  rk n [buffer after] margins_ok [stream data] pos [out]
                                   std twin rk n [buffer after] [stream data] pos [out]
            rk 0 Ok(n) 1 Ok(()) 2 UnexpectedEof 3 WriteZero 4 Interrupted 5 other io error 6 bounds error
               7 skipped (twin state unspecified) 8 panic 9 position set *)
From VM Require Import Prelude.MachInt Prelude.Outcome Prelude.Tok Prelude.C1314List Impl.Io Impl.Std Spec.C13.

Definition canary : N := 197.
Definition margin : N := 8.
Definition arena (b : list N) : list N := repeat canary (N.to_nat margin) ++ b ++ repeat canary (N.to_nat margin).
Definition win (b : list N) : vslice := {| vs_addr := 4096 + margin; vs_off := margin; vs_len := nlen b |}.
Definition fuel_of (b : list N) : nat := N.to_nat (nlen b) + 2.

Definition lift_n {S} (x : outcome ((S * list N) * res N)) : outcome ((S * list N) * (N * N)) :=
  omap (fun y => (fst y, rc_n (snd y))) x.
Definition lift_u {S} (x : outcome ((S * list N) * res unit)) : outcome ((S * list N) * (N * N)) :=
  omap (fun y => (fst y, rc_unit (snd y))) x.

(* one operation of the vm-memory adapter of kind k on a fresh arena holding the buffer *)
Definition vm_step (md : mode) (k : skind) (st : sstate) (o : op13) : outcome ((sstate * list N) * (N * N)) :=
  let b := op_buf o in
  let m := arena b in
  let v := win b in
  match o with
  | OSetPos p => Val ((if seekable k then set_pos st p else st, m), (9, 0))
  | ORead _ =>
      lift_n match k with
             | KSliceR => slice_read_volatile st m v
             | KCurR => cursor_read_volatile md st m v
             | _ => read_volatile_raw_fd (os_read_of k) st m v
             end
  | OReadExact _ =>
      lift_u match k with
             | KSliceR => slice_read_exact_volatile st m v
             | KCurR => cursor_read_exact_volatile md st m v
             | _ => read_exact_volatile (fuel_of b) (read_volatile_raw_fd (os_read_of k)) st m v
             end
  | OWrite _ =>
      lift_n match k with
             | KSliceW => mslice_write_volatile st m v
             | KVecW => vec_write_volatile md st m v
             | KCurW => cursor_write_volatile md st m v
             | _ => write_volatile_raw_fd (os_write_of k) st m v
             end
  | OWriteAll _ =>
      lift_u match k with
             | KSliceW => mslice_write_all_volatile st m v
             | KVecW => write_all_volatile (fuel_of b) (vec_write_volatile md) st m v
             | KCurW => write_all_volatile (fuel_of b) (cursor_write_volatile md) st m v
             | _ => write_all_volatile (fuel_of b) (write_volatile_raw_fd (os_write_of k)) st m v
             end
  end.

Definition show_state (k : skind) (st : sstate) : list N * N :=
  match k with KQueue => ([], nlen (s_data st)) | _ => (s_data st, s_pos st) end.
Definition clear_out (st : sstate) : sstate := {| s_data := s_data st; s_pos := s_pos st; s_out := [] |}.

Definition margins_ok (b m : list N) : bool :=
  list_eqb (ntake margin m) (repeat canary (N.to_nat margin))
  && list_eqb (ndrop (margin + nlen b) m) (repeat canary (N.to_nat margin)).

(* the model's observation of a history; [tw] is the std twin's state (None = unspecified) *)
Fixpoint run_ops (md : mode) (k : skind) (st : sstate) (tw : option sstate) (ops : list op13) {struct ops} : list opobs :=
  match ops with
  | [] => []
  | o :: ops' =>
      let b := op_buf o in
      let '(st', arc, abuf, amar) :=
        match vm_step md k (clear_out st) o with
        | Val ((s', m'), rc) => (s', rc, mem_read m' margin (nlen b), margins_ok b m')
        | _ => (st, (8, 0), b, true)
        end in
      let '(tw', trc, tbuf, tdata, tpos, tout) :=
        match tw with
        | None => (None, (7, 0), [], [], 0, [])
        | Some t =>
            match std_step k (clear_out t) o with
            | Val (Some t', bs, rc) =>
                (Some t', rc, (if is_read o then bs ++ ndrop (nlen bs) b else []),
                 fst (show_state k t'), snd (show_state k t'), s_out t')
            | Val (None, _, rc) => (None, rc, [], [], 0, [])
            | _ => (None, (8, 0), [], [], 0, [])
            end
        end in
      {| a_rc := arc; a_buf := abuf; a_margins := amar;
         a_data := fst (show_state k st'); a_pos := snd (show_state k st'); a_out := s_out st';
         t_rc := trc; t_buf := tbuf; t_data := tdata; t_pos := tpos; t_out := tout |}
      :: run_ops md k st' tw' ops'
  end.

Definition run_C13 (c : case13) : list opobs :=
  run_ops (c_mode c) (c_kind c) (c_init c) (Some (c_init c)) (c_ops c).

(* ------------------------------------------------------------------ tokens *)
Definition kind_of (n : N) : option skind :=
  match n with
  | 0 => Some KSliceR | 1 => Some KSliceW | 2 => Some KVecW | 3 => Some KCurR | 4 => Some KCurW
  | 5 => Some KFile | 6 => Some KQueue | 7 => Some KQueue | 8 => Some KCurR
  | 9 | 10 | 11 | 12 => Some KMsgQ | _ => None end.

Fixpoint parse_ops (l : list tok) {struct l} : option (list op13) :=
  match l with
  | [] => Some []
  | TN c :: TL a :: rest =>
      match parse_ops rest with
      | None => None
      | Some ops =>
          match c with
          | 0 => Some (ORead a :: ops) | 1 => Some (OReadExact a :: ops)
          | 2 => Some (OWrite a :: ops) | 3 => Some (OWriteAll a :: ops)
          | 4 => match a with [p] => Some (OSetPos p :: ops) | _ => None end
          | _ => None
          end
      end
  | _ => None
  end.

Fixpoint parse_obs (l : list tok) {struct l} : option (list opobs) :=
  match l with
  | [] => Some []
  | TN rk :: TN n :: TL buf :: TN mg :: TL d :: TN p :: TL out
      :: TN trk :: TN tn :: TL tbuf :: TL td :: TN tp :: TL tout :: rest =>
      match parse_obs rest with
      | None => None
      | Some obs =>
          Some ({| a_rc := (rk, n); a_buf := buf; a_margins := negb (mg =? 0); a_data := d; a_pos := p; a_out := out;
                   t_rc := (trk, tn); t_buf := tbuf; t_data := td; t_pos := tp; t_out := tout |} :: obs)
      end
  | _ => None
  end.

Definition enc_op (ob : opobs) : list tok :=
  [TN (fst (a_rc ob)); TN (snd (a_rc ob)); TL (a_buf ob); bool_tok (a_margins ob); TL (a_data ob); TN (a_pos ob);
   TL (a_out ob); TN (fst (t_rc ob)); TN (snd (t_rc ob)); TL (t_buf ob); TL (t_data ob); TN (t_pos ob); TL (t_out ob)].
Definition enc13 (obs : list opobs) : list tok := flat_map enc_op obs.

Definition bytes_ok (l : list N) : bool := forallb (fun x => x <? 256) l.
(* the initial contents of a stream: bytes; for a message queue bytes and end-of-message markers, the
   last message terminated *)
Definition content_ok (k : skind) (l : list N) : bool :=
  match k with
  | KMsgQ => forallb (fun x => x <=? MSG_END) l && match l with [] => true | _ => last l 0 =? MSG_END end
  | _ => bytes_ok l
  end.
Definition op_ok (k : skind) (o : op13) : bool :=
  op_allowed k o && bytes_ok (op_buf o) && match o with OSetPos p => p <? W64 | _ => true end.

(* Guards against absurd token values BEFORE anything converts them to unary nat (N.to_nat inside
   ntake / ndrop / repeat): the shrinker and the neighbourhood search of lib/runner.py perturb case
   tokens freely (e.g. 2^64-1).  A slice starts inside its array; file offsets stay small. *)
Definition pos_sane (k : skind) (len p : N) : bool :=
  match k with KSliceR | KSliceW => p <=? len | KFile => p <=? 65536 | KMsgQ => p =? 0 | _ => true end.
Definition op_sane (k : skind) (o : op13) : bool :=
  match o, k with OSetPos p, KFile => p <=? 65536 | _, _ => true end.
Definition obs_sane (k : skind) (ob : opobs) : bool := pos_sane k (nlen (a_data ob)) (a_pos ob).

Definition suite_C13 (inp obs : list tok) : verdict :=
  match inp with
  | TN md :: TN kd :: TL content :: TN pos :: opl =>
      match kind_of kd, parse_ops opl, parse_obs obs with
      | Some k, Some ops, Some o =>
          if content_ok k content && (pos <? W64) && forallb (op_ok k) ops
             && pos_sane k (nlen content) pos && forallb (op_sane k) ops then
            let c := {| c_mode := if md =? 0 then Debug else Release; c_kind := k;
                        c_init := {| s_data := content; s_pos := pos; s_out := [] |}; c_ops := ops |} in
            (* an observed slice offset outside its array / an absurd file offset is a failure as such *)
            {| v_model := enc13 (run_C13 c);
               v_ok := if forallb (obs_sane k) o then ok_C13 c o else false;
               v_wellformed := true |}
          else malformed
      | _, _, _ => malformed
      end
  | _ => malformed
  end.
