(* C18 suite glue: the implementation-model observation run_C18 is COMPOSED from the existing
   models evaluated at length 0 / size_of T = 0 -
     Impl/VolMem.v   container byte ops, ZST branches of copy_to/copy_from, refs, arrays (bytes + panics)
     Impl/Io.v, Impl/IoGuest.v   stream adapters, stream forms at slice / region / guest level
     Impl/Guest.v    Bytes<GuestAddress> (empty-buffer early return), GuestMemory::get_slice
     Impl/Dirty.v    which op calls mark_dirty with which (offset, len); abstract bitmap [mark]
   - plus token parsing and `suite_C18`.
   The few lines of Rust that none of those models transcribes are transcribed here, with their
   source lines (stream-kind dispatch of the exact forms, copy_to_volatile_slice's mark).

   All memory of a case is ONE byte list: region i owns [moff i, moff i + size i).  Every byte is
   FILL before the call; all bitmaps are clean.

   case:  mode layer op ps [start,size,...] ri sub_off sub_len addr esz n k sk
   obs:   class ecode count ext [changed byte indices] [dirty page indices]                     *)
From VM Require Import Prelude.MachInt Prelude.Outcome Prelude.Tok Prelude.C1314List Spec.C18.
From VM Require Impl.VolMem Impl.Guest Impl.Dirty Impl.Io Impl.IoGuest.

Definition FILL : N := 170.
Definition HB : N := IoGuest.HBASE.       (* nominal host address of the byte list *)

Fixpoint moff (regs : list (N * N)) (i : nat) {struct i} : N :=
  match i, regs with
  | O, _ => 0
  | S j, p :: t => snd p + moff t j
  | S _, [] => 0 end.
Definition total (regs : list (N * N)) : N := fold_right (fun p a => snd p + a) 0 regs.
Definition heap0 (regs : list (N * N)) : list N := repeat FILL (N.to_nat (total regs)).
Definition reg_at (c : case18) : N * N := nth (c_ri c) (c_regs c) (0, 0).

(* ---- the model's result before encoding *)
Record mres := { m_class : N; m_ecode : N; m_count : N; m_ext : N; m_heap : list N }.
Definition r_ok (cnt ext : N) (h : list N) : mres :=
  {| m_class := 0; m_ecode := 0; m_count := cnt; m_ext := ext; m_heap := h |}.
Definition r_err (code : N) (h : list N) : mres :=
  {| m_class := 1; m_ecode := code; m_count := 0; m_ext := 0; m_heap := h |}.
Definition r_panic (h : list N) : mres :=
  {| m_class := 2; m_ecode := 0; m_count := 0; m_ext := 0; m_heap := h |}.
Definition of_outcome (h : list N) (o : outcome mres) : mres :=
  match o with Val r => r | _ => r_panic h end.

(* canonical error numbers: guest_memory::Error 1..7 (Guest.err_code), volatile_memory::Error 10.. *)
Definition vcode (e : VolMem.verr) : N :=
  match e with
  | VolMem.EOutOfBounds => 10 | VolMem.EOverflow => 11 | VolMem.EPartialBuffer => 3
  | VolMem.EMisaligned => 13 | VolMem.ETooBig => 12 | VolMem.EInvalidBackendAddress => 4 end.
Definition icode (e : Io.verr) : N :=
  match e with Io.VIo _ => 2 | Io.VOutOfBounds => 10 | Io.VOverflow => 11 end.
Definition gcode (e : IoGuest.gerr) : N :=
  match e with
  | IoGuest.GInvalidGuestAddress => 1 | IoGuest.GIo _ => 2 | IoGuest.GPartialBuffer _ _ => 3
  | IoGuest.GInvalidBackendAddress => 4 | IoGuest.GCallbackOutOfRange => 6
  | IoGuest.GGuestAddressOverflow => 7 end.
(* region level: .map_err(Into::into)  guest_memory.rs:87-104 *)
Definition lvcode (ly : layer18) (e : VolMem.verr) : N :=
  match ly with LSlice => vcode e | _ => vcode (VolMem.gm_err e) end.
Definition licode (ly : layer18) (e : Io.verr) : N :=
  match ly with LSlice => icode e | _ => gcode (IoGuest.gerr_of e) end.

(* ---- containers *)
(* layer 0: region.as_volatile_slice().subslice(sub_off, sub_len); layer 1: GuestRegionMmap's
   Bytes impl works on self.as_volatile_slice().unwrap() (mmap/mod.rs:188-317) *)
Definition cslice (c : case18) : VolMem.vslice :=
  match c_layer c with
  | LSlice => {| VolMem.vs_addr := moff (c_regs c) (c_ri c) + c_sub_off c; VolMem.vs_size := c_sub_len c |}
  | _ => {| VolMem.vs_addr := moff (c_regs c) (c_ri c); VolMem.vs_size := snd (reg_at c) |}
  end.
Definition to_io (s : VolMem.vslice) : Io.vslice :=
  {| Io.vs_addr := HB + VolMem.vs_addr s; Io.vs_off := VolMem.vs_addr s; Io.vs_len := VolMem.vs_size s |}.
Definition ZT : VolMem.vty := {| VolMem.ty_size := 0; VolMem.ty_be := false |}.
Definition ety (c : case18) : VolMem.vty := {| VolMem.ty_size := c_esz c; VolMem.ty_be := false |}.

(* guest level *)
Definition gmem (regs : list (N * N)) : Guest.mem :=
  map (fun p => {| Guest.rstart := fst p; Guest.rbytes := repeat FILL (N.to_nat (snd p)) |}) regs.
Definition gflat (M : Guest.mem) : list N := flat_map Guest.rbytes M.
Fixpoint ioregs (regs : list (N * N)) (off : N) {struct regs} : list IoGuest.region :=
  match regs with
  | [] => []
  | p :: t => {| IoGuest.g_start := fst p; IoGuest.g_len := snd p; IoGuest.g_moff := off |} :: ioregs t (off + snd p)
  end.

(* ---- slice / region level, empty buffer or zero-sized object (VolMem.v) *)
Definition res_n (ly : layer18) (h : list N) (r : VolMem.result N) : mres :=
  match r with VolMem.Ok n => r_ok n 0 h | VolMem.Err e => r_err (lvcode ly e) h end.
Definition res_u (ly : layer18) (h : list N) (r : VolMem.result unit) : mres :=
  match r with VolMem.Ok _ => r_ok 0 0 h | VolMem.Err e => r_err (lvcode ly e) h end.

Definition set_ext (r : mres) (e : N) : mres :=
  {| m_class := m_class r; m_ecode := m_ecode r; m_count := m_count r; m_ext := e; m_heap := m_heap r |}.
Definition run_bytes_sr (c : case18) (h : list N) : mres :=
  let s := cslice c in let ly := c_layer c in let a := c_addr c in
  match c_op c with
  | ZWrite => let '(h', r) := VolMem.vs_write HB h s [] a in res_n ly h' r
  | ZRead => let '(b, r) := VolMem.vs_read HB h s [] a in set_ext (res_n ly h r) (if is_nil b then 0 else 1)
  | ZWriteSlice => let '(h', r) := VolMem.vs_write_slice HB h s [] a in res_u ly h' r
  | ZReadSlice => let '(b, r) := VolMem.vs_read_slice HB h s [] a in res_u ly h r
  | ZWriteObj => let '(h', r) := VolMem.vs_write_obj HB h s ZT 0 a in res_u ly h' r
  | ZReadObj => match VolMem.vs_read_obj HB h s ZT a with
                | VolMem.Ok _ => r_ok 0 0 h | VolMem.Err e => r_err (lvcode ly e) h end
  | _ => r_panic h
  end.

(* ---- streams (Io.v / IoGuest.v) *)
Definition FUEL : nat := 8.
Definition SRC : N := 90.
Definition stream0 (rd : bool) (c : case18) : Io.sstate :=
  (* reader: k bytes ready; &mut [u8] sink: k bytes of room; Vec / File sinks start empty *)
  {| Io.s_data := if rd then repeat SRC (N.to_nat (c_k c))
                  else if c_sk c =? 0 then repeat SRC (N.to_nat (c_k c)) else [];
     Io.s_pos := 0; Io.s_out := [] |}.
Definition st_same (a b : Io.sstate) : bool :=
  (Io.s_pos a =? Io.s_pos b) && list_eqb (Io.s_data a) (Io.s_data b) && list_eqb (Io.s_out a) (Io.s_out b).
(* which impl of ReadVolatile / WriteVolatile the harness hands in: &[u8] | Cursor<&[u8]> | File,
   &mut [u8] | Vec<u8> | File   (io.rs:268, :344, :143 / :229, :309, :143) *)
Definition rcall (md : mode) (sk : N) : Io.callT Io.sstate :=
  match sk with
  | 0 => Io.slice_read_volatile
  | 1 => Io.cursor_read_volatile md
  | _ => Io.read_volatile_raw_fd Io.file_read end.
Definition wcall (md : mode) (sk : N) : Io.callT Io.sstate :=
  match sk with
  | 0 => Io.mslice_write_volatile
  | 1 => Io.vec_write_volatile md
  | _ => Io.write_volatile_raw_fd Io.file_write end.
(* read_exact_volatile: &[u8] io.rs:291 and Cursor :355 override the default loop :56; File uses it.
   write_all_volatile: &mut [u8] :252 overrides, Vec and File use the default :102 *)
Definition rexact (md : mode) (sk : N) (st : Io.sstate) (m : list N) (sl : Io.vslice)
  : outcome ((Io.sstate * list N) * Io.res unit) :=
  match sk with
  | 0 => Io.slice_read_exact_volatile st m sl
  | 1 => Io.cursor_read_exact_volatile md st m sl
  | _ => Io.read_exact_volatile FUEL (rcall md sk) st m sl end.
Definition wexact (md : mode) (sk : N) (st : Io.sstate) (m : list N) (sl : Io.vslice)
  : outcome ((Io.sstate * list N) * Io.res unit) :=
  match sk with
  | 0 => Io.mslice_write_all_volatile st m sl
  | _ => Io.write_all_volatile FUEL (wcall md sk) st m sl end.
(* volatile_memory.rs:799-807 read_volatile_from, :816-824 write_volatile_to *)
Definition s_upto (rd : bool) (md : mode) (sk : N) (self : Io.vslice) (addr : N) (st : Io.sstate) (m : list N)
  (count : N) : outcome ((Io.sstate * list N) * Io.res N) :=
  IoGuest.vs_upto FUEL (if rd then rcall md sk else wcall md sk) self addr st m count.
(* volatile_memory.rs:809-814 read_exact_volatile_from: src.read_exact_volatile(&mut self.get_slice(addr, count)?)
   :826-831 write_all_volatile_to *)
Definition s_exact (rd : bool) (md : mode) (sk : N) (self : Io.vslice) (addr : N) (st : Io.sstate) (m : list N)
  (count : N) : outcome ((Io.sstate * list N) * Io.res unit) :=
  match Io.vs_subslice self addr count with
  | Io.Err e => Val ((st, m), Io.Err e)
  | Io.Ok sl => if rd then rexact md sk st m sl else wexact md sk st m sl
  end.
(* guest_memory.rs:678-685 read_volatile_from: try_access(count, addr, |_, len, caddr, region|
     region.read_volatile_from(caddr, src, len));  :706-715 write_volatile_to:
     region.write_all_volatile_to(caddr, dst, len).map(|()| len) *)
Definition g_upto (rd : bool) (md : mode) (sk : N) (L : list IoGuest.region) (addr : N) (st : Io.sstate)
  (m : list N) (count : N) : outcome ((Io.sstate * list N) * IoGuest.gres N) :=
  IoGuest.try_access md (S (length L)) L count addr
    (fun _ len caddr region s m' =>
       if rd then omap (fun x => (fst x, IoGuest.map_err (snd x)))
                       (s_upto true md sk (IoGuest.region_slice region) caddr s m' len)
       else omap (fun x => (fst x, match IoGuest.map_err (snd x) with
                                   | IoGuest.GOk _ => IoGuest.GOk len | IoGuest.GErr e => IoGuest.GErr e end))
                 (s_exact false md sk (IoGuest.region_slice region) caddr s m' len))
    addr 0 st m.

Definition is_read_stream (o : op18) : bool := match o with ZReadFrom | ZReadExactFrom => true | _ => false end.
Definition is_exact (o : op18) : bool := match o with ZReadExactFrom | ZWriteAllTo => true | _ => false end.

Definition ext_of (st0 st : Io.sstate) : N := if st_same st0 st then 0 else 1.
Definition run_stream (c : case18) (h : list N) : outcome mres :=
  let rd := is_read_stream (c_op c) in let md := c_mode c in let sk := c_sk c in
  let st0 := stream0 rd c in let ly := c_layer c in
  match ly with
  | LGuest =>
      let up := g_upto rd md sk (ioregs (c_regs c) 0) (c_addr c) st0 h 0 in
      if is_exact (c_op c) then
        let* x := IoGuest.gm_exact_of up 0 in
        Val (match snd x with
             | IoGuest.GOk _ => r_ok 0 (ext_of st0 (fst (fst x))) (snd (fst x))
             | IoGuest.GErr e => r_err (gcode e) (snd (fst x)) end)
      else
        let* x := up in
        Val (match snd x with
             | IoGuest.GOk n => r_ok n (ext_of st0 (fst (fst x))) (snd (fst x))
             | IoGuest.GErr e => r_err (gcode e) (snd (fst x)) end)
  | _ =>
      let self := to_io (cslice c) in
      if is_exact (c_op c) then
        let* x := s_exact rd md sk self (c_addr c) st0 h 0 in
        Val (match snd x with
             | Io.Ok _ => r_ok 0 (ext_of st0 (fst (fst x))) (snd (fst x))
             | Io.Err e => r_err (licode ly e) (snd (fst x)) end)
      else
        let* x := s_upto rd md sk self (c_addr c) st0 h 0 in
        Val (match snd x with
             | Io.Ok n => r_ok n (ext_of st0 (fst (fst x))) (snd (fst x))
             | Io.Err e => r_err (licode ly e) (snd (fst x)) end)
  end.

(* ---- guest level, empty buffer or zero-sized object (Guest.v, linear find_region) *)
Definition gres_n (M : Guest.mem) (r : Guest.res N) : mres :=
  match r with inl n => r_ok n 0 (gflat M) | inr e => r_err (Guest.err_code e) (gflat M) end.
Definition gres_u {A} (M : Guest.mem) (r : Guest.res A) : mres :=
  match r with inl _ => r_ok 0 0 (gflat M) | inr e => r_err (Guest.err_code e) (gflat M) end.
Definition run_bytes_g (c : case18) : outcome mres :=
  let M := gmem (c_regs c) in let md := c_mode c in let a := c_addr c in
  match c_op c with
  | ZWrite => let* x := Guest.gm_write Guest.find_lin md M [] a in Val (gres_n (fst x) (snd x))
  | ZRead => let* x := Guest.gm_read Guest.find_lin md M [] a in
             Val (set_ext (gres_n M (snd x)) (if is_nil (fst x) then 0 else 1))
  | ZWriteSlice => let* x := Guest.gm_write_slice Guest.find_lin md M [] a in Val (gres_u (fst x) (snd x))
  | ZReadSlice => let* x := Guest.gm_read_slice Guest.find_lin md M [] a in Val (gres_u M (snd x))
  | ZWriteObj => let* x := Guest.gm_write_obj Guest.find_lin md M [] a in Val (gres_u (fst x) (snd x))
  | ZReadObj => let* x := Guest.gm_read_obj Guest.find_lin md M 0 a in Val (gres_u M x)
  | _ => Val (r_panic (gflat M))
  end.

(* ---- accessor-shaped entry points: the layer's get_slice(addr, nbytes), then the accessor *)
(* (region index, the slice) or the error number *)
Definition get_sl (c : case18) : outcome (sum (nat * VolMem.vslice) N) :=
  let a := c_addr c in let nb := nbytes18 c in
  match c_layer c with
  | LSlice =>                                       (* VolatileSlice::get_slice volatile_memory.rs:853 *)
      Val (match VolMem.vs_get_slice (cslice c) a nb with
           | VolMem.Ok sl => inl (c_ri c, sl) | VolMem.Err e => inr (vcode e) end)
  | LRegion =>                                      (* GuestRegionMmap::get_slice mmap/mod.rs:350 *)
      Val (match VolMem.gm_res (VolMem.mr_get_slice {| VolMem.mr_addr := moff (c_regs c) (c_ri c);
                                                      VolMem.mr_size := snd (reg_at c) |} a nb) with
           | VolMem.Ok sl => inl (c_ri c, sl) | VolMem.Err e => inr (vcode e) end)
  | LGuest =>                                       (* GuestMemory::get_slice guest_memory.rs:580 *)
      let* r := Guest.gm_get_slice Guest.find_lin (Guest.shape (gmem (c_regs c))) a nb in
      Val (match r with
           | inl (i, off, cnt) => inl (i, {| VolMem.vs_addr := moff (c_regs c) i + off; VolMem.vs_size := cnt |})
           | inr e => inr (Guest.err_code e) end)
  end.
(* the enclosing container the slice-to-slice copies use as the other side: the container itself
   (layers 0, 1), the whole region found (layer 2) *)
Definition whole (c : case18) (i : nat) : VolMem.vslice :=
  match c_layer c with
  | LGuest => {| VolMem.vs_addr := moff (c_regs c) i; VolMem.vs_size := snd (nth i (c_regs c) (0, 0)) |}
  | _ => cslice c end.

Definition run_acc (c : case18) (h : list N) : outcome mres :=
  let md := c_mode c in let buf := repeat 0 (N.to_nat (c_k c)) in
  let* g := get_sl c in
  match g with
  | inr code => Val (r_err code h)
  | inl (i, sl) =>
      match c_op c with
      | ZCopyTo => let* x := VolMem.vs_copy_to md h sl ZT buf in
                   Val (r_ok (snd x) (if list_eqb (fst x) buf then 0 else 1) h)
      | ZCopyFrom => let* h' := VolMem.vs_copy_from md h sl ZT buf in Val (r_ok 0 0 h')
      | ZArrCopyTo =>
          let* r := VolMem.vs_get_array_ref sl (c_esz c) 0 (c_n c) in
          match r with
          | VolMem.Err e => Val (r_err (vcode e) h)
          | VolMem.Ok arr => let* x := VolMem.va_copy_to md h arr (ety c) buf in
                             Val (r_ok (snd x) (if list_eqb (fst x) buf then 0 else 1) h)
          end
      | ZArrCopyFrom =>
          let* r := VolMem.vs_get_array_ref sl (c_esz c) 0 (c_n c) in
          match r with
          | VolMem.Err e => Val (r_err (vcode e) h)
          | VolMem.Ok arr => let* h' := VolMem.va_copy_from md h arr (ety c) buf in Val (r_ok 0 0 h')
          end
      | ZRefStore =>
          let* r := VolMem.vs_get_ref sl 0 0 in
          Val (match r with
               | VolMem.Err e => r_err (vcode e) h
               | VolMem.Ok a => r_ok 0 0 (VolMem.vr_store h a ZT 0) end)
      | ZRefLoad =>
          let* r := VolMem.vs_get_ref sl 0 0 in
          Val (match r with
               | VolMem.Err e => r_err (vcode e) h
               | VolMem.Ok a => let _ := VolMem.vr_load h a ZT in r_ok 0 0 h end)
      | ZCopyIntoEmpty => Val (r_ok 0 0 (VolMem.vs_copy_to_volatile_slice h (whole c i) sl))
      | ZCopyFromEmpty => Val (r_ok 0 0 (VolMem.vs_copy_to_volatile_slice h sl (whole c i)))
      | _ => Val (r_panic h)
      end
  end.

Definition is_bytes_op (o : op18) : bool :=
  match o with ZWrite | ZRead | ZWriteSlice | ZReadSlice | ZWriteObj | ZReadObj => true | _ => false end.
Definition is_stream_op (o : op18) : bool :=
  match o with ZReadFrom | ZReadExactFrom | ZWriteTo | ZWriteAllTo => true | _ => false end.

Definition run_mem (c : case18) : mres :=
  let h := heap0 (c_regs c) in
  if is_bytes_op (c_op c) then
    match c_layer c with
    | LGuest => of_outcome h (run_bytes_g c)
    | _ => run_bytes_sr c h end
  else if is_stream_op (c_op c) then of_outcome h (run_stream c h)
  else of_outcome h (run_acc c h).

(* ---- dirty marks (Dirty.v) *)
Definition dregs (c : case18) : list Dirty.region :=
  map (fun p => {| Dirty.r_start := fst p; Dirty.r_size := snd p; Dirty.r_ps := c_ps c; Dirty.r_tracked := true;
                   Dirty.r_dirty := repeat false (N.to_nat (Dirty.npages (snd p) (c_ps c))) |}) (c_regs c).
Definition chain0 (c : case18) : list Dirty.dop :=
  match c_layer c with LSlice => [Dirty.DSub (c_sub_off c) (c_sub_len c)] | _ => [] end.

(* effects of an op on the accessor reached from region ri by chain ch *)
Definition sop_effs (rs : list Dirty.region) (ri : nat) (ch : list Dirty.dop) (o : Dirty.sop) : list Dirty.eff :=
  match nth_error rs ri with
  | None => []
  | Some r => match Dirty.derive_chain (Dirty.root r) ch with
              | None => []
              | Some a => Dirty.o_effs (Dirty.run_sop ri 0 a o) end
  end.
(* VolatileSlice::copy_to_volatile_slice volatile_memory.rs:605-614:
     let count = min(self.size, slice.size); copy(..); slice.bitmap.mark_dirty(0, count)
   [chd] reaches the DESTINATION slice, [other] is the length of the source *)
Definition copy_vs_effs (rs : list Dirty.region) (ri : nat) (chd : list Dirty.dop) (other : N) : list Dirty.eff :=
  match nth_error rs ri with
  | None => []
  | Some r => match Dirty.derive_chain (Dirty.root r) chd with
              | None => []
              | Some d => [Dirty.weff ri d 0 (N.min other (Dirty.a_len d))] end
  end.

Definition acc_effs (c : case18) (rs : list Dirty.region) (ri : nat) (ch : list Dirty.dop) (wlen : N) : list Dirty.eff :=
  (* ch reaches the slice get_sl returned; wlen = length of the enclosing container *)
  match c_op c with
  | ZCopyTo => sop_effs rs ri ch (Dirty.OCopyTo 0 (c_k c))
  | ZCopyFrom => sop_effs rs ri ch (Dirty.OCopyFrom 0 (c_k c))
  | ZArrCopyTo => sop_effs rs ri (ch ++ [Dirty.DGetArr 0 (c_esz c) (c_n c)]) (Dirty.OArrCopyTo (c_k c))
  | ZArrCopyFrom => sop_effs rs ri (ch ++ [Dirty.DGetArr 0 (c_esz c) (c_n c)]) (Dirty.OArrCopyFrom (c_k c))
  | ZRefStore => sop_effs rs ri (ch ++ [Dirty.DGetRef 0 0]) Dirty.ORefStore
  | ZRefLoad => sop_effs rs ri (ch ++ [Dirty.DGetRef 0 0]) Dirty.ORefLoad
  | ZCopyIntoEmpty => copy_vs_effs rs ri ch wlen                 (* destination = the empty slice *)
  | ZCopyFromEmpty => copy_vs_effs rs ri (removelast ch) 0       (* destination = the container, source empty *)
  | _ => []
  end.

Definition run_effs (c : case18) : list Dirty.eff :=
  let rs := dregs c in let a := c_addr c in let k := c_k c in
  match c_layer c with
  | LGuest =>
      match c_op c with
      | ZWrite => Dirty.o_effs (Dirty.run_gop 0 rs (Dirty.GWrite 0 a))
      | ZWriteSlice | ZWriteObj => Dirty.o_effs (Dirty.run_gop 0 rs (Dirty.GWriteSlice 0 a))
      | ZRead | ZReadSlice | ZReadObj => Dirty.o_effs (Dirty.run_gop 0 rs (Dirty.GRead 0 a))
      | ZReadFrom | ZReadExactFrom => Dirty.o_effs (Dirty.run_gop 0 rs (Dirty.GReadFrom 0 a k))
      | ZWriteTo | ZWriteAllTo => []                                            (* reads of guest memory *)
      | _ => match Dirty.find_idx rs a 0 with
             | None => []
             | Some (i, r) => acc_effs c rs i [Dirty.DSub (a - Dirty.r_start r) (nbytes18 c)] (Dirty.r_size r)
             end
      end
  | _ =>
      let ri := c_ri c in let ch := chain0 c in
      match c_op c with
      | ZWrite => sop_effs rs ri ch (Dirty.OWrite 0 a)
      | ZWriteSlice | ZWriteObj => sop_effs rs ri ch (Dirty.OWriteSlice 0 a)
      | ZRead => sop_effs rs ri ch (Dirty.ORead 0 a)
      | ZReadSlice | ZReadObj => sop_effs rs ri ch (Dirty.OReadSlice 0 a)
      | ZReadFrom => if c_sk c =? 2 then sop_effs rs ri ch (Dirty.OReadFromFd 0 a k false)
                     else sop_effs rs ri ch (Dirty.OReadFrom 0 a k)
      | ZReadExactFrom =>
          (* File: the default read_exact_volatile loop (io.rs:56-78) makes no call for an empty slice *)
          if c_sk c =? 2 then [] else sop_effs rs ri ch (Dirty.OReadExactFrom 0 a k)
      | ZWriteTo => sop_effs rs ri ch (Dirty.OWriteTo 0 a)
      | ZWriteAllTo => sop_effs rs ri ch (Dirty.OWriteAllTo 0 a)
      | _ => acc_effs c rs ri (ch ++ [Dirty.DSub a (nbytes18 c)]) (VolMem.vs_size (cslice c))
      end
  end.

(* ---- the observation *)
Fixpoint diff_from (i : N) (a b : list N) {struct a} : list N :=
  match a, b with
  | x :: a', y :: b' => if x =? y then diff_from (i + 1) a' b' else i :: diff_from (i + 1) a' b'
  | [], [] => []
  | _, _ => [i] end.
Fixpoint true_from (i : N) (l : list bool) {struct l} : list N :=
  match l with [] => [] | b :: r => if b then i :: true_from (i + 1) r else true_from (i + 1) r end.
Definition dirty_idx (rs : list Dirty.region) : list N := true_from 0 (flat_map Dirty.r_dirty rs).

Definition run_C18 (c : case18) : obs18 :=
  let r := run_mem c in
  {| o_class := m_class r; o_ecode := m_ecode r; o_count := m_count r; o_ext := m_ext r;
     o_changed := diff_from 0 (heap0 (c_regs c)) (m_heap r);
     o_dirty := dirty_idx (Dirty.apply_effs (dregs c) (run_effs c)) |}.

(* ---- tokens *)
Definition layer_of (n : N) : option layer18 :=
  match n with 0 => Some LSlice | 1 => Some LRegion | 2 => Some LGuest | _ => None end.
Definition op_of (n : N) : option op18 :=
  match n with
  | 0 => Some ZWrite | 1 => Some ZRead | 2 => Some ZWriteSlice | 3 => Some ZReadSlice
  | 4 => Some ZWriteObj | 5 => Some ZReadObj | 6 => Some ZReadFrom | 7 => Some ZReadExactFrom
  | 8 => Some ZWriteTo | 9 => Some ZWriteAllTo | 10 => Some ZCopyTo | 11 => Some ZCopyFrom
  | 12 => Some ZArrCopyTo | 13 => Some ZArrCopyFrom | 14 => Some ZRefStore | 15 => Some ZRefLoad
  | 16 => Some ZCopyIntoEmpty | 17 => Some ZCopyFromEmpty | _ => None end.

Fixpoint dec_regs (l : list N) {struct l} : option (list (N * N)) :=
  match l with
  | [] => Some []
  | st :: t => match t with
               | sz :: r => match dec_regs r with Some x => Some ((st, sz) :: x) | None => None end
               | [] => None end
  end.
(* what GuestRegionMmap::new + GuestMemoryMmap::from_regions accept, within the suite's sizes:
   1..65536 bytes each, sorted, disjoint, last address below 2^64-1 *)
Fixpoint regs_ok (lo : N) (regs : list (N * N)) {struct regs} : bool :=
  match regs with
  | [] => true
  | (st, sz) :: t => (lo <=? st) && (1 <=? sz) && (sz <=? 65536) && (st + sz <? W64) && regs_ok (st + sz) t
  end.

(* the parameters each entry point reads; everything else must be 0 (strict decoding) *)
Definition params_ok (c : case18) : bool :=
  let z3 := (c_esz c =? 0) && (c_n c =? 0) in
  match c_op c with
  | ZWrite | ZRead | ZWriteSlice | ZReadSlice | ZWriteObj | ZReadObj => z3 && (c_k c =? 0) && (c_sk c =? 0)
  | ZReadFrom | ZReadExactFrom | ZWriteTo | ZWriteAllTo => z3 && (c_sk c <=? 2)
  | ZCopyTo | ZCopyFrom => (c_esz c =? 0) && (c_sk c <=? 1)
  | ZArrCopyTo | ZArrCopyFrom =>
      ((c_esz c =? 0) && (c_sk c <=? 1)) ||
      ((c_n c =? 0) && (c_sk c =? 0) && ((c_esz c =? 1) || (c_esz c =? 2) || (c_esz c =? 4) || (c_esz c =? 8)))
  | ZRefStore | ZRefLoad => z3 && (c_k c =? 0) && (c_sk c <=? 1)
  | ZCopyIntoEmpty | ZCopyFromEmpty => z3 && (c_k c =? 0) && (c_sk c =? 0)
  end.

Definition wf_case (c : case18) : bool :=
  let regs := c_regs c in
  (1 <=? c_ps c) && (c_ps c <=? 1048576)
  && negb (is_nil regs) && (length regs <=? 4)%nat && regs_ok 0 regs
  && (c_ri c <? length regs)%nat
  && (match c_layer c with
      | LSlice => c_sub_off c + c_sub_len c <=? snd (reg_at c)
      | LRegion => (c_sub_off c =? 0) && (c_sub_len c =? snd (reg_at c))
      | LGuest => (c_ri c =? 0)%nat && (c_sub_off c =? 0) && (c_sub_len c =? 0) end)
  && (c_addr c <? W64)
  (* host-pointer overflow (VolatileSlice::offset) is only modelled far from the real host base *)
  && ((c_addr c <=? 2 ^ 63) || (W64 - 4096 <=? c_addr c))
  && (c_n c <=? 64) && (c_k c <=? 64) && params_ok c.

Definition enc18 (o : obs18) : list tok :=
  [TN (o_class o); TN (o_ecode o); TN (o_count o); TN (o_ext o); TL (o_changed o); TL (o_dirty o)].

Definition suite_C18 (inp obs : list tok) : verdict :=
  match inp, obs with
  | [TN md; TN ly; TN op; TN ps; TL regs; TN ri; TN so; TN sl; TN a; TN esz; TN n; TN k; TN sk],
    [TN cl; TN ec; TN cnt; TN ext; TL ch; TL di] =>
      match layer_of ly, op_of op, dec_regs regs with
      | Some ly', Some op', Some regs' =>
          if (1 <? md) || (8 <? ri) || (8 <? N.of_nat (length regs)) || (1048576 <? ps) then malformed else
          let c := {| c_mode := if md =? 0 then Debug else Release; c_layer := ly'; c_op := op'; c_ps := ps;
                      c_regs := regs'; c_ri := N.to_nat ri; c_sub_off := so; c_sub_len := sl; c_addr := a;
                      c_esz := esz; c_n := n; c_k := k; c_sk := sk |} in
          if wf_case c then
            let o := {| o_class := cl; o_ecode := ec; o_count := cnt; o_ext := ext; o_changed := ch; o_dirty := di |} in
            {| v_model := enc18 (run_C18 c); v_ok := ok_C18 c o; v_wellformed := true |}
          else malformed
      | _, _, _ => malformed end
  | _, _ => malformed end.

(* the all-quiet observation: Ok, count 0, nothing changed anywhere (used by the non-vacuity example) *)
Definition enc18_ok (o : obs18) : bool :=
  (o_class o =? 0) && (o_count o =? 0) && (o_ext o =? 0) && is_nil (o_changed o) && is_nil (o_dirty o).


(* ------------------------------------------------------------------ suite C18huge
   VolatileSlice::copy_to / copy_from of k ZERO-SIZED elements, k up to usize::MAX (a buffer of zero-sized
   elements occupies no memory, so it may be longer than isize::MAX).  volatile_memory.rs:573-576 / :656:
   size_of::<T>() == 0 => copy_to answers buf.len(), copy_from does nothing - no element count is ever
   handed to get_array_ref (which refuses counts above isize::MAX).  A successful no-op at every layer.
     case: mode layer op(10 copy_to | 11 copy_from) sk k      obs: class count touched *)
Definition run_C18huge (op k : N) : list N := [0; if op =? 10 then k else 0; 0].
Definition ok_C18huge (op k : N) (obs : list N) : bool :=
  match obs with
  | [cl; cnt; touched] => (cl =? 0) && (touched =? 0) && (if op =? 10 then cnt =? k else cnt =? 0)
  | _ => false end.
Definition suite_C18huge (inp obs : list tok) : verdict :=
  match inp, obs with
  | [TN md; TN layer; TN op; TN sk; TN k], [TN cl; TN cnt; TN touched] =>
      if (layer <=? 2) && ((op =? 10) || (op =? 11)) && (sk <=? 1) && (k <? W64) then
        {| v_model := map TN (run_C18huge op k); v_ok := ok_C18huge op k [cl; cnt; touched]; v_wellformed := true |}
      else malformed
  | _, _ => malformed
  end.

(* ------------------------------------------------------------------ suite C18arr  (worker w6)
   The ARRAY forms on the crate's zero-sized element types: VolatileArrayRef::<Z>::{copy_to_volatile_slice, copy_to,
   copy_from, store, load, ref_at(i).to_slice(), to_slice()} with Z = [u8;0] | [u64;0] | [u128;0] and n elements,
   n in {0, 1, 5, ..., usize::MAX}; the array is region.get_array_ref::<Z>(off, n) of ONE tracked region.
     case: mode ps size off n zsel op i k
       op 0 copy_to_volatile_slice(region.get_slice(i, k))   1 copy_to(&mut [Z; k])   2 copy_from(&[Z; k])
          3 store(i, [])   4 load(i)   5 ref_at(i).to_slice().len()   6 to_slice().len()        (3..5: i < n)
     obs:  class(0 Ok, 1 Err, 2 panic) count [changed byte offsets] [dirty pages]
   MODEL: the existing Impl/Dirty.v functions at element size 0 (DGetArr off 0 n, OArrCopyTo/From, OArrStore/Load,
   DRefAt, DToSlice, run_copy).  CHECKER (property text): never a panic, no byte changes, no page dirty; and the call
   succeeds when the array exists at an address valid for a non-empty access (off < size; n representable as isize,
   the documented TooBig refusal otherwise) and - op 0 - the destination slice exists. *)
Definition arr_region (ps size : N) : Dirty.region :=
  {| Dirty.r_start := 0; Dirty.r_size := size; Dirty.r_ps := ps; Dirty.r_tracked := true;
     Dirty.r_dirty := repeat false (N.to_nat (Dirty.npages size ps)) |}.
Definition arr_step (off n op i k : N) : option Dirty.step :=
  let g := Dirty.DGetArr off 0 n in
  match op with
  | 0 => Some (Dirty.SCopy 0 [g] 0 i k)
  | 1 => Some (Dirty.SAcc 0 [g] (Dirty.OArrCopyTo k))
  | 2 => Some (Dirty.SAcc 0 [g] (Dirty.OArrCopyFrom k))
  | 3 => Some (Dirty.SAcc 0 [g] (Dirty.OArrStore i))
  | 4 => Some (Dirty.SAcc 0 [g] (Dirty.OArrLoad i))
  (* the length of the slice is what a read with a buffer of any size >= len reports... the model of .len() is a_len:
     a read of the whole accessor, refused (ok = false) on an empty accessor only because Bytes::read rejects addr >= len;
     so the length is taken from the accessor directly *)
  | _ => None end.
Definition arr_len_chain (off n op i : N) : list Dirty.dop :=
  if op =? 5 then [Dirty.DGetArr off 0 n; Dirty.DRefAt i; Dirty.DToSlice] else [Dirty.DGetArr off 0 n; Dirty.DToSlice].
(* (class, count, changed, dirty) *)
Definition run_C18arr (ps size off n op i k : N) : N * N * list N * list N :=
  let r := arr_region ps size in
  match arr_step off n op i k with
  | Some s =>
      let '(rs', out) := Dirty.run_step 0 [r] s in
      ((if Dirty.o_ok out then 0 else 1), Dirty.o_count out,
       flat_map (fun e => if 0 <? Dirty.e_wn e then [Dirty.e_woff e] else []) (Dirty.o_effs out),
       dirty_idx rs')
  | None =>
      match Dirty.derive_chain (Dirty.root r) (arr_len_chain off n op i) with
      | Some a => (0, Dirty.a_len a, [], dirty_idx [r])
      | None => (1, 0, [], dirty_idx [r])
      end
  end.
Definition ok_C18arr (size off n op i k : N) (cl : N) (changed dirty : list N) : bool :=
  negb (cl =? 2) && is_nil changed && is_nil dirty &&
  (if (off <? size) && (n <=? ISZ_MAX) && (if op =? 0 then i + k <=? size else true) then cl =? 0 else true).
Definition wf_C18arr (ps size off n zsel op i k : N) : bool :=
  (0 <? ps) && (0 <? size) && (size <=? 1048576) && (off <? W64) && (n <? W64) && (zsel <=? 2) && (op <=? 6) &&
  (i <? W64) && (k <? W64) && (if (3 <=? op) && (op <=? 5) then i <? n else true) &&
  (* copy_to / copy_from visit min(k, n) elements one by one: keeps replayed / shrunk cases finite on the real crate *)
  (if (op =? 1) || (op =? 2) then N.min k n <=? 65536 else true).
Definition suite_C18arr (inp obs : list tok) : verdict :=
  match inp, obs with
  | [TN md; TN ps; TN size; TN off; TN n; TN zsel; TN op; TN i; TN k], [TN cl; TN cnt; TL changed; TL dirty] =>
      if wf_C18arr ps size off n zsel op i k then
        let '(mcl, mcnt, mch, md') := run_C18arr ps size off n op i k in
        {| v_model := [TN mcl; TN mcnt; TL mch; TL md']; v_ok := ok_C18arr size off n op i k cl changed dirty; v_wellformed := true |}
      else malformed
  | _, _ => malformed
  end.
