(* C15 suite glue: parse a trace line, run the model, judge the real observation.
   case:  mode kind size prot flags hasfile filelen start hasraw rawdelta hasbase base page cohere huge
   obs:   probe res size prot flags hasfile start samefd owned ptr pos d1 d2 coh1 coh2 huge *)
From VM Require Import Prelude.MachInt Prelude.Outcome Prelude.Tok Impl.MmapBuild Spec.C15.

Definition os_of (c : case15) (probe : N) : os :=
  {| os_page := c_page c;
     os_filesize := match c_file c with Some (flen, _) => flen | None => 0 end;
     os_mmap_ok := probe =? 1; os_ioctl_ok := true |}.

Definition fstart (c : case15) : option N :=
  match c_file c with Some (_, s) => Some s | None => None end.

(* the hint as the builder holds it / as the region reports it *)
Definition huge_opt (h : N) : option bool := match h with 0 => None | 1 => Some false | _ => Some true end.
Definition huge_code (h : option bool) : N := match h with None => 0 | Some false => 1 | Some true => 2 end.

(* the constructor call of the case, as transcribed in Impl/MmapBuild.v *)
Definition construct_region (c : case15) (o : os) : outcome (res region * list ev) :=
  let m := c_mode c in
  match c_kind c with
  | 0 => build m o {| q_size := c_size c; q_prot := c_prot c; q_flags := c_flags c;
                      q_file := fstart c; q_raw := c_raw c; q_huge := huge_opt (c_huge c) |}
  | 1 => mr_new m o (c_size c)
  | 2 => mr_from_file m o (match fstart c with Some s => s | None => 0 end) (c_size c)
  | 3 => mr_build m o (fstart c) (c_size c) (c_prot c) (c_flags c)
  | _ => mr_build_raw m o (match c_raw c with Some a => a | None => 0 end) (c_size c) (c_prot c) (c_flags c)
  end.

Definition construct (c : case15) (o : os) : outcome (res (region * option N) * list ev) :=
  if c_kind c =? 5 then
    let* (r, l) := from_range (c_mode c) o (match c_base c with Some b => b | None => 0 end)
                                (c_size c) (fstart c) in
    Val (match r with Ok (g, b) => Ok (g, Some b) | Err e => Err e end, l)
  else
    let* (r, l) := construct_region c o in
    match r with
    | Err e => Val (Err e, l)
    | Ok g =>
        match c_base c with
        | None => Val (Ok (g, None), l)
        | Some b =>
            let '(r2, l2) := guest_region_new g b in
            Val (match r2 with Ok (g', b') => Ok (g', Some b') | Err e => Err e end, l ++ l2)
        end
    end.

Definition round_up (x p : N) : N := ((x + p - 1) / p) * p.
(* bytes mapped according to the effect log (the kernel maps whole pages) *)
Fixpoint foot (p : N) (l : list ev) : Z :=
  match l with
  | [] => 0%Z
  | EvMmap s _ _ _ _ true :: r => (Z.of_N (round_up s p) + foot p r)%Z
  | EvMunmap s :: r => (foot p r - Z.of_N (round_up s p))%Z
  | _ :: r => foot p r
  end.
Definition has_rewind (l : list ev) : bool :=
  existsb (fun e => match e with EvRewind => true | _ => false end) l.

Definition obs_err (probe code : N) (pos d2 : N) : obs15 :=
  {| o_probe := probe; o_res := code; o_size := 0; o_prot := 0; o_flags := 0; o_hasfile := false;
     o_start := 0; o_samefd := false; o_owned := false; o_ptr := 0; o_pos := pos; o_d1 := 0;
     o_d2 := d2; o_coh1 := 2; o_coh2 := 2; o_huge := 0 |}.

(* the harness examines coherence exactly under this condition *)
Definition coh_tested (c : case15) (g : region) : bool :=
  c_cohere c && g_owned g && (match g_file g with Some _ => true | None => false end) &&
  negb (hasbit (g_flags g) MAP_ANONYMOUS) && (N.land (g_prot g) 3 =? 3) && (0 <? g_size g) && (g_size g <=? 1048576).

Definition run_C15 (c : case15) (probe : N) : obs15 :=
  let o := os_of c probe in
  match construct c o with
  | Val (r, l) =>
      let pos := match c_file c with Some _ => if has_rewind l then 0 else 7 | None => 0 end in
      match r with
      | Err e => obs_err probe (berr_code e) pos (Z.to_N (foot (c_page c) l))
      | Ok (g, _) =>
          let t := coh_tested c g in
          {| o_probe := probe; o_res := 0; o_size := g_size g; o_prot := g_prot g; o_flags := g_flags g;
             o_hasfile := match g_file g with Some _ => true | None => false end;
             o_start := match g_file g with Some s => s | None => 0 end;
             o_samefd := match g_file g with Some _ => true | None => false end;
             o_owned := g_owned g;
             o_ptr := match g_addr g with Some a => a | None => 0 end;
             o_pos := pos;
             o_d1 := Z.to_N (foot (c_page c) l);
             o_d2 := Z.to_N (foot (c_page c) (l ++ drop_region g));
             o_coh1 := if t then 1 else 2;
             (* region -> file only for a shared mapping; a private one keeps its writes *)
             o_coh2 := if t then (if hasbit (g_flags g) MAP_SHARED then 1 else 0) else 2;
             o_huge := huge_code (g_huge g) |}
      end
  | _ => obs_err probe 99 (match c_file c with Some _ => 7 | None => 0 end) 0
  end.

Definition enc15 (o : obs15) : list tok :=
  [TN (o_probe o); TN (o_res o); TN (o_size o); TN (o_prot o); TN (o_flags o); bool_tok (o_hasfile o);
   TN (o_start o); bool_tok (o_samefd o); bool_tok (o_owned o); TN (o_ptr o); TN (o_pos o);
   TN (o_d1 o); TN (o_d2 o); TN (o_coh1 o); TN (o_coh2 o); TN (o_huge o)].

Definition kind_ok (kind : N) (hasfile hasraw hasbase : bool) : bool :=
  match kind with
  | 0 => true
  | 1 => negb hasfile && negb hasraw
  | 2 => hasfile && negb hasraw
  | 3 => negb hasraw
  | 4 => hasraw && negb hasfile
  | 5 => negb hasraw && hasbase
  | _ => false end.

(* the hint is a builder method: only kind 0 can carry one *)
Definition huge_ok (kind huge : N) : bool := (huge <? 3) && ((kind =? 0) || (huge =? 0)).

Definition is_pow2_page (p : N) : bool := (p =? 4096) || (p =? 16384) || (p =? 65536).

Definition suite_C15 (inp obs : list tok) : verdict :=
  match inp, obs with
  | [TN md; TN kind; TN size; TN prot; TN flags; TN hasfile; TN flen; TN start; TN hasraw; TN raw;
     TN hasbase; TN base; TN page; TN coh; TN huge],
    [TN probe; TN res; TN osz; TN oprot; TN oflags; TN ohf; TN ostart; TN osame; TN oown; TN optr;
     TN opos; TN d1; TN d2; TN c1; TN c2; TN ohuge] =>
      let hf := negb (hasfile =? 0) in let hr := negb (hasraw =? 0) in let hb := negb (hasbase =? 0) in
      if kind_ok kind hf hr hb && (size <? W64) && (prot <? 4294967296) && (flags <? 4294967296) &&
         (flen <? W64) && (start <? W64) && (raw <? W64) && (base <? W64) && is_pow2_page page &&
         (probe <? 3) && huge_ok kind huge
      then
        let c := {| c_mode := if md =? 0 then Debug else Release; c_kind := kind; c_size := size;
                    c_prot := prot; c_flags := flags;
                    c_file := if hf then Some (flen, start) else None;
                    c_raw := if hr then Some raw else None;
                    c_base := if hb then Some base else None;
                    c_page := page; c_cohere := negb (coh =? 0); c_huge := huge |} in
        let o := {| o_probe := probe; o_res := res; o_size := osz; o_prot := oprot; o_flags := oflags;
                    o_hasfile := negb (ohf =? 0); o_start := ostart; o_samefd := negb (osame =? 0);
                    o_owned := negb (oown =? 0); o_ptr := optr; o_pos := opos; o_d1 := d1; o_d2 := d2;
                    o_coh1 := c1; o_coh2 := c2; o_huge := ohuge |} in
        {| v_model := enc15 (run_C15 c probe); v_ok := ok_C15 c o; v_wellformed := true |}
      else malformed
  | _, _ => malformed end.

(* ------------------------------------------------------------------ Xen build
   case:  mode size hasfile filelen start hasprot prot hasflags flags addr mflags mdata hasbase base page ioctl
   obs:   probe res size prot flags hasfile start samefd xflags xdata ptrnull pos d1 d2 [ev*] live *)
From VM Require Import Impl.Xen.

Definition os_of_x (c : case15x) (probe : N) : os :=
  {| os_page := cx_page c;
     os_filesize := match cx_file c with Some (flen, _) => flen | None => 0 end;
     os_mmap_ok := probe =? 1; os_ioctl_ok := cx_ioctl c |}.

Definition range_of (c : case15x) : xrange :=
  {| x_size := cx_size c; x_file := match cx_file c with Some (_, s) => Some s | None => None end;
     x_prot := cx_prot c; x_flags := cx_flags c; x_addr := cx_addr c; x_mflags := cx_mflags c;
     x_mdata := cx_mdata c |}.

Definition construct_x (c : case15x) (o : os) : outcome (res xregion * list ev) :=
  let* (r, l) := xen_from_range (cx_mode c) o (range_of c) in
  match r with
  | Err e => Val (Err e, l)
  | Ok g =>
      match cx_base c with
      | None => Val (Ok g, l)
      | Some b => let* (r2, l2) := xen_guest_region_new (cx_mode c) o g b in Val (r2, l ++ l2)
      end
  end.

Definition enc_xev (e : ev) : list N :=
  match e with
  | EvIoctlMap g c i true => [1; g; c; i]
  | EvIoctlUnmap i c => [2; i; c]
  | EvIoctlForeign c ok => [3; c; if ok then 1 else 0]
  | _ => [] end.

Definition obs_err_x (probe code pos d2 : N) (evs : list N) (live : N) : obs15x :=
  {| ox_probe := probe; ox_res := code; ox_size := 0; ox_prot := 0; ox_flags := 0; ox_hasfile := false;
     ox_start := 0; ox_samefd := false; ox_xflags := 0; ox_xdata := 0; ox_ptrnull := false; ox_pos := pos;
     ox_d1 := 0; ox_d2 := d2; ox_evs := evs; ox_live := live |}.

Definition run_C15x (c : case15x) (probe : N) : obs15x :=
  let o := os_of_x c probe in
  match construct_x c o with
  | Val (r, l) =>
      let pos := match cx_file c with Some _ => if has_rewind l then 0 else 7 | None => 0 end in
      match r with
      | Err e => obs_err_x probe (berr_code e) pos (Z.to_N (foot (cx_page c) l)) (flat_map enc_xev l)
                           (N.of_nat (length (live_after [] l)))
      | Ok g =>
          match xen_drop (cx_mode c) o g with
          | Val ld =>
            {| ox_probe := probe; ox_res := 0; ox_size := xr_size g; ox_prot := xr_prot g;
               ox_flags := xr_flags g;
               ox_hasfile := match xr_file g with Some _ => true | None => false end;
               ox_start := match xr_file g with Some s => s | None => 0 end;
               ox_samefd := match xr_file g with Some _ => true | None => false end;
               ox_xflags := xr_mflags g; ox_xdata := xr_mdata g;
               ox_ptrnull := match xr_mapped g with None => true | Some _ => false end;
               ox_pos := pos; ox_d1 := Z.to_N (foot (cx_page c) l);
               ox_d2 := Z.to_N (foot (cx_page c) (l ++ ld));
               ox_evs := flat_map enc_xev (l ++ ld);
               ox_live := N.of_nat (length (live_after [] (l ++ ld))) |}
          | _ => obs_err_x probe 99 pos 0 [] 0
          end
      end
  | _ => obs_err_x probe 99 (match cx_file c with Some _ => 7 | None => 0 end) 0 [] 0
  end.

Definition enc15x (o : obs15x) : list tok :=
  [TN (ox_probe o); TN (ox_res o); TN (ox_size o); TN (ox_prot o); TN (ox_flags o); bool_tok (ox_hasfile o);
   TN (ox_start o); bool_tok (ox_samefd o); TN (ox_xflags o); TN (ox_xdata o); bool_tok (ox_ptrnull o);
   TN (ox_pos o); TN (ox_d1 o); TN (ox_d2 o); TL (ox_evs o); TN (ox_live o)].

Definition suite_C15xen (inp obs : list tok) : verdict :=
  match inp, obs with
  | [TN md; TN size; TN hasfile; TN flen; TN start; TN hasprot; TN prot; TN hasflags; TN flags; TN addr;
     TN mflags; TN mdata; TN hasbase; TN base; TN page; TN ioc],
    [TN probe; TN res; TN osz; TN oprot; TN oflags; TN ohf; TN ostart; TN osame; TN oxf; TN oxd; TN onull;
     TN opos; TN d1; TN d2; TL evs; TN live] =>
      if (size <? W64) && (prot <? 4294967296) && (flags <? 4294967296) && (flen <? W64) && (start <? W64) &&
         (addr <? W64) && (base <? W64) && (mflags <? 4294967296) && (mdata <? 4294967296) &&
         is_pow2_page page && (probe <? 3)
      then
        let c := {| cx_mode := if md =? 0 then Debug else Release; cx_size := size;
                    cx_file := if negb (hasfile =? 0) then Some (flen, start) else None;
                    cx_prot := if negb (hasprot =? 0) then Some prot else None;
                    cx_flags := if negb (hasflags =? 0) then Some flags else None;
                    cx_addr := addr; cx_mflags := mflags; cx_mdata := mdata;
                    cx_base := if negb (hasbase =? 0) then Some base else None;
                    cx_page := page; cx_ioctl := negb (ioc =? 0) |} in
        let o := {| ox_probe := probe; ox_res := res; ox_size := osz; ox_prot := oprot; ox_flags := oflags;
                    ox_hasfile := negb (ohf =? 0); ox_start := ostart; ox_samefd := negb (osame =? 0);
                    ox_xflags := oxf; ox_xdata := oxd; ox_ptrnull := negb (onull =? 0); ox_pos := opos;
                    ox_d1 := d1; ox_d2 := d2; ox_evs := evs; ox_live := live |} in
        {| v_model := enc15x (run_C15x c probe); v_ok := ok_C15x c o; v_wellformed := true |}
      else malformed
  | _, _ => malformed end.

Definition suite_C15xenfind (inp obs : list tok) : verdict := suite_C15xen inp obs.
