(* C02 suite glue: parse a trace line, run the model (GuestMemory defaults over the linear
   find_region), judge the real observation.
   case:  kind(0 GuestMemoryMmap, 1 MockMem (region type writes get_host_address and get_slice itself),
          2 file-backed GuestMemoryMmap, 3 mock region type that writes only get_host_address (inherits
          get_slice), 4 writes only get_slice (inherits get_host_address), 5 writes neither)
          mode [starts] [lens] op a b c
   obs :  k x y z            (op 9 QIter:  k x y z [starts] [lens]) *)
From VM Require Import Prelude.MachInt Prelude.Outcome Prelude.Tok Impl.Address Impl.Guest Spec.C02.

Definition qop_of (n : N) : option qop :=
  match n with
  | 0 => Some QFind | 1 => Some QToRegionAddr | 2 => Some QAddressInRange | 3 => Some QCheckAddress
  | 4 => Some QCheckedOffset | 5 => Some QCheckRange | 6 => Some QLastAddr | 7 => Some QHostAddress
  | 8 => Some QGetSlice | 9 => Some QIter | 10 => Some RLastAddr | 11 => Some RAddressInRange
  | 12 => Some RCheckAddress | 13 => Some RCheckedOffset | 14 => Some RToRegionAddr
  | 15 => Some RHostAddress | 16 => Some RGetSlice | 17 => Some RAsVolatileSlice | 18 => Some RFileOffset
  | _ => None end.
(* which capability methods the region type of an implementor kind writes itself *)
Definition kind_host (kind : N) : bool := negb ((kind =? 4) || (kind =? 5)).
Definition kind_slice (kind : N) : bool := negb ((kind =? 3) || (kind =? 5)).

Definition mk (k x y z : N) : obs02 := {| o2_k := k; o2_x := x; o2_y := y; o2_z := z; o2_l1 := []; o2_l2 := [] |}.
Definition o_none : obs02 := mk 0 0 0 0.
Definition o_panic : obs02 := mk 3 0 0 0.
Definition o_opt (o : option N) : obs02 := match o with Some v => mk 1 v 0 0 | None => o_none end.
Definition o_bool (b : bool) : obs02 := mk (if b then 1 else 0) 0 0 0.
Definition o_out {A} (f : A -> obs02) (x : outcome A) : obs02 := match x with Val a => f a | _ => o_panic end.

(* the implementation model's observation *)
Definition run_C02 (c : case02) : obs02 :=
  let L := c2_L c in let a := c2_a c in let b := c2_b c in let m := c2_mode c in
  let r := nthr L a in
  match c2_op c with
  | QFind => match find_lin L a with Some i => mk 1 (N.of_nat i) 0 0 | None => o_none end
  | QToRegionAddr =>
      o_out (fun o => match o with Some (i, off) => mk 1 (N.of_nat i) off 0 | None => o_none end)
            (gm_to_region_addr find_lin L a)
  | QAddressInRange => o_bool (gm_address_in_range find_lin L a)
  | QCheckAddress => o_opt (gm_check_address find_lin L a)
  | QCheckedOffset => o_opt (gm_checked_offset find_lin L a b)
  | QCheckRange => o_out o_bool (gm_check_range find_lin m L a b)
  | QLastAddr => o_out (fun v => mk 1 v 0 0) (gm_last_addr m L)
  | QHostAddress =>
      o_out (fun o => match o with inl (i, off) => mk 1 (N.of_nat i) off 0 | inr e => mk 2 (err_code e) 0 0 end)
            (gm_get_host_address_fl find_lin (c2_host c) L a)
  | QGetSlice =>
      o_out (fun o => match o with inl (i, off, n) => mk 1 (N.of_nat i) off n | inr e => mk 2 (err_code e) 0 0 end)
            (gm_get_slice_fl find_lin (c2_slice c) L a b)
  | QIter => {| o2_k := 1; o2_x := gm_num_regions L; o2_y := 0; o2_z := 0;
                o2_l1 := map fst (gm_iter L); o2_l2 := map snd (gm_iter L) |}
  | RLastAddr => o_out (fun v => mk 1 v 0 0) (r_last_addr m (fst r) (snd r))
  | RAddressInRange => o_bool (r_address_in_range (snd r) b)
  | RCheckAddress => o_opt (r_check_address (snd r) b)
  | RCheckedOffset => o_opt (r_checked_offset (snd r) b (c2_c c))
  | RToRegionAddr => o_opt (r_to_region_addr (fst r) (snd r) b)
  | RHostAddress =>
      match fl_get_host_address (c2_host c) (snd r) b with
      | inl p => mk 1 p 0 0 | inr e => mk 2 (err_code e) 0 0 end
  | RGetSlice =>
      match fl_get_slice (c2_slice c) (snd r) b (c2_c c) with
      | inl (p, n) => mk 1 p n 0 | inr e => mk 2 (err_code e) 0 0 end
  | RAsVolatileSlice =>
      match fl_as_volatile_slice (c2_slice c) (snd r) with
      | inl (p, n) => mk 1 p n 0 | inr e => mk 2 (err_code e) 0 0 end
  | RFileOffset => o_opt rd_file_offset
  end.

Definition enc02 (op : qop) (o : obs02) : list tok :=
  [TN (o2_k o); TN (o2_x o); TN (o2_y o); TN (o2_z o)] ++
  match op with QIter => [TL (o2_l1 o); TL (o2_l2 o)] | _ => [] end.

Definition is_rop (op : qop) : bool :=
  match op with
  | RLastAddr | RAddressInRange | RCheckAddress | RCheckedOffset | RToRegionAddr
  | RHostAddress | RGetSlice | RAsVolatileSlice | RFileOffset => true
  | _ => false end.

Definition u64b (x : N) : bool := x <? W64.

Definition suite_C02 (inp obs : list tok) : verdict :=
  match inp with
  | [TN kind; TN md; TL starts; TL lens; TN op; TN a; TN b; TN c] =>
      match qop_of op with
      | Some op' =>
          if (length starts =? length lens)%nat && forallb u64b starts && forallb u64b lens
             && u64b a && u64b b && u64b c
             && (if is_rop op' then a <? N.of_nat (length starts) else true)
             && (kind <=? 5) then
            let cs := {| c2_mode := if md =? 0 then Debug else Release; c2_L := combine starts lens;
                         c2_op := op'; c2_a := a; c2_b := b; c2_c := c;
                         c2_host := kind_host kind; c2_slice := kind_slice kind |} in
            let ro := match obs with
                      | [TN k; TN x; TN y; TN z] => Some (mk k x y z)
                      | [TN k; TN x; TN y; TN z; TL l1; TL l2] =>
                          Some {| o2_k := k; o2_x := x; o2_y := y; o2_z := z; o2_l1 := l1; o2_l2 := l2 |}
                      | _ => None end in
            match ro with
            | Some o => {| v_model := enc02 op' (run_C02 cs); v_ok := (o2_k o <? 10) && ok_C02 cs o;   (* kind 10: trait route and method-call route disagree *) v_wellformed := true |}
            | None => malformed end
          else malformed
      | None => malformed end
  | _ => malformed end.
