(* C19 suite glue: parse a trace line, run the model, judge the real observation. *)
From VM Require Import Prelude.MachInt Prelude.Outcome Prelude.Tok Impl.Address Spec.C19.

Definition aop_of (n : N) : option aop :=
  match n with
  | 0 => Some OpCheckedAdd | 1 => Some OpCheckedSub | 2 => Some OpCheckedOffsetFrom
  | 3 => Some OpOverflowingAdd | 4 => Some OpOverflowingSub | 5 => Some OpCheckedAlignUp
  | 6 => Some OpMask | 7 => Some OpBitAnd | 8 => Some OpBitOr | 9 => Some OpCmp | 10 => Some OpEq
  | 11 => Some OpUncheckedAdd | 12 => Some OpUncheckedSub | 13 => Some OpUncheckedOffsetFrom
  | 14 => Some OpUncheckedAlignUp
  | 15 => Some OpPartialCmp | 16 => Some OpLt | 17 => Some OpLe | 18 => Some OpGt | 19 => Some OpGe
  | 20 => Some OpNe | 21 => Some OpMax | 22 => Some OpMin | 23 => Some OpClamp | 24 => Some OpEqSym
  | _ => None end.

Definition of_opt (o : option N) : obs19 :=
  match o with Some v => {| o_kind := 1; o_val := v; o_flag := false |}
             | None => {| o_kind := 0; o_val := 0; o_flag := false |} end.
Definition of_val (v : N) : obs19 := {| o_kind := 1; o_val := v; o_flag := false |}.
Definition of_out (o : outcome N) : obs19 :=
  match o with Val v => of_val v | _ => {| o_kind := 2; o_val := 0; o_flag := false |} end.

(* the implementation model's observation *)
Definition run_C19 (c : case19) : obs19 :=
  let a := c_a c in let b := c_b c in let m := c_mode c in
  match c_op c with
  | OpCheckedAdd => of_opt (a_checked_add a b)
  | OpCheckedSub => of_opt (a_checked_sub a b)
  | OpCheckedOffsetFrom => of_opt (a_checked_offset_from a b)
  | OpOverflowingAdd => let '(v, f) := a_overflowing_add a b in {| o_kind := 1; o_val := v; o_flag := f |}
  | OpOverflowingSub => let '(v, f) := a_overflowing_sub a b in {| o_kind := 1; o_val := v; o_flag := f |}
  | OpCheckedAlignUp =>
      match a_checked_align_up m a b with
      | Val o => of_opt o | _ => {| o_kind := 2; o_val := 0; o_flag := false |} end
  | OpMask => of_val (a_mask a b)
  | OpBitAnd => of_val (a_bitand a b)
  | OpBitOr => of_val (a_bitor a b)
  | OpCmp => of_val (a_cmp a b)
  | OpEq => of_val (if a_eq a b then 1 else 0)
  | OpUncheckedAdd => of_out (a_unchecked_add m a b)
  | OpUncheckedSub => of_out (a_unchecked_sub m a b)
  | OpUncheckedOffsetFrom => of_out (a_unchecked_offset_from m a b)
  | OpUncheckedAlignUp => of_out (a_unchecked_align_up m a b)
  | OpPartialCmp => of_opt (a_partial_cmp a b)
  | OpLt => of_val (if a_lt a b then 1 else 0)
  | OpLe => of_val (if a_le a b then 1 else 0)
  | OpGt => of_val (if a_gt a b then 1 else 0)
  | OpGe => of_val (if a_ge a b then 1 else 0)
  | OpNe => of_val (if a_ne a b then 1 else 0)
  | OpMax => of_val (a_max a b)
  | OpMin => of_val (a_min a b)
  | OpClamp => of_out (a_clamp a b (c_c c))
  | OpEqSym => of_val (if a_eq b a then 1 else 0)
  end.

Definition enc19 (o : obs19) : list tok := [TN (o_kind o); TN (o_val o); bool_tok (o_flag o)].

(* case: mode op a b     or   mode op a b c   (c: third operand, read by clamp only; 0 when absent) *)
Definition at_suite_C19 (md op a b cc : N) (obs : list tok) : verdict :=
  match obs with
  | [TN k; TN v; TN f] =>
      match aop_of op with
      | Some op' =>
          if (a <? W64) && (b <? W64) && (cc <? W64) then
          let c := {| c_mode := if md =? 0 then Debug else Release; c_op := op'; c_a := a; c_b := b; c_c := cc |} in
          let o := {| o_kind := k; o_val := v; o_flag := negb (f =? 0) |} in
          {| v_model := enc19 (run_C19 c); v_ok := (k <? 9) && ok_C19 c o;   (* kinds 9 / 10: the two types resp. the two call routes disagree *) v_wellformed := true |}
          else malformed
      | None => malformed end
  | _ => malformed end.
Definition suite_C19 (inp obs : list tok) : verdict :=
  match inp with
  | [TN md; TN op; TN a; TN b] => at_suite_C19 md op a b 0 obs
  | [TN md; TN op; TN a; TN b; TN cc] => at_suite_C19 md op a b cc obs
  | _ => malformed end.
