(* C04 suite glue: run a history on the implementation model (Impl/VolMem.v), parse trace
   lines, judge the real observation with the spec checker.

   case:  kind mode hbm pre n post seed  { opcode tsize tbe a b c d [list] }*
   obs :  { kind n [buf] [diff positions] [diff bytes] }*
   (values of types wider than 16 bytes travel as byte lists, see "WIDE types" below)        *)
From VM Require Import Prelude.MachInt Prelude.Outcome Prelude.Tok Impl.VolMem Spec.C04.

Definition vt (t : sty) : vty := {| ty_size := st_size t; ty_be := st_be t |}.
Definition kind_of_err (e : verr) : N :=
  match e with EOutOfBounds => 1 | EOverflow => 2 | EPartialBuffer => 3 | EMisaligned => 4
             | ETooBig => 5 | EInvalidBackendAddress => 6 end.

(* what one operation did according to the model *)
Record mout := { mo_kind : N; mo_n : N; mo_buf : list N; mo_heap : heap }.
Definition m_ok (h : heap) (n : N) (buf : list N) : mout :=
  {| mo_kind := 0; mo_n := n; mo_buf := buf; mo_heap := h |}.
Definition m_err (h : heap) (e : verr) (buf : list N) : mout :=
  {| mo_kind := kind_of_err e; mo_n := 0; mo_buf := buf; mo_heap := h |}.
Definition m_panic (h : heap) (buf : list N) : mout :=
  {| mo_kind := 7; mo_n := 0; mo_buf := buf; mo_heap := h |}.

(* how the harness reaches the container's VolatileSlice:
   0: the VolatileSlice itself; 1: MmapRegion::as_volatile_slice() (VolatileMemory, unwraps);
   2: GuestRegionMmap: Bytes<MemoryRegionAddress> (mmap/mod.rs:171, as_volatile_slice().unwrap()
      + map_err(Into::into)); the other accessors through region.as_volatile_slice().unwrap() *)
Definition cslice (k : N) (r : mmap_region) : outcome vslice :=
  if k =? 0 then Val {| vs_addr := mr_addr r; vs_size := mr_size r |}
  else if k =? 1 then mr_as_volatile_slice r
  else match grm_as_volatile_slice r with Ok s => Val s | Err _ => Panic 192 end.
(* store/load of GuestRegionMmap use and_then instead of unwrap (mmap/mod.rs:303, :314) *)
Definition cslice_res (k : N) (r : mmap_region) : outcome (result vslice) :=
  if k =? 2 then Val (grm_as_volatile_slice r) else omap Ok (cslice k r).
Definition emap (k : N) (e : verr) : verr := if k =? 2 then gm_err e else e.

Definition out_unit (k : N) (h : heap) (buf : list N) (r : result unit) : mout :=
  match r with Ok _ => m_ok h 0 buf | Err e => m_err h (emap k e) buf end.
Definition out_n (k : N) (h : heap) (buf : list N) (r : result N) : mout :=
  match r with Ok n => m_ok h n buf | Err e => m_err h (emap k e) buf end.

Definition step_body (k : N) (m : mode) (hb : N) (r : mmap_region) (h : heap) (o : op) : outcome mout :=
  match o with
  | OWrite buf addr =>
      let* s := cslice k r in
      let '(h', res) := vs_write hb h s buf addr in Val (out_n k h' [] res)
  | ORead buf addr =>
      let* s := cslice k r in
      let '(b', res) := vs_read hb h s buf addr in Val (out_n k h b' res)
  | OWriteSlice buf addr =>
      let* s := cslice k r in
      let '(h', res) := vs_write_slice hb h s buf addr in Val (out_unit k h' [] res)
  | OReadSlice buf addr =>
      let* s := cslice k r in
      let '(b', res) := vs_read_slice hb h s buf addr in Val (out_unit k h b' res)
  | OWriteObj t v addr =>
      let* s := cslice k r in
      let '(h', res) := vs_write_obj hb h s (vt t) v addr in Val (out_unit k h' [] res)
  | OReadObj t addr =>
      let* s := cslice k r in Val (out_n k h [] (vs_read_obj hb h s (vt t) addr))
  | OStore t v addr =>
      let* so := cslice_res k r in
      match so with
      | Err e => Val (m_err h e [])
      | Ok s => let* x := vs_store m hb h s (vt t) v addr in Val (out_unit k (fst x) [] (snd x))
      end
  | OLoad t addr =>
      let* so := cslice_res k r in
      match so with
      | Err e => Val (m_err h e [])
      | Ok s => let* x := vs_load m hb h s (vt t) addr in Val (out_n k h [] x)
      end
  | ORefStore t v off =>
      let* s := cslice k r in
      let* ra := vs_get_ref s (st_size t) off in
      match ra with
      | Err e => Val (m_err h e [])
      | Ok a => Val (m_ok (vr_store h a (vt t) v) 0 [])
      end
  | ORefLoad t off =>
      let* s := cslice k r in
      let* ra := vs_get_ref s (st_size t) off in
      match ra with
      | Err e => Val (m_err h e [])
      | Ok a => Val (m_ok h (vr_load h a (vt t)) [])
      end
  | OArrStore t off cnt idx v =>
      let* s := cslice k r in
      let* ra := vs_get_array_ref s (st_size t) off cnt in
      match ra with
      | Err e => Val (m_err h e [])
      | Ok a => let* h' := va_store m h a (vt t) idx v in Val (m_ok h' 0 [])
      end
  | OArrLoad t off cnt idx =>
      let* s := cslice k r in
      let* ra := vs_get_array_ref s (st_size t) off cnt in
      match ra with
      | Err e => Val (m_err h e [])
      | Ok a => let* v := va_load m h a (vt t) idx in Val (m_ok h v [])
      end
  | OArrCopyTo t off cnt buf =>
      let* s := cslice k r in
      let* ra := vs_get_array_ref s (st_size t) off cnt in
      match ra with
      | Err e => Val (m_err h e buf)
      | Ok a => let* x := va_copy_to m h a (vt t) buf in Val (m_ok h (snd x) (fst x))
      end
  | OArrCopyFrom t off cnt buf =>
      let* s := cslice k r in
      let* ra := vs_get_array_ref s (st_size t) off cnt in
      match ra with
      | Err e => Val (m_err h e [])
      | Ok a => let* h' := va_copy_from m h a (vt t) buf in Val (m_ok h' 0 [])
      end
  | OArrCopyToVs t off cnt off2 cnt2 =>
      let* s := cslice k r in
      let* ra := vs_get_array_ref s (st_size t) off cnt in
      match ra with
      | Err e => Val (m_err h e [])
      | Ok a =>
        match vs_get_slice s off2 cnt2 with
        | Err e => Val (m_err h e [])
        | Ok d => let* h' := va_copy_to_volatile_slice m h a (st_size t) d in Val (m_ok h' 0 [])
        end
      end
  | OSlCopyTo t off cnt buf =>
      let* s := cslice k r in
      match vs_get_slice s off cnt with
      | Err e => Val (m_err h e buf)
      | Ok sl => let* x := vs_copy_to m h sl (vt t) buf in Val (m_ok h (snd x) (fst x))
      end
  | OSlCopyFrom t off cnt buf =>
      let* s := cslice k r in
      match vs_get_slice s off cnt with
      | Err e => Val (m_err h e [])
      | Ok sl => let* h' := vs_copy_from m h sl (vt t) buf in Val (m_ok h' 0 [])
      end
  | OSlCopyToVs off cnt off2 cnt2 =>
      let* s := cslice k r in
      match vs_get_slice s off cnt with
      | Err e => Val (m_err h e [])
      | Ok sl =>
        match vs_get_slice s off2 cnt2 with
        | Err e => Val (m_err h e [])
        | Ok d => Val (m_ok (vs_copy_to_volatile_slice h sl d) 0 [])
        end
      end
  end.

(* the caller's buffer of an operation (what it still holds if the call panics) *)
Definition op_buf (o : op) : list N :=
  match o with
  | ORead buf _ | OReadSlice buf _ | OArrCopyTo _ _ _ buf | OSlCopyTo _ _ _ buf => buf
  | _ => []
  end.

Definition model_step (k : N) (m : mode) (hb : N) (r : mmap_region) (h : heap) (o : op) : mout :=
  match step_body k m hb r h o with Val x => x | _ => m_panic h (op_buf o) end.

Definition obs_of (h : heap) (x : mout) : obs04 :=
  let '(di, dv) := diff_from 0 h (mo_heap x) in
  {| o_kind := mo_kind x; o_n := mo_n x; o_buf := mo_buf x; o_di := di; o_dv := dv |}.

Fixpoint run_hist (k : N) (m : mode) (hb : N) (r : mmap_region) (h : heap) (ops : list op) {struct ops}
  : list obs04 :=
  match ops with
  | [] => []
  | o :: ops' => let x := model_step k m hb r h o in obs_of h x :: run_hist k m hb r (mo_heap x) ops'
  end.

(* the heap after a history *)
Fixpoint heap_after (k : N) (m : mode) (hb : N) (r : mmap_region) (h : heap) (ops : list op) {struct ops} : heap :=
  match ops with
  | [] => h
  | o :: ops' => heap_after k m hb r (mo_heap (model_step k m hb r h o)) ops'
  end.

Definition run_C04 (c : case04) : list obs04 :=
  run_hist (c_kind c) (c_mode c) (c_hb c) {| mr_addr := c_pre c; mr_size := c_n c |} (c_heap c) (c_ops c).

(* ---- well-formed cases (the domain of the theorems; the suite rejects everything else) ---- *)
Definition wf_ty (t : sty) : bool := st_size t <=? 256.
Definition wf_aty (t : sty) : bool :=
  (st_size t =? 1) || (st_size t =? 2) || (st_size t =? 4) || (st_size t =? 8).
Definition wf_val (t : sty) (v : N) : bool := v <? 256 ^ st_size t.
Definition wf_buf (b : list N) : bool := slen b <? W64.
Definition wf_op (o : op) : bool :=
  match o with
  | OWrite buf addr | ORead buf addr | OWriteSlice buf addr | OReadSlice buf addr =>
      wf_buf buf && (addr <? W64)
  | OWriteObj t v addr => wf_ty t && (addr <? W64)
  | OReadObj t addr => wf_ty t && (addr <? W64)
  | OStore t v addr => wf_aty t && (addr <? W64)
  | OLoad t addr => wf_aty t && (addr <? W64)
  | ORefStore t v off => wf_ty t && (off <? W64)
  | ORefLoad t off => wf_ty t && (off <? W64)
  | OArrStore t off cnt idx v => wf_ty t && (off <? W64) && (cnt <? W64) && (idx <? W64)
  | OArrLoad t off cnt idx => wf_ty t && (off <? W64) && (cnt <? W64) && (idx <? W64)
  | OArrCopyTo t off cnt buf | OArrCopyFrom t off cnt buf | OSlCopyTo t off cnt buf
  | OSlCopyFrom t off cnt buf =>
      wf_ty t && (off <? W64) && (cnt <? W64) && wf_buf buf && forallb (wf_val t) buf
  | OArrCopyToVs t off cnt off2 cnt2 =>
      wf_ty t && (off <? W64) && (cnt <? W64) && (off2 <? W64) && (cnt2 <? W64)
  | OSlCopyToVs off cnt off2 cnt2 => (off <? W64) && (cnt <? W64) && (off2 <? W64) && (cnt2 <? W64)
  end.
Definition wf_case (c : case04) : bool :=
  (c_kind c <=? 2) && (c_pre c + c_n c <=? slen (c_heap c)) && (c_hb c + slen (c_heap c) <=? ISZ_MAX)
  && forallb wf_op (c_ops c).

(* ---- tokens ---- *)
Fixpoint init_heap (k : nat) (i seed : N) {struct k} : list N :=
  match k with
  | O => []
  | S k' => (seed + i * 7 + i / 64) mod 256 :: init_heap k' (i + 1) seed
  end.

Definition mk_op (code : N) (t : sty) (a b c d : N) (l : list N) : option op :=
  match code with
  | 0 => Some (OWrite l a) | 1 => Some (ORead l a) | 2 => Some (OWriteSlice l a) | 3 => Some (OReadSlice l a)
  | 4 => Some (OWriteObj t b a) | 5 => Some (OReadObj t a)
  | 6 => Some (OStore t b a) | 7 => Some (OLoad t a)
  | 8 => Some (ORefStore t b a) | 9 => Some (ORefLoad t a)
  | 10 => Some (OArrStore t a b c d) | 11 => Some (OArrLoad t a b c)
  | 12 => Some (OArrCopyTo t a b l) | 13 => Some (OArrCopyFrom t a b l)
  | 14 => Some (OArrCopyToVs t a b c d)
  | 15 => Some (OSlCopyTo t a b l) | 16 => Some (OSlCopyFrom t a b l)
  | 17 => Some (OSlCopyToVs a b c d)
  | _ => None
  end.
(* WIDE types (more than 16 bytes: [u8;17] ... [u64;32]): a value does not fit a number token of
   the harness (u128), so it travels as its memory image (little-endian byte list):
     in a case  - the value of write_obj / ref store / array store is the list token (b / d = 0);
                  an element buffer is the concatenation of the images of its elements;
     in an obs  - a loaded value is the buf token (n = 0; empty when the call failed);
                  an element buffer after the call is the concatenation of the images. *)
Definition wide (t : sty) : bool := 16 <? st_size t.
Fixpoint chunks_of (fuel : nat) (k : nat) (l : list N) {struct fuel} : list (list N) :=
  match fuel with
  | O => []
  | S f => match l with [] => [] | _ => firstn k l :: chunks_of f k (skipn k l) end
  end.
Definition vals_of_bytes (t : sty) (l : list N) : list N :=
  map num_le (chunks_of (length l) (N.to_nat (st_size t)) l).
Definition bytes_of_vals (t : sty) (l : list N) : list N :=
  concat (map (bytes_le (N.to_nat (st_size t))) l).
Definition all_bytes (l : list N) : bool := forallb (fun x => x <? 256) l.

Definition mk_op_w (code : N) (t : sty) (a b c d : N) (l : list N) : option op :=
  if wide t then
    if all_bytes l then
      match code with
      | 4 | 8 => if slen l =? st_size t then mk_op code t a (num_le l) c d [] else None
      | 10 => if slen l =? st_size t then mk_op code t a b c (num_le l) [] else None
      | 12 | 13 | 15 | 16 =>
          if slen l mod st_size t =? 0 then mk_op code t a b c d (vals_of_bytes t l) else None
      | _ => mk_op code t a b c d l
      end
    else None
  else mk_op code t a b c d l.

Fixpoint parse_ops (ts : list tok) {struct ts} : option (list op) :=
  match ts with
  | [] => Some []
  | TN code :: TN tsz :: TN tbe :: TN a :: TN b :: TN c :: TN d :: TL l :: rest =>
      match mk_op_w code {| st_size := tsz; st_be := N.odd tbe |} a b c d l, parse_ops rest with
      | Some o, Some os => Some (o :: os)
      | _, _ => None
      end
  | _ => None
  end.

(* how the observation of an operation travels: 0 as it is, 1 loaded wide value in buf,
   2 wide element buffer as bytes *)
Definition obs_codec (o : op) : N * sty :=
  match o with
  | OReadObj t _ | ORefLoad t _ | OArrLoad t _ _ _ => (if wide t then 1 else 0, t)
  | OArrCopyTo t _ _ _ | OSlCopyTo t _ _ _ => (if wide t then 2 else 0, t)
  | _ => (0, {| st_size := 0; st_be := false |})
  end.
Definition dec_obs1 (o : op) (k n : N) (b di dv : list N) : obs04 :=
  let '(cd, t) := obs_codec o in
  if cd =? 1 then {| o_kind := k; o_n := n + num_le b; o_buf := []; o_di := di; o_dv := dv |}
  else if cd =? 2 then {| o_kind := k; o_n := n; o_buf := vals_of_bytes t b; o_di := di; o_dv := dv |}
  else {| o_kind := k; o_n := n; o_buf := b; o_di := di; o_dv := dv |}.
Definition enc_obs1 (o : op) (x : obs04) : list tok :=
  let '(cd, t) := obs_codec o in
  if cd =? 1 then
    [TN (o_kind x); TN 0; TL (if o_kind x =? 0 then bytes_le (N.to_nat (st_size t)) (o_n x) else o_buf x);
     TL (o_di x); TL (o_dv x)]
  else if cd =? 2 then [TN (o_kind x); TN (o_n x); TL (bytes_of_vals t (o_buf x)); TL (o_di x); TL (o_dv x)]
  else [TN (o_kind x); TN (o_n x); TL (o_buf x); TL (o_di x); TL (o_dv x)].

Fixpoint parse_obs (ops : list op) (ts : list tok) {struct ts} : option (list obs04) :=
  match ts with
  | [] => Some []
  | TN k :: TN n :: TL b :: TL di :: TL dv :: rest =>
      match ops with
      | o :: ops' =>
          match parse_obs ops' rest with
          | Some os => Some (dec_obs1 o k n b di dv :: os)
          | None => None
          end
      | [] => None
      end
  | _ => None
  end.
Fixpoint enc_obs (ops : list op) (os : list obs04) {struct os} : list tok :=
  match os with
  | [] => []
  | x :: r =>
      match ops with
      | o :: ops' => enc_obs1 o x ++ enc_obs ops' r
      | [] => []
      end
  end.

(* the model places the first heap byte at 2^32 + hbm: only its residue modulo the page size
   is observable (alignment checks); hbm < 4096 is the residue of the real buffer *)
Definition suite_C04 (inp obs : list tok) : verdict :=
  match inp with
  | TN kind :: TN md :: TN hbm :: TN pre :: TN n :: TN post :: TN seed :: rest =>
      match parse_ops rest with
      | Some ops =>
      match parse_obs ops obs with
      | Some ob =>
          if (hbm <? 4096) && (pre + n + post <=? 65536) && (seed <? 256) && (md <=? 1) then
            let c := {| c_kind := kind; c_mode := if md =? 0 then Debug else Release;
                        c_hb := 4294967296 + hbm; c_pre := pre; c_n := n;
                        c_heap := init_heap (N.to_nat (pre + n + post)) 0 seed; c_ops := ops |} in
            if wf_case c then
              {| v_model := enc_obs ops (run_C04 c); v_ok := ok_C04 c ob; v_wellformed := true |}
            else malformed
          else malformed
      | None => malformed
      end
      | None => malformed
      end
  | _ => malformed
  end.

(* ================================================================== suite C04big: one LARGE bulk
   transfer, judged at the level of lengths (Spec/C04.v, "C04big").  The model below is the
   length-level reading of the same transcriptions (Impl/VolMem.v): which error, which count,
   which heap range is written - the counts are the ones C04_array_copy_to_count /
   C04_slice_copy_to_count prove of the byte-level model for every size; cases are restricted
   (wf_big) to sizes far below isize::MAX, so the TooBig / Overflow branches are out of reach. *)
Record bigout := { g_kind : N; g_count : N; g_lo : N; g_m : N }.
Definition g_ok (cnt lo m : N) : bigout := {| g_kind := 0; g_count := cnt; g_lo := lo; g_m := m |}.
Definition g_err (k lo m : N) : bigout := {| g_kind := k; g_count := 0; g_lo := lo; g_m := m |}.

Definition big_model (c : bigcase) : bigout :=
  let s := {| vs_addr := b_pre c; vs_size := b_n c |} in
  let sz := b_sz c in
  (* vs_write / vs_read: empty buffer, addr >= len, then min(len - addr, buf.len()) *)
  let bytes_io (into all : bool) :=
    if b_blen c =? 0 then g_ok 0 0 0
    else if vs_size s <=? b_off c then g_err 1 0 0
    else let total := N.min (vs_size s - b_off c) (b_blen c) in
         if all then (if negb (total =? b_blen c) then g_err 3 (b_off c) (if into then total else 0)
                      else g_ok 0 (b_off c) (if into then total else 0))
         else g_ok total (b_off c) (if into then total else 0) in
  match b_route c with
  | BWrite => bytes_io true false | BRead => bytes_io false false
  | BWriteSlice => bytes_io true true | BReadSlice => bytes_io false true
  | BArrCopyTo =>
      match vs_get_slice s (b_off c) (b_cnt c * sz) with
      | Err _ => g_err 1 0 0
      | Ok _ => g_ok (N.min (b_blen c) (b_cnt c)) 0 0
      end
  | BArrCopyFrom =>
      match vs_get_slice s (b_off c) (b_cnt c * sz) with
      | Err _ => g_err 1 0 0
      | Ok a => g_ok 0 (vs_addr a - b_pre c) (N.min (b_blen c) (b_cnt c) * sz)
      end
  | BArrCopyToVs =>
      match vs_get_slice s (b_off c) (b_cnt c * sz) with
      | Err _ => g_err 1 0 0
      | Ok _ => match vs_get_slice s (b_off2 c) (b_cnt2 c) with
                | Err _ => g_err 1 0 0
                | Ok d => g_ok 0 (vs_addr d - b_pre c) (N.min (b_cnt c * sz) (vs_size d))
                end
      end
  | BSlCopyTo =>
      match vs_get_slice s (b_off c) (b_cnt c) with
      | Err _ => g_err 1 0 0
      | Ok sl => g_ok (N.min (b_blen c) (vs_size sl / sz)) 0 0
      end
  | BSlCopyFrom =>
      match vs_get_slice s (b_off c) (b_cnt c) with
      | Err _ => g_err 1 0 0
      | Ok sl => g_ok 0 (vs_addr sl - b_pre c) (N.min (b_blen c) (vs_size sl / sz) * sz)
      end
  | BSlCopyToVs =>
      match vs_get_slice s (b_off c) (b_cnt c) with
      | Err _ => g_err 1 0 0
      | Ok sl => match vs_get_slice s (b_off2 c) (b_cnt2 c) with
                 | Err _ => g_err 1 0 0
                 | Ok d => g_ok 0 (vs_addr d - b_pre c) (N.min (vs_size sl) (vs_size d))
                 end
      end
  end.

Definition run_C04big (c : bigcase) : bigobs :=
  let g := big_model c in
  {| bo_kind := g_kind g; bo_count := g_count g; bo_bufdiff := BNONE; bo_heapdiff := BNONE;
     bo_first := if g_m g =? 0 then BNONE else b_pre c + g_lo g;
     bo_last := if g_m g =? 0 then BNONE else b_pre c + g_lo g + g_m g - 1 |}.

Definition BIGLIM : N := 4294967296.
Definition wf_big (c : bigcase) : bool :=
  (b_pre c <? BIGLIM) && (b_n c <? BIGLIM) && (1 <=? b_sz c) && (b_sz c <=? 16) && (b_off c <? BIGLIM) &&
  (b_cnt c <? BIGLIM) && (b_blen c <? BIGLIM) && (b_off2 c <? BIGLIM) && (b_cnt2 c <? BIGLIM) &&
  (* accessors of zero bytes are not constrained by the property: not asked for *)
  match b_route c with
  | BWrite | BRead | BWriteSlice | BReadSlice => true
  | BArrCopyTo | BArrCopyFrom | BSlCopyTo | BSlCopyFrom => 1 <=? b_cnt c
  | BArrCopyToVs | BSlCopyToVs => (1 <=? b_cnt c) && (1 <=? b_cnt2 c)
  end.

Definition broute_of (r : N) : option broute :=
  match r with
  | 0 => Some BWrite | 1 => Some BRead | 2 => Some BWriteSlice | 3 => Some BReadSlice
  | 12 => Some BArrCopyTo | 13 => Some BArrCopyFrom | 14 => Some BArrCopyToVs
  | 15 => Some BSlCopyTo | 16 => Some BSlCopyFrom | 17 => Some BSlCopyToVs | _ => None
  end.
(* heap-to-heap moves: the harness's heap pattern has period 127, so every moved byte changes
   (first / last changed position are then determined by lengths) only if the distance between
   source and destination is not a multiple of 127 *)
Definition big_move_visible (c : bigcase) : bool :=
  match b_route c with
  | BArrCopyToVs | BSlCopyToVs => negb ((b_off2 c + 127 * BIGLIM - b_off c) mod 127 =? 0)
  | _ => true
  end.

Definition suite_C04big (inp obs : list tok) : verdict :=
  match inp, obs with
  | [TN kind; TN al; TN n; TN route; TN sz; TN off; TN cnt; TN blen; TN off2; TN cnt2; TN salt],
    [TN k; TN count; TN bd; TN hd; TN fst; TN lst] =>
      match broute_of route with
      | Some r =>
          let c := {| b_pre := 64; b_n := n; b_route := r; b_sz := sz; b_off := off; b_cnt := cnt;
                      b_blen := blen; b_off2 := off2; b_cnt2 := cnt2 |} in
          if wf_big c && big_move_visible c && (kind <=? 1) && (al <? 16) && (salt <? 127) then
            let m := run_C04big c in
            {| v_model := [TN (bo_kind m); TN (bo_count m); TN (bo_bufdiff m); TN (bo_heapdiff m);
                           TN (bo_first m); TN (bo_last m)];
               v_ok := ok_C04big c {| bo_kind := k; bo_count := count; bo_bufdiff := bd; bo_heapdiff := hd;
                                      bo_first := fst; bo_last := lst |};
               v_wellformed := true |}
          else malformed
      | None => malformed
      end
  | _, _ => malformed
  end.
