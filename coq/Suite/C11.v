(* C11 suite glue: wire operations -> steps of the Rcu machine, observations, token parsing. *)
From VM Require Import Prelude.MachInt Prelude.Tok Impl.Rcu Spec.C11.

Definition mask_live (s : state) : N := mask_upto (N.to_nat (nmaps s)) (fun g => negb (freed s g)).

(* a wire operation is one or two steps of the machine; Replace = Store then Unlock, the order of
   `replace` (atomic.rs:137-139) *)
Definition wexec (o : wop) (s : state) : option (state * N) :=
  match o with
  | WLoad t => exec (Load t) s
  | WClone i => exec (CloneH i) s
  | WInto i => exec (IntoInner i) s
  | WUse i => exec (Use i) s
  | WDrop i => exec (DropH i) s
  | WLock t => exec (Lock t) s
  | WReadCur t => exec (ReadCur t) s
  | WReplace t =>
      match exec (Store t) s with
      | Some (s1, v) => match exec (Unlock t) s1 with Some (s2, _) => Some (s2, v) | None => None end
      | None => None end
  | WUnlock t => exec (Unlock t) s
  | WNop => None
  end.

Fixpoint run_w (s : state) (ops : list wop) {struct ops} : list wobs :=
  match ops with
  | [] => []
  | o :: r =>
      match wexec o s with
      | Some (s', v) => {| w_st := 1; w_val := v; w_live := mask_live s' |} :: run_w s' r
      | None => {| w_st := 0; w_val := 0; w_live := mask_live s |} :: run_w s r
      end
  end.
Definition run_C11 (ops : list wop) : list wobs := run_w init ops.

(* ---- tokens: the history is ONE flat list [code,arg,code,arg,...]; a trailing odd element is ignored;
   the observation is one flat list [st,val,live, st,val,live, ...] *)
Definition wop_of (c a : N) : wop :=
  match c with
  | 0 => WLoad a | 1 => WClone (N.to_nat a) | 2 => WInto (N.to_nat a) | 3 => WUse (N.to_nat a)
  | 4 => WDrop (N.to_nat a) | 5 => WLock a | 6 => WReadCur a | 7 => WReplace a | 8 => WUnlock a
  | _ => WNop end.
Fixpoint ops_of (l : list N) {struct l} : list wop :=
  match l with
  | c :: r => match r with a :: r' => wop_of c a :: ops_of r' | [] => [] end
  | [] => [] end.
Fixpoint obs_of (l : list N) {struct l} : option (list wobs) :=
  match l with
  | [] => Some []
  | st :: r => match r with
      | v :: r1 => match r1 with
          | lv :: r2 => match obs_of r2 with
              | Some t => Some ({| w_st := st; w_val := v; w_live := lv |} :: t)
              | None => None end
          | [] => None end
      | [] => None end
  end.
Definition enc_obs (l : list wobs) : list N :=
  flat_map (fun b => [w_st b; w_val b; w_live b]) l.

Definition suite_C11 (inp obs : list tok) : verdict :=
  match inp, obs with
  | [TL l], [TL o] =>
      match obs_of o with
      | Some ob =>
          let ops := ops_of l in
          {| v_model := [TL (enc_obs (run_C11 ops))]; v_ok := ok_C11 ops ob; v_wellformed := true |}
      | None => malformed end
  | _, _ => malformed end.

(* ---- structure probes *)
Definition st_of (o : option (state * N)) (d : state) : state := match o with Some (s, _) => s | None => d end.

Fixpoint probe0 (k : nat) (s : state) {struct k} : list N :=
  match k with
  | O => []
  | S k' =>
      let s1 := st_of (exec (ReadCur 1) (st_of (exec (Lock 1) s) s)) s in
      let old := cell s1 in
      match exec (Store 1) s1 with
      | Some (s2, _) =>
          (* the old map's Drop runs inside store iff the store released the last reference *)
          let ins := freed s2 old in
          (if ins then 1 else 0) :: (if ins then (if mutex s2 then 1 else 0) else 0)
            :: probe0 k' (st_of (exec (Unlock 1) s2) s2)
      | None => [9; 9] end
  end.
Definition run_probe0 (n hold : N) : list N :=
  probe0 (N.to_nat n) (if hold =? 1 then st_of (exec (Load 0) init) init else init).
Definition run_probe1 : list N :=
  let s1 := st_of (exec (Lock 0) init) init in
  let a := match exec (Lock 1) s1 with Some _ => 1 | None => 0 end in
  let s2 := st_of (exec (Unlock 0) (st_of (exec (Store 0) s1) s1)) s1 in
  let b := match exec (Lock 1) s2 with Some _ => 1 | None => 0 end in
  [a; b].

Definition suite_C11probe (inp obs : list tok) : verdict :=
  match inp, obs with
  | [TN kk; TN n; TN hold], [TL o] =>
      if kk =? 1 then
        {| v_model := [TL run_probe1]; v_ok := ok_probe1 o; v_wellformed := true |}
      (* kind 2 = kind 0 with ONE handle shared by reference (no clone of the GuestMemoryAtomic exists):
         the update lock must exclude other updaters no matter how many handles there are *)
      else if ((kk =? 0) || (kk =? 2)) && (n <? 64) && (hold <? 2) then
        {| v_model := [TL (run_probe0 n hold)]; v_ok := ok_probe0 n hold o; v_wellformed := true |}
      else malformed
  | _, _ => malformed end.

(* ---- stress: the machine run on the canonical schedule (each updater runs its protocol to the end);
   C11_no_lost_replace_count shows every other schedule ends with the same tag *)
Fixpoint mt_updates (n : nat) (s : state) {struct n} : state :=
  match n with
  | O => s
  | S k => mt_updates k (run_from [Lock 1; ReadCur 1; Store 1; Unlock 1] s) end.
Definition count_leaked (s : state) : N :=
  (fix go (n : nat) : N := match n with O => 0 | S k =>
     go k + (if negb (freed s (N.of_nat k)) && negb (N.of_nat k =? cell s) then 1 else 0) end) (N.to_nat (nmaps s)).
Definition run_mt (u k : N) : list N :=
  let s := mt_updates (N.to_nat (u * k)) init in
  [if bad s then 1 else 0; gen s (cell s); count_leaked s].

Definition suite_C11mt (inp obs : list tok) : verdict :=
  match inp, obs with
  | [TN r; TN u; TN k], [TL o] =>
      if (u * k <? 20000) then
      {| v_model := [TL (run_mt u k)]; v_ok := ok_mt u k o; v_wellformed := true |}
      else malformed
  | _, _ => malformed end.
