(* C12 suite glue: wire operations -> operations of the Owner machine, observations, tokens. *)
From VM Require Import Prelude.MachInt Prelude.Tok Impl.Owner Spec.C12.

Definition mask_live (s : state) : N := mask_upto (N.to_nat (nreg s)) (fun r => r_live (reg s r)).

Definition op_of (o : wop) : option op :=
  match o with
  | WCreate k sl => Some (Create k sl)
  | WBuild hs => Some (Build hs)
  | WInsert a b => Some (Insert a b)
  | WRemove a base size => Some (Remove a base size)
  | WCloneH h => Some (CloneH h)
  | WSnap h => Some (Snap h)
  | WDropH h => Some (DropH h)
  | WNop => None end.

Definition wexec (o : wop) (s : state) : state * result :=
  match op_of o with Some o' => exec o' s | None => (s, Impossible) end.
Definition obs_of_result (r : result) (s' : state) : wobs :=
  match r with
  | Done v => {| w_st := 1; w_val := mask_of v; w_live := mask_live s' |}
  | Failed => {| w_st := 2; w_val := 0; w_live := mask_live s' |}
  | Impossible => {| w_st := 0; w_val := 0; w_live := mask_live s' |}
  end.
(* the extended operations (refusals, consumed arguments) *)
Definition opr_of (o : wopr) : option op :=
  match o with
  | WB w => op_of w
  | WCreateRefused v sl => Some (CreateRefused v sl)
  | WBuildMove u hs => Some (BuildMove u hs)
  | WInsertMove a b => Some (InsertMove a b) end.
Definition wexecr (o : wopr) (s : state) : state * result :=
  match opr_of o with Some o' => exec o' s | None => (s, Impossible) end.
Fixpoint run_wr (s : state) (ops : list wopr) {struct ops} : list wobs :=
  match ops with
  | [] => []
  | o :: t => let '(s', r) := wexecr o s in obs_of_result r s' :: run_wr s' t
  end.
Definition run_C12r (ops : list wopr) : list wobs := run_wr init ops.

Fixpoint run_w (s : state) (ops : list wop) {struct ops} : list wobs :=
  match ops with
  | [] => []
  | o :: t => let '(s', r) := wexec o s in obs_of_result r s' :: run_w s' t
  end.
Definition run_C12 (ops : list wop) : list wobs := run_w init ops.

(* ---- tokens: ONE flat list [code,a,b, code,a,b, ...] (trailing incomplete group ignored) *)
Fixpoint unpack5 (n : nat) (a : N) {struct n} : list nat :=
  match n with O => [] | S k => N.to_nat (a mod 32) :: unpack5 k (a / 32) end.
Definition wop_of (c a b : N) : wop :=
  match c with
  | 0 => WCreate (a mod 3) b
  | 1 => WBuild (unpack5 (N.to_nat (N.min b 8)) a)
  | 2 => WInsert (N.to_nat a) (N.to_nat b)
  | 3 => WRemove (N.to_nat a) ((b / 2) * 65536) (if b mod 2 =? 0 then 4096 else 8192)
  | 4 => WCloneH (N.to_nat a)
  | 5 => WSnap (N.to_nat a)
  | 6 => WDropH (N.to_nat a)
  | _ => WNop end.
Definition wopr_of (c a b : N) : wopr :=
  match c with
  | 7 => WCreateRefused (a mod 9) b
  | 8 => WBuildMove (16 <=? b) (unpack5 (N.to_nat (N.min (b mod 16) 8)) a)
  | 9 => WInsertMove (N.to_nat a) (N.to_nat b)
  | _ => WB (wop_of c a b) end.
Fixpoint ops_of (l : list N) {struct l} : list wopr :=
  match l with
  | c :: r => match r with
      | a :: r1 => match r1 with
          | b :: r2 => wopr_of c a b :: ops_of r2
          | [] => [] end
      | [] => [] end
  | [] => [] end.
Fixpoint obs_of (l : list N) {struct l} : option (list wobs) :=
  match l with
  | [] => Some []
  | st :: r => match r with
      | v :: r1 => match r1 with
          | lv :: r2 => match obs_of r2 with
              | Some t => Some ({| w_st := st; w_val := v; w_live := lv |} :: t)
              | None => None end
          | [] => None end
      | [] => None end
  end.
Definition enc_obs (l : list wobs) : list N := flat_map (fun b => [w_st b; w_val b; w_live b]) l.
(* slots must keep guest addresses far below 2^64 *)
Fixpoint slots_ok (l : list wopr) {struct l} : bool :=
  match l with
  | [] => true
  | WB (WCreate _ sl) :: t => (sl <? 4294967296) && slots_ok t
  | WCreateRefused _ sl :: t => (sl <? 4294967296) && slots_ok t
  | _ :: t => slots_ok t end.

Definition suite_C12 (inp obs : list tok) : verdict :=
  match inp, obs with
  | [TL l], [TL o] =>
      match obs_of o with
      | Some ob =>
          let ops := ops_of l in
          if slots_ok ops then
          {| v_model := [TL (enc_obs (run_C12r ops))]; v_ok := ok_C12r ops ob; v_wellformed := true |}
          else malformed
      | None => malformed end
  | _, _ => malformed end.
