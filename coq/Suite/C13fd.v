(* Suite C13fd: C13 on scripted REAL descriptors (harness/src/suites/c13.rs, harness/src/fdscript.rs).
   case:  mode kind [content] pos (opcode [arg] [script])*
            kind 5 regular File            6 UnixStream (byte queue)       7 pipe (OwnedFd)
                 16 TcpStream over a 127.0.0.1 loopback pair (byte queue; the peer has shut its sending side down)
                 17 TcpStream whose peer stays OPEN and has sent [content] only: ONE read, which must return what is
                    available (a read that waits for the buffer to fill gets the missing bytes from a helper after 1 s
                    and then shows a wrong count)
                 18 std::io::Stdout, fd 1 redirected onto a pipe for the duration of the call (twin: File on a pipe):
                    one write(2) per write_volatile, its count returned, short writes reported as short
                 13 File, 14 UnixStream as BorrowedFd, 15 pipe: the same descriptors driven through
                    VolatileSlice::{read_volatile_from, read_exact_volatile_from, write_volatile_to,
                    write_all_volatile_to}(0, fd, len) (volatile_memory.rs:799-831; the up-to forms wrap the call
                    in retry_eintr!, so for these kinds a script of an up-to operation must not START with EINTR -
                    that retry is C14's subject, suite C14own)
            opcode 0 read [prefill]  1 read_exact [prefill]  2 write [data]  3 write_all [data]  4 set_position [p]
            script element 0 Full 1 Zero 2 Eintr 3..8 hard error (EIO EAGAIN EBADF ENOSPC EPIPE ECONNRESET) 16+k Short k
   obs:   per operation 14 tokens: adapter  rk n [buffer after] margins_ok [stream data] pos [out] calls
                                   std twin rk n [buffer after] [stream data] pos [out]
            (rk as in Suite/C13.v; calls = number of read(2) / write(2) calls the descriptor received during the
             operation - compared with the model, not judged by the checker) *)
From VM Require Import Prelude.MachInt Prelude.Outcome Prelude.Tok Prelude.C1314List Impl.Io Impl.Std Impl.IoGuest
  Spec.C13 Suite.C13 Spec.C13fd.

Definition fuel_scr (b : list N) (sc : list fbeh) : nat := N.to_nat (nlen b) + length sc + 2.

(* one operation of the vm-memory adapter on the scripted descriptor, buffer in a fresh arena *)
Definition vm_step_scr (md : mode) (k : skind) (f : sfd) (o : op13) : outcome ((sfd * list N) * (N * N)) :=
  let b := op_buf o in
  let m := arena b in
  let v := win b in
  let rd := read_volatile_raw_fd (scr_read (os_read_of k)) in
  let wr := write_volatile_raw_fd (scr_write (os_write_of k)) in
  match o with
  | OSetPos p =>
      Val (({| f_st := if seekable k then set_pos (f_st f) p else f_st f; f_script := f_script f; f_calls := f_calls f |}, m), (9, 0))
  | ORead _ => lift_n (rd f m v)
  | OReadExact _ => lift_u (read_exact_volatile (fuel_scr b (f_script f)) rd f m v)
  | OWrite _ => lift_n (wr f m v)
  | OWriteAll _ => lift_u (write_all_volatile (fuel_scr b (f_script f)) wr f m v)
  end.

(* the same operation through the VolatileSlice route (kinds 13..15) *)
Definition vm_step_route (md : mode) (k : skind) (f : sfd) (o : op13) : outcome ((sfd * list N) * (N * N)) :=
  let b := op_buf o in
  let m := arena b in
  let v := win b in
  let rd := read_volatile_raw_fd (scr_read (os_read_of k)) in
  let wr := write_volatile_raw_fd (scr_write (os_write_of k)) in
  let fl := fuel_scr b (f_script f) in
  match o with
  | OSetPos p => vm_step_scr md k f o
  | ORead _ => lift_n (vs_read_volatile_from fl rd v 0 f m (nlen b))
  | OReadExact _ => lift_u (vs_read_exact_volatile_from fl rd v 0 f m (nlen b))
  | OWrite _ => lift_n (vs_write_volatile_to fl wr v 0 f m (nlen b))
  | OWriteAll _ => lift_u (vs_write_all_volatile_to fl wr v 0 f m (nlen b))
  end.

(* the model's observation of a history; [tw] is the std twin's state (None = unspecified) *)
Fixpoint run_ops_scr (md : mode) (route : bool) (k : skind) (st : sstate) (tw : option sstate)
  (ops : list (op13 * list fbeh)) {struct ops} : list (opobs * N) :=
  match ops with
  | [] => []
  | (o, sc) :: ops' =>
      let b := op_buf o in
      let step := if route then vm_step_route else vm_step_scr in
      let '(st', arc, abuf, amar, calls) :=
        match step md k (sfd0 (clear_out st) sc) o with
        | Val ((f', m'), rc) => (f_st f', rc, mem_read m' margin (nlen b), margins_ok b m', f_calls f')
        | _ => (st, (8, 0), b, true, 0)
        end in
      let '(tw', trc, tbuf, tdata, tpos, tout) :=
        match tw with
        | None => (None, (7, 0), [], [], 0, [])
        | Some t =>
            match std_step_scr k (clear_out t) sc o with
            | Val (Some t', bs, rc) =>
                (Some t', rc, (if is_read o then bs ++ ndrop (nlen bs) b else []),
                 fst (show_state k t'), snd (show_state k t'), s_out t')
            | Val (None, _, rc) => (None, rc, [], [], 0, [])
            | _ => (None, (8, 0), [], [], 0, [])
            end
        end in
      ({| a_rc := arc; a_buf := abuf; a_margins := amar;
          a_data := fst (show_state k st'); a_pos := snd (show_state k st'); a_out := s_out st';
          t_rc := trc; t_buf := tbuf; t_data := tdata; t_pos := tpos; t_out := tout |}, calls)
      :: run_ops_scr md route k st' tw' ops'
  end.

Definition run_C13fd (route : bool) (c : case13fd) : list (opobs * N) :=
  run_ops_scr (d_mode c) route (d_kind c) (d_init c) (Some (d_init c)) (d_ops c).

(* ------------------------------------------------------------------ tokens *)
Definition kind_fd (n : N) : option (skind * bool) :=
  match n with
  | 5 => Some (KFile, false) | 6 | 7 => Some (KQueue, false)
  | 13 => Some (KFile, true) | 14 | 15 => Some (KQueue, true)
  | 16 | 17 | 18 => Some (KQueue, false)
  | _ => None
  end.
(* kind 17 (TcpStream whose peer stays open): exactly one read of a stream that holds data - a read beyond what has
   arrived would wait for ever; kind 18 (Stdout): a writer without an incoming stream *)
Definition kind_shape_ok (kd : N) (content : list N) (ops : list (op13 * list fbeh)) : bool :=
  match kd with
  | 17 => match ops, content with [(ORead _, _)], _ :: _ => true | _, _ => false end
  | 18 => forallb (fun x => match fst x with OWrite _ | OWriteAll _ => true | _ => false end) ops
          && match content with [] => true | _ => false end
  | _ => true
  end.
Definition fbeh_of (n : N) : option fbeh :=
  match n with
  | 0 => Some FFull | 1 => Some FZero | 2 => Some FEintr
  | 3 | 4 | 5 | 6 | 7 | 8 => Some FErr
  | _ => if (16 <=? n) && (n <? 16 + 1048576) then Some (FShort (n - 16)) else None
  end.
Fixpoint parse_fscript (l : list N) {struct l} : option (list fbeh) :=
  match l with
  | [] => Some []
  | x :: t => match fbeh_of x, parse_fscript t with Some b, Some r => Some (b :: r) | _, _ => None end
  end.

Fixpoint parse_ops_fd (l : list tok) {struct l} : option (list (op13 * list fbeh)) :=
  match l with
  | [] => Some []
  | TN c :: TL a :: TL s :: rest =>
      match parse_ops_fd rest, parse_fscript s with
      | Some ops, Some sc =>
          match c with
          | 0 => Some ((ORead a, sc) :: ops) | 1 => Some ((OReadExact a, sc) :: ops)
          | 2 => Some ((OWrite a, sc) :: ops) | 3 => Some ((OWriteAll a, sc) :: ops)
          | 4 => match a with [p] => Some ((OSetPos p, sc) :: ops) | _ => None end
          | _ => None
          end
      | _, _ => None
      end
  | _ => None
  end.

Fixpoint parse_obs_fd (l : list tok) {struct l} : option (list (opobs * N)) :=
  match l with
  | [] => Some []
  | TN rk :: TN n :: TL buf :: TN mg :: TL d :: TN p :: TL out :: TN calls
      :: TN trk :: TN tn :: TL tbuf :: TL td :: TN tp :: TL tout :: rest =>
      match parse_obs_fd rest with
      | None => None
      | Some obs =>
          Some (({| a_rc := (rk, n); a_buf := buf; a_margins := negb (mg =? 0); a_data := d; a_pos := p; a_out := out;
                    t_rc := (trk, tn); t_buf := tbuf; t_data := td; t_pos := tp; t_out := tout |}, calls) :: obs)
      end
  | _ => None
  end.

Definition enc_op_fd (x : opobs * N) : list tok :=
  let ob := fst x in
  [TN (fst (a_rc ob)); TN (snd (a_rc ob)); TL (a_buf ob); bool_tok (a_margins ob); TL (a_data ob); TN (a_pos ob);
   TL (a_out ob); TN (snd x); TN (fst (t_rc ob)); TN (snd (t_rc ob)); TL (t_buf ob); TL (t_data ob); TN (t_pos ob);
   TL (t_out ob)].
Definition enc13fd (obs : list (opobs * N)) : list tok := flat_map enc_op_fd obs.

Definition is_upto (o : op13) : bool := match o with ORead _ | OWrite _ => true | _ => false end.
Definition head_eintr (sc : list fbeh) : bool := match sc with FEintr :: _ => true | _ => false end.
(* the VolatileSlice route retries EINTR in its up-to forms (C14's subject): not started with EINTR here *)
Definition route_ok (route : bool) (x : op13 * list fbeh) : bool :=
  negb (route && is_upto (fst x) && head_eintr (snd x)).
Definition script_sane (x : op13 * list fbeh) : bool :=
  (N.of_nat (length (snd x)) <=? 64) && match fst x with OSetPos _ => match snd x with [] => true | _ => false end | _ => true end.

Definition suite_C13fd (inp obs : list tok) : verdict :=
  match inp with
  | TN md :: TN kd :: TL content :: TN pos :: opl =>
      match kind_fd kd, parse_ops_fd opl, parse_obs_fd obs with
      | Some (k, route), Some ops, Some o =>
          if content_ok k content && (pos <? W64) && forallb (fun x => op_ok k (fst x)) ops
             && pos_sane k (nlen content) pos && forallb (fun x => op_sane k (fst x)) ops
             && forallb (route_ok route) ops && forallb script_sane ops
             && (match k with KQueue => pos =? 0 | _ => true end) && kind_shape_ok kd content ops then
            let c := {| d_mode := if md =? 0 then Debug else Release; d_kind := k;
                        d_init := {| s_data := content; s_pos := pos; s_out := [] |}; d_ops := ops |} in
            {| v_model := enc13fd (run_C13fd route c);
               v_ok := if forallb (fun x => obs_sane k (fst x)) o then ok_C13fd c (map fst o) else false;
               v_wellformed := true |}
          else malformed
      | _, _, _ => malformed
      end
  | _ => malformed
  end.
