(* C15perm suite glue (standard build): the constructor call of Suite/C15.v (`construct`), plus the arguments of
   the mmap call in its effect log (Impl/MmapBuild.v: EvMmap size prot flags ...) as the prediction of what the
   kernel shows for the mapping.
   case:  mode kind size prot flags hasfile filelen start page
   obs:   probe res prot flags mprot *)
From VM Require Import Prelude.MachInt Prelude.Outcome Prelude.Tok Impl.MmapBuild Spec.C15 Suite.C15 Spec.C15perm.

(* protection and flags of the first successful mmap of the log *)
Fixpoint mmap_args (l : list ev) {struct l} : option (N * N) :=
  match l with
  | [] => None
  | EvMmap _ p f _ _ true :: _ => Some (p, f)
  | _ :: r => mmap_args r
  end.
Definition mprot_of_args (p f : N) : N := N.land p 7 + (if hasbit f MAP_SHARED then 8 else 0).

Definition run_C15perm (c : case15p) (probe : N) : obs15p :=
  let r := run_C15 (to15 c) probe in
  {| op_probe := probe; op_res := o_res r; op_prot := o_prot r; op_flags := o_flags r;
     op_mprot := match construct (to15 c) (os_of (to15 c) probe) with
                 | Val (Ok _, l) => match mmap_args l with Some (p, f) => mprot_of_args p f | None => 16 end
                 | _ => 0 end |}.

Definition enc15p (o : obs15p) : list tok :=
  [TN (op_probe o); TN (op_res o); TN (op_prot o); TN (op_flags o); TN (op_mprot o)].

Definition wf_p (c : case15p) : bool :=
  ((cp_kind c =? 0) || (cp_kind c =? 1) || (cp_kind c =? 2) || (cp_kind c =? 3) || (cp_kind c =? 5)) &&
  kind_ok (cp_kind c) (match cp_file c with Some _ => true | None => false end) false (cp_kind c =? 5) &&
  is_pow2_page (cp_page c).

Definition suite_C15perm (inp obs : list tok) : verdict :=
  match inp, obs with
  | [TN md; TN kind; TN size; TN prot; TN flags; TN hasfile; TN flen; TN start; TN page],
    [TN probe; TN res; TN oprot; TN oflags; TN omp] =>
      let c := {| cp_mode := if md =? 0 then Debug else Release; cp_kind := kind; cp_size := size;
                  cp_prot := prot; cp_flags := flags;
                  cp_file := if negb (hasfile =? 0) then Some (flen, start) else None; cp_page := page |} in
      if wf_p c && (size <? W64) && (prot <? 8) && (flags <? 4294967296) && (flen <? W64) && (start <? W64) &&
         (probe <? 3) && ((probe <? 2) || (explicit_flags (to15 c) && hasbit flags 16))
      then
        let o := {| op_probe := probe; op_res := res; op_prot := oprot; op_flags := oflags; op_mprot := omp |} in
        {| v_model := enc15p (run_C15perm c probe); v_ok := ok_C15perm c o; v_wellformed := true |}
      else malformed
  | _, _ => malformed end.
