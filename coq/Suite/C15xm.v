(* C15xm suite glue (Xen build, 0.7.w9): parse a trace line, run the model (Impl/Xen.v through construct_x of
   Suite/C15.v), judge the real observation.
   case:  mode size hasfile filelen start hasprot prot hasflags flags addr mflags mdata hasbase base page ioctl
   obs:   probe res prot flags ptrnull mprot coh1 coh2 [fev] *)
From VM Require Import Prelude.MachInt Prelude.Outcome Prelude.Tok Impl.MmapBuild Impl.Xen
  Spec.C15 Suite.C15 Suite.C15xu Spec.C15xm.

(* prot and flags of the (last) mmap call the kernel granted *)
Definition last_mmap (l : list ev) : option (N * N) :=
  fold_left (fun acc e => match e with EvMmap _ p f _ _ true => Some (p, f) | _ => acc end) l None.

(* the privcmd request behind each EvIoctlForeign event (there is at most one) *)
Definition fev_of (c : case15x) (built : bool) (l : list ev) : list N :=
  flat_map (fun e => match e with
                     | EvIoctlForeign cnt _ =>
                         let '(dom, fr) := foreign_req (cx_page c) (range_of c) cnt in
                         dom :: (if built then 1 else 2) :: N.of_nat (length fr) :: fr
                     | _ => [] end) l.

Definition obs_err_m (probe code : N) (fev : list N) : obs15m :=
  {| om_probe := probe; om_res := code; om_prot := 0; om_flags := 0; om_ptrnull := false; om_mprot := 0;
     om_coh1 := 2; om_coh2 := 2; om_fev := fev |}.

(* the observation on a region that was built; l = the log of the construction *)
Definition obs_ok_m (c : case15x) (probe : N) (g : xregion) (l : list ev) : obs15m :=
  (* the mapping the back end holds: the one mmap call of the construction *)
  let pf := match xr_mapped g with Some _ => last_mmap l | None => None end in
  let mp := match pf with Some (p, f) => mprot_of p f | None => 16 end in
  (* the harness examines coherence exactly under this condition *)
  let t := (xr_mflags g =? 0) && (match xr_file g with Some _ => true | None => false end) &&
           (0 <? xr_size g) && (xr_size g <=? 1048576) && (N.land mp 3 =? 3) in
  let anon := match pf with Some (_, f) => hasbit f MAP_ANONYMOUS | None => false end in
  let shared := match pf with Some (_, f) => hasbit f MAP_SHARED | None => false end in
  {| om_probe := probe; om_res := 0; om_prot := xr_prot g; om_flags := xr_flags g;
     om_ptrnull := match xr_mapped g with None => true | Some _ => false end;
     om_mprot := mp;
     (* file -> region unless the mapping ignores the file; region -> file only for a shared one *)
     om_coh1 := if t then (if anon then 0 else 1) else 2;
     om_coh2 := if t then (if shared && negb anon then 1 else 0) else 2;
     om_fev := fev_of c true l |}.

Definition run_C15xm (c : case15x) (probe : N) : obs15m :=
  let o := os_of_x c probe in
  match construct_x c o with
  | Val (r, l) =>
      match r with
      | Err e => obs_err_m probe (berr_code e) (fev_of c false l)
      | Ok g => obs_ok_m c probe g l
      end
  | _ => obs_err_m probe 99 []
  end.

Definition enc15m (o : obs15m) : list tok :=
  [TN (om_probe o); TN (om_res o); TN (om_prot o); TN (om_flags o); bool_tok (om_ptrnull o); TN (om_mprot o);
   TN (om_coh1 o); TN (om_coh2 o); TL (om_fev o)].

Definition suite_C15xm (inp obs : list tok) : verdict :=
  match inp, obs with
  | [TN md; TN size; TN hasfile; TN flen; TN start; TN hasprot; TN prot; TN hasflags; TN flags; TN addr;
     TN mflags; TN mdata; TN hasbase; TN base; TN page; TN ioc],
    [TN probe; TN res; TN oprot; TN oflags; TN onull; TN omp; TN c1; TN c2; TL fev] =>
      if (size <=? 1048576) && (prot <? 4294967296) && (flags <? 4294967296) && (flen <? W64) && (start <? W64) &&
         (addr <? W64) && (base <? W64) && (mflags <? 4294967296) && (mdata <? 4294967296) &&
         is_pow2_page page && (probe <? 3)
      then
        let c := {| cx_mode := if md =? 0 then Debug else Release; cx_size := size;
                    cx_file := if negb (hasfile =? 0) then Some (flen, start) else None;
                    cx_prot := if negb (hasprot =? 0) then Some prot else None;
                    cx_flags := if negb (hasflags =? 0) then Some flags else None;
                    cx_addr := addr; cx_mflags := mflags; cx_mdata := mdata;
                    cx_base := if negb (hasbase =? 0) then Some base else None;
                    cx_page := page; cx_ioctl := negb (ioc =? 0) |} in
        let o := {| om_probe := probe; om_res := res; om_prot := oprot; om_flags := oflags;
                    om_ptrnull := negb (onull =? 0); om_mprot := omp; om_coh1 := c1; om_coh2 := c2;
                    om_fev := fev |} in
        {| v_model := enc15m (run_C15xm c probe); v_ok := ok_C15xm c o; v_wellformed := true |}
      else malformed
  | _, _ => malformed end.
