(* C17 suite glue.
   C17     case: mode kind tsize count off mut route        obs: res len ptr
   C17xen  case: mode rkind size gbase page [code,off,a,b,c]*
           obs:  built [r,data,live,ev*]* mapped_alive mapped_end live_end
                 ev = 1 gref count index (map ioctl) | 2 index count (unmap ioctl)
   C17xenfind: same format as C17xen; holds the known-finding candidates (F6a/F6b) and is not part
   of the property's check. *)
From VM Require Import Prelude.MachInt Prelude.Outcome Prelude.Tok Impl.MmapBuild Impl.Xen Spec.C17.

(* ------------------------------------------------------------------ standard build *)
Definition acc_of (c : case17) : acc :=
  match c_kind c with 0 => ASlice (c_count c) | 1 => ARef (c_tsize c) | _ => AArray (c_tsize c) (c_count c) end.

Definition run_C17 (c : case17) : obs17 :=
  match guard_len (c_mode c) (acc_of c) with
  | Val l => {| o_res := 1; o_len := l; o_ptr := c_off c |}     (* PtrGuard { addr, len } :334-350 *)
  | _ => {| o_res := 2; o_len := 0; o_ptr := 0 |}
  end.

Definition suite_C17 (inp obs : list tok) : verdict :=
  match inp, obs with
  | [TN md; TN kind; TN tsize; TN count; TN off; TN mt; TN route], [TN r; TN len; TN ptr] =>
      if (kind <? 3) && (0 <? tsize) && (tsize <=? 16) && (count <? W64) && (off <? W64) && (route <? 2) then
        let c := {| c_mode := if md =? 0 then Debug else Release; c_kind := kind; c_tsize := tsize;
                    c_count := count; c_off := off; c_mut := negb (mt =? 0); c_route := route |} in
        let o := {| o_res := r; o_len := len; o_ptr := ptr |} in
        let mo := run_C17 c in
        {| v_model := [TN (Spec.C17.o_res mo); TN (o_len mo); TN (o_ptr mo)];
           v_ok := ok_C17 c o; v_wellformed := true |}
      else malformed
  | _, _ => malformed end.

(* ------------------------------------------------------------------ xen build *)
Definition xop_of (x : xopc) : option xop :=
  let off := x_off x in let a := x_a x in let b := x_b x in let c := x_c x in
  match x_code x with
  | 0 => Some (XWrite off a) | 1 => Some (XRead off a) | 2 => Some (XSliceGuard off a (negb (b =? 0)))
  | 3 => if a =? 0 then None else Some (XRefStore off a)      (* element sizes are 1..16: never 0 *)
  | 4 => if a =? 0 then None else Some (XRefLoad off a)
  | 5 => if a =? 0 then None else Some (XArrStore off a b c)
  | 6 => if a =? 0 then None else Some (XArrLoad off a b c)
  | 7 => if a =? 0 then None else Some (XArrCopyFrom off a b c)
  | 8 => if a =? 0 then None else Some (XArrCopyTo off a b c)
  | 9 => Some (XAtomicLoad off a) | 10 => Some (XCopyToVS off a)
  | 11 => Some (XReadFrom off a b) | 12 => Some (XWriteTo off a)
  | 13 => if b =? 0 then None else Some (XSliceCopyFrom off a b c)
  | 14 => if b =? 0 then None else Some (XSliceCopyTo off a b c)
  | 15 => Some (XReadFromFd off a b) | 16 => Some (XReadExactFromFd off a)   (* file of a+b bytes: never short *)
  | 17 => Some (XWriteToFd off a) | 18 => Some (XWriteAllToFd off a)
  | _ => None end.

Fixpoint xops_of (l : list xopc) {struct l} : option (list xop) :=
  match l with
  | [] => Some []
  | x :: r => match xop_of x, xops_of r with Some o, Some r' => Some (o :: r') | _, _ => None end
  end.

Definition os17 (c : case17x) : os :=
  {| os_page := cx_page c; os_filesize := 0; os_mmap_ok := true; os_ioctl_ok := true |}.

(* the region of the case, built by the transcribed constructor *)
Definition range17 (c : case17x) : xrange :=
  match cx_rkind c with
  | 0 => (* MmapRange::new_unix(size, None, addr) :110-126 *)
      {| x_size := cx_size c; x_file := None; x_prot := None;
         x_flags := Some (N.lor MAP_ANONYMOUS MAP_PRIVATE); x_addr := cx_gbase c; x_mflags := 0; x_mdata := 0 |}
  | k => (* MmapRange::new(size, Some(FileOffset(dev, 0)), addr, mmap_flags, 0) :90-107 *)
      {| x_size := cx_size c; x_file := Some 0; x_prot := None; x_flags := None; x_addr := cx_gbase c;
         x_mflags := match k with 1 => 1 | 2 => 2 | _ => 10 end;
         x_mdata := case_domid (cx_gbase c) (cx_page c) |}
  end.

Definition dev_evs (l : list ev) : list dev_ev :=
  flat_map (fun e => match e with
                     | EvIoctlMap g c i true => [DMap g c i]
                     | EvIoctlUnmap i c => [DUnmap i c]
                     | _ => [] end) l.

Definition opres_code (r : opres) : N :=
  match r with RErr => 0 | RDone _ => 1 | RPanic => 2 | RFault => 3 end.

(* returns the per-op observations, the live windows, and whether the process died (an unguarded
   dereference on an on-demand region faults: nothing after it is observed) *)
Fixpoint model_ops (m : mode) (o : os) (g : xregion) (st : list (N * N)) (ops : list xop) {struct ops}
  : list opobs * list (N * N) * bool :=
  match ops with
  | [] => ([], st, false)
  | op :: r =>
      let '(l, res) := run_op m o g op in
      match res with
      | RFault => ([{| p_r := 3; p_data := 0; p_live := 0; p_evs := [] |}], st, true)
      | _ =>
        let st' := live_after st l in
        let '(rest, stf, died) := model_ops m o g st' r in
        ({| p_r := opres_code res; p_data := 1; p_live := N.of_nat (length st'); p_evs := dev_evs l |} :: rest,
         stf, died)
      end
  end.

Definition run_C17x (c : case17x) (ops : list xop) : obs17x :=
  let o := os17 c in let m := cx_mode c in
  match xen_from_range m o (range17 c) with
  | Val (Ok g, l0) =>
      let st0 := live_after [] l0 in
      let '(obs, st, died) := model_ops m o g st0 ops in
      if died then {| ox_built := 1; ox_ops := obs; ox_mapped_alive := 0; ox_mapped_end := 0; ox_live_end := 0 |} else
      let alive := match xr_kind g, xr_mapped g with
                   | XUnix, _ => 0 | _, Some (ms, _) => ms | _, None => 0 end in
      let lend := match xen_drop m o g with Val l => live_after st l | _ => st end in
      {| ox_built := 1; ox_ops := obs; ox_mapped_alive := alive; ox_mapped_end := 0;
         ox_live_end := N.of_nat (length lend) |}
  | _ => {| ox_built := 0; ox_ops := []; ox_mapped_alive := 0; ox_mapped_end := 0; ox_live_end := 0 |}
  end.

(* the reference list GntDevMapGrantRef::new (xen.rs:732-745, Impl/Xen.v gnt_refs_new) builds for a request of
   `c` grants from `g` on: (domid, g + i) - C17_grant_refs_loop; every map request of the model's log is followed by it *)
Definition named_refs (domid g c : N) : list (N * N) :=
  map (fun i => (domid, g + N.of_nat i)) (seq 0 (N.to_nat c)).
Fixpoint add_refs (domid : N) (evs : list dev_ev) {struct evs} : list dev_ev :=
  match evs with
  | [] => []
  | DMap g c i :: r => DMap g c i :: DRefs (named_refs domid g c) :: add_refs domid r
  | e :: r => e :: add_refs domid r
  end.
Definition add_refs_op (domid : N) (p : opobs) : opobs :=
  {| p_r := p_r p; p_data := p_data p; p_live := p_live p; p_evs := add_refs domid (p_evs p) |}.
Definition add_refs_obs (domid : N) (o : obs17x) : obs17x :=
  {| ox_built := ox_built o; ox_ops := map (add_refs_op domid) (ox_ops o); ox_mapped_alive := ox_mapped_alive o;
     ox_mapped_end := ox_mapped_end o; ox_live_end := ox_live_end o |}.
Definition run_C17xn (c : case17x) (ops : list xop) : obs17x :=
  add_refs_obs (case_domid (cx_gbase c) (cx_page c)) (run_C17x c ops).

Definition enc_ev (e : dev_ev) : list N :=
  match e with
  | DMap g c i => [1; g; c; i] | DUnmap i c => [2; i; c]
  | DRefs l => 3 :: N.of_nat (length l) :: flat_map (fun x => [fst x; snd x]) l
  end.
Definition enc_op (o : opobs) : tok := TL (p_r o :: p_data o :: p_live o :: flat_map enc_ev (p_evs o)).
Definition enc17x (o : obs17x) : list tok :=
  TN (ox_built o) :: map enc_op (ox_ops o) ++ [TN (ox_mapped_alive o); TN (ox_mapped_end o); TN (ox_live_end o)].

(* n pairs d r off the front *)
Fixpoint take_pairs (n : nat) (l : list N) {struct n} : option (list (N * N) * list N) :=
  match n with
  | O => Some ([], l)
  | S k => match l with
           | d :: r :: t => match take_pairs k t with Some (ps, rest) => Some ((d, r) :: ps, rest) | None => None end
           | _ => None end
  end.
Fixpoint dec_evs (fuel : nat) (l : list N) {struct fuel} : option (list dev_ev) :=
  match fuel with
  | O => None
  | S f =>
      match l with
      | [] => Some []
      | 1 :: g :: c :: i :: r => match dec_evs f r with Some es => Some (DMap g c i :: es) | None => None end
      | 2 :: i :: c :: r => match dec_evs f r with Some es => Some (DUnmap i c :: es) | None => None end
      | 3 :: n :: r =>
          if 4096 <? n then None else
          match take_pairs (N.to_nat n) r with
          | Some (ps, r') => match dec_evs f r' with Some es => Some (DRefs ps :: es) | None => None end
          | None => None end
      | _ => None
      end
  end.
Definition dec_op (t : tok) : option opobs :=
  match t with
  | TL (r :: d :: lv :: evs) =>
      match dec_evs (S (length evs)) evs with
      | Some es => Some {| p_r := r; p_data := d; p_live := lv; p_evs := es |}
      | None => None end
  | _ => None end.
Definition dec_xopc (t : tok) : option xopc :=
  match t with
  | TL [code; off; a; b; c] => Some {| x_code := code; x_off := off; x_a := a; x_b := b; x_c := c |}
  | _ => None end.
Fixpoint map_opt {A B} (f : A -> option B) (l : list A) {struct l} : option (list B) :=
  match l with
  | [] => Some []
  | x :: r => match f x, map_opt f r with Some y, Some r' => Some (y :: r') | _, _ => None end
  end.
(* split  o1 .. on  a b c  into the per-op tokens and the three trailing numbers *)
Fixpoint split_tail (l : list tok) {struct l} : option (list tok * (N * N * N)) :=
  match l with
  | [TN a; TN b; TN c] => Some ([], (a, b, c))
  | t :: r => match split_tail r with Some (ops, tl) => Some (t :: ops, tl) | None => None end
  | [] => None
  end.

(* ------------------------------------------------------------------ the other methods of `Bytes` (round w7b)
   Wire opcodes 19-34: every method of the `Bytes` trait at REGION level (Bytes<MemoryRegionAddress> for GuestRegionMmap,
   mmap/mod.rs:189-300: each forwards to the region-wide slice, as_volatile_slice().unwrap().<same method>; write_obj /
   read_obj are the provided methods bytes.rs:299-315 = write_slice / read_slice) and at GUEST-MEMORY level
   (Bytes<GuestAddress>, guest_memory.rs:590-744, over a GuestMemoryMmap holding the one region: try_access finds the
   region, hands the chunk min(rest of the region, count) to the region-level method, and stops at the end of the
   region) that opcodes 0-18 do not drive (store / load: known finding F6b, suite C17xenfind).  Each takes exactly the
   window of a BASIC operation (opcodes 0, 1, 11, 12, 16, 18) and touches the same bytes; the slice / object / exact
   forms answer Err where the basic form reports a short count, and the guest level answers Err for an address at the
   very end of the region where the region-wide slice still hands out an empty tail.  norm_op: the basic operation and
   whether a completed basic operation is reported as Err.
     19 R write_slice len=a  20 R read_slice  21 R write_obj::<[u8; a]>  22 R read_obj
     23 R read_exact_volatile_from(&[u8] of a+b bytes, count=a)   24 R write_all_volatile_to(Vec, count=a)
     25 G write  26 G read  27 G write_slice  28 G read_slice  29 G write_obj  30 G read_obj
     31 G read_volatile_from(&[u8] of b >= a bytes, count=a)   32 G write_volatile_to(Vec, count=a)
     33 G read_exact_volatile_from(&[u8] of a+b bytes, count=a)   34 G write_all_volatile_to(Vec, count=a) *)
Definition norm_op (size : N) (x : xopc) : option (xopc * bool) :=
  let off := x_off x in let a := x_a x in let b := x_b x in
  let mk code a b := {| x_code := code; x_off := off; x_a := a; x_b := b; x_c := 0 |} in
  (* the buffer does not fit: volatile_memory.rs:759-797 / guest_memory.rs:638-676 PartialBuffer *)
  let partial := (0 <? a) && (off <? size) && (size - off <? a) in
  (* guest level: no region holds the address (try_access: InvalidGuestAddress), the basic op still has its empty tail *)
  let at_end := size =? off in
  let code := x_code x in
  if code <=? 18 then Some (x, false) else
  match code with
  | 19 | 21 | 27 | 29 => Some (mk 0 a 0, partial)
  | 20 | 22 | 28 | 30 => Some (mk 1 a 0, partial)
  | 25 => Some (mk 0 a 0, false)
  | 26 => Some (mk 1 a 0, false)
  | 23 => Some (mk 16 a b, false)
  | 24 => Some (mk 18 a 0, false)
  | 31 => if b <? a then None else Some (mk 11 a b, at_end)
  | 32 => Some (mk 12 a 0, at_end)
  | 33 => Some (mk 11 a (a + b), at_end || partial)
  | 34 => Some (mk 12 a 0, at_end || partial)
  | _ => None
  end.
Fixpoint norm_ops (size : N) (l : list xopc) {struct l} : option (list xopc * list bool) :=
  match l with
  | [] => Some ([], [])
  | x :: r => match norm_op size x, norm_ops size r with
              | Some (y, f), Some (ys, fs) => Some (y :: ys, f :: fs)
              | _, _ => None end
  end.
Definition force_op (f : bool) (p : opobs) : opobs :=
  if f && (p_r p =? 1) then {| p_r := 0; p_data := p_data p; p_live := p_live p; p_evs := p_evs p |} else p.
Fixpoint force_err (fl : list bool) (os : list opobs) {struct os} : list opobs :=
  match os, fl with
  | p :: r, f :: fr => force_op f p :: force_err fr r
  | _, _ => os
  end.
Definition force_err_obs (fl : list bool) (o : obs17x) : obs17x :=
  {| ox_built := ox_built o; ox_ops := force_err fl (ox_ops o); ox_mapped_alive := ox_mapped_alive o;
     ox_mapped_end := ox_mapped_end o; ox_live_end := ox_live_end o |}.

Definition suite_C17xen (inp obs : list tok) : verdict :=
  match inp, obs with
  | TN md :: TN rkind :: TN size :: TN gbase :: TN page :: opt, TN built :: rest =>
      match match map_opt dec_xopc opt with Some ws => norm_ops size ws | None => None end, split_tail rest with
      | Some (xs, fl), Some (oo, (alive, mend, lend)) =>
          match xops_of xs, map_opt dec_op oo with
          | Some ops, Some oobs =>
              if (rkind <? 4) && (size <? 4294967296) && (gbase <? 1099511627776) && (page =? 4096)
                 && (gbase mod page =? 0) then
                let c := {| cx_mode := if md =? 0 then Debug else Release; cx_rkind := rkind;
                            cx_size := size; cx_gbase := gbase; cx_page := page; cx_ops := xs |} in
                let o := {| ox_built := built; ox_ops := oobs; ox_mapped_alive := alive;
                            ox_mapped_end := mend; ox_live_end := lend |} in
                {| v_model := enc17x (force_err_obs fl (run_C17xn c ops)); v_ok := ok_C17xn c o; v_wellformed := true |}
              else malformed
          | _, _ => malformed end
      | _, _ => malformed end
  | _, _ => malformed end.

Definition suite_C17xenfind (inp obs : list tok) : verdict := suite_C17xen inp obs.

(* ------------------------------------------------------------------ xen build: derivation chains
   C17xenchain  case: mode rkind size gbase page [root] [step]* [final]      (each list: code a b c, see Spec/C17.v)
                obs:  built [r,data,live,ev*] mapped_alive mapped_end live_end   (the format of a one-operation history) *)
Definition root_of (k : cstep) : option droot :=
  let a := k_a k in let b := k_b k in let c := k_c k in
  match k_code k with
  | 0 | 1 => Some (RGetSlice a b)
  | 2 | 5 => Some RAsVS
  | 3 => if b =? 0 then None else Some (RGetRef a b)
  | 4 => if b =? 0 then None else Some (RGetArr a b c)
  | _ => None end.
Definition step_of (k : cstep) : option dstep :=
  let a := k_a k in let b := k_b k in let c := k_c k in
  match k_code k with
  | 0 => Some (DSubslice a b) | 1 => Some (DOffset a) | 2 => Some (DSplitLo a) | 3 => Some (DSplitHi a)
  | 4 => Some (DGetSlice a b)
  | 5 => if b =? 0 then None else Some (DGetRef a b)
  | 6 => if b =? 0 then None else Some (DGetArr a b c)
  | 7 => Some DAsVS | 8 => Some DIntoArr | 9 | 10 => Some DClone | 11 => Some DToSlice | 12 => Some (DRefAt a)
  | _ => None end.
Definition final_of (k : cstep) : option dfinal :=
  match k_code k with
  | 0 => Some (FGuard false) | 1 => Some (FGuard true) | 2 => Some (FBytes false) | 3 => Some (FBytes true)
  | 4 => Some (FElem (k_a k) false) | 5 => Some (FElem (k_a k) true)
  | _ => None end.

Definition region17 (c : case17x) : option xregion :=
  match xen_from_range (cx_mode c) (os17 c) (range17 c) with
  | Val (Ok g, _) => Some g
  | _ => None end.

(* a derivation that panics (ref_at past the end, ...) is an operation that panics before any guard is taken:
   the observation of an operation refused with Err, with the result code of a panic *)
Definition as_panic (o : obs17x) : obs17x :=
  {| ox_built := ox_built o;
     ox_ops := map (fun p => {| p_r := 2; p_data := p_data p; p_live := p_live p; p_evs := p_evs p |}) (ox_ops o);
     ox_mapped_alive := ox_mapped_alive o; ox_mapped_end := ox_mapped_end o; ox_live_end := ox_live_end o |}.

Definition run_C17c (c : case17c) (r : droot) (l : list dstep) (f : dfinal) : obs17x :=
  let cx := case17x_of c in
  match region17 cx with
  | Some g =>
      match chain_op (cc_mode c) g r l f with
      | Val op => run_C17xn cx [op]
      | _ => as_panic (run_C17xn cx [err_xop g])
      end
  | None => run_C17xn cx []
  end.

Definition dec_cstep (t : tok) : option cstep :=
  match t with
  | TL [code; a; b; c] => Some {| k_code := code; k_a := a; k_b := b; k_c := c |}
  | _ => None end.
(* root :: steps ++ [final] *)
Fixpoint split_last {A} (l : list A) {struct l} : option (list A * A) :=
  match l with
  | [] => None
  | [x] => Some ([], x)
  | x :: r => match split_last r with Some (i, z) => Some (x :: i, z) | None => None end
  end.

Definition suite_C17xenchain (inp obs : list tok) : verdict :=
  match inp, obs with
  | TN md :: TN rkind :: TN size :: TN gbase :: TN page :: troot :: trest, TN built :: rest =>
      match dec_cstep troot, map_opt dec_cstep trest, split_tail rest with
      | Some kr, Some ks, Some (oo, (alive, mend, lend)) =>
          match split_last ks, map_opt dec_op oo with
          | Some (ksteps, kf), Some oobs =>
              match root_of kr, map_opt step_of ksteps, final_of kf with
              | Some r, Some l, Some f =>
                  if (rkind <? 4) && (size <? 4294967296) && (gbase <? 1099511627776) && (page =? 4096)
                     && (gbase mod page =? 0) then
                    let c := {| cc_mode := if md =? 0 then Debug else Release; cc_rkind := rkind;
                                cc_size := size; cc_gbase := gbase; cc_page := page;
                                cc_root := kr; cc_steps := ksteps; cc_final := kf |} in
                    let o := {| ox_built := built; ox_ops := oobs; ox_mapped_alive := alive;
                                ox_mapped_end := mend; ox_live_end := lend |} in
                    {| v_model := enc17x (run_C17c c r l f); v_ok := ok_C17c c o; v_wellformed := true |}
                  else malformed
              | _, _, _ => malformed end
          | _, _ => malformed end
      | _, _, _ => malformed end
  | _, _ => malformed end.
