(* C06 suite glue: parse a trace line, run the model, judge the real observation.
     C06        mode ep goff loff total   =>  st lres dok [k,w,g,l,side, k,w,g,l,side, ...]
     C06atomic  mode ep size goff len     =>  st off rt                                       *)
From VM Require Import Prelude.MachInt Prelude.Outcome Prelude.Tok Impl.CopyPlan Spec.C06.

(* the model runs on fixed page-aligned, non-null bases: by theorem C06_plan_mod8 the relative
   plan depends on the real addresses only through their residues mod 8 *)
Definition GB : N := 196608.      (* 0x30000  guest buffer *)
Definition LB : N := 1048576.     (* 0x100000 local buffer *)

Definition wsub (a b : N) : N := if b <=? a then a - b else (W64 + a - b) mod W64.

(* a primitive access of the model relative to the addresses the caller named *)
Definition rel_ev (read : bool) (g l : N) (a : access) : ev06 :=
  match a with
  | Acc w s d =>
      if read then {| e_kind := 0; e_w := w; e_g := wsub s g; e_l := wsub d l; e_side := 1 |}
      else {| e_kind := 0; e_w := w; e_g := wsub d g; e_l := wsub s l; e_side := 0 |}
  | Bulk s d n =>
      if read then {| e_kind := 1; e_w := n; e_g := wsub s g; e_l := wsub d l; e_side := 1 |}
      else {| e_kind := 1; e_w := n; e_g := wsub d g; e_l := wsub s l; e_side := 0 |}
  end.

(* a primitive access as an event of the memory semantics of Spec/C06.v *)
Definition mev_of (a : access) : mev :=
  match a with Acc w s d => MCopy w s d | Bulk s d n => MCopy n s d end.

(* the local address: chosen by the harness (LB + loff) or, for by-value objects, observed *)
Definition local_addr (c : case06) (obs_lres : N) : N :=
  if ep_unctl (c_ep c) then LB + obs_lres mod 8 else LB + c_loff c.

(* the implementation model's observation *)
Definition run_C06 (c : case06) (obs_lres : N) : obs06 :=
  let g := GB + c_goff c in
  let l := local_addr c obs_lres in
  let read := ep_read (c_ep c) in
  let r := if read then copy_slice (c_mode c) l g (c_total c)
           else copy_slice (c_mode c) g l (c_total c) in
  match r with
  | Val tr => {| o_st := 0; o_lres := l mod 8; o_dok := 1; o_tr := map (rel_ev read g l) tr |}
  | _ => {| o_st := 2; o_lres := l mod 8; o_dok := 0; o_tr := [] |}
  end.

Definition enc_ev (e : ev06) : list N := [e_kind e; e_w e; e_g e; e_l e; e_side e].
Definition enc06 (o : obs06) : list tok :=
  [TN (o_st o); TN (o_lres o); TN (o_dok o); TL (flat_map enc_ev (o_tr o))].

Fixpoint dec_evs (fuel : nat) (l : list N) {struct fuel} : option (list ev06) :=
  match fuel with
  | O => None
  | S f =>
      match l with
      | [] => Some []
      | k :: w :: g :: lo :: sd :: r =>
          match dec_evs f r with
          | Some es => Some ({| e_kind := k; e_w := w; e_g := g; e_l := lo; e_side := sd |} :: es)
          | None => None end
      | _ => None
      end
  end.

Definition mode_of (md : N) : mode := if md =? 0 then Debug else Release.

Definition suite_C06 (inp obs : list tok) : verdict :=
  match inp, obs with
  | [TN md; TN ep; TN goff; TN loff; TN total], [TN st; TN lres; TN dok; TL flat] =>
      match dec_evs (S (length flat)) flat with
      | Some es =>
          if (goff <? 65536) && (loff <? 4096) && (total <? 65536) && (lres <? 8) then
            let c := {| c_mode := mode_of md; c_ep := ep; c_goff := goff; c_loff := loff; c_total := total |} in
            let o := {| o_st := st; o_lres := lres; o_dok := dok; o_tr := es |} in
            {| v_model := enc06 (run_C06 c lres); v_ok := ok_C06 c o; v_wellformed := true |}
          else malformed
      | None => malformed
      end
  | _, _ => malformed
  end.

(* ---------------------------------------------------------------- atomic load/store *)
(* Bytes::store / Bytes::load at slice, region and guest-memory level all reach
   VolatileSlice::get_atomic_ref on a page-aligned container. *)
Definition run_C06atomic (c : case06a) : obs06a :=
  let s := {| vs_addr := GB + a_skew c; vs_size := a_len c |} in
  match get_atomic_ref (a_mode c) s (a_goff c) (a_size c) with
  | Val (Ok a) => {| p_st := 0; p_off := wsub a (GB + a_skew c + a_goff c); p_rt := 1 |}
  | Val (Err EMisaligned) =>
      (* guest_memory.rs:87-104 `impl From<volatile_memory::Error> for Error`: at region and
         guest-memory level (ep 1, 2) every refusal becomes InvalidBackendAddress *)
      {| p_st := if (a_ep c =? 1) || (a_ep c =? 2) then 2 else 1; p_off := 0; p_rt := 0 |}
  | Val (Err _) => {| p_st := 2; p_off := 0; p_rt := 0 |}
  | _ => {| p_st := 3; p_off := 0; p_rt := 0 |}
  end.

Definition enc06a (o : obs06a) : list tok := [TN (p_st o); TN (p_off o); TN (p_rt o)].

Definition c06atomic_k (md ep size goff len skew st off rt : N) : verdict :=
  if is_word size && (goff <? W64) && (len <? 1048576) && (skew <? 8) then
    let c := {| a_mode := mode_of md; a_ep := ep; a_size := size; a_goff := goff; a_len := len; a_skew := skew |} in
    let o := {| p_st := st; p_off := off; p_rt := rt |} in
    {| v_model := enc06a (run_C06atomic c); v_ok := ok_C06atomic c o; v_wellformed := true |}
  else malformed.
Definition suite_C06atomic (inp obs : list tok) : verdict :=
  match inp, obs with
  | [TN md; TN ep; TN size; TN goff; TN len], [TN st; TN off; TN rt] =>
      c06atomic_k md ep size goff len 0 st off rt
  | [TN md; TN ep; TN size; TN goff; TN len; TN skew], [TN st; TN off; TN rt] =>
      (* a skewed container exists only at slice level (ep 0 = Bytes::store/load, 3 = get_atomic_ref) *)
      if (ep =? 0) || (ep =? 3) then c06atomic_k md ep size goff len skew st off rt else malformed
  | _, _ => malformed
  end.

(* ---------------------------------------------------------------- requested memory ordering *)
(* "The atomic load and store operations give the same guarantee with the requested ordering": the
   ordering a caller passes to Bytes::store / Bytes::load is handed unchanged to the one atomic access
   the call makes (volatile_memory.rs:830-848: get_atomic_ref(addr).map(|r| r.store(val.into(), order)) /
   r.load(order)).  Observed on the real library through third-party AtomicInteger implementations that
   log the ordering they receive.   mode ep size store_order load_order => st seen_store seen_load nstores nloads
   (orders: 0 Relaxed 1 Release 2 Acquire 3 AcqRel 4 SeqCst; a store is never asked Acquire/AcqRel, a load
   never Release/AcqRel: std panics on those) *)
Definition store_order_ok (o : N) : bool := (o =? 0) || (o =? 1) || (o =? 4).
Definition load_order_ok (o : N) : bool := (o =? 0) || (o =? 2) || (o =? 4).
Definition run_C06order (os ol : N) : list N := [0; os; ol; 1; 1].
Definition ok_C06order (os ol : N) (obs : list N) : bool :=
  match obs with
  | [st; so; lo; ns; nl] => (st =? 0) && (so =? os) && (lo =? ol) && (ns =? 1) && (nl =? 1)
  | _ => false end.
Definition suite_C06order (inp obs : list tok) : verdict :=
  match inp, obs with
  | [TN md; TN ep; TN size; TN os; TN ol], [TN st; TN so; TN lo; TN ns; TN nl] =>
      if is_word size && (ep <=? 2) && store_order_ok os && load_order_ok ol then
        {| v_model := map TN (run_C06order os ol); v_ok := ok_C06order os ol [st; so; lo; ns; nl]; v_wellformed := true |}
      else malformed
  | _, _ => malformed
  end.

(* ---------------------------------------------------------------- two-thread tearing detector *)
(* black-box cross-check on the real library: a writer flips an aligned u16/u32/u64 between two
   values, a reader must only see one of them.   mode level size millis => torn reads_happened *)
Definition suite_C06tear (inp obs : list tok) : verdict :=
  match inp, obs with
  | [TN md; TN level; TN size; TN millis], [TN torn; TN some] =>
      {| v_model := [TN 0; TN 1]; v_ok := (torn =? 0); v_wellformed := true |}
  | _, _ => malformed
  end.

(* ---------------------------------------------------------------- requested ordering, the crate's own impls (worker w7) *)
(* suite C06ordstd: Bytes::store / Bytes::load on the plain integer types, i.e. through the crate's OWN AtomicInteger
   impls for the std atomics (src/atomic_integer.rs:27-46, impl_atomic_integer_ops!: `self.load(order)` /
   `self.store(val, order)`).  What reaches std cannot be logged, but std itself REFUSES two orderings per operation:
   a store asked Acquire / AcqRel and a load asked Release / AcqRel panic inside std ("there is no such thing as
   an acquire store / a release load").  So the requested ordering is forwarded unchanged only if exactly those
   requests end in that panic and every other one completes.
     mode ep ty kind order => st      kind 0 store 1 load; order 0 Relaxed 1 Release 2 Acquire 3 AcqRel 4 SeqCst;
     ty 0..9 = u8 u16 u32 u64 i8 i16 i32 i64 usize isize;  st 0 done, value right  1 Err  2 panicked  3 wrong value *)
(* std: core::sync::atomic::atomic_store / atomic_load *)
Definition std_rejects (kind order : N) : bool :=
  if kind =? 0 then (order =? 2) || (order =? 3) else (order =? 1) || (order =? 3).
(* model: atomic_integer.rs:39-45 hands `order` to the std method of the same name *)
Definition run_C06ordstd (kind order : N) : N := if std_rejects kind order then 2 else 0.
(* checker, from "with the requested ordering": the request that std refuses is refused, any other completes *)
Definition ok_C06ordstd (kind order st : N) : bool :=
  if kind =? 0 then (if (order =? 2) || (order =? 3) then st =? 2 else st =? 0)
  else (if (order =? 1) || (order =? 3) then st =? 2 else st =? 0).
Definition suite_C06ordstd (inp obs : list tok) : verdict :=
  match inp, obs with
  | [TN md; TN ep; TN ty; TN kind; TN order], [TN st] =>
      if (ep <=? 2) && (ty <=? 9) && (kind <=? 1) && (order <=? 4) then
        {| v_model := [TN (run_C06ordstd kind order)]; v_ok := ok_C06ordstd kind order st; v_wellformed := true |}
      else malformed
  | _, _ => malformed
  end.

(* ---------------------------------------------------------------- store-buffering litmus *)
(* suite C06sb: black-box cross-check on the real library, SeqCst everywhere: thread 0: x := 1; r0 := y,
   thread 1: y := 1; r1 := x.  Under sequential consistency (every interleaving of the four accesses, see
   sb_outcomes / C06_sb_forbidden_under_sc) r0 = r1 = 0 cannot happen; a SeqCst store weakened to Release lets it
   happen on x86.   mode level size rounds => forbidden_seen ran *)
Inductive sb_ev := SbW0 | SbR0 | SbW1 | SbR1.     (* x := 1 | r0 := y | y := 1 | r1 := x *)
(* state: x y r0 r1 *)
Definition sb_step (s : N * N * N * N) (e : sb_ev) : N * N * N * N :=
  let '(x, y, r0, r1) := s in
  match e with SbW0 => (1, y, r0, r1) | SbR0 => (x, y, y, r1) | SbW1 => (x, 1, r0, r1) | SbR1 => (x, y, r0, x) end.
Fixpoint sb_interleave (fuel : nat) (a b : list sb_ev) {struct fuel} : list (list sb_ev) :=
  match fuel with
  | O => []
  | S f =>
      match a, b with
      | [], _ => [b]
      | _, [] => [a]
      | x :: a', y :: b' => map (cons x) (sb_interleave f a' b) ++ map (cons y) (sb_interleave f a b')
      end
  end.
Definition sb_schedules : list (list sb_ev) := sb_interleave 5 [SbW0; SbR0] [SbW1; SbR1].
Definition sb_result (l : list sb_ev) : N * N :=
  let '(_, _, r0, r1) := fold_left sb_step l (0, 0, 2, 2) in (r0, r1).
Definition suite_C06sb (inp obs : list tok) : verdict :=
  match inp, obs with
  | [TN md; TN level; TN size; TN rounds], [TN forb; TN ran] =>
      {| v_model := [TN 0; TN 1]; v_ok := (forb =? 0); v_wellformed := true |}
  | _, _ => malformed
  end.
