(* C08 suite glue: the model's execution of a scheduled case, token parsing, verdict. *)
From VM Require Import Prelude.MachInt Prelude.Outcome Prelude.Tok Impl.Bitmap Impl.BitmapConc Spec.C09 Spec.C08.

Definition geom_of (c : case08) : geom := {| g_size := div_ceil (k_bytes c) (k_ps c); g_ps := k_ps c |}.

(* initial memory: the bitmap after `new` and set_bit for every initial page (sequential model) *)
Definition init_bitmap (c : case08) : bitmap :=
  fold_left bm_set_bit (k_init c) (bm_new (k_bytes c) (k_ps c)).

Fixpoint op_events (g : geom) (t : N) (j : N) (ops : list cop) {struct ops} : list event :=
  match ops with
  | [] => []
  | o :: ops' =>
      map (fun p => {| e_tid := t; e_op := j; e_prim := p |}) (prog_of g o) ++ op_events g t (N.succ j) ops'
  end.
Fixpoint thread_events (g : geom) (t : N) (ths : list (list cop)) {struct ths} : list (list event) :=
  match ths with
  | [] => []
  | ops :: ths' => op_events g t 0 ops :: thread_events g (N.succ t) ths'
  end.

Definition olds_of (lg : list (event * N)) (t j : N) : list N :=
  map snd (filter (fun x => (e_tid (fst x) =? t) && (e_op (fst x) =? j)) lg).

Definition scan_words (c : case08) (ws : list N) : list N :=
  let b := with_words (init_bitmap c) ws in
  filter (bm_is_bit_set b) (nrange (bm_size b + scan_margin)).

Definition op_result (c : case08) (lg : list (event * N)) (t j : N) (o : cop) : list N :=
  match o with
  | CHarvest => olds_of lg t j
  | CClone => scan_words c (olds_of lg t j)
  | CIsBitSet i =>
      match olds_of lg t j with
      | w :: _ => [if N.land w (bit_mask i) =? 0 then 0 else 1]
      | [] => [0]
      end
  | _ => []
  end.
Fixpoint ops_results (c : case08) (lg : list (event * N)) (t j : N) (ops : list cop) {struct ops} : list (list N) :=
  match ops with
  | [] => []
  | o :: ops' => op_result c lg t j o :: ops_results c lg t (N.succ j) ops'
  end.
Fixpoint threads_results (c : case08) (lg : list (event * N)) (t : N) (ths : list (list cop)) {struct ths}
  : list (list (list N)) :=
  match ths with
  | [] => []
  | ops :: ths' => ops_results c lg t 0 ops :: threads_results c lg (N.succ t) ths'
  end.

Definition kind_code (p : prim) : N := match p with Load _ => 0 | Store _ _ => 1 | FetchOr _ _ => 2 | FetchAnd _ _ => 3 end.
Definition operand (p : prim) : N := match p with Load _ => 0 | Store _ v => v | FetchOr _ m => m | FetchAnd _ m => m end.
Definition log_entry (x : event * N) : list N :=
  let e := fst x in [e_tid e; e_op e; kind_code (e_prim e); prim_word (e_prim e); operand (e_prim e); snd x].

Definition run_C08 (c : case08) : obs08 :=
  let g := geom_of c in
  let tr := merge (k_sched c) (thread_events g 0 (k_threads c)) in
  let '(mmF, lg) := run_events (bm_words (init_bitmap c)) tr in
  {| b_log := map log_entry lg; b_final := scan_words c mmF;
     b_results := threads_results c lg 0 (k_threads c) |}.

(* ---------- tokens ----------
   case:  bytes ps [init pages] [schedule] nthreads  [tid,code,args]*
   obs:   nevents [tid,op,kind,word,operand,old]*  [final pages]  then one [result] per operation,
          thread by thread in program order *)
Definition cop_of (l : list N) : option (N * cop) :=
  match l with
  | [t; 0; a; len] => Some (t, CSetRange a len)
  | [t; 1; a; len] => Some (t, CResetRange a len)
  | [t; 2; i] => Some (t, CSetBit i)
  | [t; 3; i] => Some (t, CResetBit i)
  | [t; 4] => Some (t, CHarvest)
  | [t; 5] => Some (t, CClone)
  | [t; 6] => Some (t, CReset)
  | [t; 7; i] => Some (t, CIsBitSet i)
  | _ => None
  end.
Fixpoint add_op (ths : list (list cop)) (t : nat) (o : cop) {struct ths} : option (list (list cop)) :=
  match ths, t with
  | [], _ => None
  | ops :: rest, O => Some ((ops ++ [o]) :: rest)
  | ops :: rest, S t' => match add_op rest t' o with Some r => Some (ops :: r) | None => None end
  end.
Fixpoint threads_of (ts : list tok) (ths : list (list cop)) {struct ts} : option (list (list cop)) :=
  match ts with
  | [] => Some ths
  | TL l :: ts' =>
      match cop_of l with
      | Some (t, o) => if t <? 16 then match add_op ths (N.to_nat t) o with Some ths' => threads_of ts' ths' | None => None end else None
      | None => None
      end
  | _ => None
  end.

Fixpoint take_lists (n : nat) (ts : list tok) {struct n} : option (list (list N) * list tok) :=
  match n with
  | O => Some ([], ts)
  | S k => match ts with
           | TL l :: ts' => match take_lists k ts' with Some (ls, r) => Some (l :: ls, r) | None => None end
           | _ => None
           end
  end.
Fixpoint split_results (ths : list (list cop)) (ts : list tok) {struct ths} : option (list (list (list N))) :=
  match ths with
  | [] => match ts with [] => Some [] | _ => None end
  | ops :: ths' =>
      match take_lists (length ops) ts with
      | Some (rs, rest) => match split_results ths' rest with Some rss => Some (rs :: rss) | None => None end
      | None => None
      end
  end.
Definition parse_obs08 (ths : list (list cop)) (ts : list tok) : option obs08 :=
  match ts with
  | TN n :: ts1 =>
      if n <? 100000 then
        match take_lists (N.to_nat n) ts1 with
        | Some (lg, TL final :: ts2) =>
            match split_results ths ts2 with
            | Some rss => Some {| b_log := lg; b_final := final; b_results := rss |}
            | None => None
            end
        | _ => None
        end
      else None
  | _ => None
  end.
Definition enc_obs08 (o : obs08) : list tok :=
  TN (N.of_nat (length (b_log o))) :: map TL (b_log o) ++ [TL (b_final o)] ++ map TL (concat (b_results o)).

Definition sane_case08 (c : case08) : bool :=
  (k_bytes c / k_ps c <? 4096) && (length (k_sched c) <? 4096)%nat && forallb (fun t => t <? 16) (k_sched c).

Definition suite_C08 (inp obs : list tok) : verdict :=
  match inp with
  | TN bytes :: TN ps :: TL init :: TL sched :: TN nth :: ops =>
      if nth <? 16 then
      match threads_of ops (repeat [] (N.to_nat nth)) with
      | Some ths =>
          let c := {| k_bytes := bytes; k_ps := ps; k_init := init; k_sched := sched; k_threads := ths |} in
          if wf_case08 c && sane_case08 c then
            match parse_obs08 ths obs with
            | Some o => {| v_model := enc_obs08 (run_C08 c); v_ok := ok_C08 c o; v_wellformed := true |}
            | None => malformed
            end
          else malformed
      | None => malformed
      end
      else malformed
  | _ => malformed
  end.
