(* C03walk suite glue: the PUBLIC GuestMemory::try_access(count, addr, f) with a scripted callback.
   case:  kind(0 GuestMemoryMmap, 1 MockMem) mode [starts] [lens] count addr [answer kinds] [answer values]
   obs :  [calls, 6 numbers each: total len start region-index rk rv]  k  v
   An answer (kind, value) is resolved against the offered length len:
     0 Ok(value)   1 Ok(len)   2 Ok(len + value mod 2^64)   3 Ok(len - min(value, len))   other Err(HostAddressNotAvailable)
   once the script is used up the callback is honest (Ok(len)).  The model is Impl/Guest.v's try_access (the same
   function all C02/C03 theorems are about) with this callback threading (remaining script, call log) as its state. *)
From VM Require Import Prelude.MachInt Prelude.Outcome Prelude.Tok Impl.Address Impl.Guest Spec.C02 Spec.C03walk.

Definition wst : Type := (list (N * N) * list wcall)%type.
Definition resolve (ans : N * N) (len : N) : N * N :=
  match fst ans with
  | 0 => (0, snd ans)
  | 1 => (0, len)
  | 2 => (0, (len + snd ans) mod W64)
  | 3 => (0, len - N.min (snd ans) len)
  | _ => (1, 5)
  end.
Definition fscript (s : wst) (total len start : N) (i : nat) : outcome (wst * res N) :=
  let ans := match fst s with a :: _ => a | [] => (1, 0) end in
  let r := resolve ans len in
  let c := {| wc_k := total; wc_len := len; wc_start := start; wc_i := N.of_nat i; wc_rk := fst r; wc_rv := snd r |} in
  Val ((tl (fst s), c :: snd s), if fst r =? 0 then inl (snd r) else inr EHostAddressNotAvailable).

Definition walk_fuel (c : wcase) : nat := S (S (length (w_script c) + length (w_L c))).
Definition obs_of (x : outcome (wst * res N)) : wobs :=
  match x with
  | Val (s, inl n) => {| wo_calls := rev (snd s); wo_k := 1; wo_v := n |}
  | Val (s, inr e) => {| wo_calls := rev (snd s); wo_k := 2; wo_v := err_code e |}
  | _ => {| wo_calls := []; wo_k := 3; wo_v := 0 |}
  end.
Definition run_C03walk (c : wcase) : wobs :=
  obs_of (try_access find_lin (w_mode c) (w_L c) (w_count c) fscript (walk_fuel c) (w_script c, []) (w_addr c) 0).

(* ---- wire format ---- *)
Definition enc_call (c : wcall) : list N := [wc_k c; wc_len c; wc_start c; wc_i c; wc_rk c; wc_rv c].
Definition enc_walk (o : wobs) : list tok := [TL (flat_map enc_call (wo_calls o)); TN (wo_k o); TN (wo_v o)].
Fixpoint dec_calls (fuel : nat) (l : list N) {struct fuel} : option (list wcall) :=
  match fuel with
  | O => None
  | S f =>
    match l with
    | [] => Some []
    | k :: ln :: st :: i :: rk :: rv :: t =>
        match dec_calls f t with
        | Some r => Some ({| wc_k := k; wc_len := ln; wc_start := st; wc_i := i; wc_rk := rk; wc_rv := rv |} :: r)
        | None => None end
    | _ => None
    end
  end.
Definition u64w (x : N) : bool := x <? W64.
Definition suite_C03walk (inp obs : list tok) : verdict :=
  match inp with
  | [TN kind; TN md; TL starts; TL lens; TN count; TN addr; TL kinds; TL vals] =>
      if (length starts =? length lens)%nat && (length kinds =? length vals)%nat && (length kinds <=? 64)%nat
         && (length starts <=? 64)%nat && forallb u64w starts && forallb u64w lens && forallb u64w vals
         && forallb (fun k => k <? 8) kinds && u64w count && u64w addr && (kind <? 2) then
        let cs := {| w_mode := if md =? 0 then Debug else Release; w_L := combine starts lens;
                     w_count := count; w_addr := addr; w_script := combine kinds vals |} in
        match obs with
        | [TL calls; TN k; TN v] =>
            match dec_calls (S (length calls)) calls with
            | Some cl => {| v_model := enc_walk (run_C03walk cs);
                            v_ok := (k <? 10) && ok_C03walk cs {| wo_calls := cl; wo_k := k; wo_v := v |};
                            v_wellformed := true |}
            | None => malformed end
        | _ => malformed end
      else malformed
  | _ => malformed end.
