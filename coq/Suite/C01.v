(* C01 suite glue: parse a trace line, run the model (Impl/Volatile.v) over the request list,
   judge the real observation with ok_C01.  Three suite names share one wire format:
     C01      one request on a slice root (real or fake parent)
     C01chain chains of requests on a slice root
     C01reg   requests on MmapRegion / GuestRegionMmap / GuestMemoryMmap roots and chains below *)
From VM Require Import Prelude.MachInt Prelude.Outcome Prelude.Tok Impl.Volatile Spec.C01.

Definition ety_of (t : N) : ety := {| e_size := ty_size t; e_align := ty_align t |}.
(* the atomic type a type id stands for in get_atomic_ref: its size, its own alignment, and the
   alignment of its value type (Impl/Volatile.v atomic_ty) *)
Definition aty_of (t : N) : atomic_ty := {| at_size := ty_size t; at_align := aty_align t; at_valign := ty_align t |}.

(* request code -> model operation (19/20 are GuestMemory requests, handled in run_step) *)
Definition dop_of (o : sop) : option dop :=
  let T := ety_of (s_ty o) in let a := s_a o in let b := s_b o in
  match s_rq o with
  | QGetSlice => Some (DGetSlice a b) | QAsVolatileSlice => Some DAsVolatileSlice
  | QGetRef => Some (DGetRef T a) | QGetArrayRef => Some (DGetArrayRef T a b)
  | QAlignedAsRef => Some (DAlignedAsRef T a) | QAlignedAsMut => Some (DAlignedAsMut T a)
  | QGetAtomicRef => Some (DGetAtomicRef (atomic_ety (aty_of (s_ty o))) a) | QOffset => Some (DOffset a)
  | QSubslice => Some (DSubslice a b) | QSplitLo => Some (DSplitAtLo a) | QSplitHi => Some (DSplitAtHi a)
  | QIntoArrayU8 => Some DIntoArrayU8 | QRefToSlice => Some DRefToSlice | QRefAt => Some (DRefAt a)
  | QArrToSlice => Some DArrToSlice | QFromSlice => Some (DFromSlice T a b)
  | QGrGetSlice => Some (DGrGetSlice a b) | QGrHostAddr => Some (DGrGetHostAddress a)
  | QGrAsSlice => Some DGrAsVolatileSlice
  | QGmGetSlice | QGmHostAddr => None
  end.

Definition class_of_verr (e : verr) : N :=
  match e with EOutOfBounds _ => 1 | EOverflow _ _ => 2 | ETooBig _ _ => 3 | EMisaligned _ _ => 4 end.
Definition class_of_gerr (e : gerr) : N :=
  match e with GInvalidGuestAddress _ => 6 | GInvalidBackendAddress => 9 | GHostAddressNotAvailable => 10 end.
Definition class_of_derr (e : derr) : N :=
  match e with DV e => class_of_verr e | DG e => class_of_gerr e | DNone => 8 | DNotApplicable => 7 end.

Definition err_obs (cl : N) : sobs :=
  {| o_class := cl; o_off := 0; o_len := 0; o_glen := 0; o_nelem := 0; o_ridx := 0 |}.

(* the accessor's own report of its byte length: slice.len(), ref.len(),
   arr.len() * arr.element_size() (computed exactly by the harness), size_of_val(&T), 1 *)
Definition acc_nelem (a : accessor) : N := match a with AArr x => va_len x | _ => 0 end.

(* what the harness observes of an accessor (see harness/src/suites/c01.rs `observe`) *)
Definition obs_of (c : case01) (ridx : N) (a : accessor) : sobs :=
  let off := wrapping_sub (acc_base a) (root_base c ridx) in
  match acc_guard (c_mode c) a with
  | Val (Some g) => {| o_class := 0; o_off := wrapping_sub (pg_addr g) (root_base c ridx);
                       o_len := acc_len a; o_glen := pg_len g; o_nelem := acc_nelem a; o_ridx := ridx |}
  | Val None => {| o_class := 0; o_off := off; o_len := acc_len a; o_glen := acc_len a;
                   o_nelem := acc_nelem a; o_ridx := ridx |}
  | _ => {| o_class := 0; o_off := 0; o_len := acc_len a; o_glen := GUARD_PANIC;
            o_nelem := acc_nelem a; o_ridx := ridx |}
  end.

(* the regions of a mapped root as the model sees them *)
Fixpoint mk_regions (i : N) (l : list (N * N)) {struct l} : list gregion :=
  match l with
  | [] => []
  | (gb, sz) :: r => GR (RG (REG_BASE + i * REG_STRIDE) sz) gb :: mk_regions (i + 1) r
  end.
(* GuestMemoryMmap::find_region on a sorted, non-overlapping region list (established by
   from_regions; find_region itself belongs to C02): the region containing addr, with its index *)
Fixpoint find_region_lin (i : N) (l : list gregion) (addr : N) {struct l} : option (N * gregion) :=
  match l with
  | [] => None
  | g :: r => if (gr_base g <=? addr) && (addr - gr_base g <? gr_len g) then Some (i, g)
              else find_region_lin (i + 1) r addr
  end.

Inductive rstate := SAcc (ridx : N) (a : accessor) | SGMem.

Definition root_state (c : case01) : rstate :=
  let k := c_rootk c in
  if is_slice_root k then SAcc 0 (ASlice (VS (c_base c) (c_len c)))
  else if k =? RK_GMEM then SGMem
  else match mk_regions 0 (c_regions c) with
       | g :: _ => SAcc 0 (if k =? RK_REGION then ARegion (gr_map g) else AGRegion g)
       | [] => SAcc 0 (ARegion (RG REG_BASE 0))
       end.

Definition finish (c : case01) (st : rstate) (ridx : N) (r : outcome dresult) : sobs * rstate :=
  match r with
  | Val (Ok a) => (obs_of c ridx a, SAcc ridx a)
  | Val (Err e) => (err_obs (class_of_derr e), st)
  | _ => (err_obs 5, st)
  end.

Definition run_step (c : case01) (st : rstate) (o : sop) : sobs * rstate :=
  match st with
  | SAcc ridx p =>
      match dop_of o with
      | Some d => finish c st ridx (derive (c_mode c) p d)
      | None => (err_obs 7, st)
      end
  | SGMem =>
      let fr := find_region_lin 0 (mk_regions 0 (c_regions c)) (s_a o) in
      let ridx := match fr with Some (i, _) => i | None => 0 end in
      match s_rq o with
      | QGmGetSlice => finish c st ridx (lift_g ASlice (gm_get_slice (c_mode c) (option_map snd fr) (s_a o) (s_b o)))
      | QGmHostAddr => finish c st ridx (lift_g AHost (gm_get_host_address (option_map snd fr) (s_a o)))
      | _ => (err_obs 7, st)
      end
  end.

Fixpoint run_chain (c : case01) (st : rstate) (ops : list sop) {struct ops} : list sobs :=
  match ops with
  | [] => []
  | o :: r => let '(ob, st') := run_step c st o in ob :: run_chain c st' r
  end.

(* the implementation model's observation *)
Definition run_C01 (c : case01) : list sobs := run_chain c (root_state c) (c_ops c).

(* ------------------------------------------------------------------ tokens *)
Definition enc_obs (o : sobs) : tok :=
  TL [o_class o; o_off o; o_len o; o_glen o; o_nelem o; o_ridx o].

Fixpoint parse_ops (l : list tok) {struct l} : option (list sop) :=
  match l with
  | [] => Some []
  | TL [code; ty; a; b] :: r =>
      match rq_of_code code with
      | Some q =>
          if (a <? W64) && (b <? W64) && ty_known ty then
            match parse_ops r with
            | Some ops => Some ({| s_rq := q; s_ty := ty; s_a := a; s_b := b |} :: ops)
            | None => None end
          else None
      | None => None
      end
  | _ => None
  end.
Fixpoint parse_obs (l : list tok) {struct l} : option (list sobs) :=
  match l with
  | [] => Some []
  | TL [cl; off; len; glen; nelem; ridx] :: r =>
      match parse_obs r with
      | Some obs => Some ({| o_class := cl; o_off := off; o_len := len; o_glen := glen;
                             o_nelem := nelem; o_ridx := ridx |} :: obs)
      | None => None end
  | _ => None
  end.
Fixpoint parse_regions (l : list N) {struct l} : option (list (N * N)) :=
  match l with
  | [] => Some []
  | gb :: sz :: r =>
      if (gb <? W64) && (sz <? REG_STRIDE) then
        match parse_regions r with Some rs => Some ((gb, sz) :: rs) | None => None end
      else None
  | _ => None
  end.

Definition parse_case (inp : list tok) : option case01 :=
  match inp with
  | TN md :: TN rk :: TN base :: TN len :: TL regs :: ops =>
      match parse_regions regs, parse_ops ops with
      | Some rs, Some os =>
          if (base <? W64) && (len <? W64) && (base + len <=? W64) && (rk <=? RK_GMEM) &&
             (is_slice_root rk || negb (match rs with [] => true | _ => false end))
          then Some {| c_mode := if md =? 0 then Debug else Release; c_rootk := rk; c_base := base;
                       c_len := len; c_regions := rs; c_ops := os |}
          else None
      | _, _ => None
      end
  | _ => None
  end.

(* the observation starts with a summary token (class of the first answer, 3f if none) that
   only serves the evidence histogram; the checker does not look at it *)
Definition first_class (l : list sobs) : N := match l with o :: _ => o_class o | [] => 63 end.
Definition suite_body (inp obs : list tok) : verdict :=
  match obs with
  | TN _ :: obs' =>
      match parse_case inp, parse_obs obs' with
      | Some c, Some ob =>
          (* one answer per request, else the line is not an observation of this case (e.g. the
             harness's "could not decode" marker) - a protocol error, not a verdict *)
          if N.of_nat (length ob) =? N.of_nat (length (c_ops c)) then
            {| v_model := TN (first_class (run_C01 c)) :: map enc_obs (run_C01 c);
               v_ok := ok_C01 c ob; v_wellformed := true |}
          else malformed
      | _, _ => malformed
      end
  | _ => malformed
  end.

Definition suite_C01 (inp obs : list tok) : verdict := suite_body inp obs.
Definition suite_C01chain (inp obs : list tok) : verdict := suite_body inp obs.
Definition suite_C01reg (inp obs : list tok) : verdict := suite_body inp obs.

(* ------------------------------------------------------------------ well-formed cases
   what the theorems assume of a case (the parser enforces all of it except that it also admits
   a fake parent ending exactly at 2^64, which the generator uses for offset / split_at only):
   a slice root is an address range ending below 2^64, no longer than isize::MAX (longer fake
   parents are exercised by the correspondence only); a mapped root has at least one region,
   each smaller than REG_STRIDE, at most 2^20 of them *)
Definition wf_regions (l : list (N * N)) : Prop :=
  Forall (fun r => snd r < REG_STRIDE) l /\ N.of_nat (length l) <= 1048576.
Definition wf_case (c : case01) : Prop :=
  c_rootk c <= RK_GMEM /\
  (if is_slice_root (c_rootk c) then c_base c + c_len c < W64 /\ c_len c <= ISZ_MAX
   else c_regions c <> [] /\ wf_regions (c_regions c)).
