(* Suites C05 and C16 share one trace format (the harness suite "DIRTY" is run once per property
   under both names): 
     inp:  hostmod nregions [start,size,ps,tracked]*  step*        step = one TL, see dec_step
           ([4,ri,rj,doff,dlen,nchain,(dop,x,y,z)*] = slice-to-slice copy out of the accessor derived from region ri
            into region rj's get_slice(doff,dlen))
     obs:  per step:  [ok,count,late]  then per region  [page bits...] [o1,n1,o2,n2,...]              *)
From VM Require Import Prelude.MachInt Prelude.Tok Impl.Dirty Spec.C05.

Definition dec_dop (l : list N) : option (dop * list N) :=
  match l with
  | 0 :: o :: c :: _ :: r => Some (DSub o c, r)
  | 1 :: c :: _ :: _ :: r => Some (DOffset c, r)
  | 2 :: m :: s :: _ :: r => Some (DSplit m (negb (s =? 0)), r)
  | 3 :: o :: sz :: _ :: r => Some (DGetRef o sz, r)
  | 4 :: o :: esz :: n :: r => Some (DGetArr o esz n, r)
  | 5 :: i :: _ :: _ :: r => Some (DRefAt i, r)
  | 6 :: _ :: _ :: _ :: r => Some (DToSlice, r)
  | _ => None end.
Fixpoint dec_chain (fuel : nat) (n : N) (l : list N) : option (list dop) :=
  match fuel with
  | O => None
  | S f => if n =? 0 then (match l with [] => Some [] | _ => None end)
           else match dec_dop l with
                | Some (d, r) => match dec_chain f (n - 1) r with Some ds => Some (d :: ds) | None => None end
                | None => None end
  end.

Definition dec_sop (code a1 a2 a3 a4 : N) : option sop :=
  match code with
  | 0 => Some (OWrite a1 a2) | 1 => Some (OWriteSlice a1 a2) | 2 => Some (OStore a1 a2)
  | 3 => Some (OCopyFrom a1 a2) | 4 => Some (OReadFrom a1 a2 a3) | 5 => Some (OReadExactFrom a1 a2 a3)
  | 6 => if a4 =? 2
         then (* a read that fails part-way: a3 = first inaccessible region offset (a host page boundary);
                 the datagram of a1 bytes has to fit the socket buffer *)
              if (a3 mod 4096 =? 0) && (a1 <=? 60000) && (a3 <=? 1048576) then Some (OReadFromFdFault a1 a2 a3) else None
         else Some (OReadFromFd a1 a2 a3 (negb (a4 =? 0)))
  | 7 => Some (ORead a1 a2) | 8 => Some (OReadSlice a1 a2) | 9 => Some (OLoad a1 a2)
  | 10 => Some (OCopyTo a1 a2) | 11 => Some (OWriteTo a1 a2) | 12 => Some (OWriteAllTo a1 a2)
  | 19 => if a4 <? 2 then Some (OWriteToFd a1 a2 (negb (a4 =? 0))) else None
  | 13 => Some ORefStore | 14 => Some ORefLoad
  | 15 => Some (OArrStore a1) | 16 => Some (OArrLoad a1) | 17 => Some (OArrCopyFrom a1) | 18 => Some (OArrCopyTo a1)
  | _ => None end.
Definition dec_gop (code a1 a2 a3 : N) : option gop :=
  match code with
  | 0 => Some (GWrite a1 a2) | 1 => Some (GWriteSlice a1 a2) | 2 => Some (GStore a1 a2)
  | 3 => Some (GReadFrom a1 a2 a3) | 4 => Some (GRead a1 a2) | 5 => Some (GLoad a1 a2)
  | _ => None end.

(* region-layer op codes (step kind 6): the slice-level codes that exist on Bytes<MemoryRegionAddress>, plus
   21 = write_obj::<T> (Bytes default: write_slice(val.as_slice(), addr)), 22 = read_obj::<T> (read_slice) *)
Definition dec_region_sop (code a1 a2 a3 a4 : N) : option sop :=
  match code with
  | 21 => Some (OWriteSlice a1 a2) | 22 => Some (OReadSlice a1 a2)
  | 3 | 10 | 13 | 14 | 15 | 16 | 17 | 18 => None
  | _ => dec_sop code a1 a2 a3 a4 end.

(* root kinds of step kinds 5 and 7: 0 region.as_volatile_slice(), 1 MmapRegion::get_slice(x, y) (through Deref),
   2 GuestRegionMmap::get_slice(MemoryRegionAddress(x), y), 4 MmapRegion::get_ref::<T>(x) (size_of T = y),
   5 MmapRegion::get_array_ref::<T>(x, z) (size_of T = y); kind 3 = gm.get_slice(GuestAddress(x), y) is XGm *)
Definition dec_rootk (rk x y z : N) : option rootk :=
  match rk with
  | 0 => Some RWhole | 1 => Some (RMapSlice x y) | 2 => Some (RRegSlice x y)
  | 4 => Some (RMapRef x y) | 5 => Some (RMapArr x y z)
  | _ => None end.

Definition dec_step (l : list N) : option xstep :=
  match l with
  | 0 :: ri :: code :: a1 :: a2 :: a3 :: a4 :: nch :: r =>
      if (64 <? ri) || (64 <? nch) then None else
      if (code =? 23) || (code =? 24) then
        (* ptr_guard / ptr_guard_mut of the accessor, taken and dropped *)
        match dec_chain (S (length r)) nch r with Some ch => Some (XGuard (N.to_nat ri) RWhole ch) | None => None end
      else
      match dec_sop code a1 a2 a3 a4, dec_chain (S (length r)) nch r with
      | Some o, Some ch => Some (XBase (SAcc (N.to_nat ri) ch o))
      | _, _ => None end
  | [1; code; a1; a2; a3] => match dec_gop code a1 a2 a3 with Some o => Some (XBase (SGuest o)) | None => None end
  | [2; ri] => if 64 <? ri then None else Some (XBase (SReset (N.to_nat ri)))
  | [3; ri; off; len] => if 64 <? ri then None else Some (XBase (SResetRange (N.to_nat ri) off len))
  | 4 :: ri :: rj :: doff :: dlen :: nch :: r =>
      if (64 <? ri) || (64 <? rj) || (64 <? nch) then None else
      match dec_chain (S (length r)) nch r with
      | Some ch => Some (XBase (SCopy (N.to_nat ri) ch (N.to_nat rj) doff dlen))
      | None => None end
  | 5 :: ri :: rk :: rx :: ry :: rz :: code :: a1 :: a2 :: a3 :: a4 :: nch :: r =>
      if (64 <? ri) || (64 <? nch) then None else
      if (code =? 23) || (code =? 24) then
        match dec_rootk rk rx ry rz, dec_chain (S (length r)) nch r with
        | Some k, Some ch => Some (XGuard (N.to_nat ri) k ch)
        | _, _ => None end
      else
      match dec_sop code a1 a2 a3 a4, dec_chain (S (length r)) nch r with
      | Some o, Some ch =>
          if rk =? 3 then Some (XGm rx ry ch o)
          else match dec_rootk rk rx ry rz with
               | Some k => Some (XRoot (N.to_nat ri) k ch o)
               | None => None end
      | _, _ => None end
  | [6; ri; code; a1; a2; a3; a4] =>
      if 64 <? ri then None else
      match dec_region_sop code a1 a2 a3 a4 with
      | Some o => Some (XRegion (N.to_nat ri) o)
      | None => None end
  (* queries that write nothing: 0 regs[ri].get_host_address(MemoryRegionAddress(a)), 1 gm.get_host_address(GuestAddress(a)) - the
     address resolution and bounds check of a one-byte load at that layer (check_address / to_region_addr), count 1 when
     granted; 2 regs[ri].as_ptr() / len() / start_addr() / bitmap().dirty_at - an empty read of the region *)
  | [8; ri; q; a] =>
      if 64 <? ri then None else
      match q with
      | 0 => Some (XBase (SAcc (N.to_nat ri) [] (OLoad 1 a)))
      | 1 => Some (XBase (SGuest (GLoad 1 a)))
      | 2 => Some (XBase (SAcc (N.to_nat ri) [] (ORead 0 0)))
      | _ => None end
  | 7 :: ri :: rk :: rx :: ry :: rz :: rj :: doff :: dlen :: nch :: r =>
      if (64 <? ri) || (64 <? rj) || (64 <? nch) then None else
      match dec_rootk rk rx ry rz, dec_chain (S (length r)) nch r with
      | Some k, Some ch => Some (XCopyRoot (N.to_nat ri) k ch (N.to_nat rj) doff dlen)
      | _, _ => None end
  | _ => None end.

(* step kind for the checkers, derived from the case alone *)
Definition kind_of (s : step) : skind :=
  match s with
  | SReset _ | SResetRange _ _ _ => KReset
  | SAcc _ _ (OReadFromFd cnt _ _ true) => KFdError cnt
  | SAcc _ _ (OReadFromFdFault cnt _ _) => KFdError cnt
  | _ => KWriteLike end.

Fixpoint dec_regions (n : nat) (l : list tok) : option (list region * list tok) :=
  match n with
  | O => Some ([], l)
  | S k => match l with
           | TL [st; sz; ps; trk] :: r =>
               (* the token is flavour + 16 * region kind; region kind 1 = (Xen build) a grant region mapped in advance, whose
                  start is a page multiple; kinds 2..8 = the region comes from one of the crate's own bitmap-creating constructors
                  (MmapRegion::new / from_file / build / build_raw, GuestRegionMmap::from_range, GuestMemoryMmap::from_ranges /
                  from_ranges_with_files): the model is the same region with ceil(size / ps) clean pages - the constructor and the
                  kind of mapping behind a region are not part of the model: MmapRegion::get_slice
                  takes pointer and bitmap view the same way for every kind *)
               let tr := trk mod 16 in
               (* flavour 7 = the bitmap of the crate's default constructors (NewBitmap::with_len): one bit per host page *)
               if (ps =? 0) || (1000000 <? sz) || ((tr =? 7) && negb (ps =? 4096))
                  || (8 <? trk / 16) || ((trk / 16 =? 1) && (negb (st mod 4096 =? 0) || (1099511627776 <? st))) then None else
               match dec_regions k r with
               | Some (rs, rest) =>
                   Some ({| r_start := st; r_size := sz; r_ps := ps; r_tracked := (tr =? 1) || (tr =? 2) || (tr =? 3) || (tr =? 5) || (tr =? 6) || (tr =? 7);
                            r_dirty := repeat false (N.to_nat (npages sz ps)) |} :: rs, rest)
               | None => None end
           | _ => None end
  end.
Fixpoint dec_steps (l : list tok) : option (list xstep) :=
  match l with
  | [] => Some []
  | TL s :: r => match dec_step s, dec_steps r with Some x, Some xs => Some (x :: xs) | _, _ => None end
  | _ => None end.

Definition geom_of (r : region) : rgeom :=
  {| g_start := r_start r; g_size := r_size r; g_ps := r_ps r; g_tracked := r_tracked r |}.

(* ---- model observation *)
Definition runs_of (nreg : nat) (es : list eff) : list (list (N * N)) :=
  map (fun i => flat_map (fun e => if (Nat.eqb (e_r e) i) && (0 <? e_wn e) then [(e_woff e, e_wn e)] else []) es)
      (seq 0 nreg).
(* pages on which a byte is stored after the last mark_dirty call covering the page, in a trace of
   micro-events - what the harness's probing bitmap (flavour 5) counts: at every mark_dirty call it
   notes which bytes of the covered pages have already changed; at the end of the step a page is
   "late" when it holds a changed byte not so noted *)
Definition marks_page (ri : nat) (ps p : N) (ev : mev) : bool :=
  match ev with
  | MMark e => Nat.eqb (e_r e) ri && negb (e_mlen e =? 0) && page_in ps (e_moff e) (e_mlen e) p
  | _ => false end.
Definition writes_page (ri : nat) (ps p : N) (e : eff) : bool :=
  Nat.eqb (e_r e) ri && (0 <? e_wn e) && (e_woff e / ps <=? p) && (p <=? (e_woff e + e_wn e - 1) / ps).
Fixpoint late_page (ri : nat) (ps p : N) (tr : list mev) : bool :=
  match tr with
  | [] => false
  | MWrite e :: post => (writes_page ri ps p e && negb (existsb (marks_page ri ps p) post)) || late_page ri ps p post
  | _ :: post => late_page ri ps p post
  end.
Fixpoint late_count (i : nat) (rs : list region) (tr : list mev) : N :=
  match rs with
  | [] => 0
  | r :: t => (if r_tracked r
               then N.of_nat (length (filter (fun p => late_page i (r_ps r) p tr) (map N.of_nat (seq 0 (length (r_dirty r))))))
               else 0) + late_count (S i) t tr
  end.
Definition late_of (rs : list region) (es : list eff) : N := late_count 0 rs (flat_map micro es).

Definition obs_of (rs : list region) (out : outcome1) : sobs :=
  {| s_ok := o_ok out; s_count := o_count out; s_late := late_of rs (o_effs out);
     s_dirty := map (fun r => (if r_tracked r then r_dirty r else map (fun _ => false) (r_dirty r)) ++ [false; false]) rs;
     s_changed := runs_of (length rs) (o_effs out) |}.
Fixpoint run_hist (hostmod : N) (rs : list region) (ss : list step) : list sobs :=
  match ss with
  | [] => []
  | s :: r => let '(rs', out) := run_step hostmod rs s in obs_of rs' out :: run_hist hostmod rs' r
  end.

(* ---- encoding / decoding observations *)
Fixpoint enc_runs (l : list (N * N)) : list N := match l with [] => [] | (o, n) :: r => o :: n :: enc_runs r end.
Fixpoint dec_runs (l : list N) : option (list (N * N)) :=
  match l with
  | [] => Some []
  | o :: n :: r => match dec_runs r with Some x => Some ((o, n) :: x) | None => None end
  | _ => None end.
Definition enc_bits (l : list bool) : list N := map (fun b : bool => if b then 1 else 0) l.
Definition dec_bits (l : list N) : list bool := map (fun x => negb (x =? 0)) l.

Definition enc_sobs (o : sobs) : list tok :=
  TL [if s_ok o then 1 else 0; s_count o; s_late o] ::
  flat_map (fun '(d, c) => [TL (enc_bits d); TL (enc_runs c)]) (combine (s_dirty o) (s_changed o)).

Fixpoint dec_pairs (n : nat) (l : list tok) : option (list (list bool) * list (list (N * N)) * list tok) :=
  match n with
  | O => Some ([], [], l)
  | S k => match l with
           | TL d :: TL c :: r =>
               match dec_runs c, dec_pairs k r with
               | Some c', Some (ds, cs, rest) => Some (dec_bits d :: ds, c' :: cs, rest)
               | _, _ => None end
           | _ => None end
  end.
Fixpoint dec_obs (fuel nreg : nat) (l : list tok) : option (list sobs) :=
  match fuel with
  | O => None
  | S f =>
      match l with
      | [] => Some []
      | TL [ok; cnt; late] :: r =>
          match dec_pairs nreg r with
          | Some (ds, cs, rest) =>
              match dec_obs f nreg rest with
              | Some os => Some ({| s_ok := negb (ok =? 0); s_count := cnt; s_late := late; s_dirty := ds; s_changed := cs |} :: os)
              | None => None end
          | None => None end
      | _ => None end
  end.

Definition dirty_suite (which : N) (inp obs : list tok) : verdict :=
  match inp with
  | TN hostmod :: TN nreg :: rest =>
      if 64 <? nreg then malformed else
      match dec_regions (N.to_nat nreg) rest with
      | Some (rs, rest') =>
          (* the harness builds every region of a case with the bitmap flavour of the first one *)
          if negb (forallb (fun t => match t, rest with
                                     (* ... and, for from_ranges (kind 7: one call makes all the bitmaps), one page size *)
                                     | TL [_; _; p; f], TL [_; _; p0; f0] :: _ => (f =? f0) && ((p =? p0) || negb (f / 16 =? 7))
                                     | _, _ => false end) (firstn (N.to_nat nreg) rest)) then malformed else
          match dec_steps rest', dec_obs (S (length obs)) (N.to_nat nreg) obs with
          | Some xs, Some os =>
              (* steps with another first accessor / on the region layer run as the base steps they are proved equal to
                 (Proofs/C05Root.v: run_xhist_lower); the region geometry [lower] looks at never changes *)
              let ss := map (lower rs) xs in
              let model := run_hist hostmod rs ss in
              let gs := map geom_of rs in
              let before := map (fun r => r_dirty r ++ [false; false]) rs in
              let ks := map kind_of ss in
              {| v_model := flat_map enc_sobs model;
                 v_ok := if which =? 5 then ok_hist ok_C05_step gs before ks os
                         else ok_hist ok_C16_step gs before ks os;
                 v_wellformed := true |}
          | _, _ => malformed end
      | None => malformed end
  | _ => malformed end.

Definition suite_C05 := dirty_suite 5.
Definition suite_C16 := dirty_suite 16.
