From VM Require Import Prelude.MachInt Prelude.Bytes Prelude.Tok Impl.Endian Spec.C20.

Definition run_C20 (c : case20) (size align : N) : obs20 :=
  let t := k_ty c in
  let w := e_from t (k_v c) in
  {| b_bytes := e_bytes t w; b_native := e_to_native t w;
     b_eq1 := e_eq_new_old t w (k_x c); b_eq2 := e_eq_old_new t (k_x c) w;
     (* `!=` is PartialEq's provided method: the negation of eq (endian_type! defines only eq) *)
     b_ne1 := negb (e_eq_new_old t w (k_x c)); b_ne2 := negb (e_eq_old_new t (k_x c) w);
     (* size_of/align_of are compile-time facts of the Rust types (const_assert! in the source):
        the model takes them from the observation of the native type *)
     b_size := size; b_align := align; b_nsize := size; b_nalign := align;
     (* the other routes go through the same stored representation (VolatileRef / VolatileArrayRef element i at
        byte offset i * size: C04) - the model has a single representation, so they trivially agree *)
     b_routes := true |}.

Definition ety_of (n : N) : option ety :=
  match n with
  | 0 => Some {| e_end := LE; e_size := 2 |} | 1 => Some {| e_end := LE; e_size := 4 |}
  | 2 => Some {| e_end := LE; e_size := 8 |} | 3 => Some {| e_end := LE; e_size := 8 |}   (* LeSize *)
  | 4 => Some {| e_end := BE; e_size := 2 |} | 5 => Some {| e_end := BE; e_size := 4 |}
  | 6 => Some {| e_end := BE; e_size := 8 |} | 7 => Some {| e_end := BE; e_size := 8 |}   (* BeSize *)
  | _ => None end.

Definition enc20 (o : obs20) : list tok :=
  [TL (b_bytes o); TN (b_native o); bool_tok (b_eq1 o); bool_tok (b_eq2 o); bool_tok (b_ne1 o); bool_tok (b_ne2 o);
   TN (b_size o); TN (b_align o); TN (b_nsize o); TN (b_nalign o); bool_tok (b_routes o)].

Definition suite_C20 (inp obs : list tok) : verdict :=
  match inp, obs with
  | [TN ty; TN v; TN x], [TL bs; TN nat_; TN e1; TN e2; TN n1; TN n2; TN sz; TN al; TN nsz; TN nal; TN routes] =>
      match ety_of ty with
      | Some t =>
          if (v <? 256 ^ N.of_nat (e_size t)) && (x <? 256 ^ N.of_nat (e_size t)) then
            let c := {| k_ty := t; k_v := v; k_x := x |} in
            let o := {| b_bytes := bs; b_native := nat_; b_eq1 := negb (e1 =? 0); b_eq2 := negb (e2 =? 0); b_ne1 := negb (n1 =? 0); b_ne2 := negb (n2 =? 0);
                        b_size := sz; b_align := al; b_nsize := nsz; b_nalign := nal; b_routes := negb (routes =? 0) |} in
            {| v_model := enc20 (run_C20 c nsz nal); v_ok := ok_C20 c o; v_wellformed := true |}
          else malformed
      | None => malformed end
  | _, _ => malformed end.
