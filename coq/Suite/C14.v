(* C14 suite glue.
   case:  mode target [layout] [memory] addr count op [script] [source]
            target 0 VolatileSlice   layout [offset-in-parent, length]     addr = offset in the slice
                   1 GuestRegionMmap layout [guest start, length]          addr = MemoryRegionAddress
                   2 GuestMemoryMmap layout [start1, len1, start2, len2, ...] (memory = regions concatenated)
            op 0 read_volatile_from 1 read_exact_volatile_from 2 write_volatile_to 3 write_all_volatile_to
            script element: 0 Full 1 Zero 2 Eintr 3 HardErr 16+k Short k
   obs:   rk a b calls moved [sink] [memory after]          (rk: see Spec/C14.v) *)
From VM Require Import Prelude.MachInt Prelude.Outcome Prelude.Tok Prelude.C1314List Impl.Io Impl.IoGuest Spec.C14.

Definition rc_io (e : ioerr) : N :=
  match e with EUnexpectedEof => 2 | EWriteZero => 3 | EInterrupted => 4 | EOther => 5 end.
Definition rc_res {A} (okc : A -> N * N) (r : res A) : N * N * N :=
  match r with
  | Ok a => (okc a, 0)
  | Err (VIo e) => (rc_io e, 0, 0)
  | Err _ => (6, 0, 0)
  end.
Definition rc_gres {A} (okc : A -> N * N) (r : gres A) : N * N * N :=
  match r with
  | GOk a => (okc a, 0)
  | GErr (GIo e) => (rc_io e, 0, 0)
  | GErr GInvalidBackendAddress => (6, 0, 0)
  | GErr GInvalidGuestAddress => (7, 0, 0)
  | GErr (GPartialBuffer e c) => (8, e, c)
  | GErr GCallbackOutOfRange => (9, 0, 0)
  | GErr GGuestAddressOverflow => (10, 0, 0)
  end.
Definition okc_n (n : N) : N * N := (0, n).
Definition okc_u (_ : unit) : N * N := (1, 0).

Definition stream0 (c : case14) : sstream :=
  {| k_script := c_script c; k_src := c_src c; k_sink := []; k_done := [] |}.
Definition fuel14 (c : case14) : nat := length (c_script c) + 2.
Definition call_of (o : op14) : callT sstream := if is_read o then sr_call else sw_call.
Definition zero_err_of (o : op14) : ioerr := if is_read o then EUnexpectedEof else EWriteZero.

(* the operation of the case on the model: final stream, final memory, result code *)
Definition exec14 (c : case14) : outcome ((sstream * list N) * (N * N * N)) :=
  let fl := fuel14 c in
  let call := call_of (c_op c) in
  let s := stream0 c in
  let m := c_mem c in
  let addr := c_addr c in
  let count := c_count c in
  match c_target c with
  | TSlice soff slen =>
      let self := {| vs_addr := HBASE + soff; vs_off := soff; vs_len := slen |} in
      if is_exact (c_op c)
      then omap (fun x => (fst x, rc_res okc_u (snd x))) (vs_exact (zero_err_of (c_op c)) fl call self addr s m count)
      else omap (fun x => (fst x, rc_res okc_n (snd x))) (vs_upto fl call self addr s m count)
  | TRegion r =>
      if is_exact (c_op c)
      then omap (fun x => (fst x, rc_gres okc_u (snd x))) (region_exact (zero_err_of (c_op c)) fl call r addr s m count)
      else omap (fun x => (fst x, rc_gres okc_n (snd x))) (region_upto fl call r addr s m count)
  | TGuest L =>
      match c_op c with
      | RdUpTo => omap (fun x => (fst x, rc_gres okc_n (snd x))) (gm_read_volatile_from (c_mode c) fl call L addr s m count)
      | RdExact => omap (fun x => (fst x, rc_gres okc_u (snd x))) (gm_read_exact_volatile_from (c_mode c) fl call L addr s m count)
      | WrUpTo => omap (fun x => (fst x, rc_gres okc_n (snd x))) (gm_write_volatile_to (c_mode c) fl call L addr s m count)
      | WrAll => omap (fun x => (fst x, rc_gres okc_u (snd x))) (gm_write_all_volatile_to (c_mode c) fl call L addr s m count)
      end
  end.

Definition run_C14 (c : case14) : obs14 :=
  match exec14 c with
  | Val ((s, m), (rk, a, b)) =>
      {| o_rk := rk; o_a := a; o_b := b; o_calls := nlen (k_done s);
         o_moved := if is_read (c_op c) then nlen (c_src c) - nlen (k_src s) else nlen (k_sink s);
         o_sink := k_sink s; o_mem := m |}
  | Panic _ => {| o_rk := 11; o_a := 0; o_b := 0; o_calls := 0; o_moved := 0; o_sink := []; o_mem := c_mem c |}
  | OutOfFuel => {| o_rk := 12; o_a := 0; o_b := 0; o_calls := 0; o_moved := 0; o_sink := []; o_mem := c_mem c |}
  end.

(* ------------------------------------------------------------------ well-formed cases *)
Definition disjoint_from (r : region) (L : list region) : bool :=
  forallb (fun r' => (g_start r + g_len r <=? g_start r') || (g_start r' + g_len r' <=? g_start r)) L.
Fixpoint wf_regions (L : list region) (moff : N) {struct L} : bool :=
  match L with
  | [] => true
  | r :: t => (0 <? g_len r) && (g_start r + g_len r <? W64) && (g_moff r =? moff)
              && disjoint_from r t && wf_regions t (moff + g_len r)
  end.
Definition total_len (L : list region) : N := fold_right (fun r acc => g_len r + acc) 0 L.
Definition wf14 (c : case14) : bool :=
  match c_target c with
  | TSlice soff slen => soff + slen <=? nlen (c_mem c)
  | TRegion r => (g_moff r =? 0) && (g_len r =? nlen (c_mem c)) && (0 <? g_len r) && (g_start r + g_len r <? W64)
  | TGuest L => wf_regions L 0 && (total_len L =? nlen (c_mem c))
  end
  && (HBASE + nlen (c_mem c) <? W64) && (c_addr c <? W64) && (c_count c <? W64).

(* ------------------------------------------------------------------ tokens *)
Definition beh_of (n : N) : option beh :=
  match n with
  | 0 => Some Full | 1 => Some Zero | 2 => Some Eintr | 3 => Some HardErr
  | _ => if 16 <=? n then Some (Short (n - 16)) else None
  end.
Fixpoint parse_script (l : list N) {struct l} : option (list beh) :=
  match l with
  | [] => Some []
  | x :: t => match beh_of x, parse_script t with Some b, Some r => Some (b :: r) | _, _ => None end
  end.
Fixpoint parse_regions (l : list N) (moff : N) {struct l} : option (list region) :=
  match l with
  | [] => Some []
  | st :: ln :: t =>
      match parse_regions t (moff + ln) with
      | Some r => Some ({| g_start := st; g_len := ln; g_moff := moff |} :: r)
      | None => None
      end
  | _ => None
  end.
Definition target_of (tg : N) (lay : list N) : option target :=
  match tg, lay with
  | 0, [soff; slen] => Some (TSlice soff slen)
  | 1, [st; ln] => Some (TRegion {| g_start := st; g_len := ln; g_moff := 0 |})
  | 2, _ => match parse_regions lay 0 with Some L => Some (TGuest L) | None => None end
  | _, _ => None
  end.
Definition op_of (n : N) : option op14 :=
  match n with 0 => Some RdUpTo | 1 => Some RdExact | 2 => Some WrUpTo | 3 => Some WrAll | _ => None end.
Definition bytes_ok (l : list N) : bool := forallb (fun x => x <? 256) l.

Definition enc14 (o : obs14) : list tok :=
  [TN (o_rk o); TN (o_a o); TN (o_b o); TN (o_calls o); TN (o_moved o); TL (o_sink o); TL (o_mem o)].

Definition suite_C14 (inp obs : list tok) : verdict :=
  match inp, obs with
  | [TN md; TN tg; TL lay; TL mem; TN addr; TN count; TN op; TL script; TL src],
    [TN rk; TN a; TN b; TN calls; TN moved; TL sink; TL mem'] =>
      match target_of tg lay, op_of op, parse_script script with
      | Some t, Some o, Some sc =>
          let c := {| c_mode := if md =? 0 then Debug else Release; c_target := t; c_mem := mem; c_addr := addr;
                      c_count := count; c_op := o; c_script := sc; c_src := src |} in
          if wf14 c && bytes_ok mem && bytes_ok src then
            (* observed counters far beyond anything a case can cause are a failure as such; they are
               rejected before the checker converts them to unary nat (firstn / repeat) *)
            {| v_model := enc14 (run_C14 c);
               v_ok := if (calls <=? 100000) && (moved <=? 100000) then
                         ok_C14 c {| o_rk := rk; o_a := a; o_b := b; o_calls := calls; o_moved := moved;
                                     o_sink := sink; o_mem := mem' |}
                       else false;
               v_wellformed := true |}
          else malformed
      | _, _, _ => malformed
      end
  | _, _ => malformed
  end.

(* ------------------------------------------------------------------ suite C14adapt
   C14's conservation clause for the stream endpoints the CRATE provides (&[u8], Cursor, File, pipes and
   sockets - the adapters of src/io.rs), judged on the traces of suite C13 (same case and observation
   format, same implementation model: Suite/C13.v).  For every read of a history, with the stream state
   observed before and after the call and whatever the call returned (success, short count, failure):
     the bytes the reader lost (its position moved over them / they left the queue) are exactly the bytes
     stored at the front of the buffer, in order - none dropped, none stored twice - and the rest of the
     buffer is untouched;
   and for every write: what the writer received is a prefix of the buffer, in order.
   (Message queues are left out: a datagram longer than the buffer is truncated by the kernel.)
   The scripted-stream theorems of Properties/C14.v cover the generic loops; this checker covers the
   specialised endpoint implementations, on the real library's observations. *)
From VM Require Import Impl.Std Spec.C13 Suite.C13.

(* drop / take guarded against positions far beyond the data (a cursor may sit at 2^64-1): no number taken from
   a trace is ever turned into a unary natural larger than a list that is already there *)
Definition sdrop {A} (n : N) (l : list A) : list A := if nlen l <=? n then [] else ndrop n l.
Definition stake {A} (n : N) (l : list A) : list A := if nlen l <=? n then l else ntake n l.

Definition adapt_step_ok (k : skind) (st : sstate) (o : op13) (ob : opobs) : bool :=
  match o with
  | ORead b | OReadExact b =>
      match k with
      | KMsgQ => true
      | _ =>
          let before := match k with KQueue => s_data st | _ => sdrop (s_pos st) (s_data st) end in
          let consumed := match k with KQueue => nlen (s_data st) - a_pos ob | _ => a_pos ob - s_pos st end in
          let consumed := N.min consumed (nlen before) in     (* a position past the end consumes nothing more *)
          (consumed <=? nlen b)
          && list_eqb (stake consumed (a_buf ob)) (stake consumed before)
          && list_eqb (sdrop consumed (a_buf ob)) (sdrop consumed b)
      end
  | OWrite b | OWriteAll b =>
      match k with
      | KMsgQ => true
      | _ => list_eqb (a_out ob) (stake (nlen (a_out ob)) b)
      end
  | OSetPos _ => true
  end.

Fixpoint adapt_steps_ok (k : skind) (content : list N) (st : sstate) (ops : list op13) (obs : list opobs) {struct ops} : bool :=
  match ops, obs with
  | [], [] => true
  | o :: ops', ob :: obs' =>
      adapt_step_ok k st o ob
      && adapt_steps_ok k content (state_of_obs k content (a_data ob) (a_pos ob)) ops' obs'
  | _, _ => false
  end.

Definition ok_C14adapt (c : case13) (obs : list opobs) : bool :=
  adapt_steps_ok (c_kind c) (s_data (c_init c)) (c_init c) (c_ops c) obs.

Definition suite_C14adapt (inp obs : list tok) : verdict :=
  match inp with
  | TN md :: TN kd :: TL content :: TN pos :: opl =>
      match kind_of kd, parse_ops opl, parse_obs obs with
      | Some k, Some ops, Some o =>
          if content_ok k content && (pos <? W64) && forallb (op_ok k) ops
             && pos_sane k (nlen content) pos && forallb (op_sane k) ops then
            let c := {| Spec.C13.c_mode := if md =? 0 then Debug else Release; c_kind := k;
                        c_init := {| s_data := content; s_pos := pos; s_out := [] |}; c_ops := ops |} in
            {| v_model := enc13 (run_C13 c);
               v_ok := if forallb (obs_sane k) o then ok_C14adapt c o else false;
               v_wellformed := true |}
          else malformed
      | _, _, _ => malformed
      end
  | _ => malformed
  end.
