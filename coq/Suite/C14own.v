(* Suite C14own: the guest-memory / region / slice stream entry points driven with the crate's OWN endpoints.
   case:  mode target [layout] [memory] addr count op ekind [script] [content] pos
            target / layout / memory / addr / count / op as in Suite/C14.v
            ekind 0 &[u8] (content[pos..])        1 &mut [u8] (backing array content, slice starts at pos)
                  2 Vec<u8> (initial contents)     3 Cursor<&[u8]>, 8 Cursor<Vec<u8>> (position pos, any u64)
                  5 File (offset pos)  6 UnixStream  7 pipe (OwnedFd)  - REAL descriptors under [script]
            script element: 0 Full 1 Zero 2 Eintr 3..8 hard error 16+k Short k (descriptors only; harness/src/fdscript.rs)
   obs:   rk a b calls [endpoint data after] pos_after [out] [memory after]
            calls = read(2) / write(2) calls the descriptor received (0 for in-memory endpoints: not observable)
   The model runs the transcriptions of Impl/IoGuest.v (VolatileSlice / region delegation / try_access / the guest-level
   stream methods) with the endpoint's adapter from Impl/Io.v as the stream: the up-to forms make one
   read_volatile / write_volatile call inside retry_eintr!, the exact forms call the endpoint's OWN
   read_exact_volatile / write_all_volatile - the specialised ones of &[u8], &mut [u8], Cursor (io.rs:252-265, :291-304,
   :355-365), the provided loops (io.rs:56-78, :102-124) for Vec<u8> and descriptors. *)
From VM Require Import Prelude.MachInt Prelude.Outcome Prelude.Tok Prelude.C1314List Impl.Io Impl.IoGuest Impl.Std
  Spec.C14 Suite.C14 Spec.C14own.

(* an in-memory adapter seen as a stream over the scripted-descriptor state: its script stays empty, calls are counted *)
Definition lift_call (c : callT sstate) : callT sfd := fun f m v =>
  let* x := c (f_st f) m v in
  let '((st', m'), r) := x in Val ((scr_next f st', m'), r).
Definition exactT := sfd -> list N -> vslice -> outcome ((sfd * list N) * res unit).
Definition lift_exact (c : sstate -> list N -> vslice -> outcome ((sstate * list N) * res unit)) : exactT := fun f m v =>
  let* x := c (f_st f) m v in
  let '((st', m'), r) := x in Val ((scr_next f st', m'), r).

(* the endpoint: its read_volatile / write_volatile and its read_exact_volatile / write_all_volatile *)
Record endpoint := { e_call : callT sfd; e_exact : nat -> exactT }.
Definition base_kind (ek : ekind) : skind := match ek with EQueue => KQueue | _ => KFile end.
Definition endpoint_of (md : mode) (ek : ekind) (rd : bool) : endpoint :=
  match ek with
  | ESliceR => {| e_call := lift_call slice_read_volatile; e_exact := fun _ => lift_exact slice_read_exact_volatile |}
  | ECurR => {| e_call := lift_call (cursor_read_volatile md); e_exact := fun _ => lift_exact (cursor_read_exact_volatile md) |}
  | EMSliceW => {| e_call := lift_call mslice_write_volatile; e_exact := fun _ => lift_exact mslice_write_all_volatile |}
  | EVecW => let c := lift_call (vec_write_volatile md) in
             {| e_call := c; e_exact := fun fuel => write_all_volatile fuel c |}           (* no write_all of its own *)
  | EFile | EQueue =>
      if rd then let c := read_volatile_raw_fd (scr_read (os_read_of (base_kind ek))) in
                 {| e_call := c; e_exact := fun fuel => read_exact_volatile fuel c |}
      else let c := write_volatile_raw_fd (scr_write (os_write_of (base_kind ek))) in
           {| e_call := c; e_exact := fun fuel => write_all_volatile fuel c |}
  end.

(* volatile_memory.rs:809-814 read_exact_volatile_from, :826-831 write_all_volatile_to:
     src.read_exact_volatile(&mut self.get_slice(addr, count)?)  -  the endpoint's own exact form
   (Impl/IoGuest.v vs_exact is this with the provided loop plugged in: [vs_exact_e_default] in Proofs/C14own.v) *)
Definition vs_exact_e (ex : exactT) (self : vslice) (addr : N) (s : sfd) (m : list N) (count : N)
  : outcome ((sfd * list N) * res unit) :=
  match vs_subslice self addr count with
  | Err e => Val ((s, m), Err e)
  | Ok sl => ex s m sl
  end.
(* mmap/mod.rs:237-294 *)
Definition region_exact_e (ex : exactT) (r : region) (addr : N) (s : sfd) (m : list N) (count : N)
  : outcome ((sfd * list N) * gres unit) :=
  omap (fun x => (fst x, map_err (snd x))) (vs_exact_e ex (region_slice r) addr s m count).
(* guest_memory.rs:706-715 write_volatile_to: |_, len, caddr, region| region.write_all_volatile_to(caddr, dst, len).map(|()| len) *)
Definition gm_write_volatile_to_e (md : mode) (fuel : nat) (ex : exactT) (L : list region) (addr : N)
  (s : sfd) (m : list N) (count : N) : outcome ((sfd * list N) * gres N) :=
  try_access md fuel L count addr
    (fun _ len caddr region s m =>
       omap (fun x => (fst x, match snd x with GOk _ => GOk len | GErr e => GErr e end))
            (region_exact_e ex region caddr s m len)) addr 0 s m.

Definition init_of (c : case14own) : sfd :=
  {| f_st := {| s_data := w_content c; s_pos := w_pos c; s_out := [] |}; f_script := w_script c; f_calls := 0 |}.
(* enough for every loop: an EINTR retry consumes a script element, every other round of a loop moves a byte of
   the target or ends it (Proofs/C14own.v: no OutOfFuel) *)
Definition fuel14own (c : case14own) : nat := length (w_script c) + N.to_nat (nlen (w_mem c)) + 2.

(* the operation of the case on the model: final endpoint, final memory, result code *)
Definition exec14own (c : case14own) : outcome ((sfd * list N) * (N * N * N)) :=
  let fl := fuel14own c in
  let ep := endpoint_of (w_mode c) (w_ek c) (is_read (w_op c)) in
  let call := e_call ep in
  let ex := e_exact ep fl in
  let s := init_of c in
  let m := w_mem c in
  let addr := w_addr c in
  let count := w_count c in
  match w_target c with
  | TSlice soff slen =>
      let self := {| vs_addr := HBASE + soff; vs_off := soff; vs_len := slen |} in
      if is_exact (w_op c)
      then omap (fun x => (fst x, rc_res okc_u (snd x))) (vs_exact_e ex self addr s m count)
      else omap (fun x => (fst x, rc_res okc_n (snd x))) (vs_upto fl call self addr s m count)
  | TRegion r =>
      if is_exact (w_op c)
      then omap (fun x => (fst x, rc_gres okc_u (snd x))) (region_exact_e ex r addr s m count)
      else omap (fun x => (fst x, rc_gres okc_n (snd x))) (region_upto fl call r addr s m count)
  | TGuest L =>
      match w_op c with
      | RdUpTo => omap (fun x => (fst x, rc_gres okc_n (snd x))) (gm_read_volatile_from (w_mode c) fl call L addr s m count)
      | RdExact => omap (fun x => (fst x, rc_gres okc_u (snd x))) (gm_read_exact_volatile_from (w_mode c) fl call L addr s m count)
      | WrUpTo => omap (fun x => (fst x, rc_gres okc_n (snd x))) (gm_write_volatile_to_e (w_mode c) fl ex L addr s m count)
      | WrAll => omap (fun x => (fst x, rc_gres okc_u (snd x)))
                      (gm_exact_of (gm_write_volatile_to_e (w_mode c) fl ex L addr s m count) count)
      end
  end.

(* how the endpoint shows in an observation (as in Suite/C13.v: a byte queue only shows how much is queued) *)
Definition show_ep (ek : ekind) (st : sstate) : list N * N :=
  match ek with EQueue => ([], nlen (s_data st)) | _ => (s_data st, s_pos st) end.

Definition run_C14own (c : case14own) : obs14own :=
  match exec14own c with
  | Val ((f, m), (rk, a, b)) =>
      {| y_rk := rk; y_a := a; y_b := b; y_calls := if ek_fd (w_ek c) then f_calls f else 0;
         y_data := fst (show_ep (w_ek c) (f_st f)); y_pos := snd (show_ep (w_ek c) (f_st f));
         y_out := s_out (f_st f); y_mem := m |}
  | Panic _ => {| y_rk := 11; y_a := 0; y_b := 0; y_calls := 0; y_data := w_content c; y_pos := w_pos c; y_out := [];
                  y_mem := w_mem c |}
  | OutOfFuel => {| y_rk := 12; y_a := 0; y_b := 0; y_calls := 0; y_data := w_content c; y_pos := w_pos c; y_out := [];
                    y_mem := w_mem c |}
  end.

(* ------------------------------------------------------------------ tokens *)
Definition ekind_of (n : N) : option ekind :=
  match n with
  | 0 => Some ESliceR | 1 => Some EMSliceW | 2 => Some EVecW | 3 | 8 => Some ECurR
  | 5 => Some EFile | 6 | 7 => Some EQueue | _ => None
  end.
Definition fbeh_of14 (n : N) : option fbeh :=
  match n with
  | 0 => Some FFull | 1 => Some FZero | 2 => Some FEintr
  | 3 | 4 | 5 | 6 | 7 | 8 => Some FErr
  | _ => if (16 <=? n) && (n <? 16 + 1048576) then Some (FShort (n - 16)) else None
  end.
Fixpoint parse_fscript14 (l : list N) {struct l} : option (list fbeh) :=
  match l with
  | [] => Some []
  | x :: t => match fbeh_of14 x, parse_fscript14 t with Some b, Some r => Some (b :: r) | _, _ => None end
  end.

Definition enc14own (y : obs14own) : list tok :=
  [TN (y_rk y); TN (y_a y); TN (y_b y); TN (y_calls y); TL (y_data y); TN (y_pos y); TL (y_out y); TL (y_mem y)].

(* the well-formed cases: the target as in wf14; a slice endpoint starts inside its array, a file offset stays
   small, a queue has no position, a cursor position is a u64; scripts are short (unary fuel) *)
Definition pos_ok (ek : ekind) (content : list N) (pos : N) : bool :=
  match ek with
  | ESliceR | EMSliceW => pos <=? nlen content
  | EFile => pos <=? 65536
  | EQueue => pos =? 0
  | EVecW => pos =? 0
  | ECurR => pos <? W64
  end.
Definition wf14own (c : case14own) : bool :=
  wf14 (case14_of c) && ek_ok c && pos_ok (w_ek c) (w_content c) (w_pos c)
  && (N.of_nat (length (w_script c)) <=? 64) && (nlen (w_content c) <=? 65536)
  && (nlen (w_content c) + nlen (w_mem c) <? W64).

Definition suite_C14own (inp obs : list tok) : verdict :=
  match inp, obs with
  | [TN md; TN tg; TL lay; TL mem; TN addr; TN count; TN op; TN ekd; TL script; TL content; TN pos],
    [TN rk; TN a; TN b; TN calls; TL data; TN pos'; TL out; TL mem'] =>
      match target_of tg lay, op_of op, ekind_of ekd, parse_fscript14 script with
      | Some t, Some o, Some ek, Some sc =>
          let c := {| w_mode := if md =? 0 then Debug else Release; w_target := t; w_mem := mem; w_addr := addr;
                      w_count := count; w_op := o; w_ek := ek; w_script := sc; w_content := content; w_pos := pos |} in
          if wf14own c && bytes_ok mem && bytes_ok content then
            {| v_model := enc14own (run_C14own c);
               v_ok := if (calls <=? 100000) && (nlen data <=? 200000) && (nlen out <=? 200000) then
                         ok_C14own c {| y_rk := rk; y_a := a; y_b := b; y_calls := calls; y_data := data; y_pos := pos';
                                        y_out := out; y_mem := mem' |}
                       else false;
               v_wellformed := true |}
          else malformed
      | _, _, _, _ => malformed
      end
  | _, _ => malformed
  end.
