(* C18xen suite glue: the C18 model (Suite/C18.v run_C18: result class, error, count, caller side, bytes) composed
   with the Xen model (Impl/Xen.v): the region is built by the transcribed constructor xen_from_range, and the
   pointer guard(s) the entry point asks for - all of LENGTH 0 - are run through Xen.run_op, whose event log is
   what the emulated device must have seen (theorem C18_xen_zero_len_noop: it is empty).

   case:  mode rkind size gbase page layer op sub_off sub_len addr esz n k sk
   obs:   class ecode count ext [changed byte indices] [device events] live mapped                       *)
From VM Require Import Prelude.MachInt Prelude.Outcome Prelude.Tok Impl.MmapBuild Impl.Xen Spec.C18 Suite.C18 Spec.C18xen.
From VM Require Spec.C17 Suite.C17.

(* the region of the case, as suite C17xen builds it (Suite/C17.v range17 / os17: MmapRange::new_unix(size, None,
   gbase) for kind 0, MmapRange::new(size, Some(device, 0), gbase, flags, 0) otherwise) *)
Definition case17_of (c : case18x) : Spec.C17.case17x :=
  {| Spec.C17.cx_mode := c_mode (kx_base c); Spec.C17.cx_rkind := kx_rkind c; Spec.C17.cx_size := kx_size c;
     Spec.C17.cx_gbase := fst (nth 0 (c_regs (kx_base c)) (0, 0)); Spec.C17.cx_page := kx_page c;
     Spec.C17.cx_ops := [] |}.
Definition os18 (c : case18x) : os := Suite.C17.os17 (case17_of c).
Definition build18 (c : case18x) : outcome (res xregion * list ev) :=
  xen_from_range (c_mode (kx_base c)) (os18 c) (Suite.C17.range17 (case17_of c)).

(* offset, relative to the region, of the address handed to the entry point *)
Definition regoff (c : case18x) : N :=
  let b := kx_base c in
  match c_layer b with
  | LSlice => c_sub_off b + c_addr b
  | LRegion => c_addr b
  | LGuest => c_addr b - fst (nth 0 (c_regs b) (0, 0)) end.

(* the pointer guards the entry point takes once its own checks passed, as operations of Impl/Xen.v at the
   region-relative offset; every one of them has length 0:
     empty buffer / zero-sized object: `if buf.is_empty() { return Ok(0) }` (volatile_memory.rs:694-737) - the
       write / read of Xen.v with len 0 (plan PNone: no guard at all)
     read_volatile_from / write_volatile_to, count 0: the guard of subslice(0, min(len, 0)) (:796-822, io.rs)
     read_exact_volatile_from / write_all_volatile_to: the guard of get_slice(addr, 0) (:809-831)
     copy_to / copy_from::<ZST>: `size_of::<T>() == 0` branch, no guard (:560-655)
     array copies: the guard of the array, n * size_of::<T>() = 0 bytes (:1182-1282)
     ref store / load of a zero-sized object: the guard of size_of::<T>() = 0 bytes (:918-960)
     copy_to_volatile_slice with an empty side: no guard, 0 bytes copied (:602-612) *)
Definition xops18 (c : case18x) : list xop :=
  let b := kx_base c in let off := regoff c in
  match c_op b with
  | ZWrite | ZWriteSlice | ZWriteObj => [XWrite off 0]
  | ZRead | ZReadSlice | ZReadObj => [XRead off 0]
  | ZReadFrom => [XReadFrom off 0 (c_k b)]
  | ZWriteTo => [XWriteTo off 0]
  | ZReadExactFrom => [XSliceGuard off 0 true]
  | ZWriteAllTo => [XSliceGuard off 0 false]
  | ZCopyTo | ZCopyFrom => []
  | ZArrCopyTo => [XArrCopyTo off (c_esz b) (c_n b) (c_k b)]
  | ZArrCopyFrom => [XArrCopyFrom off (c_esz b) (c_n b) (c_k b)]
  | ZRefStore => [XRefStore off 0]
  | ZRefLoad => [XRefLoad off 0]
  | ZCopyIntoEmpty | ZCopyFromEmpty => [XCopyToVS off 0]
  end.

Definition evs18 (m : mode) (o : os) (g : xregion) (ops : list xop) : list ev :=
  flat_map (fun op => fst (run_op m o g op)) ops.

Definition enc_evs (l : list ev) : list N := flat_map Suite.C17.enc_ev (Suite.C17.dev_evs l).

(* None: the region could not be built (never for a well-formed case: theorem C18x_built) *)
Definition run_C18x (c : case18x) : option obs18x :=
  match build18 c with
  | Val (Ok g, l0) =>
      let l := evs18 (c_mode (kx_base c)) (os18 c) g (xops18 c) in
      Some {| ox_base := run_C18 (kx_base c);
              ox_evs := enc_evs l;
              ox_live := N.of_nat (length (live_after (live_after [] l0) l));
              ox_mapped := match xr_kind g, xr_mapped g with
                           | XUnix, _ => 0 | _, Some (ms, _) => ms | _, None => 0 end |}
  | _ => None end.

(* strict decoding: one region of 1..65536 bytes at a page-aligned guest base below 2^40, host page 4096, the
   bitmap page size of the embedded C18 case is the host page (no bitmap in this suite: B = ()), the container
   of layers 1 / 2 as in C18; the unguarded slice-to-slice copy is not run on on-demand regions (finding F6b
   concerns copy_to_volatile_slice there); addresses stay below 2^63 (an on-demand region's host base is null,
   so the host-pointer overflow cases of C18 near 2^64 have no counterpart) *)
Definition wf18x (c : case18x) : bool :=
  let b := kx_base c in
  wf_case b && (kx_rkind c <? 4) && (kx_page c =? 4096) && (c_ps b =? 4096)
  && (match c_regs b with [(gb, sz)] => (gb mod 4096 =? 0) && (gb <? 1099511627776) | _ => false end)
  && (c_addr b <=? 2 ^ 63)
  && negb ((kx_rkind c =? 3) && match c_op b with ZCopyIntoEmpty | ZCopyFromEmpty => true | _ => false end).

Definition enc18x (o : obs18x) : list tok :=
  let b := ox_base o in
  [TN (o_class b); TN (o_ecode b); TN (o_count b); TN (o_ext b); TL (o_changed b); TL (ox_evs o);
   TN (ox_live o); TN (ox_mapped o)].

Definition suite_C18xen (inp obs : list tok) : verdict :=
  match inp, obs with
  | [TN md; TN rkind; TN size; TN gbase; TN page; TN ly; TN op; TN so; TN sl; TN a; TN esz; TN n; TN k; TN sk],
    [TN cl; TN ec; TN cnt; TN ext; TL ch; TL evs; TN live; TN mapped] =>
      match layer_of ly, op_of op with
      | Some ly', Some op' =>
          if (1 <? md) || (65536 <? size) then malformed else
          let b := {| c_mode := if md =? 0 then Debug else Release; c_layer := ly'; c_op := op'; c_ps := page;
                      c_regs := [(gbase, size)]; c_ri := O; c_sub_off := so; c_sub_len := sl; c_addr := a;
                      c_esz := esz; c_n := n; c_k := k; c_sk := sk |} in
          let c := {| kx_base := b; kx_rkind := rkind; kx_page := page |} in
          if wf18x c then
            match run_C18x c with
            | Some mo =>
                let o := {| ox_base := {| o_class := cl; o_ecode := ec; o_count := cnt; o_ext := ext;
                                          o_changed := ch; o_dirty := [] |};
                            ox_evs := evs; ox_live := live; ox_mapped := mapped |} in
                {| v_model := enc18x mo; v_ok := ok_C18x c o; v_wellformed := true |}
            | None => malformed end
          else malformed
      | _, _ => malformed end
  | _, _ => malformed end.
