(* C09 suite glue: the implementation model's run of a history, token parsing, verdict. *)
From VM Require Import Prelude.MachInt Prelude.Outcome Prelude.Tok Impl.Bitmap Spec.C09.

(* what the harness observes about one bitmap, computed on the model through the model's own
   accessors (is_bit_set / dirty_at / len / byte_size) *)
Definition slot_obs_of (b : bitmap) : slot_obs :=
  {| so_len := bm_len b; so_bytes := bm_get_byte_size b;
     so_set := filter (bm_is_bit_set b) (nrange (bm_len b + scan_margin));
     so_addr := filter (bm_dirty_at b) (probes (bm_len b) (bm_ps b)) |}.

Definition m_on (st : list bitmap) (s : N) (k : bitmap -> list bitmap * list N) : list bitmap * list N :=
  match nth_error st (N.to_nat s) with Some b => k b | None => (st, [9]) end.
Definition m_upd (st : list bitmap) (s : N) (o : outcome bitmap) : list bitmap * list N :=
  match o with
  | Val b' => (set_nth st (N.to_nat s) b', [0])
  | Panic _ => (st, [3])
  | OutOfFuel => (st, [4])
  end.
Definition m_bool (st : list bitmap) (o : outcome bool) : list bitmap * list N :=
  match o with
  | Val x => (st, [1; if x then 1 else 0])
  | Panic _ => (st, [3])
  | OutOfFuel => (st, [4])
  end.

Definition model_step (m : mode) (st : list bitmap) (o : op09) : list bitmap * list N :=
  match o with
  | OSetRange s a l => m_on st s (fun b => m_upd st s (bm_set_addr_range_o b a l))
  | OResetRange s a l => m_on st s (fun b => m_upd st s (bm_reset_addr_range_o b a l))
  | OSetBit s i => m_on st s (fun b => m_upd st s (bm_set_bit_o b i))
  | OResetBit s i => m_on st s (fun b => m_upd st s (bm_reset_bit_o b i))
  | OEnlarge s add => m_on st s (fun b => m_upd st s (bm_enlarge_o m b add))
  | OClone s => m_on st s (fun b => (st ++ [bm_clone b], [0]))
  | OHarvest s => m_on st s (fun b =>
      let '(ws, b') := bm_get_and_reset b in (set_nth st (N.to_nat s) b', 2 :: ws))
  | OReset s => m_on st s (fun b => (set_nth st (N.to_nat s) (bm_reset b), [0]))
  | OMark s r chain off len => m_on st s (fun b => m_upd st s (view_mark_o r chain b off len))
  | ODirtyAt s r chain off => m_on st s (fun b => m_bool st (view_dirty_at_o r chain b off))
  | OIsAddrSet s a => m_on st s (fun b => m_bool st (bm_is_addr_set_o b a))
  | OIsBitSet s i => m_on st s (fun b => m_bool st (bm_is_bit_set_o b i))
  end.

Fixpoint model_run (m : mode) (st : list bitmap) (ops : list op09) {struct ops} : list step_obs :=
  match ops with
  | [] => []
  | o :: ops' =>
      let '(st', r) := model_step m st o in
      {| st_res := r; st_slots := map slot_obs_of st' |} :: model_run m st' ops'
  end.

Definition run_C09 (c : case09) : list step_obs :=
  let st0 := [bm_new (c_bytes c) (c_ps c)] in
  {| st_res := [0]; st_slots := map slot_obs_of st0 |} :: model_run (c_mode c) st0 (c_ops c).

(* ---------- tokens ---------- *)
Definition route_of (n : N) : option route :=
  match n with 0 => Some RDirect | 1 => Some RSome | 2 => Some RNone | 3 => Some RUnit | 4 => Some RArc
             | _ => None end.
Definition op_of (t : tok) : option op09 :=
  match t with
  | TL [0; s; a; l] => Some (OSetRange s a l)
  | TL [1; s; a; l] => Some (OResetRange s a l)
  | TL [2; s; i] => Some (OSetBit s i)
  | TL [3; s; i] => Some (OResetBit s i)
  | TL [4; s; add] => Some (OEnlarge s add)
  | TL [5; s] => Some (OClone s)
  | TL [6; s] => Some (OHarvest s)
  | TL [7; s] => Some (OReset s)
  | TL (8 :: s :: r :: off :: len :: chain) =>
      match route_of r with Some r' => Some (OMark s r' chain off len) | None => None end
  | TL (9 :: s :: r :: off :: chain) =>
      match route_of r with Some r' => Some (ODirtyAt s r' chain off) | None => None end
  | TL [10; s; a] => Some (OIsAddrSet s a)
  | TL [11; s; i] => Some (OIsBitSet s i)
  | _ => None
  end.
Fixpoint ops_of (ts : list tok) {struct ts} : option (list op09) :=
  match ts with
  | [] => Some []
  | t :: ts' => match op_of t, ops_of ts' with Some o, Some l => Some (o :: l) | _, _ => None end
  end.

Fixpoint parse_slots (n : nat) (t : list tok) {struct n} : option (list slot_obs * list tok) :=
  match n with
  | O => Some ([], t)
  | S k =>
      match t with
      | TL [len; bytes] :: TL set :: TL addr :: t' =>
          match parse_slots k t' with
          | Some (l, r) => Some ({| so_len := len; so_bytes := bytes; so_set := set; so_addr := addr |} :: l, r)
          | None => None
          end
      | _ => None
      end
  end.
Fixpoint parse_steps (fuel : nat) (t : list tok) {struct fuel} : option (list step_obs) :=
  match t with
  | [] => Some []
  | TL res :: TN n :: t' =>
      match fuel with
      | O => None
      | S f =>
          if n <? 4096 then
            match parse_slots (N.to_nat n) t' with
            | Some (sl, r) =>
                match parse_steps f r with
                | Some l => Some ({| st_res := res; st_slots := sl |} :: l)
                | None => None
                end
            | None => None
            end
          else None
      end
  | _ => None
  end.

Definition enc_slot (o : slot_obs) : list tok := [TL [so_len o; so_bytes o]; TL (so_set o); TL (so_addr o)].
Definition enc_step (o : step_obs) : list tok :=
  TL (st_res o) :: TN (N.of_nat (length (st_slots o))) :: flat_map enc_slot (st_slots o).
Definition enc09 (obs : list step_obs) : list tok := flat_map enc_step obs.

(* keeps replayed / shrunk cases inside what the harness can allocate (the generator never
   exceeds it); not a restriction of the theorems *)
Definition page_cap : N := 65536.
Definition slot_of (o : op09) : N :=
  match o with
  | OSetRange s _ _ | OResetRange s _ _ | OSetBit s _ | OResetBit s _ | OEnlarge s _ | OClone s
  | OHarvest s | OReset s | OMark s _ _ _ _ | ODirtyAt s _ _ _ | OIsAddrSet s _ | OIsBitSet s _ => s
  end.
(* every token-controlled number that reaches N.to_nat (slot index, page counts) is bounded here,
   BEFORE the model or the checker run: shrinking / neighbourhood search feed values like 2^64-1 *)
Definition sane_op (ps : N) (o : op09) : bool :=
  (slot_of o <? 64) && match o with OEnlarge _ add => add / ps <? page_cap | _ => true end.
Definition sane_case (c : case09) : bool :=
  (c_bytes c / c_ps c <? page_cap) && forallb (sane_op (c_ps c)) (c_ops c) && (length (c_ops c) <? 200)%nat.

Definition suite_C09 (inp obs : list tok) : verdict :=
  match inp with
  | TN md :: TN bytes :: TN ps :: ops =>
      match ops_of ops, parse_steps (length obs) obs with
      | Some ops', Some o =>
          (* md = build mode + 2 * constructor: 0 AtomicBitmap::new(bytes, ps); 1 <AtomicBitmap as NewBitmap>::with_len(bytes)
             (model bm_with_len bytes = bm_new bytes host_page: the case carries ps = 4096); 2 AtomicBitmap::default()
             (bm_default = bm_new 0 4096: the case carries bytes = 0, ps = 4096; growth is the history's enlarge ops) *)
          let ctor := md / 2 in
          let c := {| c_mode := if md mod 2 =? 0 then Debug else Release; c_bytes := bytes; c_ps := ps; c_ops := ops' |} in
          let ctor_ok := match ctor with
                         | 0 => true
                         | 1 => ps =? host_page
                         | 2 => (ps =? 4096) && (bytes =? 0)
                         | _ => false end in
          if ctor_ok && wf_case c && sane_case c then
            {| v_model := enc09 (run_C09 c); v_ok := ok_C09 c o; v_wellformed := true |}
          else malformed
      | _, _ => malformed
      end
  | _ => malformed
  end.
