(* LINK L4 (C04 <-> C06).
   Impl/VolMem.v (C04: byte contents of the volatile accessors) models the byte-copy helper
   copy_slice_impl::copy_slice as memcpy on a heap byte list ([h_write] / [h_read]).
   Impl/CopyPlan.v (C06) transcribes the REAL copy_slice as the plan of primitive accesses it
   issues, and Proofs/C06.v proves (exec_plan_is_memcpy) that executing a plan on a byte memory
   (address -> byte) is memcpy.  Here the two are joined: for VolatileSlice::write / read of
   VolMem.v, executing the plan that CopyPlan.copy_slice produces for the very pointers involved
   (destination hb + slice address + offset inside the heap, the caller's buffer at bp) on any byte
   memory that holds the heap at hb and the buffer at bp yields a memory that holds VolMem's
   resulting heap / buffer - and the plan always exists (copy_slice never panics). *)
From VM Require Import Prelude.MachInt Prelude.Outcome Impl.VolMem.
From VM Require Impl.CopyPlan Spec.C06 Suite.C06 Proofs.C06 Proofs.C04.

(* the byte memory mm holds the byte list l at host address base *)
Definition image (base : N) (l : list N) (mm : Spec.C06.mem) : Prop :=
  forall i, i < len l -> mm (base + i) = nth (N.to_nat i) l 0.

Definition run_plan (p : list CopyPlan.access) (mm : Spec.C06.mem) : Spec.C06.mem :=
  Spec.C06.exec (map Suite.C06.mev_of p) mm.

Lemma len_takeN total (l : list N) : total <= len l -> len (takeN total l) = total.
Proof. unfold len. intros H. rewrite Proofs.C04.takeN_firstn, firstn_length. lia. Qed.

(* copy_to_volatile_slice (volatile_memory.rs:1434): buffer -> heap *)
Lemma copy_to_is_plan md hb h s buf total bp p mm :
  Spec.C06.valid_ptr bp total -> Spec.C06.valid_ptr (hb + vs_addr s) total ->
  bp + len buf <= hb \/ hb + len h <= bp ->
  total <= len buf -> vs_addr s + total <= len h ->
  image hb h mm -> image bp buf mm ->
  CopyPlan.copy_slice md (hb + vs_addr s) bp total = Val p ->
  image hb (fst (copy_to_volatile_slice h s buf total)) (run_plan p mm) /\
  image bp buf (run_plan p mm) /\
  snd (copy_to_volatile_slice h s buf total) = total.
Proof.
  intros Vb Vd Hout Ht Ha Ih Ib E.
  assert (D : Spec.C06.disjoint bp (hb + vs_addr s) total) by (unfold Spec.C06.disjoint; lia).
  pose proof (Proofs.C06.exec_plan_is_memcpy_lemma md (hb + vs_addr s) bp total p Vb Vd D E mm) as M.
  unfold copy_to_volatile_slice; cbn [fst snd]. fold (run_plan p mm) in M.
  pose proof (len_takeN total buf Ht) as Ld.
  assert (Hw : vs_addr s + len (takeN total buf) <= len h) by (rewrite Ld; exact Ha).
  split; [|split; [|reflexivity]].
  - intros i Hi. assert (Hi' : i < len h).
    { unfold len in *. rewrite Proofs.C04.h_write_length in Hi by exact Hw. exact Hi. }
    rewrite M.
    destruct (N.leb_spec (hb + vs_addr s) (hb + i)); destruct (N.ltb_spec (hb + i) (hb + vs_addr s + total)); cbn [andb].
    + replace (hb + i - (hb + vs_addr s)) with (i - vs_addr s) by lia.
      rewrite Ib by lia.
      replace i with (vs_addr s + (i - vs_addr s)) at 2 by lia.
      rewrite Proofs.C04.h_write_inside by (rewrite ?Ld; lia).
      rewrite Proofs.C04.takeN_firstn, Proofs.C04.nth_firstn' by lia. reflexivity.
    + rewrite Proofs.C04.h_write_outside by (rewrite ?Ld; lia). apply Ih. exact Hi'.
    + rewrite Proofs.C04.h_write_outside by (rewrite ?Ld; lia). apply Ih. exact Hi'.
    + rewrite Proofs.C04.h_write_outside by (rewrite ?Ld; lia). apply Ih. exact Hi'.
  - intros j Hj. rewrite M.
    destruct (N.leb_spec (hb + vs_addr s) (bp + j)); destruct (N.ltb_spec (bp + j) (hb + vs_addr s + total)); cbn [andb];
      try (apply Ib; exact Hj). exfalso. lia.
Qed.

(* copy_from_volatile_slice (volatile_memory.rs:1419): heap -> buffer *)
Lemma copy_from_is_plan md hb h s buf total bp p mm :
  Spec.C06.valid_ptr bp total -> Spec.C06.valid_ptr (hb + vs_addr s) total ->
  bp + len buf <= hb \/ hb + len h <= bp ->
  total <= len buf -> vs_addr s + total <= len h ->
  image hb h mm -> image bp buf mm ->
  CopyPlan.copy_slice md bp (hb + vs_addr s) total = Val p ->
  image bp (fst (copy_from_volatile_slice h buf s total)) (run_plan p mm) /\
  image hb h (run_plan p mm) /\
  snd (copy_from_volatile_slice h buf s total) = total.
Proof.
  intros Vb Vd Hout Ht Ha Ih Ib E.
  assert (D : Spec.C06.disjoint (hb + vs_addr s) bp total) by (unfold Spec.C06.disjoint; lia).
  pose proof (Proofs.C06.exec_plan_is_memcpy_lemma md bp (hb + vs_addr s) total p Vd Vb D E mm) as M.
  unfold copy_from_volatile_slice; cbn [fst snd]. fold (run_plan p mm) in M.
  assert (Lr : length (h_read h (vs_addr s) total) = N.to_nat total) by (apply Proofs.C04.h_read_length; exact Ha).
  split; [|split; [|reflexivity]].
  - intros j Hj.
    assert (Hj' : j < len buf).
    { unfold len in *. rewrite app_length, Lr, Proofs.C04.dropN_skipn, skipn_length in Hj. lia. }
    rewrite M.
    destruct (N.leb_spec bp (bp + j)) as [_|]; [|lia]. destruct (N.ltb_spec (bp + j) (bp + total)); cbn [andb].
    + replace (bp + j - bp) with j by lia. rewrite <- N.add_assoc. rewrite Ih by lia.
      rewrite app_nth1 by lia. rewrite Proofs.C04.h_read_nth by lia. reflexivity.
    + rewrite Ib by exact Hj'. rewrite app_nth2 by lia. rewrite Lr, Proofs.C04.dropN_skipn, Proofs.C04.nth_skipn'.
      f_equal. lia.
  - intros i Hi. rewrite M.
    destruct (N.leb_spec bp (hb + i)); destruct (N.ltb_spec (hb + i) (bp + total)); cbn [andb];
      try (apply Ih; exact Hi). exfalso. lia.
Qed.

(* the side conditions: the heap and the caller's buffer are two allocations of the host address
   space (non-null, not wrapping, apart from each other), the slice lies inside the heap *)
Definition placed (hb : N) (h : heap) (s : vslice) (bp : N) (buf : list N) : Prop :=
  0 < hb /\ hb + len h <= W64 /\ vs_addr s + vs_size s <= len h /\
  0 < bp /\ bp + len buf <= W64 /\ (bp + len buf <= hb \/ hb + len h <= bp).

(* Bytes::write on a VolatileSlice (volatile_memory.rs:697, io.rs:268): whenever VolMem.vs_write
   stores n bytes of a non-empty buffer, the real copy_slice has a plan for exactly those
   pointers and that count, and running it on the byte memory produces VolMem's heap (the buffer
   is untouched) *)
Lemma vs_write_is_plan_lemma md hb h s buf addr bp mm h' n :
  placed hb h s bp buf -> 0 < len buf -> image hb h mm -> image bp buf mm ->
  vs_write hb h s buf addr = (h', Ok n) ->
  exists p, CopyPlan.copy_slice md (hb + (vs_addr s + addr)) bp n = Val p /\
            image hb h' (run_plan p mm) /\ image bp buf (run_plan p mm) /\
            n = N.min (vs_size s - addr) (len buf) /\ addr < vs_size s.
Proof.
  intros (Hhb & Hhe & Hs & Hbp & Hbe & Hout) Hne Ih Ib E. unfold vs_write in E.
  destruct (N.eqb_spec (len buf) 0) as [Hz|_]; [lia|].
  destruct (N.leb_spec (vs_size s) addr) as [|Hlt]; [inversion E|].
  unfold vs_offset in E.
  destruct (checked_add (hb + vs_addr s) addr) as [x|]; [|inversion E].
  destruct (checked_sub (vs_size s) addr) as [ns|] eqn:Es; [|inversion E].
  apply checked_sub_Some in Es. destruct Es as [-> _].
  set (sl := {| vs_addr := vs_addr s + addr; vs_size := vs_size s - addr |}) in *.
  cbn [vs_size] in E. set (total := N.min (vs_size s - addr) (len buf)) in *.
  assert (Vb : Spec.C06.valid_ptr bp total) by (unfold Spec.C06.valid_ptr, total; lia).
  assert (Vd : Spec.C06.valid_ptr (hb + vs_addr sl) total) by (unfold Spec.C06.valid_ptr, total, sl; cbn [vs_addr]; lia).
  destruct (Proofs.C06.no_panic_lemma md (hb + vs_addr sl) bp total Vb Vd) as [p Ep].
  destruct (copy_to_is_plan md hb h sl buf total bp p mm Vb Vd Hout) as (A & B & C);
    [unfold total; lia|unfold total, sl; cbn [vs_addr]; lia|exact Ih|exact Ib|exact Ep|].
  unfold copy_to_volatile_slice in E, A. cbn [fst snd] in A. inversion E; subst h' n.
  exists p. split; [exact Ep|]. split; [exact A|]. split; [exact B|]. split; [reflexivity|exact Hlt].
Qed.

(* Bytes::read (volatile_memory.rs:726, io.rs:229): the plan runs the other way *)
Lemma vs_read_is_plan_lemma md hb h s buf addr bp mm b' n :
  placed hb h s bp buf -> 0 < len buf -> image hb h mm -> image bp buf mm ->
  vs_read hb h s buf addr = (b', Ok n) ->
  exists p, CopyPlan.copy_slice md bp (hb + (vs_addr s + addr)) n = Val p /\
            image bp b' (run_plan p mm) /\ image hb h (run_plan p mm) /\
            n = N.min (vs_size s - addr) (len buf) /\ addr < vs_size s.
Proof.
  intros (Hhb & Hhe & Hs & Hbp & Hbe & Hout) Hne Ih Ib E. unfold vs_read in E.
  destruct (N.eqb_spec (len buf) 0) as [Hz|_]; [lia|].
  destruct (N.leb_spec (vs_size s) addr) as [|Hlt]; [inversion E|].
  unfold vs_offset in E.
  destruct (checked_add (hb + vs_addr s) addr) as [x|]; [|inversion E].
  destruct (checked_sub (vs_size s) addr) as [ns|] eqn:Es; [|inversion E].
  apply checked_sub_Some in Es. destruct Es as [-> _].
  set (sl := {| vs_addr := vs_addr s + addr; vs_size := vs_size s - addr |}) in *.
  cbn [vs_size] in E. set (total := N.min (vs_size s - addr) (len buf)) in *.
  assert (Vb : Spec.C06.valid_ptr bp total) by (unfold Spec.C06.valid_ptr, total; lia).
  assert (Vd : Spec.C06.valid_ptr (hb + vs_addr sl) total) by (unfold Spec.C06.valid_ptr, total, sl; cbn [vs_addr]; lia).
  destruct (Proofs.C06.no_panic_lemma md bp (hb + vs_addr sl) total Vd Vb) as [p Ep].
  destruct (copy_from_is_plan md hb h sl buf total bp p mm Vb Vd Hout) as (A & B & C);
    [unfold total; lia|unfold total, sl; cbn [vs_addr]; lia|exact Ih|exact Ib|exact Ep|].
  unfold copy_from_volatile_slice in E, A. cbn [fst snd] in A. inversion E; subst b' n.
  exists p. split; [exact Ep|]. split; [exact A|]. split; [exact B|]. split; [reflexivity|exact Hlt].
Qed.

Lemma copy_helpers_lemma md hb h s buf total bp p mm :
  Spec.C06.valid_ptr bp total -> Spec.C06.valid_ptr (hb + vs_addr s) total ->
  bp + len buf <= hb \/ hb + len h <= bp -> total <= len buf -> vs_addr s + total <= len h ->
  image hb h mm -> image bp buf mm ->
  (CopyPlan.copy_slice md (hb + vs_addr s) bp total = Val p ->
     image hb (fst (copy_to_volatile_slice h s buf total)) (run_plan p mm) /\
     image bp buf (run_plan p mm) /\
     snd (copy_to_volatile_slice h s buf total) = total) /\
  (CopyPlan.copy_slice md bp (hb + vs_addr s) total = Val p ->
     image bp (fst (copy_from_volatile_slice h buf s total)) (run_plan p mm) /\
     image hb h (run_plan p mm) /\
     snd (copy_from_volatile_slice h buf s total) = total).
Proof.
  intros Vb Vd Hout Ht Ha Ih Ib. split; intros E.
  - eapply copy_to_is_plan; eassumption.
  - eapply copy_from_is_plan; eassumption.
Qed.
