(* C03 - proofs. *)
From VM Require Import Prelude.MachInt Prelude.Outcome Prelude.Tok Impl.Address Impl.Guest Spec.C03 Suite.C03 Proofs.C02.
