(* C03 - proofs.  Part 1: byte lists, the flat reading rd of a guest memory, the effect of one
   region update on it.  Part 2: write / read through try_access for every implementor.
   Part 3: all-or-error forms, objects, atomics.  Part 4: histories against the flat machine.
   Part 5: the executable checker. *)
From VM Require Import Prelude.MachInt Prelude.Outcome Prelude.Tok Impl.Address Impl.Guest Spec.C03 Suite.C03 Proofs.C02.
From Coq Require Import Arith.

(* ------------------------------------------------------------------------------------------ *)
(* Part 1 *)
Lemma nth_error_firstn' {A} (l : list A) n k : (k < n)%nat -> nth_error (firstn n l) k = nth_error l k.
Proof. revert n k; induction l as [|x t IH]; intros [|n] [|k] H; cbn; try reflexivity; try lia. apply IH. lia. Qed.
Lemma nth_error_firstn_ge {A} (l : list A) n k : (n <= k)%nat -> nth_error (firstn n l) k = None.
Proof. intros H. apply nth_error_None. rewrite firstn_length. lia. Qed.
Lemma nth_error_skipn' {A} (l : list A) n k : nth_error (skipn n l) k = nth_error l (n + k).
Proof. revert l; induction n as [|n IH]; intros [|x t]; cbn; try reflexivity. - destruct k; reflexivity. - apply IH. Qed.
Lemma skipn_skipn' {A} (l : list A) a b : skipn a (skipn b l) = skipn (b + a) l.
Proof. revert l; induction b as [|b IH]; intros l; [reflexivity|]. destruct l as [|x t]; [rewrite !skipn_nil; reflexivity|]. cbn [skipn Nat.add]. apply IH. Qed.
Lemma nth_error_ext {A} (l1 l2 : list A) : (forall k, nth_error l1 k = nth_error l2 k) -> l1 = l2.
Proof.
  revert l2; induction l1 as [|x t IH]; intros [|y u] H; try reflexivity.
  - specialize (H O). discriminate.
  - specialize (H O). discriminate.
  - pose proof (H O) as H0. cbn in H0. inversion H0; subst. f_equal. apply IH. intros k. exact (H (S k)).
Qed.

Lemma overwrite_length l src : length (overwrite l src) = length l.
Proof. revert src; induction l as [|x t IH]; intros [|s u]; cbn [overwrite length]; try reflexivity. f_equal. apply IH. Qed.
Lemma write_at_length l o src : length (write_at l o src) = length l.
Proof.
  revert l; induction o as [|o IH]; intros l.
  - cbn [write_at]. apply overwrite_length.
  - destruct l; cbn [write_at length]; [reflexivity|]. f_equal. apply IH.
Qed.
Lemma write_at0_nth l src k :
  nth_error (write_at l 0 src) k =
  if (k <? length src)%nat && (k <? length l)%nat then nth_error src k else nth_error l k.
Proof.
  cbn [write_at]. revert src k; induction l as [|x t IH]; intros src k.
  - destruct src; cbn [overwrite length]; rewrite ?andb_false_r; destruct k; reflexivity.
  - destruct src as [|s u]; [destruct k; reflexivity|]. destruct k as [|k]; [reflexivity|].
    cbn [overwrite nth_error length]. rewrite IH. reflexivity.
Qed.
Lemma write_at_nth l o src k :
  nth_error (write_at l o src) k =
  if (o <=? k)%nat && (k <? o + length src)%nat && (k <? length l)%nat then nth_error src (k - o) else nth_error l k.
Proof.
  revert l k; induction o as [|o IH]; intros l k.
  - rewrite write_at0_nth. cbn [Nat.leb andb Nat.add]. rewrite Nat.sub_0_r. reflexivity.
  - destruct l as [|x t]; [cbn; destruct k; cbn; rewrite ?andb_false_r; reflexivity|].
    destruct k as [|k]; [reflexivity|]. cbn [write_at nth_error length]. rewrite IH.
    replace (S o + length src)%nat with (S (o + length src)) by lia. reflexivity.
Qed.
Lemma write_at_nil l o : write_at l o [] = l.
Proof.
  apply nth_error_ext. intros k. rewrite write_at_nth. cbn [length]. rewrite Nat.add_0_r.
  destruct (Nat.leb_spec o k); destruct (Nat.ltb_spec k o); cbn; try reflexivity; lia.
Qed.

Lemma upd_nth_length M i r : length (upd_nth M i r) = length M.
Proof. revert i; induction M as [|x t IH]; intros [|i]; cbn; try reflexivity. f_equal. apply IH. Qed.
Lemma nth_upd_nth M i r j :
  nth j (upd_nth M i r) dummy = if Nat.eqb i j then (if (i <? length M)%nat then r else dummy) else nth j M dummy.
Proof.
  revert i j; induction M as [|x t IH]; intros i j.
  - destruct i, j; cbn; try reflexivity; destruct (Nat.eqb i j); reflexivity.
  - destruct i as [|i], j as [|j]; cbn [upd_nth nth Nat.eqb]; try reflexivity.
    rewrite IH. cbn [length]. replace (S i <? S (length t))%nat with (i <? length t)%nat by reflexivity. reflexivity.
Qed.
Lemma upd_nth_same M i : upd_nth M i (nth i M dummy) = M.
Proof.
  revert i; induction M as [|x t IH]; intros [|i]; cbn; try reflexivity. f_equal. apply IH.
Qed.
Lemma shape_length M : length (shape M) = length M.
Proof. unfold shape. apply map_length. Qed.
Lemma nth_shape M i : nth i (shape M) dreg = (rstart (nth i M dummy), rlen (nth i M dummy)).
Proof. revert i; induction M as [|r t IH]; intros [|i]; cbn [shape map nth]; try reflexivity. apply IH. Qed.
Lemma shape_upd M i r : rstart r = rstart (nth i M dummy) -> rlen r = rlen (nth i M dummy) ->
  shape (upd_nth M i r) = shape M.
Proof.
  revert i; induction M as [|x t IH]; intros [|i] H1 H2; cbn [upd_nth shape map nth] in *; try reflexivity.
  - rewrite H1, H2. reflexivity.
  - f_equal. apply IH; assumption.
Qed.
Lemma set_bytes_shape r b : length b = length (rbytes r) ->
  rstart (set_bytes r b) = rstart r /\ rlen (set_bytes r b) = rlen r.
Proof. intros H. unfold set_bytes, rlen, lenN. cbn. rewrite H. auto. Qed.
Lemma shape_eq_nth M M' i : shape M' = shape M ->
  rstart (nth i M' dummy) = rstart (nth i M dummy) /\ rlen (nth i M' dummy) = rlen (nth i M dummy).
Proof. intros H. pose proof (nth_shape M' i) as A. rewrite H, nth_shape in A. inversion A. auto. Qed.

(* the flat reading of a guest memory: address -> byte of the region that owns it *)
Definition rd (M : mem) (a : N) : option N :=
  match find_lin (shape M) a with
  | Some i => nth_error (rbytes (nth i M dummy)) (N.to_nat (a - rstart (nth i M dummy)))
  | None => None
  end.

Local Notation linspec := (fun L a (_ : wf_layout_gen L) (_ : a < W64) => find_lin_spec L a).
Local Notation idwf := (fun (L : layout) (H : wf_layout_gen L) => H).
Lemma lin_Some_iff L a i : wf_layout_gen L -> a < W64 ->
  (find_lin L a = Some i <-> (i < length L)%nat /\ In_reg (nth i L dreg) a).
Proof. intros H Ha. exact (find_Some_iff find_lin wf_layout_gen idwf linspec L a i H Ha). Qed.
Lemma lin_None_iff L a : wf_layout_gen L -> a < W64 -> (find_lin L a = None <-> ~ Mapped L a).
Proof. intros H Ha. exact (find_None_iff find_lin wf_layout_gen linspec L a H Ha). Qed.

Lemma rd_in M i a : wf_layout_gen (shape M) -> (i < length M)%nat -> In_reg (nth i (shape M) dreg) a ->
  rd M a = nth_error (rbytes (nth i M dummy)) (N.to_nat (a - rstart (nth i M dummy))).
Proof.
  intros Hwf Hi Hr. unfold rd.
  assert (Ha : a < W64).
  { apply (Mapped_lt (shape M) a Hwf). apply Mapped_nth. exists i. rewrite shape_length. auto. }
  rewrite (proj2 (lin_Some_iff (shape M) a i Hwf Ha)); [reflexivity|]. rewrite shape_length. auto.
Qed.
Lemma rd_Some_iff M a : wf_layout_gen (shape M) -> a < W64 -> ((exists b, rd M a = Some b) <-> Mapped (shape M) a).
Proof.
  intros Hwf Ha. unfold rd. destruct (find_lin (shape M) a) as [i|] eqn:F.
  - apply (lin_Some_iff _ _ _ Hwf Ha) in F. destruct F as [Hi Hr]. split.
    + intros _. apply Mapped_nth. eauto.
    + intros _. rewrite nth_shape in Hr. unfold In_reg in Hr. cbn [fst snd] in Hr.
      destruct (nth_error (rbytes (nth i M dummy)) (N.to_nat (a - rstart (nth i M dummy)))) as [b|] eqn:E; [eauto|].
      apply nth_error_None in E. unfold rlen, lenN in Hr. lia.
  - apply (lin_None_iff _ _ Hwf Ha) in F. split; [intros [b E]; discriminate|contradiction].
Qed.
Lemma rd_None_unmapped M a : wf_layout_gen (shape M) -> a < W64 -> ~ Mapped (shape M) a -> rd M a = None.
Proof.
  intros Hwf Ha HM. destruct (rd M a) as [b|] eqn:E; [|reflexivity]. exfalso. apply HM.
  apply (rd_Some_iff M a Hwf Ha). eauto.
Qed.

Definition In_reg_dec p a : {In_reg p a} + {~ In_reg p a}.
Proof.
  unfold In_reg. destruct (fst p <=? a) eqn:E1; destruct (a <? fst p + snd p) eqn:E2;
    [left|right|right|right];
    rewrite ?N.leb_le, ?N.leb_gt in E1; rewrite ?N.ltb_lt, ?N.ltb_ge in E2; lia.
Defined.
(* one region gets new bytes of the same length: the flat reading changes exactly there *)
Lemma rd_upd M i bytes x : wf_layout_gen (shape M) -> x < W64 -> (i < length M)%nat ->
  length bytes = length (rbytes (nth i M dummy)) ->
  rd (upd_nth M i (set_bytes (nth i M dummy) bytes)) x =
  if In_reg_dec (nth i (shape M) dreg) x then nth_error bytes (N.to_nat (x - rstart (nth i M dummy))) else rd M x.
Proof.
  intros Hwf Hx Hi Hlen. destruct (set_bytes_shape (nth i M dummy) bytes Hlen) as [S1 S2].
  unfold rd. rewrite (shape_upd M i _ S1 S2).
  destruct (find_lin (shape M) x) as [j|] eqn:F.
  - apply (lin_Some_iff _ _ _ Hwf Hx) in F. destruct F as [Hj Hr]. rewrite nth_upd_nth.
    destruct (In_reg_dec (nth i (shape M) dreg) x) as [Hin|Hout].
    + assert (j = i). { apply (proj2 Hwf j i x Hj); [rewrite shape_length; exact Hi|exact Hr|exact Hin]. }
      subst j. rewrite Nat.eqb_refl. destruct (Nat.ltb_spec i (length M)); [|lia]. reflexivity.
    + destruct (Nat.eqb_spec i j) as [->|Hne]; [contradiction|reflexivity].
  - apply (lin_None_iff _ _ Hwf Hx) in F.
    destruct (In_reg_dec (nth i (shape M) dreg) x) as [Hin|Hout]; [|reflexivity].
    exfalso. apply F. apply Mapped_nth. exists i. rewrite shape_length. auto.
Qed.

(* ------------------------------------------------------------------------------------------ *)
(* Part 2 *)
Definition in_range (a k x : N) : bool := (a <=? x) && (x <? a + k).
Lemma in_range_iff a k x : in_range a k x = true <-> a <= x < a + k.
Proof. unfold in_range. rewrite andb_true_iff, N.leb_le, N.ltb_lt. tauto. Qed.
Lemma in_range_false a k x : in_range a k x = false <-> ~ (a <= x < a + k).
Proof. rewrite <- in_range_iff. destruct (in_range a k x); split; intro H; try reflexivity; try discriminate; try (exfalso; apply H; reflexivity). Qed.

(* k is the length of the longest run of consecutively mapped addresses starting at a, capped at n *)
Definition is_run (L : layout) (a n k : N) : Prop :=
  k <= n /\ (forall x, a <= x < a + k -> Mapped L x) /\ (k = n \/ ~ Mapped L (a + k) \/ a + k = W64).
Lemma is_run_unique L a n k1 k2 : wf_layout_gen L -> is_run L a n k1 -> is_run L a n k2 -> k1 = k2.
Proof.
  intros Hwf (A1 & B1 & C1) (A2 & B2 & C2).
  destruct (N.lt_trichotomy k1 k2) as [Hlt|[Heq|Hgt]]; [exfalso|exact Heq|exfalso].
  - assert (HM : Mapped L (a + k1)) by (apply B2; lia). pose proof (Mapped_lt L _ Hwf HM).
    destruct C1 as [C|[C|C]]; [lia|contradiction|lia].
  - assert (HM : Mapped L (a + k2)) by (apply B1; lia). pose proof (Mapped_lt L _ Hwf HM).
    destruct C2 as [C|[C|C]]; [lia|contradiction|lia].
Qed.

Lemma lenN_skipn {A} (l : list A) k : k <= lenN l -> lenN (skipn (N.to_nat k) l) = lenN l - k.
Proof. intros H. unfold lenN in *. rewrite skipn_length. lia. Qed.
Lemma lenN_firstn {A} (l : list A) k : k <= lenN l -> lenN (firstn (N.to_nat k) l) = k.
Proof. intros H. unfold lenN in *. rewrite firstn_length. lia. Qed.

(* a write of src into region i at offset off, as the flat reading sees it *)
Lemma region_write_rd M i off src n x :
  wf_layout_gen (shape M) -> (i < length M)%nat -> x < W64 ->
  let r := nth i M dummy in
  off <= rlen r -> n <= rlen r - off -> n <= lenN src ->
  rd (upd_nth M i (set_bytes r (write_at (rbytes r) (N.to_nat off) (firstn (N.to_nat n) src)))) x =
  if in_range (rstart r + off) n x then nth_error src (N.to_nat (x - (rstart r + off))) else rd M x.
Proof.
  intros Hwf Hi Hx r Hoff Hn2 Hn.
  rewrite rd_upd by (try assumption; apply write_at_length). fold r.
  assert (Hfl : length (firstn (N.to_nat n) src) = N.to_nat n).
  { rewrite firstn_length. unfold lenN in Hn. lia. }
  rewrite nth_shape. fold r.
  destruct (In_reg_dec (rstart r, rlen r) x) as [Hin|Hout].
  - unfold In_reg in Hin. cbn [fst snd] in Hin. rewrite write_at_nth, Hfl.
    destruct (in_range (rstart r + off) n x) eqn:R.
    + apply in_range_iff in R.
      replace ((N.to_nat off <=? N.to_nat (x - rstart r))%nat) with true by (symmetry; apply Nat.leb_le; lia).
      replace ((N.to_nat (x - rstart r) <? N.to_nat off + N.to_nat n)%nat) with true by (symmetry; apply Nat.ltb_lt; lia).
      replace ((N.to_nat (x - rstart r) <? length (rbytes r))%nat) with true
        by (symmetry; apply Nat.ltb_lt; unfold rlen, lenN in *; lia).
      cbn [andb]. rewrite nth_error_firstn' by lia. f_equal. lia.
    + apply in_range_false in R.
      assert (Y : ((N.to_nat off <=? N.to_nat (x - rstart r))%nat && (N.to_nat (x - rstart r) <? N.to_nat off + N.to_nat n)%nat) = false).
      { destruct (Nat.leb_spec (N.to_nat off) (N.to_nat (x - rstart r))); [|reflexivity].
        destruct (Nat.ltb_spec (N.to_nat (x - rstart r)) (N.to_nat off + N.to_nat n)); [|reflexivity]. exfalso. apply R. lia. }
      rewrite Y. cbn [andb]. symmetry. apply (rd_in M i x Hwf Hi). rewrite nth_shape. fold r. unfold In_reg. cbn [fst snd]. lia.
  - destruct (in_range (rstart r + off) n x) eqn:R; [|reflexivity].
    apply in_range_iff in R. exfalso. apply Hout. unfold In_reg. cbn [fst snd]. lia.
Qed.
(* the bytes a read of region i at offset off delivers, in terms of the flat reading *)
Lemma region_read_rd M i off n j :
  wf_layout_gen (shape M) -> (i < length M)%nat ->
  let r := nth i M dummy in
  off + n <= rlen r ->
  nth_error (firstn (N.to_nat n) (skipn (N.to_nat off) (rbytes r))) j =
  if (N.of_nat j <? n) then rd M (rstart r + off + N.of_nat j) else None.
Proof.
  intros Hwf Hi r Hle. destruct (N.ltb_spec (N.of_nat j) n) as [Hlt|Hge].
  - rewrite nth_error_firstn' by lia. rewrite nth_error_skipn'.
    rewrite (rd_in M i (rstart r + off + N.of_nat j) Hwf Hi).
    + fold r. f_equal. lia.
    + rewrite nth_shape. fold r. unfold In_reg. cbn [fst snd]. lia.
  - apply nth_error_firstn_ge. lia.
Qed.

Lemma reg_write_nonempty r src off : src <> [] -> off < rlen r ->
  reg_write r src off =
  (set_bytes r (write_at (rbytes r) (N.to_nat off) (firstn (N.to_nat (N.min (rlen r - off) (lenN src))) src)),
   inl (N.min (rlen r - off) (lenN src))).
Proof.
  intros Hs Ho. unfold reg_write. destruct src as [|c0 ct]; [congruence|].
  destruct (N.leb_spec (rlen r) off); [lia|reflexivity].
Qed.

Section GuestBytesProofs.
Variable find : layout -> N -> option nat.
Variable inv : layout -> Prop.
Hypothesis inv_wf : forall L, inv L -> wf_layout_gen L.
Hypothesis find_spec : forall L a, inv L -> a < W64 -> find_ok L a (find L a).
Let fS := find_Some_iff find inv inv_wf find_spec.
Let fN := find_None_iff find inv find_spec.

Definition count_result (k : N) : res N := if k =? 0 then inr EInvalidGuestAddress else inl k.

Lemma gm_write_lemma m M buf addr : inv (shape M) -> lenN buf < W64 -> addr < W64 -> buf <> [] ->
  exists M' k, gm_write find m M buf addr = Val (M', count_result k) /\
    is_run (shape M) addr (lenN buf) k /\ shape M' = shape M /\
    forall x, x < W64 -> rd M' x = if in_range addr k x then nth_error buf (N.to_nat (x - addr)) else rd M x.
Proof.
  intros HL Hcnt Haddr Hne.
  assert (Hwf : wf_layout_gen (shape M)) by (apply inv_wf; exact HL).
  set (f := fun (M' : mem) (offset _x caddr : N) (i : nat) =>
         if lenN buf <? offset then @Panic (mem * res N) 600
         else let wr := reg_write (nth i M' dummy) (skipn (N.to_nat offset) buf) caddr in
              Val (upd_nth M' i (fst wr), snd wr)).
  assert (E0 : gm_write find m M buf addr = try_access find m (shape M) (lenN buf) f (S (length M)) M addr 0).
  { unfold gm_write. destruct buf; [congruence|reflexivity]. }
  rewrite E0. clear E0.
  set (I := fun (M1 : mem) (k : N) => shape M1 = shape M /\
     forall x, x < W64 -> rd M1 x = if in_range addr k x then nth_error buf (N.to_nat (x - addr)) else rd M x).
  destruct (try_access_spec find inv inv_wf find_spec (St := mem) m (shape M) (lenN buf) addr f I
               (fun _ _ => False) (fun _ => O) HL Hcnt Haddr) with (fuel := S (length M)) (s := M) (k := 0)
    as (M' & k' & E & [HS HR] & Hk & Hrun & Hstop).
  - (* the callback *)
    intros M1 k i [HS HR] Hk Hcur F. cbv zeta. unfold f.
    pose proof (proj1 (fS (shape M) (addr + k) i HL Hcur) F) as [Hi Hr]. rewrite shape_length in Hi.
    destruct (shape_eq_nth M M1 i HS) as [Es El]. rewrite nth_shape in Hr |- *. cbn [fst snd] in *.
    rewrite <- Es, <- El in *. set (r := nth i M1 dummy) in *. unfold In_reg in Hr. cbn [fst snd] in Hr.
    assert (Hi1 : (i < length M1)%nat) by (rewrite <- (shape_length M1), HS, shape_length; exact Hi).
    assert (Hwf1 : wf_layout_gen (shape M1)) by (rewrite HS; exact Hwf).
    destruct (N.ltb_spec (lenN buf) k) as [Hbad|_]; [lia|].
    destruct (N.eq_dec k (lenN buf)) as [Hkc|Hkc].
    + (* nothing left *)
      assert (Hsk : skipn (N.to_nat k) buf = []) by (apply skipn_all2; unfold lenN in Hkc; lia).
      rewrite Hsk. cbn [reg_write fst snd]. unfold r. rewrite upd_nth_same. exists M1, 0.
      split; [reflexivity|]. split; [lia|]. split; [rewrite N.add_0_r; split; assumption|].
      split; [intros _ Hl; lia|]. split; [intros; lia|intros; lia].
    + assert (Hsk : skipn (N.to_nat k) buf <> []).
      { intros Hc. apply (f_equal (@length N)) in Hc. rewrite skipn_length in Hc. cbn in Hc. unfold lenN in *. lia. }
      rewrite (reg_write_nonempty r _ _ Hsk) by lia. cbn [fst snd].
      rewrite lenN_skipn by lia.
      set (n := N.min (rlen r - (addr + k - rstart r)) (lenN buf - k)).
      eexists _, n. split; [reflexivity|]. split; [lia|]. split; [|split; [intros; lia|split; intros; lia]].
      split.
      * rewrite shape_upd; [exact HS| |]; apply set_bytes_shape; apply write_at_length.
      * intros x Hx.
        pose proof (region_write_rd M1 i (addr + k - rstart r) (skipn (N.to_nat k) buf) n x Hwf1 Hi1 Hx) as W.
        cbv zeta in W. fold r in W. rewrite W by (rewrite ?lenN_skipn by lia; unfold n; lia). clear W.
        replace (rstart r + (addr + k - rstart r)) with (addr + k) by lia.
        rewrite (HR x Hx).
        destruct (in_range (addr + k) n x) eqn:R1.
        -- apply in_range_iff in R1.
           replace (in_range addr (k + n) x) with true by (symmetry; apply in_range_iff; lia).
           rewrite nth_error_skipn'. f_equal. lia.
        -- apply in_range_false in R1.
           destruct (in_range addr k x) eqn:R2.
           ++ apply in_range_iff in R2. replace (in_range addr (k + n) x) with true by (symmetry; apply in_range_iff; lia).
              reflexivity.
           ++ apply in_range_false in R2. replace (in_range addr (k + n) x) with false by (symmetry; apply in_range_false; lia).
              reflexivity.
  - split; [reflexivity|]. intros x Hx. replace (in_range addr 0 x) with false; [reflexivity|].
    symmetry. apply in_range_false. lia.
  - lia.
  - lia.
  - intros x Hx. lia.
  - pose proof (msr_bound (shape M) (addr + 0)). rewrite shape_length in *. lia.
  - rewrite N.add_0_r in E. exists M', k'. split; [|split; [|split; [exact HS|exact HR]]].
    + rewrite E. f_equal. f_equal. unfold ta_result, count_result. destruct (N.eqb_spec k' 0) as [Hk0|]; [|reflexivity].
      subst k'. rewrite N.add_0_r in Hstop.
      assert (lenN buf <> 0) by (destruct buf; [congruence|unfold lenN; cbn; lia]).
      destruct Hstop as [Hs|[Hs|[Hs|[]]]]; [lia| |lia].
      apply (fN (shape M) addr HL Haddr) in Hs. rewrite Hs. reflexivity.
    + split; [lia|]. split; [exact Hrun|]. destruct Hstop as [Hs|[Hs|[Hs|[]]]]; auto.
Qed.
Lemma gm_read_lemma m M buf0 addr : inv (shape M) -> lenN buf0 < W64 -> addr < W64 -> buf0 <> [] ->
  exists b k, gm_read find m M buf0 addr = Val (b, count_result k) /\
    is_run (shape M) addr (lenN buf0) k /\ length b = length buf0 /\
    forall j, nth_error b j = if N.of_nat j <? k then rd M (addr + N.of_nat j) else nth_error buf0 j.
Proof.
  intros HL Hcnt Haddr Hne.
  assert (Hwf : wf_layout_gen (shape M)) by (apply inv_wf; exact HL).
  set (f := fun (b : list N) (offset _x caddr : N) (i : nat) =>
         if lenN b <? offset then @Panic (list N * res N) 615
         else match reg_read (nth i M dummy) (lenN b - offset) caddr with
              | inl bytes => Val (write_at b (N.to_nat offset) bytes, inl (lenN bytes))
              | inr e => Val (b, inr e)
              end).
  assert (E0 : gm_read find m M buf0 addr = try_access find m (shape M) (lenN buf0) f (S (length M)) buf0 addr 0).
  { unfold gm_read. destruct buf0; [congruence|reflexivity]. }
  rewrite E0. clear E0.
  set (I := fun (b : list N) (k : N) => length b = length buf0 /\
     forall j, nth_error b j = if N.of_nat j <? k then rd M (addr + N.of_nat j) else nth_error buf0 j).
  destruct (try_access_spec find inv inv_wf find_spec (St := list N) m (shape M) (lenN buf0) addr f I
               (fun _ _ => False) (fun _ => O) HL Hcnt Haddr) with (fuel := S (length M)) (s := buf0) (k := 0)
    as (b' & k' & E & [HS HR] & Hk & Hrun & Hstop).
  - (* the callback *)
    intros b1 k i [HLn HR] Hk Hcur F. cbv zeta. unfold f.
    pose proof (proj1 (fS (shape M) (addr + k) i HL Hcur) F) as [Hi Hr]. rewrite shape_length in Hi.
    rewrite nth_shape in Hr |- *. cbn [fst snd] in *. set (r := nth i M dummy) in *.
    unfold In_reg in Hr. cbn [fst snd] in Hr.
    assert (Hlb : lenN b1 = lenN buf0) by (unfold lenN; rewrite HLn; reflexivity). rewrite Hlb.
    destruct (N.ltb_spec (lenN buf0) k) as [Hbad|_]; [lia|].
    unfold reg_read. destruct (N.eqb_spec (lenN buf0 - k) 0) as [Hz|Hnz].
    + rewrite write_at_nil. exists b1, 0. cbn [lenN length].
      split; [reflexivity|]. split; [lia|]. split; [rewrite N.add_0_r; split; assumption|].
      split; [intros _ Hl; lia|]. split; intros; lia.
    + destruct (N.leb_spec (rlen r) (addr + k - rstart r)) as [Hbad|_]; [lia|].
      set (n := N.min (rlen r - (addr + k - rstart r)) (lenN buf0 - k)).
      set (bytes := firstn (N.to_nat n) (skipn (N.to_nat (addr + k - rstart r)) (rbytes r))).
      assert (Hbl : lenN bytes = n).
      { unfold bytes, lenN. rewrite firstn_length, skipn_length. unfold rlen, lenN in *. lia. }
      rewrite Hbl. eexists _, n. split; [reflexivity|]. split; [lia|].
      split; [|split; [intros; lia|split; intros; lia]].
      split; [rewrite write_at_length; exact HLn|].
      intros j. rewrite write_at_nth.
      assert (Hbl' : length bytes = N.to_nat n) by (unfold lenN in Hbl; lia). rewrite Hbl'.
      destruct (N.ltb_spec (N.of_nat j) (k + n)) as [Hjn|Hjn].
      * destruct (N.ltb_spec (N.of_nat j) k) as [Hjk|Hjk].
        -- replace ((N.to_nat k <=? j)%nat) with false by (symmetry; apply Nat.leb_gt; lia). cbn [andb].
           rewrite HR. destruct (N.ltb_spec (N.of_nat j) k); [reflexivity|lia].
        -- replace ((N.to_nat k <=? j)%nat) with true by (symmetry; apply Nat.leb_le; lia).
           replace ((j <? N.to_nat k + N.to_nat n)%nat) with true by (symmetry; apply Nat.ltb_lt; lia).
           replace ((j <? length b1)%nat) with true by (symmetry; apply Nat.ltb_lt; unfold lenN in *; lia).
           cbn [andb]. unfold bytes.
           pose proof (region_read_rd M i (addr + k - rstart r) n (j - N.to_nat k) Hwf Hi) as RR.
           cbv zeta in RR. fold r in RR. rewrite RR by lia.
           destruct (N.ltb_spec (N.of_nat (j - N.to_nat k)) n); [|lia]. f_equal. lia.
      * replace ((j <? N.to_nat k + N.to_nat n)%nat) with false by (symmetry; apply Nat.ltb_ge; lia).
        rewrite andb_false_r. cbn [andb]. rewrite HR. destruct (N.ltb_spec (N.of_nat j) k); [lia|reflexivity].
  - split; [reflexivity|]. intros j. destruct (N.ltb_spec (N.of_nat j) 0); [lia|reflexivity].
  - lia.
  - lia.
  - intros x Hx. lia.
  - pose proof (msr_bound (shape M) (addr + 0)). rewrite shape_length in *. lia.
  - rewrite N.add_0_r in E. exists b', k'. split; [|split; [|split; [exact HS|exact HR]]].
    + rewrite E. f_equal. f_equal. unfold ta_result, count_result. destruct (N.eqb_spec k' 0) as [Hk0|]; [|reflexivity].
      subst k'. rewrite N.add_0_r in Hstop.
      assert (lenN buf0 <> 0) by (destruct buf0; [congruence|unfold lenN; cbn; lia]).
      destruct Hstop as [Hs|[Hs|[Hs|[]]]]; [lia| |lia].
      apply (fN (shape M) addr HL Haddr) in Hs. rewrite Hs. reflexivity.
    + split; [lia|]. split; [exact Hrun|]. destruct Hstop as [Hs|[Hs|[Hs|[]]]]; auto.
Qed.

(* ------------------------------------------------------------------------------------------ *)
(* Part 3: all-or-error forms, objects, atomics *)
Definition exact_result (n k : N) : res unit :=
  if k =? 0 then inr EInvalidGuestAddress else if k =? n then inl tt else inr (EPartialBuffer n k).

Lemma gm_write_empty m M addr : gm_write find m M [] addr = Val (M, inl 0).
Proof. reflexivity. Qed.
Lemma gm_read_empty m M addr : gm_read find m M [] addr = Val ([], inl 0).
Proof. reflexivity. Qed.

Lemma gm_write_slice_lemma m M buf addr : inv (shape M) -> lenN buf < W64 -> addr < W64 -> buf <> [] ->
  exists M' k, gm_write_slice find m M buf addr = Val (M', exact_result (lenN buf) k) /\
    is_run (shape M) addr (lenN buf) k /\ shape M' = shape M /\
    forall x, x < W64 -> rd M' x = if in_range addr k x then nth_error buf (N.to_nat (x - addr)) else rd M x.
Proof.
  intros HL Hcnt Haddr Hne. destruct (gm_write_lemma m M buf addr HL Hcnt Haddr Hne) as (M' & k & E & Hrun & HS & HR).
  exists M', k. split; [|auto]. unfold gm_write_slice. rewrite E. cbn [bind fst snd]. f_equal. f_equal.
  unfold count_result, exact_result. destruct (N.eqb_spec k 0); reflexivity.
Qed.
Lemma gm_read_slice_lemma m M buf0 addr : inv (shape M) -> lenN buf0 < W64 -> addr < W64 -> buf0 <> [] ->
  exists b k, gm_read_slice find m M buf0 addr = Val (b, exact_result (lenN buf0) k) /\
    is_run (shape M) addr (lenN buf0) k /\ length b = length buf0 /\
    forall j, nth_error b j = if N.of_nat j <? k then rd M (addr + N.of_nat j) else nth_error buf0 j.
Proof.
  intros HL Hcnt Haddr Hne. destruct (gm_read_lemma m M buf0 addr HL Hcnt Haddr Hne) as (b & k & E & Hrun & HS & HR).
  exists b, k. split; [|auto]. unfold gm_read_slice. rewrite E. cbn [bind fst snd]. f_equal. f_equal.
  unfold count_result, exact_result. destruct (N.eqb_spec k 0); reflexivity.
Qed.

(* the whole range is a run *)
Definition all_mappedP (L : layout) (a n : N) : Prop := forall i, i < n -> a + i < W64 /\ Mapped L (a + i).
Lemma is_run_full_iff L a n k : wf_layout_gen L -> 0 < n -> is_run L a n k -> (k = n <-> all_mappedP L a n).
Proof.
  intros Hwf Hn (A & B & C). split.
  - intros -> i Hi. assert (HM : Mapped L (a + i)) by (apply B; lia). split; [exact (Mapped_lt L _ Hwf HM)|exact HM].
  - intros H. destruct (N.eq_dec k n) as [|Hne]; [assumption|]. exfalso. destruct (H k ltac:(lia)) as [H1 H2].
    destruct C as [C|[C|C]]; [lia|contradiction|lia].
Qed.
Lemma exact_result_ok n k : 0 < n -> (exact_result n k = inl tt <-> k = n).
Proof.
  intros Hn. unfold exact_result. destruct (N.eqb_spec k 0); [split; [discriminate|lia]|].
  destruct (N.eqb_spec k n); split; try discriminate; try tauto.
Qed.

(* slices / objects succeed exactly when the whole range is mapped; otherwise the error reports how
   much was completed (for k = 0: the invalid-address error) *)
Lemma slice_forms_lemma m M buf addr : inv (shape M) -> lenN buf < W64 -> addr < W64 -> buf <> [] ->
  (exists M' r, gm_write_slice find m M buf addr = Val (M', r) /\
     (r = inl tt <-> all_mappedP (shape M) addr (lenN buf)) /\
     (forall e, r = inr e -> exists k, is_run (shape M) addr (lenN buf) k /\ k < lenN buf /\
         (e = EPartialBuffer (lenN buf) k \/ (k = 0 /\ e = EInvalidGuestAddress)))) /\
  (exists b r, gm_read_slice find m M buf addr = Val (b, r) /\
     (r = inl tt <-> all_mappedP (shape M) addr (lenN buf)) /\
     (forall e, r = inr e -> exists k, is_run (shape M) addr (lenN buf) k /\ k < lenN buf /\
         (e = EPartialBuffer (lenN buf) k \/ (k = 0 /\ e = EInvalidGuestAddress)))).
Proof.
  intros HL Hcnt Haddr Hne.
  assert (Hwf : wf_layout_gen (shape M)) by (apply inv_wf; exact HL).
  assert (Hn : 0 < lenN buf) by (destruct buf; [congruence|unfold lenN; cbn; lia]).
  assert (G : forall k, is_run (shape M) addr (lenN buf) k ->
     (exact_result (lenN buf) k = inl tt <-> all_mappedP (shape M) addr (lenN buf)) /\
     (forall e, exact_result (lenN buf) k = inr e -> exists k0, is_run (shape M) addr (lenN buf) k0 /\ k0 < lenN buf /\
         (e = EPartialBuffer (lenN buf) k0 \/ (k0 = 0 /\ e = EInvalidGuestAddress)))).
  { intros k Hrun. split.
    - rewrite (exact_result_ok _ _ Hn). apply is_run_full_iff; assumption.
    - intros e He. exists k. split; [exact Hrun|]. unfold exact_result in He. destruct Hrun as (A & _).
      destruct (N.eqb_spec k 0) as [Hk0|Hk0]; [inversion He; split; [lia|right; auto]|].
      destruct (N.eqb_spec k (lenN buf)); [discriminate|]. inversion He. split; [lia|left; reflexivity]. }
  split.
  - destruct (gm_write_slice_lemma m M buf addr HL Hcnt Haddr Hne) as (M' & k & E & Hrun & _).
    exists M', (exact_result (lenN buf) k). split; [exact E|]. apply G. exact Hrun.
  - destruct (gm_read_slice_lemma m M buf addr HL Hcnt Haddr Hne) as (b & k & E & Hrun & _).
    exists b, (exact_result (lenN buf) k). split; [exact E|]. apply G. exact Hrun.
Qed.

(* what was written is what is later read back, through every route *)
Lemma obj_roundtrip_lemma m M val addr M' : inv (shape M) -> lenN val < W64 -> addr < W64 -> val <> [] ->
  gm_write_obj find m M val addr = Val (M', inl tt) ->
  gm_read_obj find m M' (lenN val) addr = Val (inl val) /\
  (forall buf0, length buf0 = length val ->
     gm_read_slice find m M' buf0 addr = Val (val, inl tt) /\
     gm_read find m M' buf0 addr = Val (val, inl (lenN val))).
Proof.
  intros HL Hcnt Haddr Hne Hw.
  assert (Hwf : wf_layout_gen (shape M)) by (apply inv_wf; exact HL).
  assert (Hn : 0 < lenN val) by (destruct val; [congruence|unfold lenN; cbn; lia]).
  unfold gm_write_obj in Hw.
  destruct (gm_write_slice_lemma m M val addr HL Hcnt Haddr Hne) as (M1 & k & E & Hrun & HS & HR).
  rewrite E in Hw.
  assert (HM : M1 = M') by congruence. assert (Hres : exact_result (lenN val) k = inl tt) by congruence.
  clear Hw. subst M1. apply (exact_result_ok _ _ Hn) in Hres. subst k.
  assert (HL' : inv (shape M')) by (rewrite HS; exact HL).
  assert (Hrun' : is_run (shape M') addr (lenN val) (lenN val)) by (rewrite HS; exact Hrun).
  assert (Hrd : forall buf0, length buf0 = length val ->
     gm_read find m M' buf0 addr = Val (val, inl (lenN val))).
  { intros buf0 Hl0.
    assert (Hne0 : buf0 <> []) by (intros ->; destruct val; [congruence|discriminate]).
    assert (Hl0' : lenN buf0 = lenN val) by (unfold lenN; rewrite Hl0; reflexivity).
    destruct (gm_read_lemma m M' buf0 addr HL' ltac:(lia) Haddr Hne0) as (b & k & E2 & Hrun2 & Hlen & Hb).
    rewrite Hl0' in Hrun2.
    assert (k = lenN val) by (apply (is_run_unique (shape M') addr (lenN val)); [rewrite HS; exact Hwf|exact Hrun2|exact Hrun']).
    subst k. rewrite E2. unfold count_result. destruct (N.eqb_spec (lenN val) 0); [lia|].
    f_equal. f_equal. apply nth_error_ext. intros j. rewrite Hb.
    destruct (N.ltb_spec (N.of_nat j) (lenN val)) as [Hj|Hj].
    - destruct Hrun as (_ & Hmp & _).
      assert (HMj : Mapped (shape M) (addr + N.of_nat j)) by (apply Hmp; lia).
      rewrite HR by exact (Mapped_lt _ _ Hwf HMj).
      replace (in_range addr (lenN val) (addr + N.of_nat j)) with true by (symmetry; apply in_range_iff; lia).
      f_equal. lia.
    - symmetry. transitivity (@None N); [apply nth_error_None; unfold lenN in Hj; lia|].
      symmetry. apply nth_error_None. unfold lenN in Hj; lia. }
  assert (Hrs : forall buf0, length buf0 = length val -> gm_read_slice find m M' buf0 addr = Val (val, inl tt)).
  { intros buf0 Hl0. unfold gm_read_slice. rewrite (Hrd buf0 Hl0). cbn [bind fst snd].
    assert (Hl0' : lenN buf0 = lenN val) by (unfold lenN; rewrite Hl0; reflexivity).
    rewrite Hl0', N.eqb_refl. reflexivity. }
  split; [|intros buf0 Hl0; split; [apply Hrs|apply Hrd]; exact Hl0].
  unfold gm_read_obj. rewrite Hrs; [reflexivity|]. rewrite repeat_length. unfold lenN. lia.
Qed.

(* atomics: the access must lie in ONE region and be aligned in it (model assumption: host base of
   every region 8-byte aligned) - then it is all-or-nothing on the flat reading *)
Definition atomic_okP (L : layout) (a sz : N) : Prop :=
  exists p, In p L /\ fst p <= a /\ a + sz <= fst p + snd p /\ (a - fst p) mod sz = 0.

Lemma reg_atomic_cases ln off sz : ln < W64 -> off < ln -> 0 < sz ->
  (off + sz <= ln /\ off mod sz = 0 /\ exists x, reg_get_slice ln off sz = inl x /\ (off mod sz =? 0) = true) \/
  (~ (off + sz <= ln /\ off mod sz = 0) /\
   ((exists e, reg_get_slice ln off sz = inr e /\ e = EInvalidBackendAddress) \/
    (exists x, reg_get_slice ln off sz = inl x /\ (off mod sz =? 0) = false))).
Proof.
  intros Hln Hoff Hsz. unfold reg_get_slice, checked_add.
  destruct (N.ltb_spec (off + sz) W64) as [Hlt|Hge].
  - destruct (N.ltb_spec ln (off + sz)) as [Hout|Hin].
    + right. split; [lia|]. left. eauto.
    + destruct (N.eqb_spec (off mod sz) 0) as [Hal|Hal].
      * left. split; [lia|]. split; [exact Hal|]. eauto.
      * right. split; [tauto|]. right. eauto.
  - right. split; [lia|]. left. eauto.
Qed.

Lemma atomic_okP_iff M addr sz i : wf_layout_gen (shape M) -> 0 < sz ->
  (i < length M)%nat -> In_reg (nth i (shape M) dreg) addr ->
  let r := nth i M dummy in
  (atomic_okP (shape M) addr sz <-> (addr - rstart r + sz <= rlen r /\ (addr - rstart r) mod sz = 0)).
Proof.
  intros Hwf Hsz Hi Hr r. rewrite nth_shape in Hr. fold r in Hr. unfold In_reg in Hr. cbn [fst snd] in Hr. split.
  - intros (p & Hp & H1 & H2 & H3). destruct (In_nth _ _ dreg Hp) as (j & Hj & Ej).
    assert (j = i).
    { apply (proj2 Hwf j i addr Hj); [rewrite shape_length; exact Hi| |].
      - rewrite Ej. unfold In_reg. lia.
      - rewrite nth_shape. fold r. unfold In_reg. cbn [fst snd]. lia. }
    subst j. rewrite nth_shape in Ej. fold r in Ej. subst p. cbn [fst snd] in *. split; [lia|exact H3].
  - intros [H1 H2]. exists (rstart r, rlen r). split.
    + unfold r. rewrite <- (nth_shape M i). apply nth_In. rewrite shape_length. exact Hi.
    + cbn [fst snd]. split; [lia|]. split; [lia|exact H2].
Qed.

Lemma gm_store_lemma M bytes addr : inv (shape M) -> addr < W64 -> 0 < lenN bytes -> lenN bytes < W64 ->
  exists M' r, gm_store find M bytes addr = Val (M', r) /\ shape M' = shape M /\
    (r = inl tt <-> atomic_okP (shape M) addr (lenN bytes)) /\
    (r = inl tt -> forall x, x < W64 ->
       rd M' x = if in_range addr (lenN bytes) x then nth_error bytes (N.to_nat (x - addr)) else rd M x) /\
    (forall e, r = inr e -> M' = M /\ (e = EInvalidGuestAddress <-> ~ Mapped (shape M) addr) /\
                            (e = EInvalidGuestAddress \/ e = EInvalidBackendAddress)).
Proof.
  intros HL Haddr Hsz Hsz2.
  assert (Hwf : wf_layout_gen (shape M)) by (apply inv_wf; exact HL).
  unfold gm_store. rewrite (to_region_addr_lemma find inv inv_wf find_spec (shape M) addr HL Haddr). cbn [bind].
  destruct (find (shape M) addr) as [i|] eqn:F.
  - pose proof (proj1 (fS (shape M) addr i HL Haddr) F) as [Hi Hr]. rewrite shape_length in Hi.
    pose proof (atomic_okP_iff M addr (lenN bytes) i Hwf Hsz Hi Hr) as AOK. cbv zeta in AOK.
    assert (HMp : Mapped (shape M) addr) by (apply Mapped_nth; exists i; rewrite shape_length; auto).
    rewrite nth_shape in Hr |- *. cbn [fst snd]. set (r := nth i M dummy) in *.
    unfold In_reg in Hr. cbn [fst snd] in Hr.
    destruct (proj1 Hwf (rstart r, rlen r)) as (P1 & P2 & P3).
    { unfold r. rewrite <- (nth_shape M i). apply nth_In. rewrite shape_length. exact Hi. }
    cbn [fst snd] in *. unfold reg_store.
    destruct (reg_atomic_cases (rlen r) (addr - rstart r) (lenN bytes) P2 ltac:(lia) Hsz)
      as [(C1 & C2 & x0 & E1 & E2)|(C & [(e & E1 & Ee)|(x0 & E1 & E2)])]; rewrite E1; try rewrite E2; cbn [fst snd].
    + eexists _, (inl tt). split; [reflexivity|]. split; [|split; [|split]].
      * apply shape_upd; apply set_bytes_shape; apply write_at_length.
      * split; [intros _; apply AOK; split; assumption|reflexivity].
      * intros _ x Hx.
        pose proof (region_write_rd M i (addr - rstart r) bytes (lenN bytes) x Hwf Hi Hx) as W. cbv zeta in W. fold r in W.
        assert (Hfa : firstn (N.to_nat (lenN bytes)) bytes = bytes) by (unfold lenN; rewrite Nat2N.id; apply firstn_all).
        rewrite Hfa in W. rewrite W by lia.
        replace (rstart r + (addr - rstart r)) with addr by lia. reflexivity.
      * intros e He; discriminate.
    + subst e. exists M, (inr EInvalidBackendAddress). split; [unfold r; rewrite upd_nth_same; reflexivity|].
      split; [reflexivity|]. split; [|split].
      * split; [discriminate|]. intros A. apply AOK in A. tauto.
      * discriminate.
      * intros e He. inversion He. split; [reflexivity|]. split; [|right; reflexivity].
        split; [discriminate|]. intros; contradiction.
    + exists M, (inr EInvalidBackendAddress). split; [unfold r; rewrite upd_nth_same; reflexivity|].
      split; [reflexivity|]. split; [|split].
      * split; [discriminate|]. intros A. apply AOK in A. tauto.
      * discriminate.
      * intros e He. inversion He. split; [reflexivity|]. split; [|right; reflexivity].
        split; [discriminate|]. intros; contradiction.
  - pose proof (proj1 (fN (shape M) addr HL Haddr) F) as HM.
    exists M, (inr EInvalidGuestAddress). split; [reflexivity|]. split; [reflexivity|]. split; [|split].
    + split; [discriminate|]. intros (p & Hp & H1 & H2 & _). exfalso. apply HM. exists p. split; [exact Hp|].
      unfold In_reg. lia.
    + discriminate.
    + intros e He. inversion He. split; [reflexivity|]. split; [tauto|left; reflexivity].
Qed.

Lemma gm_load_lemma M sz addr : inv (shape M) -> addr < W64 -> 0 < sz -> sz < W64 ->
  exists r, gm_load find M sz addr = Val r /\
    ((exists d, r = inl d) <-> atomic_okP (shape M) addr sz) /\
    (forall d, r = inl d -> length d = N.to_nat sz /\
       forall j, nth_error d j = if N.of_nat j <? sz then rd M (addr + N.of_nat j) else None) /\
    (forall e, r = inr e -> (e = EInvalidGuestAddress <-> ~ Mapped (shape M) addr) /\
                            (e = EInvalidGuestAddress \/ e = EInvalidBackendAddress)).
Proof.
  intros HL Haddr Hsz Hsz2.
  assert (Hwf : wf_layout_gen (shape M)) by (apply inv_wf; exact HL).
  unfold gm_load. rewrite (to_region_addr_lemma find inv inv_wf find_spec (shape M) addr HL Haddr). cbn [bind].
  destruct (find (shape M) addr) as [i|] eqn:F.
  - pose proof (proj1 (fS (shape M) addr i HL Haddr) F) as [Hi Hr]. rewrite shape_length in Hi.
    pose proof (atomic_okP_iff M addr sz i Hwf Hsz Hi Hr) as AOK. cbv zeta in AOK.
    assert (HMp : Mapped (shape M) addr) by (apply Mapped_nth; exists i; rewrite shape_length; auto).
    rewrite nth_shape in Hr |- *. cbn [fst snd]. set (r := nth i M dummy) in *.
    unfold In_reg in Hr. cbn [fst snd] in Hr.
    destruct (proj1 Hwf (rstart r, rlen r)) as (P1 & P2 & P3).
    { unfold r. rewrite <- (nth_shape M i). apply nth_In. rewrite shape_length. exact Hi. }
    cbn [fst snd] in *. unfold reg_load.
    destruct (reg_atomic_cases (rlen r) (addr - rstart r) sz P2 ltac:(lia) Hsz)
      as [(C1 & C2 & x0 & E1 & E2)|(C & [(e & E1 & Ee)|(x0 & E1 & E2)])]; rewrite E1; try rewrite E2.
    + eexists. split; [reflexivity|]. split; [|split].
      * split; [intros _; apply AOK; split; assumption|eauto].
      * intros d Hd. inversion Hd; subst d. split.
        -- rewrite firstn_length, skipn_length. unfold rlen, lenN in *. lia.
        -- intros j. pose proof (region_read_rd M i (addr - rstart r) sz j Hwf Hi) as RR. cbv zeta in RR. fold r in RR.
           rewrite RR by lia. destruct (N.ltb_spec (N.of_nat j) sz); [|reflexivity]. f_equal. lia.
      * intros e He; discriminate.
    + subst e. eexists. split; [reflexivity|]. split; [|split].
      * split; [intros [d Hd]; discriminate|]. intros A. apply AOK in A. tauto.
      * intros d Hd; discriminate.
      * intros e He. inversion He. split; [|right; reflexivity]. split; [discriminate|]. intros; contradiction.
    + eexists. split; [reflexivity|]. split; [|split].
      * split; [intros [d Hd]; discriminate|]. intros A. apply AOK in A. tauto.
      * intros d Hd; discriminate.
      * intros e He. inversion He. split; [|right; reflexivity]. split; [discriminate|]. intros; contradiction.
  - pose proof (proj1 (fN (shape M) addr HL Haddr) F) as HM.
    eexists. split; [reflexivity|]. split; [|split].
    + split; [intros [d Hd]; discriminate|]. intros (p & Hp & H1 & H2 & _). exfalso. apply HM. exists p.
      split; [exact Hp|]. unfold In_reg. lia.
    + intros d Hd; discriminate.
    + intros e He. inversion He. split; [tauto|left; reflexivity].
Qed.

Lemma write_frame_lemma m M buf addr : inv (shape M) -> lenN buf < W64 -> addr < W64 ->
  exists M' r, gm_write find m M buf addr = Val (M', r) /\ shape M' = shape M /\
    forall x, x < W64 -> ~ (addr <= x < addr + lenN buf) -> rd M' x = rd M x.
Proof.
  intros HL Hcnt Haddr. destruct buf as [|b0 bt].
  - exists M, (inl 0). split; [reflexivity|]. split; reflexivity.
  - destruct (gm_write_lemma m M (b0 :: bt) addr HL Hcnt Haddr ltac:(discriminate)) as (M' & k & E & (Hk & _) & HS & HR).
    exists M', (count_result k). split; [exact E|]. split; [exact HS|]. intros x Hx Hout. rewrite (HR x Hx).
    replace (in_range addr k x) with false; [reflexivity|]. symmetry. apply in_range_false. lia.
Qed.
Lemma no_fuel_lemma m M buf addr : inv (shape M) -> lenN buf < W64 -> addr < W64 ->
  (exists v, gm_write find m M buf addr = Val v) /\ (exists v, gm_read find m M buf addr = Val v) /\
  (exists v, gm_write_slice find m M buf addr = Val v) /\ (exists v, gm_read_slice find m M buf addr = Val v).
Proof.
  intros HL Hcnt Haddr. destruct buf as [|b0 bt].
  - repeat split; eexists; reflexivity.
  - set (buf := b0 :: bt) in *. assert (Hne : buf <> []) by discriminate.
    destruct (gm_write_lemma m M buf addr HL Hcnt Haddr Hne) as (? & ? & E1 & _).
    destruct (gm_read_lemma m M buf addr HL Hcnt Haddr Hne) as (? & ? & E2 & _).
    destruct (gm_write_slice_lemma m M buf addr HL Hcnt Haddr Hne) as (? & ? & E3 & _).
    destruct (gm_read_slice_lemma m M buf addr HL Hcnt Haddr Hne) as (? & ? & E4 & _).
    repeat split; eexists; eassumption.
Qed.

(* in-memory streams.  No early return for count = 0 here: the result for an empty run is Ok(0) at a
   mapped address and InvalidGuestAddress at an unmapped one. *)
Definition stream_result (L : layout) (addr k : N) : res N :=
  if k =? 0 then match find L addr with Some _ => inl 0 | None => inr EInvalidGuestAddress end else inl k.

Lemma gm_write_volatile_to_lemma m M addr dst count : inv (shape M) -> count < W64 -> addr < W64 ->
  exists d k, gm_write_volatile_to find m M addr dst count = Val (d, stream_result (shape M) addr k) /\
    is_run (shape M) addr count k /\
    d = dst ++ skipn (length dst) d /\ length d = (length dst + N.to_nat k)%nat /\
    forall j, (j < N.to_nat k)%nat -> nth_error d (length dst + j) = rd M (addr + N.of_nat j).
Proof.
  intros HL Hcnt Haddr.
  assert (Hwf : wf_layout_gen (shape M)) by (apply inv_wf; exact HL).
  set (f := fun (d : list N) (_x len caddr : N) (i : nat) =>
         let wr := reg_write_all_volatile_to (nth i M dummy) caddr d len in
         @Val (list N * res N) (fst wr, match snd wr with inl _ => inl len | inr e => inr e end)).
  set (I := fun (d : list N) (k : N) => firstn (length dst) d = dst /\ length d = (length dst + N.to_nat k)%nat /\
     forall j, (j < N.to_nat k)%nat -> nth_error d (length dst + j) = rd M (addr + N.of_nat j)).
  destruct (try_access_spec find inv inv_wf find_spec (St := list N) m (shape M) count addr f I
               (fun _ _ => False) (fun _ => O) HL Hcnt Haddr) with (fuel := S (length M)) (s := dst) (k := 0)
    as (d' & k' & E & (H1 & H2 & H3) & Hk & Hrun & Hstop).
  - intros d1 k i (H1 & H2 & H3) Hk Hcur F. cbv zeta. unfold f.
    pose proof (proj1 (fS (shape M) (addr + k) i HL Hcur) F) as [Hi Hr]. rewrite shape_length in Hi.
    rewrite nth_shape in Hr |- *. cbn [fst snd] in *. set (r := nth i M dummy) in *.
    unfold In_reg in Hr. cbn [fst snd] in Hr.
    destruct (proj1 Hwf (rstart r, rlen r)) as (P1 & P2 & P3).
    { unfold r. rewrite <- (nth_shape M i). apply nth_In. rewrite shape_length. exact Hi. }
    cbn [fst snd] in *.
    set (len := N.min (rlen r - (addr + k - rstart r)) (count - k)).
    unfold reg_write_all_volatile_to, reg_get_slice, checked_add.
    destruct (N.ltb_spec (addr + k - rstart r + len) W64) as [_|Hbad]; [|unfold len in *; lia].
    destruct (N.ltb_spec (rlen r) (addr + k - rstart r + len)) as [Hbad|_]; [unfold len in *; lia|].
    cbn [fst snd]. eexists _, len. split; [reflexivity|]. split; [lia|].
    split; [|split; [intros; lia|split; intros; lia]].
    set (bytes := firstn (N.to_nat len) (skipn (N.to_nat (addr + k - rstart r)) (rbytes r))).
    assert (Hbl : length bytes = N.to_nat len).
    { unfold bytes. rewrite firstn_length, skipn_length. unfold len, rlen, lenN in *. lia. }
    split; [|split].
    + rewrite firstn_app. replace (length dst - length d1)%nat with O by lia. cbn [firstn]. rewrite app_nil_r. exact H1.
    + rewrite app_length, Hbl, H2. lia.
    + intros j Hj. destruct (Nat.lt_ge_cases j (N.to_nat k)) as [Hlt|Hge].
      * rewrite nth_error_app1 by lia. apply H3. exact Hlt.
      * rewrite nth_error_app2 by lia. unfold bytes.
        pose proof (region_read_rd M i (addr + k - rstart r) len (length dst + j - length d1) Hwf Hi) as RR.
        cbv zeta in RR. fold r in RR. rewrite RR by (unfold len; lia).
        destruct (N.ltb_spec (N.of_nat (length dst + j - length d1)) len); [|lia]. f_equal. lia.
  - split; [apply firstn_all|]. split; [cbn; lia|]. intros j Hj. cbn in Hj. lia.
  - lia.
  - lia.
  - intros x Hx. lia.
  - pose proof (msr_bound (shape M) (addr + 0)). rewrite shape_length in *. lia.
  - rewrite N.add_0_r in E. exists d', k'. split; [exact E|]. split; [|split; [|split; [exact H2|exact H3]]].
    + split; [lia|]. split; [exact Hrun|]. destruct Hstop as [Hs|[Hs|[Hs|[]]]]; auto.
    + rewrite <- H1 at 1. symmetry. apply firstn_skipn.
Qed.

Definition sslack (s : mem * list N) : nat := length (snd s).

Lemma gm_read_volatile_from_lemma m M addr chunk src count : inv (shape M) -> count < W64 -> addr < W64 -> lenN src < W64 ->
  0 < chunk ->
  exists M' k, gm_read_volatile_from find m M addr chunk src count =
               Val ((M', skipn (N.to_nat k) src), stream_result (shape M) addr k) /\
    is_run (shape M) addr (N.min count (lenN src)) k /\ shape M' = shape M /\
    forall x, x < W64 -> rd M' x = if in_range addr k x then nth_error src (N.to_nat (x - addr)) else rd M x.
Proof.
  intros HL Hcnt Haddr Hsrc Hchunk.
  assert (Hwf : wf_layout_gen (shape M)) by (apply inv_wf; exact HL).
  set (f := fun (ms : mem * list N) (_x len caddr : N) (i : nat) =>
         let rr := reg_read_volatile_from (nth i (fst ms) dummy) caddr chunk (snd ms) len in
         @Val ((mem * list N) * res N) ((upd_nth (fst ms) i (fst (fst rr)), snd (fst rr)), snd rr)).
  set (I := fun (ms : mem * list N) (k : N) => shape (fst ms) = shape M /\ snd ms = skipn (N.to_nat k) src /\ k <= lenN src /\
     forall x, x < W64 -> rd (fst ms) x = if in_range addr k x then nth_error src (N.to_nat (x - addr)) else rd M x).
  destruct (try_access_spec find inv inv_wf find_spec (St := mem * list N) m (shape M) count addr f I
               (fun _ k => k = lenN src) sslack HL Hcnt Haddr) with (fuel := S (S (length M + length src))) (s := (M, src)) (k := 0)
    as ([M' rest] & k' & E & (HS & Hrest & Hks & HR) & Hk & Hrun & Hstop).
  - intros [M1 s1] k i (HS & Hs1 & Hks & HR) Hk Hcur F. cbn [fst snd] in *. cbv zeta. unfold f. cbn [fst snd].
    pose proof (proj1 (fS (shape M) (addr + k) i HL Hcur) F) as [Hi Hr]. rewrite shape_length in Hi.
    destruct (shape_eq_nth M M1 i HS) as [Es El]. rewrite nth_shape in Hr |- *. cbn [fst snd] in *.
    rewrite <- Es, <- El in *. set (r := nth i M1 dummy) in *. unfold In_reg in Hr. cbn [fst snd] in Hr.
    assert (Hi1 : (i < length M1)%nat) by (rewrite <- (shape_length M1), HS, shape_length; exact Hi).
    assert (Hwf1 : wf_layout_gen (shape M1)) by (rewrite HS; exact Hwf).
    set (len := N.min (rlen r - (addr + k - rstart r)) (count - k)).
    assert (Hl1 : lenN s1 = lenN src - k) by (rewrite Hs1; apply lenN_skipn; exact Hks).
    unfold reg_read_volatile_from. destruct (N.ltb_spec (rlen r) (addr + k - rstart r)) as [Hbad|_]; [lia|].
    cbn [fst snd].
    set (n := N.min (N.min (N.min (rlen r - (addr + k - rstart r)) len) chunk) (lenN s1)).
    eexists (_, _), n. split; [reflexivity|]. split; [unfold n; lia|]. split; [|split; [|split]].
    + unfold I. cbn [fst snd]. split; [|split; [|split]].
      * rewrite shape_upd; [exact HS| |]; apply set_bytes_shape; apply write_at_length.
      * rewrite Hs1, skipn_skipn'. f_equal. lia.
      * unfold n. lia.
      * intros x Hx.
        pose proof (region_write_rd M1 i (addr + k - rstart r) s1 n x Hwf1 Hi1 Hx) as W.
        cbv zeta in W. fold r in W. rewrite W by (unfold n, len; lia). clear W.
        replace (rstart r + (addr + k - rstart r)) with (addr + k) by lia.
        rewrite (HR x Hx).
        destruct (in_range (addr + k) n x) eqn:R1.
        -- apply in_range_iff in R1.
           replace (in_range addr (k + n) x) with true by (symmetry; apply in_range_iff; lia).
           rewrite Hs1, nth_error_skipn'. f_equal. lia.
        -- apply in_range_false in R1.
           destruct (in_range addr k x) eqn:R2.
           ++ apply in_range_iff in R2. replace (in_range addr (k + n) x) with true by (symmetry; apply in_range_iff; lia).
              reflexivity.
           ++ apply in_range_false in R2. replace (in_range addr (k + n) x) with false by (symmetry; apply in_range_false; lia).
              reflexivity.
    + intros Hn0 Hlen. unfold n, len in *. lia.
    + intros Hn0 Hnl. unfold sslack. cbn [snd]. rewrite skipn_length.
      assert (n <= lenN s1) by (unfold n; lia). unfold lenN in *. lia.
    + intros Hnl. unfold sslack. cbn [snd]. rewrite skipn_length. lia.
  - cbn [fst snd]. split; [reflexivity|]. split; [reflexivity|]. split; [lia|].
    intros x Hx. replace (in_range addr 0 x) with false; [reflexivity|]. symmetry. apply in_range_false. lia.
  - lia.
  - lia.
  - intros x Hx. lia.
  - pose proof (msr_bound (shape M) (addr + 0)). rewrite shape_length in *. unfold sslack. cbn [snd]. lia.
  - rewrite N.add_0_r in E. cbn [fst snd] in *. exists M', k'. split; [rewrite Hrest in E; exact E|].
    split; [|split; [exact HS|exact HR]].
    split; [lia|]. split; [exact Hrun|]. destruct Hstop as [Hs|[Hs|[Hs|Hs]]]; auto; left; lia.
Qed.

End GuestBytesProofs.

(* ------------------------------------------------------------------------------------------ *)
(* Part 4: histories.  The flat machine: guest memory is ONE partial function address -> byte;
   every operation is defined on it directly (longest run by counting byte by byte). *)
Definition fmem := N -> option N.
Definition fl_mapped (F : fmem) (x : N) : bool := (x <? W64) && match F x with Some _ => true | None => false end.
Definition fl_run (F : fmem) (a n : N) : N := runlen (fl_mapped F) a (N.to_nat n).
Definition fl_put (F : fmem) (a : N) (src : list N) : fmem :=
  fun x => if in_range a (lenN src) x then nth_error src (N.to_nat (x - a)) else F x.
Definition fl_gets (F : fmem) (a k : N) : list N :=
  map (fun j => match F (a + N.of_nat j) with Some b => b | None => 0 end) (seq 0 (N.to_nat k)).
Definition fobs := (N * N * N * N * list N)%type.         (* k v e1 e2 data, as on the wire *)
Definition f_ok (d : list N) : fobs := (1, 0, 0, 0, d).
Definition f_count (k : N) (d : list N) : fobs := if k =? 0 then (2, 1, 0, 0, d) else (1, k, 0, 0, d).
Definition f_exact (n k : N) (d : list N) : fobs :=
  if k =? 0 then (2, 1, 0, 0, d) else if k =? n then (1, 0, 0, 0, d) else (2, 3, n, k, d).
Definition f_stream (F : fmem) (a k : N) (d : list N) : fobs :=
  if k =? 0 then (if fl_mapped F a then (1, 0, 0, 0, d) else (2, 1, 0, 0, d)) else (1, k, 0, 0, d).
Definition f_stream_exact (F : fmem) (a cnt k : N) (d : list N) : fobs :=
  if k =? 0 then (if fl_mapped F a then (if 0 =? cnt then (1, 0, 0, 0, d) else (2, 3, cnt, 0, d)) else (2, 1, 0, 0, d))
  else if k =? cnt then (1, 0, 0, 0, d) else (2, 3, cnt, k, d).
(* atomics additionally see the region structure: one region, aligned in it *)
Definition atomic_okb (L : layout) (a sz : N) : bool :=
  existsb (fun p => (fst p <=? a) && (a + sz <=? fst p + snd p) && ((a - fst p) mod sz =? 0)) L.
Definition f_atomic_err (F : fmem) (a : N) : fobs := (2, if fl_mapped F a then 4 else 1, 0, 0, []).

Definition flat_step (L : layout) (op : bop) (F : fmem) : fmem * fobs :=
  match op with
  | BWrite buf a =>
      match buf with [] => (F, f_ok []) | _ :: _ =>
        let k := fl_run F a (lenN buf) in (fl_put F a (firstn (N.to_nat k) buf), f_count k []) end
  | BRead buf0 a =>
      match buf0 with [] => (F, f_ok []) | _ :: _ =>
        let k := fl_run F a (lenN buf0) in (F, f_count k (fl_gets F a k ++ skipn (N.to_nat k) buf0)) end
  | BWriteSlice buf a | BWriteObj buf a =>
      match buf with [] => (F, f_ok []) | _ :: _ =>
        let k := fl_run F a (lenN buf) in (fl_put F a (firstn (N.to_nat k) buf), f_exact (lenN buf) k []) end
  | BReadSlice buf0 a =>
      match buf0 with [] => (F, f_ok []) | _ :: _ =>
        let k := fl_run F a (lenN buf0) in (F, f_exact (lenN buf0) k (fl_gets F a k ++ skipn (N.to_nat k) buf0)) end
  | BReadObj sz a =>
      if sz =? 0 then (F, f_ok []) else
      let k := fl_run F a sz in (F, f_exact sz k (if k =? sz then fl_gets F a sz else []))
  | BStore val a =>
      if atomic_okb L a (lenN val) then (fl_put F a val, f_ok []) else (F, f_atomic_err F a)
  | BLoad sz a =>
      if atomic_okb L a sz then (F, f_ok (fl_gets F a sz)) else (F, f_atomic_err F a)
  | BReadVolFrom _ src cnt a =>
      let k := fl_run F a (N.min cnt (lenN src)) in
      (fl_put F a (firstn (N.to_nat k) src), f_stream F a k (skipn (N.to_nat k) src))
  | BReadExactVolFrom _ src cnt a =>
      let k := fl_run F a (N.min cnt (lenN src)) in
      (fl_put F a (firstn (N.to_nat k) src), f_stream_exact F a cnt k (skipn (N.to_nat k) src))
  | BWriteVolTo dst cnt a =>
      let k := fl_run F a cnt in (F, f_stream F a k (dst ++ fl_gets F a k))
  | BWriteAllVolTo dst cnt a =>
      let k := fl_run F a cnt in (F, f_stream_exact F a cnt k (dst ++ fl_gets F a k))
  end.
Fixpoint flat_hist (L : layout) (ops : list bop) (F : fmem) {struct ops} : fmem * list fobs :=
  match ops with
  | [] => (F, [])
  | op :: t => let so := flat_step L op F in let r := flat_hist L t (fst so) in (fst r, snd so :: snd r)
  end.
Definition strip (o : sobs) : fobs := (s_k o, s_v o, s_e1 o, s_e2 o, s_data o).

(* arguments are machine words *)
Definition op_wf (op : bop) : Prop :=
  match op with
  | BWrite b a | BRead b a | BWriteSlice b a | BReadSlice b a | BWriteObj b a => a < W64 /\ lenN b < W64
  | BReadObj sz a => a < W64 /\ sz < W64
  | BStore v a => a < W64 /\ 0 < lenN v /\ lenN v < W64
  | BLoad sz a => a < W64 /\ 0 < sz /\ sz < W64
  | BReadVolFrom ch s c a | BReadExactVolFrom ch s c a => a < W64 /\ c < W64 /\ lenN s < W64 /\ 0 < ch
  | BWriteVolTo d c a | BWriteAllVolTo d c a => a < W64 /\ c < W64
  end.

(* counting byte by byte finds the run *)
Lemma runlen_spec mp : forall cnt a,
  let k := runlen mp a cnt in
  k <= N.of_nat cnt /\ (forall x, a <= x < a + k -> mp x = true) /\ (k = N.of_nat cnt \/ mp (a + k) = false).
Proof.
  induction cnt as [|c IH]; intros a; cbn [runlen]; cbv zeta.
  - split; [lia|]. split; [intros; lia|left; reflexivity].
  - destruct (mp a) eqn:E.
    + destruct (IH (a + 1)) as (A & B & C). cbv zeta in *. set (k := runlen mp (a + 1) c) in *.
      split; [lia|]. split.
      * intros x Hx. destruct (N.eq_dec x a) as [->|Hne]; [exact E|]. apply B. lia.
      * destruct C as [C|C]; [left; lia|right]. replace (a + (1 + k)) with (a + 1 + k) by lia. exact C.
    + split; [lia|]. split; [intros; lia|right]. rewrite N.add_0_r. exact E.
Qed.
Lemma runlen_ext mp1 mp2 : (forall x, mp1 x = mp2 x) -> forall cnt a, runlen mp1 a cnt = runlen mp2 a cnt.
Proof. intros H. induction cnt as [|c IH]; intros a; cbn [runlen]; [reflexivity|]. rewrite H, IH. reflexivity. Qed.

Lemma rd_big M x : wf_layout_gen (shape M) -> W64 <= x -> rd M x = None.
Proof.
  intros Hwf Hx. unfold rd. pose proof (find_lin_spec (shape M) x) as S. destruct (find_lin (shape M) x) as [i|]; [|reflexivity].
  destruct S as [Hi Hr]. exfalso.
  assert (HM : Mapped (shape M) x) by (apply Mapped_nth; eauto). pose proof (Mapped_lt _ _ Hwf HM). lia.
Qed.
Lemma fl_mapped_rd M x : wf_layout_gen (shape M) -> (fl_mapped (rd M) x = true <-> x < W64 /\ Mapped (shape M) x).
Proof.
  intros Hwf. unfold fl_mapped. rewrite andb_true_iff, N.ltb_lt. split; intros [Hx H]; (split; [exact Hx|]).
  - apply (rd_Some_iff M x Hwf Hx). destruct (rd M x) as [b|]; [eauto|discriminate].
  - apply (rd_Some_iff M x Hwf Hx) in H. destruct H as [b ->]. reflexivity.
Qed.
Lemma fl_run_is_run M a n : wf_layout_gen (shape M) -> a < W64 -> is_run (shape M) a n (fl_run (rd M) a n).
Proof.
  intros Hwf Ha. unfold fl_run. pose proof (runlen_spec (fl_mapped (rd M)) (N.to_nat n) a) as S. cbv zeta in S.
  set (k := runlen (fl_mapped (rd M)) a (N.to_nat n)) in *. destruct S as (A & B & C). rewrite N2Nat.id in A, C.
  assert (B' : forall x, a <= x < a + k -> x < W64 /\ Mapped (shape M) x).
  { intros x Hx. apply fl_mapped_rd; [exact Hwf|apply B; exact Hx]. }
  split; [exact A|]. split; [intros x Hx; apply B'; exact Hx|].
  destruct C as [C|C]; [left; exact C|right].
  assert (Hle : a + k <= W64).
  { destruct (N.eq_dec k 0) as [->|Hk]; [lia|]. destruct (B' (a + k - 1) ltac:(lia)). lia. }
  destruct (N.eq_dec (a + k) W64) as [He|Hne]; [right; exact He|left].
  intros HM. assert (X : fl_mapped (rd M) (a + k) = true) by (apply fl_mapped_rd; [exact Hwf|split; [lia|exact HM]]).
  congruence.
Qed.
Lemma fl_run_eq M a n k : wf_layout_gen (shape M) -> a < W64 -> is_run (shape M) a n k -> fl_run (rd M) a n = k.
Proof. intros Hwf Ha Hk. apply (is_run_unique (shape M) a n); [exact Hwf|apply fl_run_is_run; assumption|exact Hk]. Qed.
Lemma is_run_top L a n k : wf_layout_gen L -> a < W64 -> is_run L a n k -> a + k <= W64.
Proof.
  intros Hwf Ha (_ & B & _). destruct (N.eq_dec k 0) as [->|Hk]; [lia|].
  pose proof (Mapped_lt L _ Hwf (B (a + k - 1) ltac:(lia))). lia.
Qed.

Lemma fl_gets_nth F a k j :
  nth_error (fl_gets F a k) j =
  if N.of_nat j <? k then Some (match F (a + N.of_nat j) with Some b => b | None => 0 end) else None.
Proof.
  unfold fl_gets. destruct (N.ltb_spec (N.of_nat j) k) as [Hlt|Hge].
  - rewrite nth_error_map, nth_error_nth' with (d := O) by (rewrite seq_length; lia).
    rewrite seq_nth by lia. reflexivity.
  - apply nth_error_None. rewrite map_length, seq_length. lia.
Qed.
Lemma fl_gets_length F a k : length (fl_gets F a k) = N.to_nat k.
Proof. unfold fl_gets. rewrite map_length, seq_length. reflexivity. Qed.
(* a buffer that holds the k run bytes followed by the untouched rest *)
Lemma read_buffer_eq M a k (b buf0 : list N) : wf_layout_gen (shape M) -> a < W64 -> k <= lenN buf0 ->
  (forall x, a <= x < a + k -> Mapped (shape M) x) ->
  length b = length buf0 ->
  (forall j, nth_error b j = if N.of_nat j <? k then rd M (a + N.of_nat j) else nth_error buf0 j) ->
  b = fl_gets (rd M) a k ++ skipn (N.to_nat k) buf0.
Proof.
  intros Hwf Ha Hk Hrun Hlen Hb. apply nth_error_ext. intros j. rewrite Hb.
  destruct (N.ltb_spec (N.of_nat j) k) as [Hlt|Hge].
  - rewrite nth_error_app1 by (rewrite fl_gets_length; lia). rewrite fl_gets_nth.
    destruct (N.ltb_spec (N.of_nat j) k); [|lia].
    assert (HM : Mapped (shape M) (a + N.of_nat j)) by (apply Hrun; lia).
    apply (rd_Some_iff M _ Hwf (Mapped_lt _ _ Hwf HM)) in HM. destruct HM as [v ->]. reflexivity.
  - rewrite nth_error_app2 by (rewrite fl_gets_length; lia). rewrite fl_gets_length, nth_error_skipn'. f_equal. lia.
Qed.
(* the flat reading after a store of the first k bytes of buf on a run *)
Lemma rd_put_all M M' a k buf : wf_layout_gen (shape M) -> shape M' = shape M -> a < W64 -> a + k <= W64 -> k <= lenN buf ->
  (forall x, x < W64 -> rd M' x = if in_range a k x then nth_error buf (N.to_nat (x - a)) else rd M x) ->
  forall x, rd M' x = fl_put (rd M) a (firstn (N.to_nat k) buf) x.
Proof.
  intros Hwf HS Ha Htop Hk H x. unfold fl_put. rewrite lenN_firstn by exact Hk.
  destruct (N.lt_ge_cases x W64) as [Hx|Hx].
  - rewrite (H x Hx). destruct (in_range a k x) eqn:R; [|reflexivity]. apply in_range_iff in R.
    rewrite nth_error_firstn' by lia. reflexivity.
  - rewrite (rd_big M' x) by (rewrite ?HS; assumption). rewrite (rd_big M x) by assumption.
    replace (in_range a k x) with false; [reflexivity|]. symmetry. apply in_range_false. lia.
Qed.

Lemma strip_count k d M : strip (ob_count (count_result k) d M) = f_count k d.
Proof. unfold count_result, f_count. destruct (k =? 0); reflexivity. Qed.
Lemma strip_exact n k d M : strip (ob_unit (exact_result n k) d M) = f_exact n k d.
Proof. unfold exact_result, f_exact. destruct (k =? 0); [reflexivity|]. destruct (k =? n); reflexivity. Qed.
Lemma fl_mapped_lin M a : wf_layout_gen (shape M) -> a < W64 ->
  fl_mapped (rd M) a = match find_lin (shape M) a with Some _ => true | None => false end.
Proof.
  intros Hwf Ha. destruct (find_lin (shape M) a) as [i|] eqn:F.
  - apply fl_mapped_rd; [exact Hwf|]. split; [exact Ha|]. apply (lin_Some_iff _ _ _ Hwf Ha) in F. apply Mapped_nth. eauto.
  - apply (lin_None_iff _ _ Hwf Ha) in F. destruct (fl_mapped (rd M) a) eqn:E; [|reflexivity].
    apply fl_mapped_rd in E; [|exact Hwf]. tauto.
Qed.
Lemma strip_stream M M' a k d : wf_layout_gen (shape M) -> a < W64 ->
  strip (ob_count (stream_result find_lin (shape M) a k) d M') = f_stream (rd M) a k d.
Proof.
  intros Hwf Ha. unfold stream_result, f_stream. destruct (k =? 0); [|reflexivity].
  rewrite (fl_mapped_lin M a Hwf Ha). destruct (find_lin (shape M) a); reflexivity.
Qed.
Lemma strip_stream_exact M M' a cnt k d : wf_layout_gen (shape M) -> a < W64 ->
  strip (ob_unit (match stream_result find_lin (shape M) a k with
                  | inr e => inr e
                  | inl n => if n =? cnt then inl tt else inr (EPartialBuffer cnt n) end) d M')
  = f_stream_exact (rd M) a cnt k d.
Proof.
  intros Hwf Ha. unfold stream_result, f_stream_exact. destruct (k =? 0).
  - rewrite (fl_mapped_lin M a Hwf Ha). destruct (find_lin (shape M) a); [|reflexivity]. destruct (0 =? cnt); reflexivity.
  - destruct (k =? cnt); reflexivity.
Qed.
Lemma atomic_okb_iff L a sz : atomic_okb L a sz = true <-> atomic_okP L a sz.
Proof.
  unfold atomic_okb, atomic_okP. rewrite existsb_exists. split; intros (p & Hp & H); exists p; (split; [exact Hp|]).
  - rewrite !andb_true_iff, !N.leb_le, N.eqb_eq in H. tauto.
  - rewrite !andb_true_iff, !N.leb_le, N.eqb_eq. tauto.
Qed.
Lemma atomic_okP_range L a sz : wf_layout_gen L -> 0 < sz -> atomic_okP L a sz ->
  a + sz <= W64 /\ forall x, a <= x < a + sz -> Mapped L x.
Proof.
  intros Hwf Hsz (p & Hp & H1 & H2 & _). destruct (proj1 Hwf p Hp) as (P1 & P2 & P3). split; [lia|].
  intros x Hx. exists p. split; [exact Hp|]. unfold In_reg. lia.
Qed.

Lemma smem_err e d M : s_mem (ob_err e d M) = to_smem M.
Proof. destruct e; reflexivity. Qed.
Lemma smem_count r d M : s_mem (ob_count r d M) = to_smem M.
Proof. destruct r as [n|e]; [reflexivity|apply smem_err]. Qed.
Lemma smem_unit r d M : s_mem (ob_unit r d M) = to_smem M.
Proof. destruct r as [n|e]; [reflexivity|apply smem_err]. Qed.
#[local] Hint Resolve smem_err smem_count smem_unit : core.
Local Notation LIN := (find_lin).
Lemma step_refines m M op : wf_layout_gen (shape M) -> op_wf op ->
  strip (snd (step_C03 m M op)) = snd (flat_step (shape M) op (rd M)) /\
  (forall x, rd (fst (step_C03 m M op)) x = fst (flat_step (shape M) op (rd M)) x) /\
  shape (fst (step_C03 m M op)) = shape M /\
  s_mem (snd (step_C03 m M op)) = to_smem (fst (step_C03 m M op)).
Proof.
  intros Hwf Hop. destruct op as [buf a|buf a|buf a|buf a|buf a|sz a|val a|sz a|ch src cnt a|ch src cnt a|dst cnt a|dst cnt a];
    cbn [op_wf] in Hop; cbn [step_C03 flat_step].
  - (* write *)
    destruct Hop as [Ha Hb]. destruct buf as [|b0 bt]; [cbn; auto|]. set (buf := b0 :: bt) in *.
    destruct (gm_write_lemma LIN wf_layout_gen idwf linspec m M buf a Hwf Hb Ha ltac:(discriminate)) as (M' & k & E & Hrun & HS & HR).
    rewrite E. cbn [fst snd]. rewrite (fl_run_eq M a (lenN buf) k Hwf Ha Hrun).
    split; [apply strip_count|]. split; [|split; [exact HS|auto]].
    apply rd_put_all; try assumption; [exact (is_run_top _ _ _ _ Hwf Ha Hrun)|exact (proj1 Hrun)].
  - (* read *)
    destruct Hop as [Ha Hb]. destruct buf as [|b0 bt]; [cbn; auto|]. set (buf := b0 :: bt) in *.
    destruct (gm_read_lemma LIN wf_layout_gen idwf linspec m M buf a Hwf Hb Ha ltac:(discriminate)) as (b & k & E & Hrun & Hl & Hbs).
    rewrite E. cbn [fst snd]. rewrite (fl_run_eq M a (lenN buf) k Hwf Ha Hrun).
    rewrite <- (read_buffer_eq M a k b buf Hwf Ha (proj1 Hrun) (proj1 (proj2 Hrun)) Hl Hbs).
    split; [apply strip_count|]. auto.
  - (* write_slice *)
    destruct Hop as [Ha Hb]. destruct buf as [|b0 bt]; [cbn; auto|]. set (buf := b0 :: bt) in *.
    destruct (gm_write_slice_lemma LIN wf_layout_gen idwf linspec m M buf a Hwf Hb Ha ltac:(discriminate)) as (M' & k & E & Hrun & HS & HR).
    rewrite E. cbn [fst snd]. rewrite (fl_run_eq M a (lenN buf) k Hwf Ha Hrun).
    split; [apply strip_exact|]. split; [|split; [exact HS|auto]].
    apply rd_put_all; try assumption; [exact (is_run_top _ _ _ _ Hwf Ha Hrun)|exact (proj1 Hrun)].
  - (* read_slice *)
    destruct Hop as [Ha Hb]. destruct buf as [|b0 bt]; [cbn; auto|]. set (buf := b0 :: bt) in *.
    destruct (gm_read_slice_lemma LIN wf_layout_gen idwf linspec m M buf a Hwf Hb Ha ltac:(discriminate)) as (b & k & E & Hrun & Hl & Hbs).
    rewrite E. cbn [fst snd]. rewrite (fl_run_eq M a (lenN buf) k Hwf Ha Hrun).
    rewrite <- (read_buffer_eq M a k b buf Hwf Ha (proj1 Hrun) (proj1 (proj2 Hrun)) Hl Hbs).
    split; [apply strip_exact|]. auto.
  - (* write_obj *)
    destruct Hop as [Ha Hb]. destruct buf as [|b0 bt]; [cbn; auto|]. set (buf := b0 :: bt) in *. unfold gm_write_obj.
    destruct (gm_write_slice_lemma LIN wf_layout_gen idwf linspec m M buf a Hwf Hb Ha ltac:(discriminate)) as (M' & k & E & Hrun & HS & HR).
    rewrite E. cbn [fst snd]. rewrite (fl_run_eq M a (lenN buf) k Hwf Ha Hrun).
    split; [apply strip_exact|]. split; [|split; [exact HS|auto]].
    apply rd_put_all; try assumption; [exact (is_run_top _ _ _ _ Hwf Ha Hrun)|exact (proj1 Hrun)].
  - (* read_obj *)
    destruct Hop as [Ha Hs]. destruct (N.eqb_spec sz 0) as [->|Hnz]; [cbn; auto|].
    set (buf := repeat 0 (N.to_nat sz)).
    assert (Hbl : lenN buf = sz) by (unfold buf, lenN; rewrite repeat_length; lia).
    assert (Hbne : buf <> []) by (intros Hc; rewrite Hc in Hbl; unfold lenN in Hbl; cbn in Hbl; lia).
    unfold gm_read_obj. fold buf.
    destruct (gm_read_slice_lemma LIN wf_layout_gen idwf linspec m M buf a Hwf ltac:(lia) Ha Hbne) as (b & k & E & Hrun & Hl & Hbs).
    rewrite E. cbn [bind fst snd]. rewrite Hbl in *. rewrite (fl_run_eq M a sz k Hwf Ha Hrun).
    pose proof (read_buffer_eq M a k b buf Hwf Ha ltac:(rewrite Hbl; exact (proj1 Hrun)) (proj1 (proj2 Hrun)) Hl Hbs) as Hb.
    unfold exact_result, f_exact. destruct (N.eqb_spec k 0) as [Hk0|Hk0].
    { subst k. destruct (N.eqb_spec 0 sz); [lia|]. cbn. auto. }
    destruct (N.eqb_spec k sz) as [->|Hne]; [|cbn; auto].
    cbn [fst snd]. split; [|auto]. unfold strip, ob. cbn [s_k s_v s_e1 s_e2 s_data]. f_equal.
    rewrite Hb. rewrite skipn_all2 by (unfold lenN in Hbl; lia). apply app_nil_r.
  - (* store *)
    destruct Hop as (Ha & Hs1 & Hs2).
    destruct (gm_store_lemma LIN wf_layout_gen idwf linspec M val a Hwf Ha Hs1 Hs2) as (M' & r & E & HS & Hiff & Hok & Herr).
    rewrite E. cbn [fst snd]. destruct r as [[]|e].
    + assert (A : atomic_okP (shape M) a (lenN val)) by (apply Hiff; reflexivity).
      rewrite (proj2 (atomic_okb_iff _ _ _) A). cbn [fst snd]. split; [reflexivity|]. split; [|split; [exact HS|auto]].
      destruct (atomic_okP_range _ _ _ Hwf Hs1 A) as [Htop _].
      intros x. unfold fl_put. destruct (N.lt_ge_cases x W64) as [Hx|Hx]; [apply Hok; [reflexivity|exact Hx]|].
      rewrite (rd_big M' x) by (rewrite ?HS; assumption). rewrite (rd_big M x) by assumption.
      replace (in_range a (lenN val) x) with false; [reflexivity|]. symmetry. apply in_range_false. lia.
    + destruct (Herr e eq_refl) as (-> & Hinv & Hcls).
      assert (A : atomic_okb (shape M) a (lenN val) = false).
      { destruct (atomic_okb (shape M) a (lenN val)) eqn:X; [|reflexivity]. apply atomic_okb_iff, Hiff in X. discriminate. }
      rewrite A. cbn [fst snd]. split; [|auto]. unfold f_atomic_err. rewrite (fl_mapped_lin M a Hwf Ha).
      destruct Hcls as [->| ->].
      * assert (HM : ~ Mapped (shape M) a) by (apply Hinv; reflexivity). apply (lin_None_iff _ _ Hwf Ha) in HM. rewrite HM. reflexivity.
      * destruct (find_lin (shape M) a) as [i|] eqn:F; [reflexivity|].
        apply (lin_None_iff _ _ Hwf Ha) in F. apply Hinv in F. discriminate.
  - (* load *)
    destruct Hop as (Ha & Hs1 & Hs2).
    destruct (gm_load_lemma LIN wf_layout_gen idwf linspec M sz a Hwf Ha Hs1 Hs2) as (r & E & Hiff & Hok & Herr).
    rewrite E. destruct r as [d|e].
    + assert (A : atomic_okP (shape M) a sz) by (apply Hiff; eauto).
      rewrite (proj2 (atomic_okb_iff _ _ _) A). cbn [fst snd]. split; [|auto].
      destruct (atomic_okP_range _ _ _ Hwf Hs1 A) as [Htop Hmp]. destruct (Hok d eq_refl) as [Hdl Hdn].
      unfold strip, ob, f_ok. cbn [s_k s_v s_e1 s_e2 s_data]. f_equal.
      apply nth_error_ext. intros j. rewrite Hdn, fl_gets_nth. destruct (N.ltb_spec (N.of_nat j) sz) as [Hj|Hj]; [|reflexivity].
      assert (HM : Mapped (shape M) (a + N.of_nat j)) by (apply Hmp; lia).
      apply (rd_Some_iff M _ Hwf (Mapped_lt _ _ Hwf HM)) in HM. destruct HM as [v ->]. reflexivity.
    + destruct (Herr e eq_refl) as (Hinv & Hcls).
      assert (A : atomic_okb (shape M) a sz = false).
      { destruct (atomic_okb (shape M) a sz) eqn:X; [|reflexivity]. apply atomic_okb_iff, Hiff in X. destruct X; discriminate. }
      rewrite A. cbn [fst snd]. split; [|auto]. unfold f_atomic_err. rewrite (fl_mapped_lin M a Hwf Ha).
      destruct Hcls as [->| ->].
      * assert (HM : ~ Mapped (shape M) a) by (apply Hinv; reflexivity). apply (lin_None_iff _ _ Hwf Ha) in HM. rewrite HM. reflexivity.
      * destruct (find_lin (shape M) a) as [i|] eqn:F; [reflexivity|].
        apply (lin_None_iff _ _ Hwf Ha) in F. apply Hinv in F. discriminate.
  - (* read_volatile_from *)
    destruct Hop as (Ha & Hc & Hs & Hch).
    destruct (gm_read_volatile_from_lemma LIN wf_layout_gen idwf linspec m M a ch src cnt Hwf Hc Ha Hs Hch) as (M' & k & E & Hrun & HS & HR).
    rewrite E. cbn [fst snd]. rewrite (fl_run_eq M a _ k Hwf Ha Hrun).
    split; [apply strip_stream; assumption|]. split; [|split; [exact HS|auto]].
    apply rd_put_all; try assumption; [exact (is_run_top _ _ _ _ Hwf Ha Hrun)|]. destruct Hrun as (Hk & _). lia.
  - (* read_exact_volatile_from *)
    destruct Hop as (Ha & Hc & Hs & Hch). unfold gm_read_exact_volatile_from.
    destruct (gm_read_volatile_from_lemma LIN wf_layout_gen idwf linspec m M a ch src cnt Hwf Hc Ha Hs Hch) as (M' & k & E & Hrun & HS & HR).
    rewrite E. cbn [bind fst snd]. rewrite (fl_run_eq M a _ k Hwf Ha Hrun).
    split; [apply strip_stream_exact; assumption|]. split; [|split; [exact HS|auto]].
    apply rd_put_all; try assumption; [exact (is_run_top _ _ _ _ Hwf Ha Hrun)|]. destruct Hrun as (Hk & _). lia.
  - (* write_volatile_to *)
    destruct Hop as (Ha & Hc).
    destruct (gm_write_volatile_to_lemma LIN wf_layout_gen idwf linspec m M a dst cnt Hwf Hc Ha) as (d & k & E & Hrun & Hd & Hdl & Hdn).
    rewrite E. cbn [fst snd]. rewrite (fl_run_eq M a _ k Hwf Ha Hrun).
    assert (Hdd : d = dst ++ fl_gets (rd M) a k).
    { rewrite Hd at 1. f_equal. apply nth_error_ext. intros j. rewrite nth_error_skipn', fl_gets_nth.
      destruct (N.ltb_spec (N.of_nat j) k) as [Hj|Hj].
      - rewrite Hdn by lia. assert (HM : Mapped (shape M) (a + N.of_nat j)) by (apply (proj1 (proj2 Hrun)); lia).
        apply (rd_Some_iff M _ Hwf (Mapped_lt _ _ Hwf HM)) in HM. destruct HM as [v ->]. reflexivity.
      - apply nth_error_None. lia. }
    rewrite <- Hdd. split; [apply strip_stream; assumption|]. auto.
  - (* write_all_volatile_to *)
    destruct Hop as (Ha & Hc). unfold gm_write_all_volatile_to.
    destruct (gm_write_volatile_to_lemma LIN wf_layout_gen idwf linspec m M a dst cnt Hwf Hc Ha) as (d & k & E & Hrun & Hd & Hdl & Hdn).
    rewrite E. cbn [bind fst snd]. rewrite (fl_run_eq M a _ k Hwf Ha Hrun).
    assert (Hdd : d = dst ++ fl_gets (rd M) a k).
    { rewrite Hd at 1. f_equal. apply nth_error_ext. intros j. rewrite nth_error_skipn', fl_gets_nth.
      destruct (N.ltb_spec (N.of_nat j) k) as [Hj|Hj].
      - rewrite Hdn by lia. assert (HM : Mapped (shape M) (a + N.of_nat j)) by (apply (proj1 (proj2 Hrun)); lia).
        apply (rd_Some_iff M _ Hwf (Mapped_lt _ _ Hwf HM)) in HM. destruct HM as [v ->]. reflexivity.
      - apply nth_error_None. lia. }
    rewrite <- Hdd. split; [apply strip_stream_exact; assumption|]. auto.
Qed.

(* the flat machine only looks at the function's values *)
Lemma flat_step_ext L op F1 F2 : (forall x, F1 x = F2 x) ->
  snd (flat_step L op F1) = snd (flat_step L op F2) /\
  forall x, fst (flat_step L op F1) x = fst (flat_step L op F2) x.
Proof.
  intros H.
  assert (Hm : forall x, fl_mapped F1 x = fl_mapped F2 x) by (intros x; unfold fl_mapped; rewrite H; reflexivity).
  assert (Hr : forall a n, fl_run F1 a n = fl_run F2 a n) by (intros a n; unfold fl_run; apply runlen_ext; exact Hm).
  assert (Hg : forall a k, fl_gets F1 a k = fl_gets F2 a k).
  { intros a k. unfold fl_gets. apply map_ext. intros j. rewrite H. reflexivity. }
  assert (Hp : forall a src x, fl_put F1 a src x = fl_put F2 a src x) by (intros a src x; unfold fl_put; rewrite H; reflexivity).
  destruct op as [buf a|buf a|buf a|buf a|buf a|sz a|val a|sz a|ch src cnt a|ch src cnt a|dst cnt a|dst cnt a]; cbn [flat_step];
    try (destruct buf as [|b0 bt]; [split; [reflexivity|exact H]|]);
    try (destruct (sz =? 0); [split; [reflexivity|exact H]|]);
    try (destruct (atomic_okb L a _));
    unfold f_stream, f_stream_exact, f_atomic_err; rewrite ?Hr, ?Hg, ?Hm; cbn [fst snd];
    (split; [reflexivity|]); try exact H; intros x; apply Hp.
Qed.
Lemma flat_hist_ext L : forall ops F1 F2, (forall x, F1 x = F2 x) ->
  snd (flat_hist L ops F1) = snd (flat_hist L ops F2) /\
  forall x, fst (flat_hist L ops F1) x = fst (flat_hist L ops F2) x.
Proof.
  induction ops as [|op t IH]; intros F1 F2 H; cbn [flat_hist]; [split; [reflexivity|exact H]|].
  destruct (flat_step_ext L op F1 F2 H) as [E1 E2]. destruct (IH _ _ E2) as [E3 E4]. cbn [fst snd].
  split; [rewrite E1, E3; reflexivity|exact E4].
Qed.

(* every history of mixed operations: the observations are those of the flat machine started on
   the flat reading of the initial memory, and the final memory reads as the machine's final state *)
Lemma history_refines_lemma m : forall ops M, wf_layout_gen (shape M) -> Forall op_wf ops ->
  map strip (snd (hist_C03 m M ops)) = snd (flat_hist (shape M) ops (rd M)) /\
  (forall x, rd (fst (hist_C03 m M ops)) x = fst (flat_hist (shape M) ops (rd M)) x) /\
  shape (fst (hist_C03 m M ops)) = shape M.
Proof.
  induction ops as [|op t IH]; intros M Hwf Hops; cbn [hist_C03 flat_hist]; [auto|].
  inversion Hops as [|? ? Hop Ht]; subst.
  destruct (step_refines m M op Hwf Hop) as (S1 & S2 & S3 & _).
  set (M1 := fst (step_C03 m M op)) in *.
  destruct (IH M1 ltac:(rewrite S3; exact Hwf) Ht) as (I1 & I2 & I3).
  destruct (flat_hist_ext (shape M) t _ _ S2) as [E1 E2]. rewrite S3 in I1, I2.
  cbn [fst snd map]. split; [rewrite S1, I1, E1; reflexivity|]. split.
  - intros x. rewrite I2. apply E2.
  - rewrite I3. exact S3.
Qed.

(* ------------------------------------------------------------------------------------------ *)
(* Part 5: the executable checker ok_C03 (brute force over (start, bytes) lists) *)
Lemma to_of_smem S : to_smem (of_smem S) = S.
Proof. unfold to_smem, of_smem. rewrite map_map. rewrite <- (map_id S) at 2. apply map_ext. intros [a b]; reflexivity. Qed.
Lemma s_inreg_iff r a : s_inreg (rstart r, rbytes r) a = true <-> In_reg (rstart r, rlen r) a.
Proof.
  unfold s_inreg, In_reg, rlen, lenN, slen. cbn [fst snd].
  rewrite andb_true_iff, N.leb_le, N.ltb_lt. tauto.
Qed.
Lemma find_idx_shift L a : forall k, find_idx L a (S k) = option_map S (find_idx L a k).
Proof.
  induction L as [|p t IH]; intros k; cbn [find_idx]; [reflexivity|].
  destruct (r_to_region_addr (fst p) (snd p) a); [reflexivity|apply IH].
Qed.
Lemma s_get_rd M a : s_get (to_smem M) a = rd M a.
Proof.
  unfold rd, find_lin. induction M as [|r t IH]; [reflexivity|].
  cbn [to_smem map s_get shape find_idx fst snd].
  destruct (s_inreg (rstart r, rbytes r) a) eqn:E.
  - apply s_inreg_iff in E. pose proof (r_to_region_addr_in (rstart r, rlen r) a E) as X. cbn [fst snd] in X.
    rewrite X. reflexivity.
  - assert (X : r_to_region_addr (rstart r) (rlen r) a = None).
    { apply (r_to_region_addr_out (rstart r, rlen r)). intros H; apply s_inreg_iff in H; congruence. }
    rewrite X. rewrite find_idx_shift. fold (to_smem t). fold (shape t). rewrite IH.
    destruct (find_idx (shape t) a 0); reflexivity.
Qed.
Lemma s_mapped_iff M x : s_mapped (to_smem M) x = true <-> x < W64 /\ Mapped (shape M) x.
Proof.
  unfold s_mapped, Mapped. rewrite andb_true_iff, N.ltb_lt, existsb_exists. split; intros [Hx (p & Hp & Hr)]; (split; [exact Hx|]).
  - unfold to_smem in Hp. apply in_map_iff in Hp. destruct Hp as (r & <- & Hr0). exists (rstart r, rlen r).
    split; [unfold shape; apply (in_map (fun r => (rstart r, rlen r))); exact Hr0|apply s_inreg_iff; exact Hr].
  - unfold shape in Hp. apply in_map_iff in Hp. destruct Hp as (r & <- & Hr0). exists (rstart r, rbytes r).
    split; [unfold to_smem; apply (in_map (fun r => (rstart r, rbytes r))); exact Hr0|apply s_inreg_iff; exact Hr].
Qed.
Lemma s_mapped_fl M x : wf_layout_gen (shape M) -> s_mapped (to_smem M) x = fl_mapped (rd M) x.
Proof.
  intros Hwf. pose proof (s_mapped_iff M x) as A. pose proof (fl_mapped_rd M x Hwf) as B.
  destruct (s_mapped (to_smem M) x); destruct (fl_mapped (rd M) x); try reflexivity.
  - symmetry. apply B. apply A. reflexivity.
  - apply A. apply B. reflexivity.
Qed.
Lemma run_fl M a n : wf_layout_gen (shape M) -> run (to_smem M) a n = fl_run (rd M) a n.
Proof. intros Hwf. unfold run, fl_run. apply runlen_ext. intros x. apply s_mapped_fl. exact Hwf. Qed.
Lemma s_gets_fl M a k : s_gets (to_smem M) a k = fl_gets (rd M) a k.
Proof. unfold s_gets, fl_gets. apply map_ext. intros j. rewrite s_get_rd. reflexivity. Qed.

Lemma leqb_refl l : leqb l l = true.
Proof. induction l as [|x t IH]; cbn [leqb]; [reflexivity|]. rewrite N.eqb_refl. exact IH. Qed.
Lemma smem_eqb_refl S : smem_eqb S S = true.
Proof. induction S as [|x t IH]; cbn [smem_eqb]; [reflexivity|]. rewrite N.eqb_refl, leqb_refl. exact IH. Qed.

Lemma put_bytes_length bytes x a src : length (put_bytes bytes x a src) = length bytes.
Proof. revert x; induction bytes as [|b t IH]; intros x; cbn [put_bytes length]; [reflexivity|]. f_equal. apply IH. Qed.
Lemma put_bytes_nth bytes a src : forall x o,
  nth_error (put_bytes bytes x a src) o =
  match nth_error bytes o with
  | Some b => Some (if in_range a (lenN src) (x + N.of_nat o) then nth (N.to_nat (x + N.of_nat o - a)) src b else b)
  | None => None end.
Proof.
  induction bytes as [|b t IH]; intros x o; [destruct o; reflexivity|].
  destruct o as [|o]; cbn [put_bytes nth_error].
  - rewrite N.add_0_r. reflexivity.
  - rewrite IH. replace (x + 1 + N.of_nat o) with (x + N.of_nat (S o)) by lia. reflexivity.
Qed.

(* a memory with the same regions whose flat reading is "src stored at a" is, byte for byte and
   region by region, what the checker computes *)
Lemma mem_check M M' a src : wf_layout_gen (shape M) -> shape M' = shape M ->
  (forall x, rd M' x = fl_put (rd M) a src x) ->
  to_smem M' = s_put (to_smem M) a src.
Proof.
  intros Hwf HS HR.
  assert (Hlen : length M' = length M) by (rewrite <- (shape_length M'), HS; apply shape_length).
  assert (Hwf' : wf_layout_gen (shape M')) by (rewrite HS; exact Hwf).
  apply nth_error_ext. intros i. unfold s_put, to_smem. rewrite !nth_error_map.
  destruct (nth_error M' i) as [r'|] eqn:E'; destruct (nth_error M i) as [r|] eqn:E; cbn [option_map].
  2:{ apply nth_error_None in E. assert (i < length M')%nat by (apply nth_error_Some; congruence). lia. }
  2:{ apply nth_error_None in E'. assert (i < length M)%nat by (apply nth_error_Some; congruence). lia. }
  2:{ reflexivity. }
  assert (Hi : (i < length M)%nat) by (apply nth_error_Some; congruence).
  assert (Hn' : nth i M' dummy = r') by (apply nth_error_nth; exact E').
  assert (Hn : nth i M dummy = r) by (apply nth_error_nth; exact E).
  destruct (shape_eq_nth M M' i HS) as [Es El]. rewrite Hn', Hn in Es, El.
  cbn [fst snd]. f_equal. rewrite Es. f_equal.
  apply nth_error_ext. intros o. rewrite put_bytes_nth.
  assert (Hbl : length (rbytes r') = length (rbytes r)) by (unfold rlen, lenN in El; lia).
  destruct (nth_error (rbytes r) o) as [b|] eqn:Eb.
  - assert (Ho : (o < length (rbytes r))%nat) by (apply nth_error_Some; congruence).
    assert (Hin : In_reg (nth i (shape M) dreg) (rstart r + N.of_nat o)).
    { rewrite nth_shape, Hn. unfold In_reg, rlen, lenN. cbn [fst snd]. lia. }
    pose proof (rd_in M i _ Hwf Hi Hin) as R1. rewrite Hn in R1.
    replace (N.to_nat (rstart r + N.of_nat o - rstart r)) with o in R1 by lia.
    assert (Hin' : In_reg (nth i (shape M') dreg) (rstart r + N.of_nat o)) by (rewrite HS; exact Hin).
    pose proof (rd_in M' i _ Hwf' ltac:(lia) Hin') as R2. rewrite Hn', Es in R2.
    replace (N.to_nat (rstart r + N.of_nat o - rstart r)) with o in R2 by lia.
    rewrite <- R2, HR. unfold fl_put. destruct (in_range a (lenN src) (rstart r + N.of_nat o)) eqn:R.
    + apply in_range_iff in R. apply nth_error_nth'. unfold lenN in R. lia.
    + rewrite R1. exact Eb.
  - apply nth_error_None. apply nth_error_None in Eb. lia.
Qed.
Lemma fl_put_nil F a x : fl_put F a [] x = F x.
Proof. unfold fl_put. replace (in_range a (lenN []) x) with false; [reflexivity|]. symmetry. apply in_range_false. unfold lenN; cbn. lia. Qed.

Lemma res_count_f k d o : strip o = f_count k d -> res_count k o = true.
Proof.
  unfold f_count, res_count, strip. destruct (N.eqb_spec k 0); intros E; injection E as E1 E2 E3 E4 E5;
    rewrite E1, E2, ?N.eqb_refl; reflexivity.
Qed.
Lemma res_exact_f n k d o : 0 < n -> strip o = f_exact n k d -> res_exact n k o = true.
Proof.
  intros Hn. unfold f_exact, res_exact, strip. destruct (N.eqb_spec k 0) as [Hk|Hk].
  - subst k. destruct (N.eqb_spec 0 n); [lia|]. intros E; injection E as E1 E2 E3 E4 E5. rewrite E1, E2. reflexivity.
  - destruct (N.eqb_spec k n); intros E; injection E as E1 E2 E3 E4 E5; rewrite E1, ?E2, ?E3, ?E4, ?N.eqb_refl; reflexivity.
Qed.
Lemma res_exact_stream F a cnt k d o : 0 < cnt -> strip o = f_stream_exact F a cnt k d -> res_exact cnt k o = true.
Proof.
  intros Hn. unfold f_stream_exact, res_exact, strip. destruct (N.eqb_spec k 0) as [Hk|Hk].
  - subst k. destruct (N.eqb_spec 0 cnt); [lia|]. destruct (fl_mapped F a);
      intros E; injection E as E1 E2 E3 E4 E5; rewrite E1, E2, ?E3, ?E4, ?N.eqb_refl; reflexivity.
  - destruct (N.eqb_spec k cnt); intros E; injection E as E1 E2 E3 E4 E5; rewrite E1, ?E2, ?E3, ?E4, ?N.eqb_refl; reflexivity.
Qed.
Lemma res_count_stream F a k d o : (k = 0 -> fl_mapped F a = false) -> strip o = f_stream F a k d -> res_count k o = true.
Proof.
  intros Hm. unfold f_stream, res_count, strip. destruct (N.eqb_spec k 0) as [Hk|Hk].
  - rewrite (Hm Hk). intros E; injection E as E1 E2 E3 E4 E5. rewrite E1, E2. reflexivity.
  - intros E; injection E as E1 E2 E3 E4 E5. rewrite E1, E2, ?N.eqb_refl. reflexivity.
Qed.
Lemma strip_data o x : strip o = x -> s_data o = snd x.
Proof. intros <-. reflexivity. Qed.
Lemma mem_part o M M' a src : wf_layout_gen (shape M) -> shape M' = shape M -> s_mem o = to_smem M' ->
  (forall x, rd M' x = fl_put (rd M) a src x) -> smem_eqb (s_mem o) (s_put (to_smem M) a src) = true.
Proof. intros Hwf HS Hm HR. rewrite Hm, (mem_check M M' a src Hwf HS HR). apply smem_eqb_refl. Qed.
Lemma mem_same o M M' : s_mem o = to_smem M' -> M' = M -> smem_eqb (s_mem o) (to_smem M) = true.
Proof. intros -> ->. apply smem_eqb_refl. Qed.
(* a run of a non-empty range that is empty starts at an unmapped address *)
Lemma run0_unmapped M a n : wf_layout_gen (shape M) -> a < W64 -> 0 < n -> fl_run (rd M) a n = 0 -> fl_mapped (rd M) a = false.
Proof.
  intros Hwf Ha Hn Hk. pose proof (fl_run_is_run M a n Hwf Ha) as (_ & _ & C). rewrite Hk, N.add_0_r in C.
  destruct (fl_mapped (rd M) a) eqn:E; [|reflexivity]. apply fl_mapped_rd in E; [|exact Hwf].
  destruct C as [C|[C|C]]; [lia|tauto|lia].
Qed.
Lemma fl_run_le M a n : fl_run (rd M) a n <= n.
Proof. unfold fl_run. pose proof (runlen_spec (fl_mapped (rd M)) (N.to_nat n) a) as (A & _). lia. Qed.
Lemma slen_lenN {A} (l : list A) : slen l = lenN l.
Proof. reflexivity. Qed.
Lemma lenN_pos {A} (x : A) l : 0 < lenN (x :: l).
Proof. unfold lenN. cbn [length]. lia. Qed.

Lemma atomic_ok_eq M a sz : a < W64 -> 0 < sz -> atomic_ok (to_smem M) a sz = atomic_okb (shape M) a sz.
Proof.
  intros Ha Hsz. unfold atomic_ok, atomic_okb. destruct (N.ltb_spec a W64); [|lia]. cbn [andb].
  induction M as [|r t IH]; [reflexivity|]. cbn [to_smem shape map existsb fst snd]. fold (to_smem t). fold (shape t).
  rewrite IH. f_equal. unfold s_inreg, rlen, slen, lenN. cbn [fst snd].
  destruct (N.leb_spec (rstart r) a); destruct (N.ltb_spec a (rstart r + N.of_nat (length (rbytes r))));
    destruct (N.leb_spec (a + sz) (rstart r + N.of_nat (length (rbytes r)))); cbn [andb]; try reflexivity; lia.
Qed.

Lemma ok_step_lemma m M op : wf_layout_gen (shape M) -> op_wf op ->
  ok_step (to_smem M) op (snd (step_C03 m M op)) = true.
Proof.
  intros Hwf Hop. destruct (step_refines m M op Hwf Hop) as (S1 & S2 & S3 & S4).
  set (o := snd (step_C03 m M op)) in *. set (M' := fst (step_C03 m M op)) in *. clearbody o M'.
  assert (Hsame : (forall x, rd M' x = rd M x) -> smem_eqb (s_mem o) (to_smem M) = true).
  { intros HR.
    assert (Y : to_smem M' = s_put (to_smem M) 0 []) by (apply (mem_check M M' 0 [] Hwf S3); intros x; rewrite fl_put_nil; apply HR).
    assert (Z : to_smem M = s_put (to_smem M) 0 []) by (apply (mem_check M M 0 [] Hwf eq_refl); intros x; rewrite fl_put_nil; reflexivity).
    rewrite S4, Y, <- Z. apply smem_eqb_refl. }
  destruct op as [buf a|buf a|buf a|buf a|buf a|sz a|val a|sz a|ch src cnt a|ch src cnt a|dst cnt a|dst cnt a];
    cbn [op_wf] in Hop; cbn [flat_step] in S1, S2; cbn [ok_step]; rewrite ?slen_lenN, ?run_fl by exact Hwf;
    unfold takeN, dropN; rewrite ?s_gets_fl.
  - (* write *) destruct buf as [|b0 bt]; cbn [fst snd] in S1, S2.
    + rewrite firstn_nil. rewrite (mem_part o M M' a [] Hwf S3 S4) by (intros x; rewrite fl_put_nil; apply S2). reflexivity.
    + rewrite (mem_part o M M' a _ Hwf S3 S4 S2). destruct (N.eqb_spec (lenN (b0 :: bt)) 0); [reflexivity|].
      apply (res_count_f _ _ _ S1).
  - (* read *) destruct buf as [|b0 bt]; cbn [fst snd] in S1, S2.
    + rewrite (Hsame S2). reflexivity.
    + rewrite (Hsame S2). destruct (N.eqb_spec (lenN (b0 :: bt)) 0) as [Hz|_]; [reflexivity|].
      rewrite (res_count_f _ _ _ S1), (strip_data _ _ S1). unfold f_count. destruct (_ =? 0); cbn [snd]; apply leqb_refl.
  - (* write_slice *) destruct buf as [|b0 bt]; cbn [fst snd] in S1, S2.
    + rewrite firstn_nil. rewrite (mem_part o M M' a [] Hwf S3 S4) by (intros x; rewrite fl_put_nil; apply S2). reflexivity.
    + rewrite (mem_part o M M' a _ Hwf S3 S4 S2). destruct (N.eqb_spec (lenN (b0 :: bt)) 0); [reflexivity|].
      apply (res_exact_f _ _ _ _ (lenN_pos b0 bt) S1).
  - (* read_slice *) destruct buf as [|b0 bt]; cbn [fst snd] in S1, S2.
    + rewrite (Hsame S2). reflexivity.
    + rewrite (Hsame S2). destruct (N.eqb_spec (lenN (b0 :: bt)) 0) as [Hz|_]; [reflexivity|].
      rewrite (res_exact_f _ _ _ _ (lenN_pos b0 bt) S1), (strip_data _ _ S1). unfold f_exact.
      destruct (_ =? 0); [cbn [snd]; apply leqb_refl|]. destruct (_ =? _); cbn [snd]; apply leqb_refl.
  - (* write_obj *) destruct buf as [|b0 bt]; cbn [fst snd] in S1, S2.
    + rewrite firstn_nil. rewrite (mem_part o M M' a [] Hwf S3 S4) by (intros x; rewrite fl_put_nil; apply S2). reflexivity.
    + rewrite (mem_part o M M' a _ Hwf S3 S4 S2). destruct (N.eqb_spec (lenN (b0 :: bt)) 0); [reflexivity|].
      apply (res_exact_f _ _ _ _ (lenN_pos b0 bt) S1).
  - (* read_obj *) destruct (N.eqb_spec sz 0) as [Hz|Hnz]; cbn [fst snd] in S1, S2.
    + rewrite (Hsame S2). reflexivity.
    + rewrite (Hsame S2). rewrite (res_exact_f sz _ _ _ ltac:(lia) S1). cbn [andb].
      destruct (N.eqb_spec (fl_run (rd M) a sz) sz) as [Hk|Hk]; [|reflexivity].
      rewrite (strip_data _ _ S1). unfold f_exact. rewrite Hk. destruct (N.eqb_spec sz 0); [lia|].
      rewrite N.eqb_refl. cbn [snd]. apply leqb_refl.
  - (* store *) destruct Hop as (Ha & Hs1 & Hs2).
    pose proof (atomic_ok_eq M a (lenN val) Ha Hs1) as AB.
    destruct (atomic_okb (shape M) a (lenN val)) eqn:A; cbn [fst snd] in S1, S2.
    + assert (Hk1 : s_k o = 1) by (unfold strip, f_ok in S1; congruence). rewrite Hk1. change (1 =? 1) with true. cbv iota.
      apply atomic_okb_iff in A. destruct (atomic_okP_range _ _ _ Hwf Hs1 A) as [Htop Hmp].
      assert (Hrun : is_run (shape M) a (lenN val) (lenN val)).
      { split; [lia|]. split; [exact Hmp|left; reflexivity]. }
      rewrite (fl_run_eq M a _ _ Hwf Ha Hrun), N.eqb_refl. cbn [andb].
      apply (mem_part o M M' a val Hwf S3 S4 S2).
    + assert (Hk2 : s_k o = 2) by (unfold strip, f_atomic_err in S1; congruence). rewrite Hk2. change (2 =? 1) with false. change (2 =? 2) with true. cbv iota. cbn [andb].
      rewrite (Hsame S2), AB. reflexivity.
  - (* load *) destruct Hop as (Ha & Hs1 & Hs2).
    pose proof (atomic_ok_eq M a sz Ha Hs1) as AB.
    destruct (atomic_okb (shape M) a sz) eqn:A; cbn [fst snd] in S1, S2; rewrite (Hsame S2); cbn [andb].
    + assert (Hk1 : s_k o = 1) by (unfold strip, f_ok in S1; congruence). rewrite Hk1. change (1 =? 1) with true. cbv iota.
      apply atomic_okb_iff in A. destruct (atomic_okP_range _ _ _ Hwf Hs1 A) as [Htop Hmp].
      assert (Hrun : is_run (shape M) a sz sz).
      { split; [lia|]. split; [exact Hmp|left; reflexivity]. }
      rewrite (fl_run_eq M a _ _ Hwf Ha Hrun), N.eqb_refl. cbn [andb].
      rewrite (strip_data _ _ S1). cbn [snd f_ok]. apply leqb_refl.
    + assert (Hk2 : s_k o = 2) by (unfold strip, f_atomic_err in S1; congruence). rewrite Hk2. change (2 =? 1) with false. change (2 =? 2) with true. cbv iota. cbn [andb].
      rewrite AB. reflexivity.
  - (* read_volatile_from *) destruct Hop as (Ha & Hc & Hs & Hch). cbn [fst snd] in S1, S2.
    rewrite (mem_part o M M' a _ Hwf S3 S4 S2). rewrite (strip_data _ _ S1).
    assert (D : snd (f_stream (rd M) a (fl_run (rd M) a (N.min cnt (lenN src)))
                       (skipn (N.to_nat (fl_run (rd M) a (N.min cnt (lenN src)))) src))
                = skipn (N.to_nat (fl_run (rd M) a (N.min cnt (lenN src)))) src).
    { unfold f_stream. destruct (_ =? 0); [destruct (fl_mapped _ _)|]; reflexivity. }
    rewrite D, leqb_refl. cbn [andb]. destruct (N.eqb_spec (N.min cnt (lenN src)) 0) as [Hz|Hnz]; [reflexivity|].
    apply (res_count_stream _ _ _ _ _ (fun Hk => run0_unmapped M a (N.min cnt (lenN src)) Hwf Ha ltac:(lia) Hk) S1).
  - (* read_exact_volatile_from *) destruct Hop as (Ha & Hc & Hs & Hch). cbn [fst snd] in S1, S2.
    rewrite (mem_part o M M' a _ Hwf S3 S4 S2). rewrite (strip_data _ _ S1).
    assert (D : snd (f_stream_exact (rd M) a cnt (fl_run (rd M) a (N.min cnt (lenN src)))
                       (skipn (N.to_nat (fl_run (rd M) a (N.min cnt (lenN src)))) src))
                = skipn (N.to_nat (fl_run (rd M) a (N.min cnt (lenN src)))) src).
    { unfold f_stream_exact. destruct (_ =? 0); [destruct (fl_mapped _ _); [destruct (0 =? cnt)|]|destruct (_ =? cnt)]; reflexivity. }
    rewrite D, leqb_refl. cbn [andb]. destruct (N.eqb_spec cnt 0) as [Hz|Hnz]; [reflexivity|].
    apply (res_exact_stream _ _ cnt _ _ _ ltac:(lia) S1).
  - (* write_volatile_to *) destruct Hop as (Ha & Hc). cbn [fst snd] in S1, S2.
    rewrite (Hsame S2). rewrite (strip_data _ _ S1).
    assert (D : snd (f_stream (rd M) a (fl_run (rd M) a cnt) (dst ++ fl_gets (rd M) a (fl_run (rd M) a cnt)))
                = dst ++ fl_gets (rd M) a (fl_run (rd M) a cnt)).
    { unfold f_stream. destruct (_ =? 0); [destruct (fl_mapped _ _)|]; reflexivity. }
    rewrite D, leqb_refl. cbn [andb]. destruct (N.eqb_spec cnt 0) as [Hz|Hnz]; [reflexivity|].
    apply (res_count_stream _ _ _ _ _ (fun Hk => run0_unmapped M a cnt Hwf Ha ltac:(lia) Hk) S1).
  - (* write_all_volatile_to *) destruct Hop as (Ha & Hc). cbn [fst snd] in S1, S2.
    rewrite (Hsame S2). rewrite (strip_data _ _ S1).
    assert (D : snd (f_stream_exact (rd M) a cnt (fl_run (rd M) a cnt) (dst ++ fl_gets (rd M) a (fl_run (rd M) a cnt)))
                = dst ++ fl_gets (rd M) a (fl_run (rd M) a cnt)).
    { unfold f_stream_exact. destruct (_ =? 0); [destruct (fl_mapped _ _); [destruct (0 =? cnt)|]|destruct (_ =? cnt)]; reflexivity. }
    rewrite D, leqb_refl. cbn [andb]. destruct (N.eqb_spec cnt 0) as [Hz|Hnz]; [reflexivity|].
    apply (res_exact_stream _ _ cnt _ _ _ ltac:(lia) S1).
Qed.

Definition wf_case03 (c : case03) : Prop :=
  wf_layout_gen (shape (of_smem (c3_mem c))) /\ Forall op_wf (c3_ops c).
Lemma ok_hist_lemma m : forall ops M, wf_layout_gen (shape M) -> Forall op_wf ops ->
  ok_hist (to_smem M) ops (snd (hist_C03 m M ops)) = true.
Proof.
  induction ops as [|op t IH]; intros M Hwf Hops; cbn [hist_C03 ok_hist snd]; [reflexivity|].
  inversion Hops as [|? ? Hop Ht]; subst.
  rewrite (ok_step_lemma m M op Hwf Hop). cbn [andb].
  destruct (step_refines m M op Hwf Hop) as (_ & _ & S3 & S4). rewrite S4.
  apply IH; [rewrite S3; exact Hwf|exact Ht].
Qed.
Lemma C03_model_ok_lemma : forall c, wf_case03 c -> ok_C03 c (run_C03 c) = true.
Proof.
  intros c [Hwf Hops]. unfold ok_C03, run_C03. rewrite <- (to_of_smem (c3_mem c)) at 1.
  apply ok_hist_lemma; assumption.
Qed.

(* non-vacuity: a memory with a region ending exactly at 2^64 and a region at 0 (collection not in
   address order); a 12-byte write at 2^64-4 stores 4 bytes and stops at the top (finding F5 fixed),
   an 8-byte write at 14 crosses two touching regions *)
Lemma C03_nonvacuous_lemma :
  let M := [ {| rstart := W64 - 8; rbytes := [1;2;3;4;5;6;7;8] |};
             {| rstart := 0; rbytes := repeat 9 16 |}; {| rstart := 16; rbytes := [0;0;0;0] |} ] in
  wf_layout_gen (shape M) /\
  (exists M', gm_write find_lin Debug M [21;22;23;24;25;26;27;28;29;30;31;32] (W64 - 4) = Val (M', inl 4) /\
              rd M' 0 = Some 9 /\ rd M' (W64 - 1) = Some 24) /\
  (exists M', gm_write find_lin Debug M [41;42;43;44;45;46;47;48] 14 = Val (M', inl 6) /\
              rd M' 15 = Some 42 /\ rd M' 16 = Some 43 /\ rd M' 19 = Some 46 /\ rd M' 20 = None) /\
  gm_write_slice find_lin Debug M [1;2;3] 18 = Val (upd_nth M 2 {| rstart := 16; rbytes := [0;0;1;2] |}, inr (EPartialBuffer 3 2)).
Proof.
  cbv zeta. split.
  - split.
    + intros p [<-|[<-|[<-|[]]]]; cbn [fst snd rstart rlen rbytes lenN length repeat N.of_nat Pos.of_succ_nat Pos.succ]; rewrite W64_val; lia.
    + intros i j a Hi Hj. cbn [length shape map] in Hi, Hj.
      destruct i as [|[|[|i]]]; destruct j as [|[|[|j]]]; try lia; cbn [nth shape map rstart rlen rbytes]; unfold In_reg, rlen, lenN;
        cbn [fst snd rbytes length repeat N.of_nat Pos.of_succ_nat Pos.succ]; rewrite ?W64_val; intros; try reflexivity; lia.
  - split; [|split].
    + eexists. vm_compute. repeat split.
    + eexists. vm_compute. repeat split.
    + vm_compute. reflexivity.
Qed.

Lemma checker_reading_lemma : forall M a n, wf_layout_gen (shape M) -> a < W64 ->
  is_run (shape M) a n (run (to_smem M) a n) /\
  (forall x, s_get (to_smem M) x = rd M x) /\
  (forall M' src, shape M' = shape M -> (forall x, rd M' x = fl_put (rd M) a src x) ->
     to_smem M' = s_put (to_smem M) a src).
Proof.
  intros M a n Hwf Ha. split; [rewrite run_fl by exact Hwf; apply fl_run_is_run; assumption|].
  split; [intros x; apply s_get_rd|]. intros M' src HS HR. apply mem_check; assumption.
Qed.
