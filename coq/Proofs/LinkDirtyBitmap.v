(* LINK L1 (C05/C16 <-> C09).
   Impl/Dirty.v (C05 soundness, C16 precision) runs every write path against an ABSTRACT bitmap:
   a [list bool] of pages updated by [mark ps d off len v].  Impl/Bitmap.v (C09) transcribes the
   real AtomicBitmap (Vec<AtomicU64> words, fetch_or / fetch_and loops, BaseSlice wrapping
   offsets).  This file proves that the word-level bitmap REFINES the abstract one:

     pages_of b                       the page list a bitmap denotes (abs_pages over 0..bm_size)
     mark_dirty_refines               pages_of (bm_mark_dirty b off len) = mark ps (pages_of b) off len true
     reset_range_refines              the same for reset_addr_range / false
     reset_refines                    AtomicBitmap::reset  = map (fun _ => false)
     dirty_at_refines                 bm_dirty_at b off = nthb (pages_of b) (off / ps)
     slice_mark_refines / chain_bm_is_view   the BaseSlice (wrapping) routes an accessor marks through

   and then lifts the C05 / C16 theorems to a state whose regions carry the WORD-LEVEL bitmap
   ([wregion], [wrun_step]): [wrun_step_commutes] (the abstraction function commutes with every
   step and preserves the representation invariant), [C05_sound_words], [C05_monotone_words],
   [C16_precise_words], [words_history].  No model file is changed. *)
From VM Require Import Prelude.MachInt Prelude.Outcome Impl.Bitmap Impl.Dirty Spec.C05 Spec.C09 Proofs.C05 Proofs.C09.

(* ------------------------------------------------------------------ lists of booleans *)
Lemma nthb_cons_succ x (l : list bool) p : nthb (x :: l) (p + 1) = nthb l p.
Proof.
  cbn [nthb]. destruct (N.eqb_spec (p + 1) 0) as [H|H]; [lia|]. replace (p + 1 - 1) with p by lia. reflexivity.
Qed.

Lemma nthb_ext (l : list bool) : forall l', length l = length l' -> (forall p, nthb l p = nthb l' p) -> l = l'.
Proof.
  induction l as [|x l IH]; intros [|y l'] Hlen H; cbn [length] in Hlen; try discriminate; [reflexivity|].
  f_equal.
  - exact (H 0).
  - apply IH; [lia|]. intros p. rewrite <- (nthb_cons_succ x l p), <- (nthb_cons_succ y l' p). apply H.
Qed.

Lemma nthb_repeat_false n p : nthb (repeat false n) p = false.
Proof.
  rewrite nthb_nth_error. destruct (nth_error (repeat false n) (N.to_nat p)) as [b|] eqn:E; [|reflexivity].
  apply nth_error_In in E. apply repeat_spec in E. exact E.
Qed.

Lemma nthb_map_false (l : list bool) p : nthb (map (fun _ => false) l) p = false.
Proof.
  rewrite nthb_nth_error. rewrite nth_error_map. destruct (nth_error l (N.to_nat p)); reflexivity.
Qed.

(* ------------------------------------------------------------------ the abstraction of one bitmap *)
Definition pages_of (b : bitmap) : list bool :=
  map (fun k => abs_pages b (N.of_nat k)) (seq 0 (N.to_nat (bm_size b))).

Lemma pages_of_length b : length (pages_of b) = N.to_nat (bm_size b).
Proof. unfold pages_of. rewrite map_length, seq_length. reflexivity. Qed.

Lemma nthb_pages_of b p : nthb (pages_of b) p = abs_pages b p.
Proof.
  rewrite nthb_nth_error. unfold pages_of. rewrite nth_error_map.
  destruct (N.ltb_spec p (bm_size b)) as [H|H].
  - rewrite (nth_error_nth' _ O) by (rewrite seq_length; lia).
    rewrite seq_nth by lia. cbn [option_map]. rewrite Nat.add_0_l, N2Nat.id. reflexivity.
  - replace (nth_error (seq 0 (N.to_nat (bm_size b))) (N.to_nat p)) with (@None nat).
    + cbn [option_map]. unfold abs_pages. destruct (N.ltb_spec p (bm_size b)); [lia|reflexivity].
    + symmetry. apply nth_error_None. rewrite seq_length. lia.
Qed.

(* two bitmaps of the same page count denoting the same set have the same page list *)
Lemma pages_of_ext b l : length l = N.to_nat (bm_size b) -> (forall p, abs_pages b p = nthb l p) -> pages_of b = l.
Proof.
  intros Hl H. apply nthb_ext; [rewrite pages_of_length; lia|]. intros p. rewrite nthb_pages_of. apply H.
Qed.

(* ------------------------------------------------------------------ set / reset of a byte range *)
(* the loop of set_reset_addr_range (atomic_bitmap.rs:79-101) computes [mark]: for EVERY start
   (no a < 2^64 side condition is needed here: the wrapped BaseSlice offsets are arbitrary) *)
Lemma set_reset_pages b off len set : bm_inv b ->
  exists b', set_reset_addr_range_o b off len set = Val b' /\ bm_inv b' /\ same_geom b' b /\
    pages_of b' = mark (bm_ps b) (pages_of b) off len set.
Proof.
  intros HI. unfold set_reset_addr_range_o.
  destruct (N.eqb_spec len 0) as [->|Hl].
  - exists b. split; [reflexivity|]. split; [exact HI|]. split; [apply same_geom_refl|]. reflexivity.
  - assert (Hfuel0 : forall q, (N.to_nat (bm_size b - q) < S (S (N.to_nat (bm_size b))))%nat) by (intros q; lia).
    pose proof (Hfuel0 (off / bm_ps b)) as Hfuel.
    destruct (range_loop_spec (S (S (N.to_nat (bm_size b)))) (off / bm_ps b)
                (saturating_add off (len - 1) / bm_ps b) b set HI Hfuel) as (b' & E & HI' & G & A).
    exists b'. split; [exact E|]. split; [exact HI'|]. split; [exact G|].
    destruct G as (Gs & _ & _).
    apply pages_of_ext; [rewrite mark_length, pages_of_length, Gs; reflexivity|].
    intros p. rewrite A, mark_spec, nthb_pages_of, pages_of_length, N2Nat.id.
    destruct (N.eqb_spec len 0) as [|_]; [contradiction|].
    unfold in_rng, page_in, rng_effect.
    destruct ((off / bm_ps b <=? p) && (p <=? saturating_add off (len - 1) / bm_ps b) && (p <? bm_size b));
      destruct set; destruct (abs_pages b p); reflexivity.
Qed.

Lemma mark_dirty_refines b off len : bm_inv b ->
  bm_mark_dirty_o b off len = Val (bm_mark_dirty b off len) /\
  bm_inv (bm_mark_dirty b off len) /\ same_geom (bm_mark_dirty b off len) b /\
  pages_of (bm_mark_dirty b off len) = mark (bm_ps b) (pages_of b) off len true.
Proof.
  intros HI. destruct (set_reset_pages b off len true HI) as (b' & E & HI' & G & P).
  unfold bm_mark_dirty, bm_mark_dirty_o, bm_set_addr_range_o. rewrite E. cbn [val_or]. auto.
Qed.

Lemma reset_range_refines b off len : bm_inv b ->
  bm_reset_addr_range_o b off len = Val (bm_reset_addr_range b off len) /\
  bm_inv (bm_reset_addr_range b off len) /\ same_geom (bm_reset_addr_range b off len) b /\
  pages_of (bm_reset_addr_range b off len) = mark (bm_ps b) (pages_of b) off len false.
Proof.
  intros HI. destruct (set_reset_pages b off len false HI) as (b' & E & HI' & G & P).
  unfold bm_reset_addr_range, bm_reset_addr_range_o. rewrite E. cbn [val_or]. auto.
Qed.

Lemma reset_refines b : bm_inv b ->
  bm_inv (bm_reset b) /\ same_geom (bm_reset b) b /\ pages_of (bm_reset b) = map (fun _ => false) (pages_of b).
Proof.
  intros HI. destruct (reset_spec b HI) as (HI' & G & A). split; [exact HI'|]. split; [exact G|].
  destruct G as (Gs & _ & _).
  apply pages_of_ext; [rewrite map_length, pages_of_length, Gs; reflexivity|].
  intros p. rewrite A, nthb_map_false. reflexivity.
Qed.

(* the read accessor: dirty_at(byte offset) is the page lookup in the abstract list *)
Lemma dirty_at_refines b off : bm_inv b ->
  bm_dirty_at_o b off = Val (bm_dirty_at b off) /\ bm_dirty_at b off = nthb (pages_of b) (off / bm_ps b).
Proof.
  intros HI. unfold bm_dirty_at, bm_dirty_at_o. rewrite (is_addr_set_spec b off HI). cbn [val_or].
  rewrite nthb_pages_of. split; reflexivity.
Qed.

(* a fresh bitmap denotes the all-clean list of npages entries *)
Lemma new_refines bytes ps : 0 < ps -> bytes < W64 ->
  bm_inv (bm_new bytes ps) /\ pages_of (bm_new bytes ps) = repeat false (N.to_nat (npages bytes ps)).
Proof.
  intros Hps Hb. split; [apply new_inv; assumption|].
  apply pages_of_ext; [rewrite repeat_length; reflexivity|].
  intros p. rewrite new_abs, nthb_repeat_false. reflexivity.
Qed.

(* ------------------------------------------------------------------ the BaseSlice routes *)
(* Dirty.v's bm_at IS slice.rs' slice_at arithmetic, and the (offset, len) of an effect are the
   arguments BaseSlice::mark_dirty hands to the inner bitmap *)
Lemma bm_at_is_slice_at base o : bm_at base o = bs_slice_at base o.
Proof. reflexivity. Qed.

Lemma slice_mark_refines ri a rel n b :
  bs_mark_dirty_o b (a_bm a) rel n = bm_mark_dirty_o b (e_moff (weff ri a rel n)) (e_mlen (weff ri a rel n)) /\
  bs_dirty_at_o b (a_bm a) rel = bm_dirty_at_o b (e_moff (weff ri a rel n)).
Proof. split; reflexivity. Qed.

(* every derivation step either keeps the accessor's BitmapSlice or takes slice_at of it *)
Lemma derive_bm_is_slice_at a d a' : derive a d = Some a' ->
  a_bm a' = a_bm a \/ exists o, a_bm a' = bs_slice_at (a_bm a) o.
Proof.
  unfold derive, d_sub. intros H.
  destruct (a_kind a); destruct d; try discriminate;
    repeat match type of H with
           | context [match ?c with Some _ => _ | None => _ end] => destruct c; try discriminate
           | context [if ?c then _ else _] => destruct c; try discriminate
           end;
    inversion H; subst; cbn [a_bm]; try (left; reflexivity); right; eexists; reflexivity.
Qed.

Lemma chain_base_snoc o1 rest o : chain_base o1 (rest ++ [o]) = bs_slice_at (chain_base o1 rest) o.
Proof. unfold chain_base. rewrite fold_left_app. reflexivity. Qed.

(* hence the accessor reached by ANY derivation chain from the region's root slice
   (bitmap.slice_at(0), mmap/unix.rs get_slice) marks / reads through a C09 view: a live route
   with a chain of slice_at offsets whose folded base is the accessor's a_bm *)
Lemma chain_bm_is_view_gen ds : forall a a' offs, derive_chain a ds = Some a' -> a_bm a = chain_base 0 offs ->
  exists offs', a_bm a' = chain_base 0 offs'.
Proof.
  induction ds as [|d ds IH]; intros a a' offs H Hb; cbn [derive_chain] in H.
  - inversion H; subst. exists offs. exact Hb.
  - destruct (derive a d) as [a1|] eqn:E; [|discriminate].
    destruct (derive_bm_is_slice_at a d a1 E) as [Hs|[o Hs]].
    + apply (IH a1 a' offs H). rewrite Hs. exact Hb.
    + apply (IH a1 a' (offs ++ [o]) H). rewrite Hs, Hb, chain_base_snoc. reflexivity.
Qed.

Lemma chain_bm_is_view r ds a : derive_chain (root r) ds = Some a ->
  exists offs, a_bm a = chain_base 0 offs /\
    forall rt b rel n, route_live rt = true ->
      view_mark_o rt (0 :: offs) b rel n = bm_mark_dirty_o b (bm_at (a_bm a) rel) n /\
      view_dirty_at_o rt (0 :: offs) b rel = bm_dirty_at_o b (bm_at (a_bm a) rel).
Proof.
  intros H. destruct (chain_bm_is_view_gen ds (root r) a [] H eq_refl) as (offs & Hb).
  exists offs. split; [exact Hb|]. intros rt b rel n Hl. rewrite Hb.
  destruct rt; try discriminate; split; reflexivity.
Qed.

(* ------------------------------------------------------------------ regions carrying the word-level bitmap *)
(* w_bm = None: the untracked flavours (B = () or Option<B>::None, bitmap/mod.rs:65-73, :89-109) *)
Record wregion := { w_start : N; w_size : N; w_ps : N; w_bm : option bitmap }.

Definition abs_region (w : wregion) : region :=
  {| r_start := w_start w; r_size := w_size w; r_ps := w_ps w;
     r_tracked := match w_bm w with Some _ => true | None => false end;
     r_dirty := match w_bm w with
                | Some b => pages_of b
                | None => repeat false (N.to_nat (npages (w_size w) (w_ps w)))
                end |}.
Definition abs_state (ws : list wregion) : list region := map abs_region ws.

(* representation invariant: the bitmap is a valid AtomicBitmap::new(region size, page size) shape *)
Definition wwf (w : wregion) : Prop :=
  0 < w_ps w /\ w_size w < W64 /\
  match w_bm w with Some b => bm_inv b /\ bm_ps b = w_ps w /\ bm_byte_size b = w_size w | None => True end.
Definition wwfs (ws : list wregion) : Prop := Forall wwf ws.

Definition on_bm (f : bitmap -> bitmap) (w : wregion) : wregion :=
  match w_bm w with
  | Some b => {| w_start := w_start w; w_size := w_size w; w_ps := w_ps w; w_bm := Some (f b) |}
  | None => w
  end.

(* one effect = one Bitmap::mark_dirty(e_moff, e_mlen) call on the region's AtomicBitmap *)
Definition wapply_eff (ws : list wregion) (e : eff) : list wregion :=
  upd_nth ws (e_r e) (on_bm (fun b => bm_mark_dirty b (e_moff e) (e_mlen e))).
Definition wapply_effs (ws : list wregion) (es : list eff) : list wregion := fold_left wapply_eff es ws.

(* Dirty.run_step with the abstract page list replaced by the word-level bitmap: which accessor is
   reached, what is written and which mark_dirty calls are made depends on geometry only
   (root / derive_chain / run_sop / run_gop never read r_dirty) *)
Definition wrun_step (hm : N) (ws : list wregion) (s : step) : list wregion * outcome1 :=
  match s with
  | SAcc ri ch o =>
      match nth_error ws ri with
      | None => (ws, fail)
      | Some w =>
          match derive_chain (root (abs_region w)) ch with
          | None => (ws, fail)
          | Some a => let out := run_sop ri hm a o in (wapply_effs ws (o_effs out), out)
          end
      end
  | SGuest o => let out := run_gop hm (abs_state ws) o in (wapply_effs ws (o_effs out), out)
  | SReset ri => (upd_nth ws ri (on_bm bm_reset), done 0 [])
  | SResetRange ri off len => (upd_nth ws ri (on_bm (fun b => bm_reset_addr_range b off len)), done 0 [])
  | SCopy ri ch rj doff dlen =>
      let out := run_copy (abs_state ws) ri ch rj doff dlen in (wapply_effs ws (o_effs out), out)
  end.
Fixpoint wrun_steps (hm : N) (ws : list wregion) (ss : list step) : list wregion :=
  match ss with [] => ws | s :: r => wrun_steps hm (fst (wrun_step hm ws s)) r end.

(* dirty_at(byte offset i) asked of region j's bitmap (false for the untracked flavours) *)
Definition WD (ws : list wregion) (j : nat) (i : N) : bool :=
  match nth_error ws j with
  | Some w => match w_bm w with Some b => bm_dirty_at b i | None => false end
  | None => false
  end.

(* ------------------------------------------------------------------ the abstraction commutes *)
Lemma wwf_region_ok w : wwf w -> region_ok (abs_region w).
Proof.
  intros (Hps & Hsz & Hb). unfold region_ok, abs_region; cbn. split; [exact Hps|]. split; [exact Hsz|].
  destruct (w_bm w) as [b|].
  - destruct Hb as (HI & Ep & Es). rewrite pages_of_length. unfold npages. rewrite <- Ep, <- Es.
    destruct HI as (_ & Hs & _). rewrite Hs. reflexivity.
  - apply repeat_length.
Qed.
Lemma wwfs_wf ws : wwfs ws -> wf (abs_state ws).
Proof.
  unfold wwfs, wf, abs_state. intros H. induction H as [|w ws Hw _ IH]; cbn [map]; constructor; [|exact IH].
  apply wwf_region_ok. exact Hw.
Qed.

(* applying a geometry-preserving function to the bitmap of a region *)
Lemma on_bm_commutes (f : bitmap -> bitmap) (g : list bool -> list bool) (upd_untracked : bool) w :
  wwf w ->
  (forall b, bm_inv b -> bm_ps b = w_ps w ->
             bm_inv (f b) /\ same_geom (f b) b /\ pages_of (f b) = g (pages_of b)) ->
  wwf (on_bm f w) /\
  abs_region (on_bm f w) =
    (if r_tracked (abs_region w) then set_dirty (abs_region w) (g (r_dirty (abs_region w))) else abs_region w).
Proof.
  intros (Hps & Hsz & Hb) Hf. unfold on_bm, wwf, abs_region. destruct (w_bm w) as [b|] eqn:Eb; cbn.
  - destruct Hb as (HI & Ep & Es). destruct (Hf b HI Ep) as (HI' & (Gs & Gb & Gp) & P).
    split; [split; [exact Hps|]; split; [exact Hsz|]; split; [exact HI'|]; split; congruence|].
    unfold set_dirty; cbn. rewrite P. reflexivity.
  - rewrite Eb. split; [repeat split; assumption|reflexivity].
Qed.

Lemma map_upd_nth_commutes {A B} (h : A -> B) (f : A -> A) (g : B -> B) (P : A -> Prop) l : Forall P l ->
  (forall x, P x -> P (f x) /\ h (f x) = g (h x)) ->
  forall i, Forall P (upd_nth l i f) /\ map h (upd_nth l i f) = upd_nth (map h l) i g.
Proof.
  intros Hl Hf. induction Hl as [|x l Hx Hl IH]; intros i; cbn [upd_nth map].
  - split; [constructor|reflexivity].
  - destruct i as [|i]; cbn [map].
    + destruct (Hf x Hx) as [H1 H2]. split; [constructor; assumption|]. rewrite H2. reflexivity.
    + destruct (IH i) as [H1 H2]. split; [constructor; assumption|]. rewrite H2. reflexivity.
Qed.

Lemma wapply_eff_commutes ws e : wwfs ws ->
  wwfs (wapply_eff ws e) /\ abs_state (wapply_eff ws e) = apply_eff (abs_state ws) e.
Proof.
  intros H. unfold wapply_eff, apply_eff, abs_state, wwfs.
  apply (map_upd_nth_commutes abs_region _ _ wwf ws H). intros w Hw.
  assert (Hps : r_ps (abs_region w) = w_ps w) by reflexivity.
  destruct (on_bm_commutes (fun b => bm_mark_dirty b (e_moff e) (e_mlen e))
              (fun d => mark (w_ps w) d (e_moff e) (e_mlen e) true) true w Hw) as [H1 H2].
  - intros b HI Ep. destruct (mark_dirty_refines b (e_moff e) (e_mlen e) HI) as (_ & HI' & G & P).
    split; [exact HI'|]. split; [exact G|]. rewrite P, Ep. reflexivity.
  - split; [exact H1|]. rewrite H2. reflexivity.
Qed.

Lemma wapply_effs_commutes es : forall ws, wwfs ws ->
  wwfs (wapply_effs ws es) /\ abs_state (wapply_effs ws es) = apply_effs (abs_state ws) es.
Proof.
  induction es as [|e es IH]; intros ws H; cbn [wapply_effs apply_effs fold_left]; [split; [exact H|reflexivity]|].
  destruct (wapply_eff_commutes ws e H) as [H1 H2].
  change (fold_left wapply_eff es (wapply_eff ws e)) with (wapply_effs (wapply_eff ws e) es).
  change (fold_left apply_eff es (apply_eff (abs_state ws) e)) with (apply_effs (apply_eff (abs_state ws) e) es).
  destruct (IH _ H1) as [H3 H4]. split; [exact H3|]. rewrite H4, H2. reflexivity.
Qed.

Lemma map_false_repeat n : map (fun _ : bool => false) (repeat false n) = repeat false n.
Proof. induction n as [|n IH]; cbn [repeat map]; [reflexivity|]. rewrite IH. reflexivity. Qed.

Lemma mark_false_repeat ps n off len : mark ps (repeat false n) off len false = repeat false n.
Proof.
  apply nthb_ext; [apply mark_length|]. intros p. rewrite mark_spec, nthb_repeat_false.
  destruct (len =? 0); [reflexivity|]. destruct (_ && _); reflexivity.
Qed.

(* the two reset steps: Dirty.run_step updates r_dirty of an untracked region too (its list stays
   all-clean), the word-level state has no bitmap there *)
Lemma reset_commutes ws ri : wwfs ws ->
  wwfs (upd_nth ws ri (on_bm bm_reset)) /\
  abs_state (upd_nth ws ri (on_bm bm_reset)) =
  upd_nth (abs_state ws) ri (fun r => set_dirty r (map (fun _ => false) (r_dirty r))).
Proof.
  intros H. unfold abs_state, wwfs. apply (map_upd_nth_commutes abs_region _ _ wwf ws H). intros w Hw.
  destruct (on_bm_commutes bm_reset (fun d => map (fun _ => false) d) true w Hw) as [H1 H2].
  - intros b HI _. apply reset_refines. exact HI.
  - split; [exact H1|]. rewrite H2. unfold abs_region at 1. cbn [r_tracked].
    destruct (w_bm w) eqn:Eb; [reflexivity|].
    unfold set_dirty, abs_region; cbn. rewrite Eb, map_false_repeat. reflexivity.
Qed.

Lemma reset_range_commutes ws ri off len : wwfs ws ->
  wwfs (upd_nth ws ri (on_bm (fun b => bm_reset_addr_range b off len))) /\
  abs_state (upd_nth ws ri (on_bm (fun b => bm_reset_addr_range b off len))) =
  upd_nth (abs_state ws) ri (fun r => set_dirty r (mark (r_ps r) (r_dirty r) off len false)).
Proof.
  intros H. unfold abs_state, wwfs. apply (map_upd_nth_commutes abs_region _ _ wwf ws H). intros w Hw.
  destruct (on_bm_commutes (fun b => bm_reset_addr_range b off len)
              (fun d => mark (w_ps w) d off len false) true w Hw) as [H1 H2].
  - intros b HI Ep. destruct (reset_range_refines b off len HI) as (_ & HI' & G & P).
    split; [exact HI'|]. split; [exact G|]. rewrite P, Ep. reflexivity.
  - split; [exact H1|]. rewrite H2. unfold abs_region at 1. cbn [r_tracked].
    destruct (w_bm w) eqn:Eb; [reflexivity|].
    unfold set_dirty, abs_region; cbn. rewrite Eb, mark_false_repeat. reflexivity.
Qed.

(* THE REFINEMENT: every step of the word-level state is the Dirty.v step of its abstraction, with
   the same outcome (result, count, effect list), and keeps the representation invariant *)
Lemma wrun_step_commutes hm ws s : wwfs ws ->
  wwfs (fst (wrun_step hm ws s)) /\
  run_step hm (abs_state ws) s = (abs_state (fst (wrun_step hm ws s)), snd (wrun_step hm ws s)).
Proof.
  intros H. destruct s as [ri ch o|o|ri|ri off len|ri ch rj doff dlen]; cbn [wrun_step run_step].
  5:{ cbn [fst snd]. destruct (wapply_effs_commutes (o_effs (run_copy (abs_state ws) ri ch rj doff dlen)) ws H) as [H1 H2].
      split; [exact H1|]. rewrite H2. reflexivity. }
  - unfold abs_state at 1. rewrite nth_error_map. destruct (nth_error ws ri) as [w|]; cbn [option_map fst snd].
    + destruct (derive_chain (root (abs_region w)) ch) as [a|]; cbn [fst snd]; [|split; [exact H|reflexivity]].
      destruct (wapply_effs_commutes (o_effs (run_sop ri hm a o)) ws H) as [H1 H2].
      split; [exact H1|]. rewrite H2. reflexivity.
    + split; [exact H|reflexivity].
  - cbn [fst snd]. destruct (wapply_effs_commutes (o_effs (run_gop hm (abs_state ws) o)) ws H) as [H1 H2].
    split; [exact H1|]. rewrite H2. reflexivity.
  - cbn [fst snd]. destruct (reset_commutes ws ri H) as [H1 H2]. split; [exact H1|]. rewrite H2. reflexivity.
  - cbn [fst snd]. destruct (reset_range_commutes ws ri off len H) as [H1 H2]. split; [exact H1|]. rewrite H2. reflexivity.
Qed.

Lemma wrun_steps_commutes hm ss : forall ws, wwfs ws ->
  wwfs (wrun_steps hm ws ss) /\ abs_state (wrun_steps hm ws ss) = run_steps hm (abs_state ws) ss.
Proof.
  induction ss as [|s ss IH]; intros ws H; cbn [wrun_steps run_steps]; [split; [exact H|reflexivity]|].
  destruct (wrun_step_commutes hm ws s H) as [H1 H2]. rewrite H2. cbn [fst]. apply IH. exact H1.
Qed.

(* ------------------------------------------------------------------ reading the bitmap back *)
(* what dirty_at(i) answers on the word-level state is the abstract page lookup D *)
Lemma WD_is_D ws j i : wwfs ws ->
  WD ws j i = match nth_error ws j with Some w => D (abs_state ws) j (i / w_ps w) | None => false end.
Proof.
  intros H. unfold WD, D, abs_state. rewrite nth_error_map.
  destruct (nth_error ws j) as [w|] eqn:E; cbn [option_map]; [|reflexivity].
  assert (Hw : wwf w). { unfold wwfs in H. rewrite Forall_forall in H. apply H. eapply nth_error_In; eauto. }
  destruct Hw as (_ & _ & Hb). unfold abs_region; cbn [r_tracked r_dirty].
  destruct (w_bm w) as [b|]; [|reflexivity]. destruct Hb as (HI & Ep & _). cbn [andb].
  destruct (dirty_at_refines b i HI) as [_ ->]. rewrite Ep. reflexivity.
Qed.

(* a step never changes the geometry of any region *)
Definition wgeo (w : wregion) := (w_start w, w_size w, w_ps w).
Lemma wgeo_on_bm f w : wgeo (on_bm f w) = wgeo w.
Proof. unfold on_bm. destruct (w_bm w); reflexivity. Qed.
Lemma wgeo_upd ws i f : map wgeo (upd_nth ws i (on_bm f)) = map wgeo ws.
Proof.
  revert i. induction ws as [|w ws IH]; intros i; cbn [upd_nth map]; [reflexivity|].
  destruct i; cbn [map]; [rewrite wgeo_on_bm; reflexivity|rewrite IH; reflexivity].
Qed.
Lemma wgeo_effs es : forall ws, map wgeo (wapply_effs ws es) = map wgeo ws.
Proof.
  induction es as [|e es IH]; intros ws; cbn [wapply_effs fold_left]; [reflexivity|].
  change (fold_left wapply_eff es (wapply_eff ws e)) with (wapply_effs (wapply_eff ws e) es).
  rewrite IH. apply wgeo_upd.
Qed.
Lemma wgeo_step hm ws s : map wgeo (fst (wrun_step hm ws s)) = map wgeo ws.
Proof.
  destruct s as [ri ch o|o|ri|ri off len|ri ch rj doff dlen]; cbn [wrun_step].
  - destruct (nth_error ws ri) as [w|]; [|reflexivity].
    destruct (derive_chain _ ch); cbn [fst]; [apply wgeo_effs|reflexivity].
  - apply wgeo_effs.
  - apply wgeo_upd.
  - apply wgeo_upd.
  - apply wgeo_effs.
Qed.
Lemma wgeo_nth ws ws' j w : map wgeo ws' = map wgeo ws -> nth_error ws j = Some w ->
  exists w', nth_error ws' j = Some w' /\ wgeo w' = wgeo w.
Proof.
  intros H Hn. assert (G : option_map wgeo (nth_error ws' j) = option_map wgeo (nth_error ws j)).
  { rewrite <- !nth_error_map. rewrite H. reflexivity. }
  rewrite Hn in G. destruct (nth_error ws' j) as [w'|]; cbn [option_map] in G; [|discriminate].
  exists w'. split; [reflexivity|]. congruence.
Qed.

(* ------------------------------------------------------------------ C05 / C16 on the word-level state *)
Lemma C05_sound_words_lemma hm ws s ws' out : wwfs ws -> is_reset s = false -> wrun_step hm ws s = (ws', out) ->
  forall e, In e (o_effs out) -> forall w b, nth_error ws (e_r e) = Some w -> w_bm w = Some b ->
  forall i, e_woff e <= i < e_woff e + e_wn e ->
  i < w_size w /\ WD ws' (e_r e) i = true.
Proof.
  intros H Hr E e Hin w b Hn Hb i Hi.
  destruct (wrun_step_commutes hm ws s H) as [H1 H2]. rewrite E in H1, H2. cbn [fst snd] in H1, H2.
  assert (Hna : nth_error (abs_state ws) (e_r e) = Some (abs_region w)).
  { unfold abs_state. rewrite nth_error_map, Hn. reflexivity. }
  assert (Ht : r_tracked (abs_region w) = true) by (unfold abs_region; cbn; rewrite Hb; reflexivity).
  destruct (C05_sound_lemma hm (abs_state ws) s (abs_state ws') out (wwfs_wf ws H) Hr H2 e Hin
              (abs_region w) Hna Ht i Hi) as [A B].
  split; [exact A|]. rewrite (WD_is_D ws' (e_r e) i H1).
  pose proof (wgeo_step hm ws s) as G. rewrite E in G. cbn [fst] in G.
  destruct (wgeo_nth ws ws' (e_r e) w G Hn) as (w' & Hn' & Gw). rewrite Hn'.
  unfold wgeo in Gw. inversion Gw as [[G1 G2 G3]]. rewrite G3. exact B.
Qed.

Lemma C05_monotone_words_lemma hm ws s ws' out j i : wwfs ws -> is_reset s = false -> wrun_step hm ws s = (ws', out) ->
  WD ws j i = true -> WD ws' j i = true.
Proof.
  intros H Hr E Hd.
  destruct (wrun_step_commutes hm ws s H) as [H1 H2]. rewrite E in H1, H2. cbn [fst snd] in H1, H2.
  rewrite (WD_is_D ws j i H) in Hd. rewrite (WD_is_D ws' j i H1).
  destruct (nth_error ws j) as [w|] eqn:Hn; [|discriminate].
  pose proof (wgeo_step hm ws s) as G. rewrite E in G. cbn [fst] in G.
  destruct (wgeo_nth ws ws' j w G Hn) as (w' & Hn' & Gw). rewrite Hn'.
  unfold wgeo in Gw. inversion Gw as [[G1 G2 G3]]. rewrite G3.
  exact (C05_monotone_lemma hm (abs_state ws) s (abs_state ws') out j (i / w_ps w) (wwfs_wf ws H) Hr H2 Hd).
Qed.

Lemma C16_precise_words_lemma hm ws s ws' out : wwfs ws -> is_reset s = false -> wrun_step hm ws s = (ws', out) ->
  forall j i, WD ws' j i = true ->
  WD ws j i = true \/
  exists e w i', In e (o_effs out) /\ e_r e = j /\ nth_error ws j = Some w /\
                 e_woff e <= i' < e_woff e + e_mlen e /\ i' / w_ps w = i / w_ps w /\ i' < w_size w.
Proof.
  intros H Hr E j i Hd.
  destruct (wrun_step_commutes hm ws s H) as [H1 H2]. rewrite E in H1, H2. cbn [fst snd] in H1, H2.
  rewrite (WD_is_D ws' j i H1) in Hd. rewrite (WD_is_D ws j i H).
  destruct (nth_error ws' j) as [w'|] eqn:Hn'; [|discriminate].
  pose proof (wgeo_step hm ws s) as G. rewrite E in G. cbn [fst] in G.
  destruct (wgeo_nth ws' ws j w' (eq_sym G) Hn') as (w & Hn & Gw). rewrite Hn.
  unfold wgeo in Gw. inversion Gw as [[G1 G2 G3]]. rewrite <- G3 in Hd.
  destruct (C16_precise_lemma hm (abs_state ws) s (abs_state ws') out (wwfs_wf ws H) Hr H2 j (i / w_ps w) Hd)
    as [A|(e & r & i' & Hin & Hj & Hnr & Hi' & Hp & Hs)]; [left; exact A|right].
  unfold abs_state in Hnr. rewrite nth_error_map, Hn in Hnr. cbn [option_map] in Hnr. inversion Hnr; subst r.
  exists e, w, i'. cbn [abs_region r_ps r_size] in Hp, Hs. repeat split; try assumption; lia.
Qed.

(* the invariant and the abstraction hold along every history, resets included *)
Lemma words_history_lemma hm ss ws : wwfs ws ->
  wwfs (wrun_steps hm ws ss) /\ abs_state (wrun_steps hm ws ss) = run_steps hm (abs_state ws) ss.
Proof. intros H. apply wrun_steps_commutes. exact H. Qed.

(* a region as the crate builds it: AtomicBitmap::new(size, page_size) attached to a region of
   that size satisfies the invariant and abstracts to the all-clean Dirty.v region *)
Lemma new_region_lemma st size ps : 0 < ps -> size < W64 ->
  let w := {| w_start := st; w_size := size; w_ps := ps; w_bm := Some (bm_new size ps) |} in
  wwf w /\ abs_region w = {| r_start := st; r_size := size; r_ps := ps; r_tracked := true;
                             r_dirty := repeat false (N.to_nat (npages size ps)) |}.
Proof.
  intros Hps Hs. cbv zeta. destruct (new_refines size ps Hps Hs) as [HI P]. split.
  - unfold wwf; cbn [w_ps w_size w_bm]. split; [exact Hps|]. split; [exact Hs|]. split; [exact HI|].
    split; reflexivity.
  - unfold abs_region; cbn. rewrite P. reflexivity.
Qed.

(* the bundled single-operation refinement facts, for the Properties files *)
Lemma bitmap_refines_lemma b off len : bm_inv b ->
  (bm_mark_dirty_o b off len = Val (bm_mark_dirty b off len) /\ bm_inv (bm_mark_dirty b off len) /\
   pages_of (bm_mark_dirty b off len) = mark (bm_ps b) (pages_of b) off len true) /\
  (bm_reset_addr_range_o b off len = Val (bm_reset_addr_range b off len) /\ bm_inv (bm_reset_addr_range b off len) /\
   pages_of (bm_reset_addr_range b off len) = mark (bm_ps b) (pages_of b) off len false) /\
  (bm_inv (bm_reset b) /\ pages_of (bm_reset b) = map (fun _ => false) (pages_of b)) /\
  (bm_dirty_at_o b off = Val (bm_dirty_at b off) /\ bm_dirty_at b off = nthb (pages_of b) (off / bm_ps b)) /\
  length (pages_of b) = N.to_nat (bm_len b).
Proof.
  intros HI.
  destruct (mark_dirty_refines b off len HI) as (A1 & A2 & _ & A3).
  destruct (reset_range_refines b off len HI) as (B1 & B2 & _ & B3).
  destruct (reset_refines b HI) as (C1 & _ & C2).
  pose proof (dirty_at_refines b off HI) as Dd.
  split; [auto|]. split; [auto|]. split; [auto|]. split; [exact Dd|]. apply pages_of_length.
Qed.

Lemma wrun_step_refines_lemma hm ws s : wwfs ws ->
  wwfs (fst (wrun_step hm ws s)) /\
  run_step hm (abs_state ws) s = (abs_state (fst (wrun_step hm ws s)), snd (wrun_step hm ws s)).
Proof. apply wrun_step_commutes. Qed.
