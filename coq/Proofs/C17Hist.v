(* C17 - the Xen history checker holds on the model for ALL histories (checker-on-model theorem). *)
From VM Require Import Prelude.MachInt Prelude.Outcome Prelude.Tok Impl.MmapBuild Impl.Xen Spec.C17 Suite.C17 Proofs.C17.

Ltac fin := split; [reflexivity | first [reflexivity | split; [reflexivity|assumption]]].
Ltac pick := first [ fin | left; fin | right; pick ].

Lemma xop_of_cases x op : xop_of x = Some op ->
  (x_code x = 0 /\ op = XWrite (x_off x) (x_a x)) \/
  (x_code x = 1 /\ op = XRead (x_off x) (x_a x)) \/
  (x_code x = 2 /\ op = XSliceGuard (x_off x) (x_a x) (negb (x_b x =? 0))) \/
  (x_code x = 3 /\ op = XRefStore (x_off x) (x_a x)) \/
  (x_code x = 4 /\ op = XRefLoad (x_off x) (x_a x)) \/
  (x_code x = 5 /\ op = XArrStore (x_off x) (x_a x) (x_b x) (x_c x)) \/
  (x_code x = 6 /\ op = XArrLoad (x_off x) (x_a x) (x_b x) (x_c x)) \/
  (x_code x = 7 /\ op = XArrCopyFrom (x_off x) (x_a x) (x_b x) (x_c x)) \/
  (x_code x = 8 /\ op = XArrCopyTo (x_off x) (x_a x) (x_b x) (x_c x)) \/
  (x_code x = 9 /\ op = XAtomicLoad (x_off x) (x_a x)) \/
  (x_code x = 10 /\ op = XCopyToVS (x_off x) (x_a x)) \/
  (x_code x = 11 /\ op = XReadFrom (x_off x) (x_a x) (x_b x)) \/
  (x_code x = 12 /\ op = XWriteTo (x_off x) (x_a x)) \/
  (x_code x = 13 /\ op = XSliceCopyFrom (x_off x) (x_a x) (x_b x) (x_c x) /\ x_b x <> 0) \/
  (x_code x = 14 /\ op = XSliceCopyTo (x_off x) (x_a x) (x_b x) (x_c x) /\ x_b x <> 0) \/
  (x_code x = 15 /\ op = XReadFromFd (x_off x) (x_a x) (x_b x)) \/
  (x_code x = 16 /\ op = XReadExactFromFd (x_off x) (x_a x)) \/
  (x_code x = 17 /\ op = XWriteToFd (x_off x) (x_a x)) \/
  (x_code x = 18 /\ op = XWriteAllToFd (x_off x) (x_a x)).
Proof.
  unfold xop_of. intros H. destruct (x_code x) as [|p].
  - inversion H; subst; clear H. pick.
  - repeat (destruct p as [p|p|]; try discriminate H);
      try (destruct (N.eqb_spec (x_a x) 0) as [Z|Z]; [discriminate H|]);
      try (destruct (N.eqb_spec (x_b x) 0) as [Z|Z]; [discriminate H|]);
      inversion H; subst; clear H; pick.
Qed.

Ltac xcases X := destruct (xop_of_cases _ _ X) as [[K ->] | [[K ->] | [[K ->] | [[K ->] | [[K ->] | [[K ->] | [[K ->] | [[K ->] | [[K ->] | [[K ->] | [[K ->] | [[K ->] | [[K ->] | [[K [-> NZ]] | [[K [-> NZ]] | [[K ->] | [[K ->] | [[K ->] | [K ->]]]]]]]]]]]]]]]]]]].

(* the two shapes of the slice copy plan *)
Lemma slice_copy_plan m size off len t k (wr : bool) : t <> 0 -> size <= ISZ_MAX ->
  (match end_offset size off len with
   | None => Val PErr
   | Some _ =>
       if t =? 1 then Val (PGuard off len wr off (N.min k len))
       else
         let* cnt := pdiv 655 len t in
         match isz_mul cnt t with
         | None => Panic 658
         | Some nb => let* gl := guard_len m (AArray t cnt) in Val (PGuard off gl wr off (N.min k cnt * t))
         end
   end) =
  match end_offset size off len with
  | None => Val PErr
  | Some _ => if t =? 1 then Val (PGuard off len wr off (N.min k len))
              else Val (PGuard off (len / t * t) wr off (N.min k (len / t) * t))
  end.
Proof.
  intros Z S. destruct (end_offset size off len) eqn:E; [|reflexivity]. apply end_offset_Some in E.
  destruct (t =? 1); [reflexivity|].
  unfold pdiv. destruct (N.eqb_spec t 0); [contradiction|]. cbn [bind].
  pose proof (N.mul_div_le len t Z) as D.
  assert (I : isz_mul (len / t) t = Some (len / t * t)).
  { unfold isz_mul. remember (len / t) as q.
    destruct (N.leb_spec q ISZ_MAX) as [L1|L1]; [|nia]. destruct (N.leb_spec (q * t) ISZ_MAX) as [L2|L2]; [reflexivity|nia]. }
  rewrite I. cbn [guard_len]. rewrite pmul_Val; [reflexivity|].
  unfold ISZ_MAX in S. rewrite W64_val. remember (len / t) as q. nia.
Qed.

(* the checker's notion of the touched bytes agrees with the model's plan *)
Lemma plan_touched m size x op goff glen wr toff tlen : size <= ISZ_MAX ->
  xop_of x = Some op -> op_plan m size op = Val (PGuard goff glen wr toff tlen) ->
  touched size x = Some (toff, tlen).
Proof.
  intros SZ X. unfold touched.
  xcases X; rewrite K; cbn [op_plan].
  16,18: destruct (size <? x_off x); [discriminate|]; intros HH; inv_val; reflexivity.
  16,17: destruct (end_offset size (x_off x) (x_a x)) eqn:E; [|discriminate]; apply end_offset_Some in E;
       destruct (x_a x =? 0); [discriminate|]; intros HH; inv_val; cbn [orb];
       destruct (N.leb_spec (x_off x + x_a x) size) as [LL|LL]; [reflexivity|lia].
  1,2: destruct (x_a x =? 0); cbn [orb]; [discriminate|]; destruct (size <=? x_off x); [discriminate|];
       intros HH; inv_val; rewrite N.min_comm; reflexivity.
  1,2,3: destruct (end_offset size (x_off x) (x_a x)) eqn:E; [|discriminate]; apply end_offset_Some in E;
       intros HH; inv_val; destruct (N.leb_spec (x_off x + x_a x) size) as [LL|LL]; [reflexivity|lia].
  1,2: destruct (isz_mul (x_b x) (x_a x)) as [nb|] eqn:I; [|discriminate]; apply isz_mul_Some in I; destruct I as [-> I];
       destruct (end_offset size (x_off x) (x_b x * x_a x)) eqn:E; [|discriminate]; apply end_offset_Some in E;
       unfold passert; destruct (N.ltb_spec (x_c x) (x_b x)) as [L|L]; cbn [bind]; [|discriminate];
       rewrite pmul_Val by nia; cbn [bind]; intros HH; inv_val;
       destruct (N.leb_spec (x_off x + x_b x * x_a x) size) as [LL|LL]; [|lia]; cbn [andb];
       rewrite (N.mul_comm (x_c x) (x_a x)); reflexivity.
  1,2: destruct (isz_mul (x_b x) (x_a x)) as [nb|] eqn:I; [|discriminate]; apply isz_mul_Some in I; destruct I as [-> I];
       destruct (end_offset size (x_off x) (x_b x * x_a x)) eqn:E; [|discriminate]; apply end_offset_Some in E;
       destruct (N.leb_spec (x_off x + x_b x * x_a x) size) as [LL|LL]; [|lia];
       destruct (N.eqb_spec (x_a x) 1) as [T|T];
       [rewrite pmul_Val by exact I; cbn [bind]; intros HH; inv_val; rewrite T, !N.mul_1_r; reflexivity
       |cbn [guard_len]; rewrite pmul_Val by exact I; cbn [bind]; intros HH; inv_val; reflexivity].
  - destruct (end_offset size (x_off x) (x_a x)); [|discriminate]. destruct (x_off x mod x_a x =? 0); discriminate.
  - destruct (end_offset size (x_off x) (x_a x)); discriminate.
  - destruct (size <? x_off x); [discriminate|]. intros HH; inv_val. reflexivity.
  - destruct (size <? x_off x); [discriminate|]. intros HH; inv_val. reflexivity.
  - rewrite (slice_copy_plan m size (x_off x) (x_a x) (x_b x) (x_c x) true NZ SZ).
    destruct (end_offset size (x_off x) (x_a x)) eqn:E; [|discriminate]. apply end_offset_Some in E.
    destruct (N.leb_spec (x_off x + x_a x) size) as [LL|LL]; [|lia].
    destruct (x_b x =? 1); intros HH; inv_val; reflexivity.
  - rewrite (slice_copy_plan m size (x_off x) (x_a x) (x_b x) (x_c x) false NZ SZ).
    destruct (end_offset size (x_off x) (x_a x)) eqn:E; [|discriminate]. apply end_offset_Some in E.
    destruct (N.leb_spec (x_off x + x_a x) size) as [LL|LL]; [|lia].
    destruct (x_b x =? 1); intros HH; inv_val; reflexivity.
Qed.

(* a plan that panics touches nothing the checker knows of *)
Lemma plan_not_val_touched m size x op : size <= ISZ_MAX ->
  xop_of x = Some op -> (forall p, op_plan m size op <> Val p) -> touched size x = None.
Proof.
  intros SZ X NV. unfold touched.
  xcases X; rewrite K; cbn [op_plan] in NV.
  16,18: exfalso; destruct (size <? x_off x); eapply NV; reflexivity.
  16,17: exfalso; destruct (end_offset size (x_off x) (x_a x)); [|eapply NV; reflexivity];
       destruct (x_a x =? 0); eapply NV; reflexivity.
  1,2: exfalso; destruct (x_a x =? 0); [eapply NV; reflexivity|]; destruct (size <=? x_off x); eapply NV; reflexivity.
  1,2,3: exfalso; destruct (end_offset size (x_off x) (x_a x)); eapply NV; reflexivity.
  5: exfalso; destruct (end_offset size (x_off x) (x_a x)); [|eapply NV; reflexivity];
     destruct (x_off x mod x_a x =? 0); eapply NV; reflexivity.
  5: exfalso; destruct (end_offset size (x_off x) (x_a x)); eapply NV; reflexivity.
  5,6: exfalso; destruct (size <? x_off x); eapply NV; reflexivity.
  5: exfalso; rewrite (slice_copy_plan m size (x_off x) (x_a x) (x_b x) (x_c x) true NZ SZ) in NV;
     destruct (end_offset size (x_off x) (x_a x)); [|eapply NV; reflexivity]; destruct (x_b x =? 1); eapply NV; reflexivity.
  5: exfalso; rewrite (slice_copy_plan m size (x_off x) (x_a x) (x_b x) (x_c x) false NZ SZ) in NV;
     destruct (end_offset size (x_off x) (x_a x)); [|eapply NV; reflexivity]; destruct (x_b x =? 1); eapply NV; reflexivity.
  3,4: exfalso; destruct (isz_mul (x_b x) (x_a x)) as [nb|] eqn:I; [|eapply NV; reflexivity];
       apply isz_mul_Some in I; destruct I as [-> I];
       destruct (end_offset size (x_off x) (x_b x * x_a x)) eqn:E; [|eapply NV; reflexivity];
       destruct (x_a x =? 1); [rewrite pmul_Val in NV by exact I|cbn [guard_len] in NV; rewrite pmul_Val in NV by exact I];
       cbn [bind] in NV; eapply NV; reflexivity.
  all: destruct (N.ltb_spec (x_c x) (x_b x)) as [L|L]; [|rewrite andb_false_r; reflexivity];
       exfalso; destruct (isz_mul (x_b x) (x_a x)) as [nb|] eqn:I; [|eapply NV; reflexivity];
       apply isz_mul_Some in I; destruct I as [-> I];
       destruct (end_offset size (x_off x) (x_b x * x_a x)) eqn:E; [|eapply NV; reflexivity];
       unfold passert in NV; destruct (N.ltb_spec (x_c x) (x_b x)) as [L2|L2]; [|lia]; cbn [bind] in NV;
       rewrite pmul_Val in NV by nia; cbn [bind] in NV; eapply NV; reflexivity.
Qed.

(* which operations plan what: "nothing to do" only for an empty buffer, "unguarded" only for the two
   entry points of F6b *)
Lemma plan_shape m size x op p : size <= ISZ_MAX -> xop_of x = Some op -> op_plan m size op = Val p ->
  match p with
  | PRaw _ _ => x_code x = 9 \/ x_code x = 10
  | PNone => touched size x = None
  | _ => True end.
Proof.
  intros SZ X. unfold touched.
  xcases X; rewrite K; cbn [op_plan].
  16,18: destruct (size <? x_off x); intros HH; inv_val; exact I.
  16,17: destruct (end_offset size (x_off x) (x_a x)); [|intros HH; inv_val; exact I];
       destruct (x_a x =? 0); intros HH; inv_val; [reflexivity|exact I].
  1,2: destruct (x_a x =? 0); [intros HH; inv_val; reflexivity|]; destruct (size <=? x_off x); intros HH; inv_val; exact I.
  1,2,3: destruct (end_offset size (x_off x) (x_a x)); intros HH; inv_val; exact I.
  5: destruct (end_offset size (x_off x) (x_a x)); [|intros HH; inv_val; exact I];
     destruct (x_off x mod x_a x =? 0); intros HH; inv_val; [left; reflexivity|exact I].
  5: destruct (end_offset size (x_off x) (x_a x)); intros HH; inv_val; [right; reflexivity|exact I].
  5,6: destruct (size <? x_off x); intros HH; inv_val; exact I.
  5: rewrite (slice_copy_plan m size (x_off x) (x_a x) (x_b x) (x_c x) true NZ SZ);
     destruct (end_offset size (x_off x) (x_a x)); [|intros HH; inv_val; exact I]; destruct (x_b x =? 1); intros HH; inv_val; exact I.
  5: rewrite (slice_copy_plan m size (x_off x) (x_a x) (x_b x) (x_c x) false NZ SZ);
     destruct (end_offset size (x_off x) (x_a x)); [|intros HH; inv_val; exact I]; destruct (x_b x =? 1); intros HH; inv_val; exact I.
  1,2: destruct (isz_mul (x_b x) (x_a x)); [|intros HH; inv_val; exact I];
       destruct (end_offset size (x_off x) n); [|intros HH; inv_val; exact I];
       destruct (passert 1136 (x_c x <? x_b x)); cbn [bind]; try discriminate;
       destruct (pmul m 1141 (x_a x) (x_c x)); cbn [bind]; try discriminate; intros HH; inv_val; exact I.
  all: destruct (isz_mul (x_b x) (x_a x)); [|intros HH; inv_val; exact I];
       destruct (end_offset size (x_off x) n); [|intros HH; inv_val; exact I];
       destruct (x_a x =? 1); [destruct (pmul m 1118 (x_b x) (x_a x))|destruct (guard_len m (AArray (x_a x) (x_b x)))];
       cbn [bind]; try discriminate; intros HH; inv_val; exact I.
Qed.

(* ------------------------------------------------------------------ one operation on one region *)
Section OneRegion.
  Variable m : mode.
  Variable o : os.
  Variable g : xregion.
  Let ps := os_page o.
  Hypothesis Hmm : os_mmap_ok o = true.
  Hypothesis Hio : os_ioctl_ok o = true.
  Hypothesis Hps : 0 < ps.
  Hypothesis Hal : xr_base g mod ps = 0.
  Hypothesis H32 : xr_base g + xr_size g + ps <= 4294967296 * ps.
  Hypothesis H63 : xr_base g + xr_size g + ps < 9223372036854775808.

  Lemma W64_big : 9223372036854775808 < W64.
  Proof. rewrite W64_val. reflexivity. Qed.

  Lemma grant_ref_exact addr : addr mod ps = 0 -> addr < 9223372036854775808 -> addr < 4294967296 * ps ->
    exists q, grant_ref ps addr = Val q /\ q * ps = addr.
  Proof.
    intros A L1 L2. unfold grant_ref, pdiv. destruct (N.eqb_spec ps 0); [lia|]. cbn [bind].
    rewrite (N.mod_small addr) by exact L1.
    pose proof (N.div_mod addr ps ltac:(lia)) as E. rewrite A in E.
    remember (addr / ps) as q.
    assert (Q : q < 4294967296) by nia.
    rewrite N.mod_small by exact Q. exists q. split; [reflexivity|nia].
  Qed.

  (* a guard that asks for at least one byte (or starts inside a page) gets its window *)
  Lemma guarded_done goff glen wr : on_demand g = true -> goff + glen <= xr_size g ->
    0 < glen ->
    exists l w, guarded m o g goff glen wr = (l, Val (Some w)).
  Proof.
    intros D In NZ. pose proof W64_big as WB.
    unfold guarded, open_window. rewrite D. fold ps.
    destruct (N.eqb_spec glen 0) as [Z|_]; [lia|].
    rewrite (window_arith_spec m ps goff glen Hps ltac:(lia)).
    assert (PBle : goff / ps * ps <= goff).
    { pose proof (N.div_mod goff ps ltac:(lia)) as E. remember (goff / ps) as q. nia. }
    rewrite padd_Val by lia.
    assert (Lm : goff mod ps <= goff) by (apply N.mod_le; lia).
    remember (goff mod ps) as ip.
    destruct (pages_spec m ps (ip + glen) Hps ltac:(lia)) as [num [P [P1 P2]]].
    unfold mmap_range. fold ps. rewrite P. cbn [bind].
    assert (A0 : (xr_base g + goff / ps * ps) mod ps = 0).
    { rewrite N.add_mod by lia. rewrite Hal, N.mod_mul by lia. cbn. apply N.mod_0_l. lia. }
    destruct (grant_ref_exact (xr_base g + goff / ps * ps) A0 ltac:(lia) ltac:(lia)) as [q [GR _]].
    rewrite GR. cbn [bind].
    assert (N1 : 0 < num) by nia.
    assert (N2 : num < 4294967296) by nia.
    rewrite Hio, (N.mod_small num) by exact N2.
    destruct (N.ltb_spec 0 num) as [_|X]; [|lia]. cbn [andb].
    unfold mmap_unix. rewrite Hmm.
    unfold close_window, unmap_range. cbn [w_msize w_bytes w_index]. fold ps. rewrite P. cbn [bind].
    eexists. eexists. reflexivity.
  Qed.

  Variable c : case17x.
  Hypothesis Cs : cx_size c = xr_size g.
  Hypothesis Cg : cx_gbase c = xr_base g.
  Hypothesis Cp : cx_page c = ps.

  Lemma In_dev_evs gref cnt ix l : In (EvIoctlMap gref cnt ix true) l -> In (DMap gref cnt ix) (dev_evs l).
  Proof.
    intros I. unfold dev_evs. apply in_flat_map. exists (EvIoctlMap gref cnt ix true). split; [exact I|left; reflexivity].
  Qed.

  Lemma tail_true (b : bool) (P : bool) : (if b then P else true) = true <-> (b = true -> P = true).
  Proof. destruct b; split; intros; auto; discriminate. Qed.

  (* on-demand region: every guarded operation satisfies the checker *)
  Lemma size_isz : xr_size g <= ISZ_MAX.
  Proof. unfold ISZ_MAX. lia. Qed.

  Lemma op_ok_demand x op st : on_demand g = true -> cx_rkind c = 3 ->
    xop_of x = Some op -> x_code x <> 9 -> x_code x <> 10 ->
    snd (run_op m o g op) <> RFault /\
    live_after st (fst (run_op m o g op)) = st /\
    op_ok c x {| p_r := opres_code (snd (run_op m o g op)); p_data := 1; p_live := 0;
                 p_evs := dev_evs (fst (run_op m o g op)) |} = true.
  Proof.
    intros D RK X N9 N10. pose proof size_isz as SZ.
    split; [|split].
    - unfold run_op. destruct (op_plan m (xr_size g) op) as [[| |goff glen wr toff tlen|toff tlen]| |] eqn:P; cbn [snd]; try discriminate.
      + destruct (guarded m o g goff glen wr) as [l [w| |]]; discriminate.
      + exfalso. pose proof (plan_shape m (xr_size g) x op _ SZ X P) as S. cbn in S. tauto.
    - apply balanced_block_live. apply run_op_balanced. exact Hmm.
    - unfold op_ok. cbn [p_r p_data p_live p_evs]. rewrite RK, Cs.
      unfold run_op.
      destruct (op_plan m (xr_size g) op) as [[| |goff glen wr toff tlen|toff tlen]| |] eqn:P; cbn [fst snd opres_code].
      + (* Err *) destruct (touched (xr_size g) x) as [[f n]|]; [destruct (0 <? n)|]; reflexivity.
      + (* nothing to do: an empty buffer *)
        pose proof (plan_shape m (xr_size g) x op _ SZ X P) as T. cbn in T. rewrite T. reflexivity.
      + (* a guard *)
        pose proof (plan_touched m (xr_size g) x op _ _ _ _ _ SZ X P) as T. rewrite T.
        destruct (plan_inside _ _ _ _ _ _ _ _ P) as [A1 [A2 A3]].
        destruct (guarded m o g goff glen wr) as [l r] eqn:G. cbn [fst snd].
        destruct r as [[w|]| |]; cbn [opres_code].
        * (* completed inside a window *)
          destruct (N.ltb_spec 0 tlen) as [TL|TL]; [|reflexivity]. cbn [andb N.eqb Pos.eqb].
          change (1 =? 1) with true. cbn [andb].
          assert (R : run_op m o g op = (l, RDone (Some w))).
          { unfold run_op. rewrite P, G. reflexivity. }
          destruct (access_inside_window_lemma m o g op goff glen wr toff tlen l w Hps ltac:(pose proof W64_big; fold ps; lia)
                      ltac:(fold ps; lia) Hmm P R) as [B1 [B2 [B3 [B4 [B5 _]]]]].
          destruct (guarded_shape _ _ _ _ _ _ _ _ Hmm G) as [_ GS].
          destruct (GS w eq_refl) as [ip [WA [[addr [PA GR]] _]]].
          fold ps in B1, B2, GR.
          assert (PBs : w_page_base w <= xr_size g) by lia.
          rewrite padd_Val in PA by (pose proof W64_big; lia). inversion PA; subst addr; clear PA.
          assert (A0 : (xr_base g + w_page_base w) mod ps = 0).
          { rewrite N.add_mod by lia. rewrite Hal, B1. cbn. apply N.mod_0_l. lia. }
          destruct (grant_ref_exact (xr_base g + w_page_base w) A0 ltac:(lia) ltac:(lia)) as [q [GR' Q]].
          rewrite GR in GR'. inversion GR'; subst q; clear GR'.
          unfold covered. apply existsb_exists. exists (DMap (w_gref w) (w_count w) (w_index w)).
          split; [apply In_dev_evs; exact B5|]. cbn [fst snd]. rewrite Cp, Cg.
          apply andb_true_iff. split; apply N.leb_le; nia.
        * (* completed without a window: only an empty guard does that (new_with's early return) *)
          assert (GZ : glen = 0).
          { unfold guarded in G. rewrite D in G. destruct (N.eqb_spec glen 0) as [Z|NZ]; [exact Z|exfalso].
            destruct (open_window m o g goff glen (if wr then PROT_WRITE else PROT_READ)) as [l1 [w1| |]]; try discriminate.
            destruct (close_window m o w1); discriminate. }
          assert (tlen = 0) by lia. subst tlen. reflexivity.
        * (* the guard panicked: it asked for 0 bytes at a page boundary, nothing was to be touched *)
          destruct (N.ltb_spec 0 glen) as [GL|GL].
          -- destruct (guarded_done goff glen wr D A3 GL) as [l' [w' E']]. congruence.
          -- assert (tlen = 0) by lia. subst tlen. reflexivity.
        * destruct (N.ltb_spec 0 glen) as [GL|GL].
          -- destruct (guarded_done goff glen wr D A3 GL) as [l' [w' E']]. congruence.
          -- assert (tlen = 0) by lia. subst tlen. reflexivity.
      + (* unguarded: excluded *)
        exfalso. pose proof (plan_shape m (xr_size g) x op _ SZ X P) as S. cbn in S. tauto.
      + (* the plan itself panicked *)
        rewrite (plan_not_val_touched m (xr_size g) x op SZ X); [reflexivity|]. intros p E. rewrite P in E. discriminate.
      + rewrite (plan_not_val_touched m (xr_size g) x op SZ X); [reflexivity|]. intros p E. rewrite P in E. discriminate.
  Qed.
End OneRegion.

(* a region mapped in advance: no window is ever taken, every operation satisfies the checker *)
Lemma op_ok_advance m o g c x op live : on_demand g = false -> cx_rkind c <> 3 -> cx_size c = xr_size g ->
  xr_size g <= ISZ_MAX -> xop_of x = Some op ->
  snd (run_op m o g op) <> RFault /\ fst (run_op m o g op) = [] /\
  op_ok c x {| p_r := opres_code (snd (run_op m o g op)); p_data := 1; p_live := live;
               p_evs := dev_evs (fst (run_op m o g op)) |} = true.
Proof.
  intros D RK Cs SZ X.
  assert (RK' : (cx_rkind c =? 3) = false) by (apply N.eqb_neq; exact RK).
  unfold run_op, op_ok. cbn [p_r p_data p_live p_evs]. rewrite RK', Cs.
  destruct (op_plan m (xr_size g) op) as [[| |goff glen wr toff tlen|toff tlen]| |] eqn:P; cbn [fst snd opres_code].
  - repeat split; discriminate.
  - repeat split; discriminate.
  - unfold guarded. rewrite D. cbn [fst snd opres_code]. repeat split; discriminate.
  - rewrite D. cbn [andb fst snd opres_code]. repeat split; discriminate.
  - split; [discriminate|]. split; [reflexivity|].
    rewrite (plan_not_val_touched m (xr_size g) x op SZ X); [reflexivity|]. intros p E. rewrite P in E. discriminate.
  - split; [discriminate|]. split; [reflexivity|].
    rewrite (plan_not_val_touched m (xr_size g) x op SZ X); [reflexivity|]. intros p E. rewrite P in E. discriminate.
Qed.

Definition wf17x (c : case17x) : Prop :=
  cx_rkind c < 4 /\ 0 < cx_page c /\ cx_gbase c mod cx_page c = 0 /\
  cx_gbase c + cx_size c + cx_page c <= 4294967296 * cx_page c /\
  cx_gbase c + cx_size c + cx_page c < 9223372036854775808.

(* the unguarded entry points (known finding F6b) are not used on on-demand regions *)
Definition no_unguarded (c : case17x) : Prop :=
  cx_rkind c = 3 -> forall x, In x (cx_ops c) -> x_code x <> 9 /\ x_code x <> 10.

Lemma model_ops_ok m o g c : 
  os_mmap_ok o = true -> os_ioctl_ok o = true -> 0 < os_page o -> xr_base g mod os_page o = 0 ->
  xr_base g + xr_size g + os_page o <= 4294967296 * os_page o ->
  xr_base g + xr_size g + os_page o < 9223372036854775808 ->
  cx_size c = xr_size g -> cx_gbase c = xr_base g -> cx_page c = os_page o ->
  on_demand g = (cx_rkind c =? 3) ->
  forall xs ops st, xops_of xs = Some ops ->
    (cx_rkind c = 3 -> st = [] /\ forall x, In x xs -> x_code x <> 9 /\ x_code x <> 10) ->
    ops_ok c xs (fst (fst (model_ops m o g st ops))) = true /\
    snd (fst (model_ops m o g st ops)) = st /\ snd (model_ops m o g st ops) = false.
Proof.
  intros Hmm Hio Hps Hal H32 H63 Cs Cg Cp OD.
  induction xs as [|x xs IH]; intros ops st XO NU.
  - cbn [xops_of] in XO. inversion XO; subst. cbn. repeat split.
  - cbn [xops_of] in XO. destruct (xop_of x) as [op|] eqn:X; [|discriminate].
    destruct (xops_of xs) as [ops'|] eqn:XS; [|discriminate]. inversion XO; subst; clear XO.
    cbn [model_ops].
    destruct (N.eqb_spec (cx_rkind c) 3) as [RK|RK].
    + destruct (NU RK) as [-> NU'].
      destruct (NU' x (or_introl eq_refl)) as [N9 N10].
      destruct (op_ok_demand m o g Hmm Hio Hps Hal H32 H63 c Cs Cg Cp x op [] OD RK X N9 N10) as [NF [LV OK]].
      destruct (run_op m o g op) as [l res] eqn:R. cbn [fst snd] in NF, LV, OK.
      destruct res; try contradiction; rewrite LV;
        (specialize (IH ops' [] eq_refl (fun _ => conj eq_refl (fun y Hy => NU' y (or_intror Hy))));
         destruct (model_ops m o g [] ops') as [[rest stf] died]; cbn [fst snd] in *;
         destruct IH as [I1 [I2 I3]]; cbn [ops_ok length N.of_nat]; rewrite OK, I1; repeat split; assumption).
    + assert (D : on_demand g = false) by exact OD.
      destruct (op_ok_advance m o g c x op (N.of_nat (length st)) D RK Cs ltac:(unfold ISZ_MAX; lia) X) as [NF [LE OK]].
      destruct (run_op m o g op) as [l res] eqn:R. cbn [fst snd] in NF, LE, OK. subst l.
      cbn [live_after fold_left] in *.
      destruct res; try contradiction;
        (specialize (IH ops' st eq_refl (fun E => False_ind _ (RK E)));
         destruct (model_ops m o g st ops') as [[rest stf] died]; cbn [fst snd] in *;
         destruct IH as [I1 [I2 I3]]; cbn [ops_ok]; rewrite OK, I1; repeat split; assumption).
Qed.

(* ------------------------------------------------------------------ the region of a case *)
Lemma build17 c : wf17x c ->
  (forall g l, xen_from_range (cx_mode c) (os17 c) (range17 c) <> Val (Ok g, l)) \/
  exists g l0, xen_from_range (cx_mode c) (os17 c) (range17 c) = Val (Ok g, l0) /\
    xr_size g = cx_size c /\ xr_base g = cx_gbase c /\ on_demand g = (cx_rkind c =? 3) /\
    (cx_rkind c = 3 -> l0 = [] /\ xr_mapped g = None) /\
    exists ld, xen_drop (cx_mode c) (os17 c) g = Val ld /\ live_after (live_after [] l0) ld = [].
Proof.
  intros [RK [Hps [Hal [H32 H63]]]].
  pose proof W64_big as WB.
  destruct (pages_spec (cx_mode c) (cx_page c) (cx_size c) Hps ltac:(lia)) as [num [PG [P1 P2]]].
  assert (K : cx_rkind c = 0 \/ cx_rkind c = 1 \/ cx_rkind c = 2 \/ cx_rkind c = 3) by lia.
  unfold xen_from_range, range17.
  destruct K as [K|[K|[K|K]]]; rewrite K; cbn [x_prot x_flags x_size x_file x_addr x_mflags x_mdata].
  - (* unix *)
    right. change (negb (N.land (N.lor MAP_ANONYMOUS MAP_PRIVATE) MAP_FIXED =? 0)) with false. cbn iota.
    unfold xen_new. cbn [x_mflags]. change (from_bits 0) with (Some 0). cbn iota.
    change (negb (is_valid 0)) with false. change (is_foreign 0) with false. change (is_grant 0) with false. cbn iota.
    unfold xunix_new. cbn [x_file x_prot x_flags x_size ok_or]. unfold mmap_unix. cbn [os17 os_mmap_ok bind app ok_or].
    eexists. eexists. split; [reflexivity|]. cbn [xr_size xr_base xr_mflags xr_mapped xr_kind].
    split; [reflexivity|]. split; [reflexivity|]. split; [reflexivity|]. split; [discriminate|].
    unfold xen_drop. cbn [xr_mapped xr_kind]. eexists. split; reflexivity.
  - (* foreign *)
    right. cbn iota.
    unfold xen_new. cbn [x_mflags]. change (from_bits 1) with (Some 1). cbn iota.
    change (negb (is_valid 1)) with false. change (is_foreign 1) with true. cbn iota.
    unfold xforeign_new. cbn [x_file x_prot x_flags x_size x_addr ok_or os17 os_page].
    change (validate_file (Some 0)) with (@Ok N 0). cbn iota.
    rewrite PG. cbn [bind ok_or]. unfold mmap_unix. cbn [os_mmap_ok os_ioctl_ok].
    unfold pdiv. destruct (N.eqb_spec (cx_page c) 0) as [Z|_]; [lia|]. cbn [bind ok_or].
    eexists. eexists. split; [reflexivity|]. cbn [xr_size xr_base xr_mflags xr_mapped xr_kind].
    split; [reflexivity|]. split; [reflexivity|]. split; [reflexivity|]. split; [discriminate|].
    unfold xen_drop. cbn [xr_mapped xr_kind]. eexists. split; reflexivity.
  - (* grant, mapped in advance *)
    cbn iota.
    unfold xen_new. cbn [x_mflags]. change (from_bits 2) with (Some 2). cbn iota.
    change (negb (is_valid 2)) with false. change (is_foreign 2) with false. change (is_grant 2) with true. cbn iota.
    unfold xgrant_new. cbn [x_file x_prot x_flags x_size x_addr ok_or os17 os_page].
    change (validate_file (Some 0)) with (@Ok N 0). cbn iota.
    change (mmap_in_advance 2) with true. cbn iota.
    unfold mmap_range. cbn [os17 os_page os_ioctl_ok os_mmap_ok x_addr x_size]. rewrite PG. cbn [bind].
    destruct (grant_ref (cx_page c) (cx_gbase c)) as [q| |]; cbn [bind]; try (left; intros; discriminate).
    destruct (0 <? num mod 4294967296); cbn [andb].
    + right. unfold mmap_unix. cbn [os_mmap_ok bind ok_or].
      eexists. eexists. split; [reflexivity|]. cbn [xr_size xr_base xr_mflags xr_mapped xr_kind].
      split; [reflexivity|]. split; [reflexivity|]. split; [reflexivity|]. split; [discriminate|].
      unfold xen_drop, unmap_range. cbn [xr_mapped xr_kind xr_size os17 os_page]. rewrite PG. cbn [bind].
      eexists. split; [reflexivity|]. cbn. rewrite !N.eqb_refl. reflexivity.
    + left. intros; discriminate.
  - (* grant, mapped on demand *)
    right. cbn iota.
    unfold xen_new. cbn [x_mflags]. change (from_bits 10) with (Some 10). cbn iota.
    change (negb (is_valid 10)) with false. change (is_foreign 10) with false. change (is_grant 10) with true. cbn iota.
    unfold xgrant_new. cbn [x_file x_prot x_flags x_size x_addr ok_or os17 os_page].
    change (validate_file (Some 0)) with (@Ok N 0). cbn iota.
    change (mmap_in_advance 10) with false. cbn [bind ok_or].
    eexists. eexists. split; [reflexivity|]. cbn [xr_size xr_base xr_mflags xr_mapped xr_kind].
    split; [reflexivity|]. split; [reflexivity|]. split; [reflexivity|]. split; [intros _; split; reflexivity|].
    unfold xen_drop. cbn [xr_mapped]. eexists. split; reflexivity.
Qed.

(* ------------------------------------------------------------------ all histories *)
Lemma C17x_model_ok_lemma : forall c ops, wf17x c -> xops_of (cx_ops c) = Some ops -> no_unguarded c ->
  ok_C17x c (run_C17x c ops) = true.
Proof.
  intros c ops W XO NU. pose proof W as [RK [Hps [Hal [H32 H63]]]].
  unfold run_C17x.
  destruct (build17 c W) as [NB|[g [l0 [E [S1 [S2 [OD [D3 [ld [DR LE]]]]]]]]]].
  - destruct (xen_from_range (cx_mode c) (os17 c) (range17 c)) as [[[g|e] l]| |]; try reflexivity.
    exfalso. eapply NB. reflexivity.
  - rewrite E.
    assert (ST : cx_rkind c = 3 -> live_after [] l0 = []).
    { intros K. destruct (D3 K) as [-> _]. reflexivity. }
    destruct (model_ops_ok (cx_mode c) (os17 c) g c eq_refl eq_refl Hps
                ltac:(rewrite S2; exact Hal) ltac:(rewrite S1, S2; exact H32) ltac:(rewrite S1, S2; exact H63)
                (eq_sym S1) (eq_sym S2) eq_refl OD (cx_ops c) ops (live_after [] l0) XO
                (fun K => conj (ST K) (NU K))) as [I1 [I2 I3]].
    destruct (model_ops (cx_mode c) (os17 c) g (live_after [] l0) ops) as [[obs st] died].
    cbn [fst snd] in I1, I2, I3. subst st died.
    rewrite DR, LE.
    unfold ok_C17x. cbn [ox_built ox_ops ox_mapped_alive ox_mapped_end ox_live_end length N.of_nat].
    change (1 =? 1) with true. cbn iota. rewrite I1. cbn [andb].
    change (0 =? 0) with true. rewrite !andb_true_r.
    destruct (N.eqb_spec (cx_rkind c) 3) as [K|K]; [|reflexivity].
    destruct (D3 K) as [_ ->]. destruct (xr_kind g); reflexivity.
Qed.
