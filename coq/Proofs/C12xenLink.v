(* C12 on the Xen flavour: (1) the ownership machine's account of what a region owns and what its Drop does
   (Impl/OwnerXen.v: y_owned / y_gnt at creation, ydrop_region) agrees with the transcription of the constructors and
   Drop implementations in Impl/Xen.v (xen_from_range, xen_drop) for every region the machine can create - a FINITE
   domain (kind < 4, at most 100 regions, slot < 16, two build profiles: 12800 combinations), checked by evaluation;
   (2) the live / gnt components of the model observation are what the checker demands, for all histories. *)
From VM Require Import Prelude.MachInt Prelude.Outcome Prelude.Tok Impl.Owner Impl.MmapBuild Impl.Xen Impl.OwnerXen
  Spec.C12 Spec.C12xen Suite.C12xen Proofs.C12 Proofs.C12xen.
From VM Require Spec.C17 Suite.C17.

Definition evtoks (l : list ev) : list N := flat_map Suite.C17.enc_ev (Suite.C17.dev_evs l).
Definition munmaps (l : list ev) : nat :=
  length (filter (fun e => match e with EvMunmap _ => true | _ => false end) l).

(* for the region number id of kind kind in slot slot: the constructor succeeds; the region takes windows on demand
   iff kind = 3; it holds a mapping of its own iff kind <> 3 (= y_owned, y_live at creation); the device sees exactly
   one map request, for the region's whole range, iff kind = 2 (= y_gnt at creation); its Drop issues exactly one munmap
   iff kind <> 3 and exactly one unmap request, with the index and count of the map request, iff kind = 2
   (= ydrop_region) *)
Definition ytab_ok (m : mode) (kind id slot : N) : bool :=
  match ybuild m kind id slot with
  | Val (Ok g, l0) =>
      let pg := (ysize id + 4095) / 4096 in
      Bool.eqb (on_demand g) (kind =? 3)
      && Bool.eqb (match xr_mapped g with Some _ => true | None => false end) (negb (kind =? 3))
      && (xr_size g =? ysize id) && (xr_base g =? ygaddr id slot)
      && list_eqb (evtoks l0) (if kind =? 2 then [1; ygaddr id slot / 4096; pg; ygaddr id slot] else [])
      && match xen_drop m (yos m) g with
         | Val ld => list_eqb (evtoks ld) (if kind =? 2 then [2; ygaddr id slot; pg] else [])
                     && Nat.eqb (munmaps ld) (if kind =? 3 then 0 else 1)
         | _ => false end
  | _ => false end.

Definition nrange (n : nat) : list N := map N.of_nat (seq 0 n).
Lemma in_nrange x n : x < N.of_nat n -> In x (nrange n).
Proof.
  intros H. unfold nrange. apply in_map_iff. exists (N.to_nat x). split; [apply N2Nat.id|]. apply in_seq. lia.
Qed.

Definition ytab_sweep : bool :=
  forallb (fun m => forallb (fun kind => forallb (fun id => forallb (fun slot => ytab_ok m kind id slot)
    (nrange 16)) (nrange 100)) (nrange 4)) [Debug; Release].
Lemma ytab_sweep_true : ytab_sweep = true.
Proof. vm_compute. reflexivity. Qed.

Lemma objects_match_Xen_lemma : forall m kind id slot, kind < 4 -> id < 100 -> slot < 16 -> ytab_ok m kind id slot = true.
Proof.
  intros m kind id slot K I S. pose proof ytab_sweep_true as T. unfold ytab_sweep in T.
  rewrite forallb_forall in T. assert (Hm : In m [Debug; Release]) by (destruct m; cbn; tauto).
  specialize (T m Hm). rewrite forallb_forall in T. specialize (T kind (in_nrange kind 4 K)).
  rewrite forallb_forall in T. specialize (T id (in_nrange id 100 I)).
  rewrite forallb_forall in T. exact (T slot (in_nrange slot 16 S)).
Qed.

(* the live and gnt components of every observation the machine produces are the ones the checker demands, with
   "reachable" read through the owner count (C12x_strong_counts, yowners_pos_iff_reaches_lemma) *)
Lemma ymodel_live_lemma : forall m l,
  ymask_live (yrun m l) = mask_upto (N.to_nat (ynreg (yrun m l)))
     (fun r => negb (y_kind (yreg (yrun m l) r) =? 3) && negb (Nat.eqb (yowners r (yrun m l)) 0)) /\
  ymask_gnt (yrun m l) = mask_upto (N.to_nat (ynreg (yrun m l)))
     (fun r => (y_kind (yreg (yrun m l) r) =? 2) && negb (Nat.eqb (yowners r (yrun m l)) 0)).
Proof.
  intros m l. unfold ymask_live, ymask_gnt.
  assert (P : forall r, r < ynreg (yrun m l) ->
     y_owned (yreg (yrun m l) r) && y_live (yreg (yrun m l) r)
       = negb (y_kind (yreg (yrun m l) r) =? 3) && negb (Nat.eqb (yowners r (yrun m l)) 0) /\
     y_gnt (yreg (yrun m l) r) = (y_kind (yreg (yrun m l) r) =? 2) && negb (Nat.eqb (yowners r (yrun m l)) 0)).
  { intros r Hr. destruct (YK_of m l r Hr) as (_ & _ & C & D & _). rewrite D.
    pose proof (YJ_kind _ (yrun_Inv m l) r Hr) as J. rewrite J in *.
    destruct (N.eqb_spec (y_kind (yreg (yrun m l) r)) 3) as [E|E]; cbn [negb andb] in *.
    - destruct C as [C1 _]. rewrite C1, E. cbn. split; reflexivity.
    - destruct C as [(C1 & _ & C3)|(C1 & _ & C3)]; rewrite C1.
      + destruct (Nat.eqb_spec (yowners r (yrun m l)) 0); [lia|]. cbn. rewrite andb_true_r. split; reflexivity.
      + rewrite C3. cbn. rewrite !andb_false_r. split; reflexivity. }
  split; apply mask_upto_ext; intros r Hr; rewrite N2Nat.id in Hr; apply (P r Hr).
Qed.
