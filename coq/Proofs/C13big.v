(* C13big proofs: the LENGTH-LEVEL model of the stream adapters (Suite/C13big.v).
     A. the length-level loops: unfolding, fuel monotonicity, one read(2) / write(2) under a script,
     B. std's provided loop terminates within b_fuel on every script; the adapter's provided exact loop
        (retry_eintr! inside) = std's loop: same result, same final stream, same number of bytes moved,
     C. one step of every kind under wf13big, the checker on the model, termination,
     D. LINK to the byte-list model of Impl/Io.v (the one C13 / C13fd run), for all sizes: one call of the
        scripted descriptor oracle at the level of lengths, lock-step simulation of retry_eintr / exact_loop,
        in-memory kinds, descriptor kinds,
     E. the same for the std oracles (Impl/Std.v, Spec/C13fd.v). *)
From VM Require Import Prelude.MachInt Prelude.Outcome Prelude.Tok Prelude.C1314List Impl.Io Impl.Std Impl.IoGuest Spec.C13 Suite.C13 Spec.C13fd Suite.C13fd Spec.C13big Suite.C13big Proofs.C13 Proofs.C13fd.

(* ------------------------------------------------------------------ A. the length-level loops *)
Definition bcallT := bfd -> N -> outcome (bfd * res N).
Definition zerr_of (rd : bool) : ioerr := if rd then EUnexpectedEof else EWriteZero.

Definition b_body (zerr : ioerr) (fi fo : nat) (call : bcallT) (rem : N) (x : bfd * res N) : outcome (bfd * res unit) :=
  match snd x with
  | Ok n => if n =? 0 then Val (fst x, Err (VIo zerr))
            else if rem <? n then Val (fst x, Err VOutOfBounds)
            else b_exact_loop zerr fi fo call (fst x) (rem - n)
  | Err e => Val (fst x, Err e)
  end.
Lemma b_exact_loop_unfold zerr fi fo call f rem :
  b_exact_loop zerr fi (S fo) call f rem =
  if rem =? 0 then Val (f, Ok tt) else let* x := b_retry fi call f rem in b_body zerr fi fo call rem x.
Proof. reflexivity. Qed.

Lemma b_retry_mono (call : bcallT) : forall f1 f2 f len z, (f1 <= f2)%nat ->
  b_retry f1 call f len = Val z -> b_retry f2 call f len = Val z.
Proof.
  induction f1 as [|f1 IH]; intros f2 f len z Hle H; [discriminate|].
  destruct f2 as [|f2]; [lia|]. cbn [b_retry] in *.
  destruct (call f len) as [x| |]; cbn [bind] in *; try discriminate.
  destruct (snd x) as [n|[[]| |]]; try exact H. apply (IH f2); [lia|exact H].
Qed.
Lemma b_exact_loop_mono zerr (call : bcallT) : forall fo1 fo2 fi1 fi2 f rem z, (fi1 <= fi2)%nat -> (fo1 <= fo2)%nat ->
  b_exact_loop zerr fi1 fo1 call f rem = Val z -> b_exact_loop zerr fi2 fo2 call f rem = Val z.
Proof.
  induction fo1 as [|fo1 IH]; intros fo2 fi1 fi2 f rem z Hi Ho H; [discriminate|].
  destruct fo2 as [|fo2]; [lia|]. rewrite b_exact_loop_unfold in *.
  destruct (rem =? 0); [exact H|].
  destruct (b_retry fi1 call f rem) as [x| |] eqn:E; cbn [bind] in H; try discriminate.
  rewrite (b_retry_mono call fi1 fi2 _ _ _ Hi E). cbn [bind].
  unfold b_body in *. destruct (snd x) as [n|e]; [|exact H].
  destruct (n =? 0); [exact H|]. destruct (rem <? n); [exact H|].
  apply (IH fo2 fi1 fi2); [exact Hi|lia|exact H].
Qed.
Lemma b_body_mono zerr (call : bcallT) fo fi1 fi2 rem x z : (fi1 <= fi2)%nat ->
  b_body zerr fi1 fo call rem x = Val z -> b_body zerr fi2 fo call rem x = Val z.
Proof.
  intros Hle H. unfold b_body in *. destruct (snd x) as [n|e]; [|exact H].
  destruct (n =? 0); [exact H|]. destruct (rem <? n); [exact H|].
  apply (b_exact_loop_mono zerr call fo fo fi1 fi2); [exact Hle|lia|exact H].
Qed.

Lemma b_std_loop_mono k rd : forall f1 f2 st sc want moved z, (f1 <= f2)%nat ->
  b_std_loop f1 k rd st sc want moved = Val z -> b_std_loop f2 k rd st sc want moved = Val z.
Proof.
  induction f1 as [|f1 IH]; intros f2 st sc want moved z Hle H; [discriminate|].
  destruct f2 as [|f2]; [lia|]. cbn [b_std_loop] in *.
  destruct (want =? 0); [exact H|].
  destruct (b_sys sc want (b_cap k rd st want)) as [n|e].
  - destruct (n =? 0); [exact H|]. apply (IH f2); [lia|exact H].
  - destruct e; try exact H. apply (IH f2); [lia|exact H].
Qed.

(* one read(2) / write(2) under a script never moves more than asked for / than there is *)
Lemma b_sys_bound sc len cap n : b_sys sc len cap = inl n -> n <= len /\ n <= cap.
Proof. destruct sc as [|[|j| | |] t]; cbn [b_sys]; intros H; inversion H; subst; lia. Qed.

Lemma b_call_fd md k rd f len : b_fd k = true ->
  b_call md k rd f len =
  match b_sys (h_script f) len (b_cap k rd (h_st f) len) with
  | inl n => Val (h_next f (b_move k rd (h_st f) n), Ok n)
  | inr e => Val (h_next f (h_st f), Err (VIo e))
  end.
Proof. destruct k; intros H; try discriminate; reflexivity. Qed.

Lemma b_avail_took k st n : b_fd k = true -> b_avail k (b_took k st n) = b_avail k st - n.
Proof. destruct k; intros H; try discriminate; cbn [b_avail b_took b_len b_pos]; lia. Qed.

(* the stream advanced by exactly w bytes (equational: N's subtraction truncates) *)
Definition b_adv (k : bkind) (rd : bool) (st st' : bst) (w : N) : Prop :=
  if rd then match k with BQueue => b_len st = b_len st' + w | _ => b_pos st' = b_pos st + w end
  else match k with
       | BQueue => b_out st' = b_out st + w
       | BVecW => b_len st' = b_len st + w
       | _ => b_pos st' = b_pos st + w
       end.
Lemma b_adv_moved k rd st st' w : b_adv k rd st st' w -> b_moved k rd st st' = w.
Proof. unfold b_adv, b_moved. destruct rd, k; intros H; lia. Qed.
Lemma b_adv_refl k rd st : b_adv k rd st st 0.
Proof. unfold b_adv. destruct rd, k; lia. Qed.
Lemma b_adv_trans k rd st st1 st2 a b : b_adv k rd st st1 a -> b_adv k rd st1 st2 b -> b_adv k rd st st2 (a + b).
Proof. unfold b_adv. destruct rd, k; intros H1 H2; lia. Qed.
Lemma b_adv_move k rd st n len : b_fd k = true -> n <= b_cap k rd st len -> b_adv k rd st (b_move k rd st n) n.
Proof.
  intros Hk Hn. unfold b_adv, b_move, b_cap in *. destruct rd, k; try discriminate;
    cbn [b_took b_gave b_avail b_len b_pos b_out] in *; try lia.
  destruct (N.eqb_spec n 0); cbn [b_pos]; lia.
Qed.

(* ------------------------------------------------------------------ B. std's loop; the adapter's loop = std's loop *)
Lemma b_std_loop_terminates k rd : b_fd k = true -> forall sc fs st want moved, (length sc + 2 <= fs)%nat ->
  exists z, b_std_loop fs k rd st sc want moved = Val z.
Proof.
  intros Hk. induction sc as [|x t IH]; intros fs st want moved Hf.
  - (* the script is over: every call is Full; two rounds *)
    destruct fs as [|[|fs]]; cbn [length] in Hf; try lia. cbn [b_std_loop tl b_sys].
    destruct (N.eqb_spec want 0) as [|Hw]; [eauto|].
    set (n := N.min want (b_cap k rd st want)).
    destruct (N.eqb_spec n 0) as [|Hn]; [eauto|].
    destruct (N.eqb_spec (want - n) 0) as [|Hw2]; [eauto|].
    destruct (N.eqb_spec (N.min (want - n) (b_cap k rd (b_move k rd st n) (want - n))) 0) as [|Hn2]; [eauto|].
    exfalso. apply Hn2. unfold n in *. destruct rd; cbn [b_cap b_move] in *.
    + rewrite b_avail_took by exact Hk. lia.
    + lia.
  - destruct fs as [|fs]; cbn [length] in Hf; [lia|]. cbn [b_std_loop tl].
    destruct (want =? 0); [eauto|].
    destruct (b_sys (x :: t) want (b_cap k rd st want)) as [n|e].
    + destruct (n =? 0); [eauto|]. apply IH. lia.
    + destruct e; eauto. apply IH. lia.
Qed.

Lemma rc_unit_zerr rd : rc_unit (@Err unit (VIo (zerr_of rd))) = if rd then (2, 0) else (3, 0).
Proof. destruct rd; reflexivity. Qed.

Lemma b_loop_sim md k rd : b_fd k = true -> forall fs st sc want moved ost rc mv,
  b_std_loop fs k rd st sc want moved = Val (ost, rc, mv) ->
  forall fi fo c, (fs <= fi)%nat -> (fs <= fo)%nat ->
  exists f' r, b_exact_loop (zerr_of rd) fi fo (b_call md k rd) {| h_st := st; h_script := sc; h_calls := c |} want
               = Val (f', r)
    /\ rc = rc_unit r
    /\ (r = Ok tt -> ost = Some (h_st f') /\ mv = moved + want /\ b_adv k rd st (h_st f') want).
Proof.
  intros Hk. induction fs as [|fs IH]; intros st sc want moved ost rc mv Hstd fi fo c Hfi Hfo; [discriminate|].
  destruct fo as [|fo]; [lia|]. destruct fi as [|fi]; [lia|].
  cbn [b_std_loop] in Hstd. rewrite b_exact_loop_unfold.
  destruct (N.eqb_spec want 0) as [Hz|Hz].
  - inversion Hstd; subst. eexists _, _. split; [reflexivity|]. split; [reflexivity|]. intros _.
    cbn [h_st]. split; [reflexivity|]. split; [lia|]. apply b_adv_refl.
  - cbn [b_retry]. rewrite (b_call_fd md k rd _ want Hk). cbn [h_script h_st].
    destruct (b_sys sc want (b_cap k rd st want)) as [n|e] eqn:Es.
    + destruct (b_sys_bound _ _ _ _ Es) as [Hn1 Hn2]. cbn [bind snd fst]. unfold b_body. cbn [snd fst].
      destruct (N.eqb_spec n 0) as [Hn0|Hn0].
      * inversion Hstd; subst. eexists _, _. split; [reflexivity|]. split; [symmetry; apply rc_unit_zerr|].
        discriminate.
      * destruct (N.ltb_spec want n); [lia|].
        destruct (IH _ _ _ _ _ _ _ Hstd (S fi) fo (c + 1)) as (f' & r & He & Hrc & Hok); [lia|lia|].
        exists f', r. split; [exact He|]. split; [exact Hrc|]. intros Hr.
        destruct (Hok Hr) as (Ho & Hm & Ha). split; [exact Ho|]. split; [lia|].
        pose proof (b_adv_trans k rd st _ _ n (want - n) (b_adv_move k rd st n want Hk Hn2) Ha) as Ht.
        replace (n + (want - n)) with want in Ht by lia. exact Ht.
    + destruct e.
      * (* EINTR: std goes round its loop, the adapter round retry_eintr! *)
        cbn [bind snd fst].
        destruct (IH _ _ _ _ _ _ _ Hstd fi (S fo) (c + 1)) as (f' & r & He & Hrest); [lia|lia|].
        exists f', r. split; [|exact Hrest].
        rewrite b_exact_loop_unfold in He. destruct (N.eqb_spec want 0); [contradiction|].
        unfold h_next at 1. cbn [h_script h_calls].
        destruct (b_retry fi (b_call md k rd) {| h_st := st; h_script := tl sc; h_calls := c + 1 |} want)
          as [x| |] eqn:Er; cbn [bind] in He; try discriminate.
        cbn [bind]. eapply b_body_mono; [|exact He]. lia.
      * inversion Hstd; subst. cbn [bind snd fst b_body]. unfold b_body. cbn [snd fst].
        eexists _, _. split; [reflexivity|]. split; [reflexivity|]. discriminate.
      * inversion Hstd; subst. cbn [bind snd fst b_body]. unfold b_body. cbn [snd fst].
        eexists _, _. split; [reflexivity|]. split; [reflexivity|]. discriminate.
      * inversion Hstd; subst. cbn [bind snd fst b_body]. unfold b_body. cbn [snd fst].
        eexists _, _. split; [reflexivity|]. split; [reflexivity|]. discriminate.
Qed.

(* the provided exact forms of a descriptor: total, and equal to std's loop *)
Lemma b_exact_fd_eq_std md k rd : b_fd k = true -> forall st sc c want fi fo,
  (length sc + 2 <= fi)%nat -> (length sc + 2 <= fo)%nat ->
  exists f' r ost mv,
    b_exact_loop (zerr_of rd) fi fo (b_call md k rd) {| h_st := st; h_script := sc; h_calls := c |} want = Val (f', r)
    /\ b_std_loop (b_fuel sc) k rd st sc want 0 = Val (ost, rc_unit r, mv)
    /\ (r = Ok tt -> ost = Some (h_st f') /\ mv = want /\ b_adv k rd st (h_st f') want).
Proof.
  intros Hk st sc c want fi fo Hfi Hfo.
  destruct (b_std_loop_terminates k rd Hk sc (length sc + 2) st want 0) as ([[ost rc] mv] & Hstd); [lia|].
  destruct (b_loop_sim md k rd Hk _ _ _ _ _ _ _ _ Hstd fi fo c Hfi Hfo) as (f' & r & He & Hrc & Hok).
  exists f', r, ost, mv. split; [exact He|]. split.
  - rewrite <- Hrc. eapply b_std_loop_mono; [|exact Hstd]. unfold b_fuel. lia.
  - intros Hr. destruct (Hok Hr) as (A & B & C). split; [exact A|]. split; [lia|exact C].
Qed.

(* ------------------------------------------------------------------ C. one step under wf13big; the checker *)
Lemma b_exact_fd md k rd f len : b_fd k = true ->
  b_exact md k rd f len = b_exact_loop (zerr_of rd) (b_fuel (h_script f)) (b_fuel (h_script f)) (b_call md k rd) f len.
Proof. destruct k; intros H; try discriminate; reflexivity. Qed.
Lemma rc_good_unit_err (e : verr) : rc_good (rc_unit (@Err unit e)) = false.
Proof. destruct e as [[]| |]; reflexivity. Qed.
Lemma rc_good_ioerr (e : ioerr) : rc_good (rc_ioerr e) = false.
Proof. destruct e; reflexivity. Qed.
Lemma bfd_eta f : {| h_st := h_st f; h_script := h_script f; h_calls := h_calls f |} = f.
Proof. destruct f; reflexivity. Qed.

(* adapter and std on one case: same result; after a success the same stream, which advanced by [moved] *)
Definition BigAgree (c : case13big) : Prop :=
  exists f rc ost moved,
    b_vm_step c = Val (f, rc)
    /\ b_std_step (g_kind c) (g_init c) (g_script c) (g_op c) (g_blen c) = Val (ost, rc, moved)
    /\ (rc_good rc = true ->
          ost = Some (h_st f) /\ b_adv (g_kind c) (b_is_read (g_op c)) (g_init c) (h_st f) moved).

Lemma big_agree_fd md k st o blen sc : b_fd k = true ->
  BigAgree {| g_mode := md; g_kind := k; g_init := st; g_op := o; g_blen := blen; g_script := sc |}.
Proof.
  intros Hk. unfold BigAgree, b_vm_step, b_std_step. cbn [g_mode g_kind g_init g_op g_blen g_script]. rewrite Hk.
  destruct o; cbn [b_is_read].
  - rewrite (b_call_fd md k true _ blen Hk). cbn [h_script h_st].
    destruct (b_sys sc blen (b_cap k true st blen)) as [n|e] eqn:Es; cbn [bind fst snd rc_n rc_verr].
    + eexists _, _, _, _. split; [reflexivity|]. split; [reflexivity|]. intros _. cbn [h_next h_st].
      split; [reflexivity|]. eapply b_adv_move; [exact Hk|]. apply (b_sys_bound _ _ _ _ Es).
    + eexists _, _, _, _. split; [reflexivity|]. split; [reflexivity|]. rewrite rc_good_ioerr. discriminate.
  - rewrite (b_exact_fd md k true _ blen Hk). cbn [h_script].
    destruct (b_exact_fd_eq_std md k true Hk st sc 0 blen (b_fuel sc) (b_fuel sc))
      as (f' & r & ost & mv & He & Hs & Hok); [unfold b_fuel; lia|unfold b_fuel; lia|].
    rewrite He. cbn [bind fst snd].
    exists f', (rc_unit r), ost, mv. split; [reflexivity|]. split; [exact Hs|]. intros Hg.
    destruct r as [[]|e]; [|rewrite rc_good_unit_err in Hg; discriminate].
    destruct (Hok eq_refl) as (A & B & C). subst mv. split; assumption.
  - rewrite (b_call_fd md k false _ blen Hk). cbn [h_script h_st].
    destruct (b_sys sc blen (b_cap k false st blen)) as [n|e] eqn:Es; cbn [bind fst snd rc_n rc_verr].
    + eexists _, _, _, _. split; [reflexivity|]. split; [reflexivity|]. intros _. cbn [h_next h_st].
      split; [reflexivity|]. eapply b_adv_move; [exact Hk|]. apply (b_sys_bound _ _ _ _ Es).
    + eexists _, _, _, _. split; [reflexivity|]. split; [reflexivity|]. rewrite rc_good_ioerr. discriminate.
  - rewrite (b_exact_fd md k false _ blen Hk). cbn [h_script].
    destruct (b_exact_fd_eq_std md k false Hk st sc 0 blen (b_fuel sc) (b_fuel sc))
      as (f' & r & ost & mv & He & Hs & Hok); [unfold b_fuel; lia|unfold b_fuel; lia|].
    rewrite He. cbn [bind fst snd].
    exists f', (rc_unit r), ost, mv. split; [reflexivity|]. split; [exact Hs|]. intros Hg.
    destruct r as [[]|e]; [|rewrite rc_good_unit_err in Hg; discriminate].
    destruct (Hok eq_refl) as (A & B & C). subst mv. split; assumption.
Qed.

Lemma bst_add0 st : {| b_len := b_len st + 0; b_pos := b_pos st; b_out := b_out st |} = st.
Proof. destruct st as [l p o]; cbn [b_len b_pos b_out]. rewrite N.add_0_r. reflexivity. Qed.

Lemma big_agree_mem kd c : wf13big kd c = true -> b_fd (g_kind c) = false -> BigAgree c.
Proof.
  intros H Hk. destruct c as [md k st o blen sc]. unfold wf13big in H.
  cbn [g_mode g_kind g_init g_op g_blen g_script] in *.
  apply andb_true_iff in H; destruct H as [H _].
  apply andb_true_iff in H; destruct H as [H _].
  apply andb_true_iff in H; destruct H as [H _].
  apply andb_true_iff in H; destruct H as [H Hpos].
  apply andb_true_iff in H; destruct H as [H _].
  apply andb_true_iff in H; destruct H as [H Hbl].
  apply andb_true_iff in H; destruct H as [Hal Hlen].
  apply N.leb_le in Hlen, Hbl. unfold MAXB in *.
  unfold BigAgree, b_vm_step, b_std_step. cbn [g_mode g_kind g_init g_op g_blen g_script].
  destruct k; try discriminate Hk; destruct o; cbn [b_allowed b_is_read negb] in Hal; try discriminate Hal;
    cbn [b_is_read b_fd]; lazy iota in Hpos.
  - (* &[u8] read *)
    cbn [b_call bind fst snd rc_n h_st].
    eexists _, _, _, _. split; [reflexivity|]. split; [reflexivity|]. intros _. cbn [h_next h_st b_move].
    split; [reflexivity|]. unfold b_adv. cbn [b_took b_pos]. reflexivity.
  - (* &[u8] read_exact *)
    cbn [b_exact h_st].
    destruct (N.ltb_spec (b_avail BSliceR st) blen) as [Hlt|Hge]; destruct (N.leb_spec blen (b_avail BSliceR st)); try lia.
    + eexists _, _, _, _. split; [reflexivity|]. split; [reflexivity|]. discriminate.
    + cbn [b_call bind fst snd rc_unit h_st]. replace (N.min blen (b_avail BSliceR st)) with blen by lia.
      eexists _, _, _, _. split; [reflexivity|]. split; [reflexivity|]. intros _. cbn [h_next h_st].
      split; [reflexivity|]. unfold b_adv. cbn [b_took b_pos]. reflexivity.
  - (* Vec write *)
    cbn [b_call h_st]. rewrite padd_Val by (rewrite W64_val; lia). cbn [bind fst snd rc_n].
    eexists _, _, _, _. split; [reflexivity|]. split; [reflexivity|]. intros _. cbn [h_next h_st b_move b_gave].
    split; [reflexivity|]. unfold b_adv. cbn [b_len]. reflexivity.
  - (* Vec write_all: the provided loop, one round *)
    cbn [b_exact h_script]. unfold b_fuel. replace (length sc + 4)%nat with (S (S (length sc + 2))) by lia.
    rewrite b_exact_loop_unfold. destruct (N.eqb_spec blen 0) as [Hz|Hz].
    + subst blen. eexists _, _, _, _. split; [reflexivity|]. split; [reflexivity|]. intros _. cbn [fst snd h_st b_gave].
      rewrite bst_add0. split; [reflexivity|]. apply b_adv_refl.
    + cbn [b_retry b_call h_st]. rewrite padd_Val by (rewrite W64_val; lia). cbn [bind snd fst].
      unfold b_body. cbn [snd fst]. destruct (N.eqb_spec blen 0); [contradiction|].
      destruct (N.ltb_spec blen blen); [lia|]. rewrite N.sub_diag, b_exact_loop_unfold. cbn [N.eqb bind fst snd rc_unit].
      eexists _, _, _, _. split; [reflexivity|]. split; [reflexivity|]. intros _. cbn [h_next h_st b_gave].
      split; [reflexivity|]. unfold b_adv. cbn [b_len]. reflexivity.
  - (* Cursor read *)
    apply N.ltb_lt in Hpos. cbn [b_call h_st].
    rewrite padd_Val by (cbn [b_avail]; rewrite W64_val in *; lia). cbn [bind fst snd rc_n].
    eexists _, _, _, _. split; [reflexivity|]. split; [reflexivity|]. intros _. cbn [h_next h_st b_move b_took].
    split; [reflexivity|]. unfold b_adv. cbn [b_pos]. reflexivity.
  - (* Cursor read_exact *)
    apply N.ltb_lt in Hpos. cbn [b_exact h_st].
    destruct (N.ltb_spec (b_avail BCurR st) blen) as [Hlt|Hge]; destruct (N.leb_spec blen (b_avail BCurR st)); try lia.
    + eexists _, _, _, _. split; [reflexivity|]. split; [reflexivity|]. discriminate.
    + rewrite padd_Val by (cbn [b_avail] in *; rewrite W64_val in *; lia). cbn [bind fst snd rc_unit].
      eexists _, _, _, _. split; [reflexivity|]. split; [reflexivity|]. intros _. cbn [h_next h_st b_took].
      split; [reflexivity|]. unfold b_adv. cbn [b_pos]. reflexivity.
Qed.

Lemma big_agree kd c : wf13big kd c = true -> BigAgree c.
Proof.
  intros H. destruct (b_fd (g_kind c)) eqn:Hk.
  - destruct c as [md k st o blen sc]. apply big_agree_fd. exact Hk.
  - eapply big_agree_mem; eassumption.
Qed.

Lemma C13big_terminates_lemma : forall kd c, wf13big kd c = true -> exists f rc, b_vm_step c = Val (f, rc).
Proof. intros kd c H. destruct (big_agree kd c H) as (f & rc & ost & mv & Hv & _). eauto. Qed.

Lemma wf13big_allowed kd c : wf13big kd c = true -> b_allowed (g_kind c) (g_op c) = true.
Proof.
  unfold wf13big. intros H.
  repeat (apply andb_true_iff in H; destruct H as [H _]). exact H.
Qed.

Lemma C13big_model_ok_lemma : forall kd c, wf13big kd c = true -> ok_C13big c (run_C13big c) = true.
Proof.
  intros kd c H. destruct (big_agree kd c H) as (f & rc & ost & mv & Hv & Hs & Hg).
  unfold ok_C13big, run_C13big. rewrite (wf13big_allowed kd c H), Hv, Hs. lazy beta iota zeta.
  destruct (rc_good rc) eqn:Eg.
  - destruct (Hg eq_refl) as [-> Ha]. apply b_adv_moved in Ha. lazy beta iota zeta.
    cbn [v_rc v_moved v_d1 v_d2 v_margins v_rest v_apos v_slen u_rc u_moved u_d1 u_apos u_slen andb].
    unfold rc_eq. rewrite Eg, Ha, !N.eqb_refl. reflexivity.
  - destruct ost as [st'|]; lazy beta iota zeta;
      cbn [v_rc v_moved v_d1 v_d2 v_margins v_rest v_apos v_slen u_rc u_moved u_d1 u_apos u_slen andb];
      unfold rc_eq; rewrite Eg, !N.eqb_refl; reflexivity.
Qed.

(* ------------------------------------------------------------------ D. LINK to the byte-list model (Impl/Io.v) *)
Definition abs_st (st : sstate) : bst :=
  {| b_len := nlen (s_data st); b_pos := s_pos st; b_out := nlen (s_out st) |}.
Definition abs_fd (f : sfd) : bfd := {| h_st := abs_st (f_st f); h_script := f_script f; h_calls := f_calls f |}.
Definition bk_of (k : skind) : option bkind :=
  match k with
  | KSliceR => Some BSliceR | KVecW => Some BVecW | KCurR => Some BCurR | KFile => Some BFile | KQueue => Some BQueue
  | _ => None
  end.
Definition bop_of13 (o : op13) : option bop :=
  match o with
  | ORead _ => Some BRead | OReadExact _ => Some BReadExact | OWrite _ => Some BWrite | OWriteAll _ => Some BWriteAll
  | OSetPos _ => None
  end.

Lemma bk_fd k bk : fd_kind k = true -> bk_of k = Some bk -> b_fd bk = true.
Proof. destruct k; intros H E; try discriminate; inversion E; reflexivity. Qed.
Lemma nlen_repeat {A} (x : A) n : nlen (repeat x n) = N.of_nat n.
Proof. unfold nlen. rewrite repeat_length. reflexivity. Qed.
Lemma b_took_0 bk st : b_took bk st 0 = st.
Proof. destruct st as [l p o]. destruct bk; cbn [b_took b_len b_pos b_out]; rewrite ?N.add_0_r, ?N.sub_0_r; reflexivity. Qed.
Lemma b_gave_fd_0 bk st : b_fd bk = true -> b_gave bk st 0 = st.
Proof.
  destruct st as [l p o]. destruct bk; intros H; try discriminate; cbn [b_gave b_len b_pos b_out N.eqb];
    rewrite ?N.add_0_r; reflexivity.
Qed.

(* ---- one read(2) / write(2) of the base oracles, at the level of lengths *)
Lemma os_read_big k bk st len : fd_kind k = true -> bk_of k = Some bk ->
  exists st' bs, os_read_of k st len = (st', OsData bs)
    /\ nlen bs = N.min len (b_avail bk (abs_st st)) /\ abs_st st' = b_took bk (abs_st st) (nlen bs).
Proof.
  destruct k; intros Hk E; try discriminate; inversion E; subst bk; cbn [os_read_of]; unfold file_read, queue_read.
  - eexists _, _. split; [reflexivity|]. split.
    + rewrite nlen_ntake, nlen_ndrop. reflexivity.
    + reflexivity.
  - eexists _, _. split; [reflexivity|]. split.
    + rewrite nlen_ntake. reflexivity.
    + unfold abs_st, b_took. cbn [s_data s_pos s_out b_len b_pos b_out]. rewrite nlen_ndrop, nlen_ntake. f_equal. lia.
Qed.

(* file_write with an empty buffer leaves the file alone; past the end it pads with zeros: the length becomes
   max(len, pos + n) *)
Lemma os_write_big k bk st bs : fd_kind k = true -> bk_of k = Some bk ->
  exists st', os_write_of k st bs = (st', OsCount (nlen bs)) /\ abs_st st' = b_gave bk (abs_st st) (nlen bs).
Proof.
  destruct k; intros Hk E; try discriminate; inversion E; subst bk; cbn [os_write_of]; unfold file_write, queue_write.
  - cbn [b_gave]. destruct (N.eqb_spec (nlen bs) 0) as [Hz|Hz].
    + rewrite Hz. eexists. split; reflexivity.
    + eexists. split; [reflexivity|]. unfold abs_st. cbn [s_data s_pos s_out b_len b_pos b_out]. f_equal.
      rewrite !nlen_app, nlen_ntake, nlen_ndrop, !nlen_app, nlen_repeat, N2Nat.id. lia.
  - eexists. split; [reflexivity|]. unfold abs_st, b_gave. cbn [s_data s_pos s_out b_len b_pos b_out].
    rewrite nlen_app. reflexivity.
Qed.

(* ---- one call of the SCRIPTED oracle answers exactly as b_sys says *)
Lemma scr_read_big k bk f len : fd_kind k = true -> bk_of k = Some bk ->
  exists st' r, scr_read (os_read_of k) f len = (scr_next f st', r) /\
    match b_sys (f_script f) len (b_avail bk (abs_st (f_st f))) with
    | inl n => exists bs, r = OsData bs /\ nlen bs = n /\ abs_st st' = b_took bk (abs_st (f_st f)) n
    | inr e => r = OsRErr e /\ st' = f_st f
    end.
Proof.
  intros Hk Hb. unfold scr_read. destruct (f_script f) as [|[|j| | |] t]; cbn [b_sys].
  - destruct (os_read_big k bk (f_st f) len Hk Hb) as (st' & bs & -> & Hn & Ha). exists st', (OsData bs).
    split; [reflexivity|]. exists bs. split; [reflexivity|]. split; [exact Hn|]. rewrite <- Hn. exact Ha.
  - destruct (os_read_big k bk (f_st f) len Hk Hb) as (st' & bs & -> & Hn & Ha). exists st', (OsData bs).
    split; [reflexivity|]. exists bs. split; [reflexivity|]. split; [exact Hn|]. rewrite <- Hn. exact Ha.
  - destruct (os_read_big k bk (f_st f) (N.min j len) Hk Hb) as (st' & bs & -> & Hn & Ha). exists st', (OsData bs).
    split; [reflexivity|]. exists bs. split; [reflexivity|]. split; [exact Hn|]. rewrite <- Hn. exact Ha.
  - eexists _, _. split; [reflexivity|]. exists []. split; [reflexivity|]. split; [reflexivity|].
    rewrite b_took_0. reflexivity.
  - eexists _, _. split; [reflexivity|]. split; reflexivity.
  - eexists _, _. split; [reflexivity|]. split; reflexivity.
Qed.

Lemma scr_write_big k bk f bs : fd_kind k = true -> bk_of k = Some bk ->
  exists st' r, scr_write (os_write_of k) f bs = (scr_next f st', r) /\
    match b_sys (f_script f) (nlen bs) (nlen bs) with
    | inl n => r = OsCount n /\ abs_st st' = b_gave bk (abs_st (f_st f)) n
    | inr e => r = OsWErr e /\ st' = f_st f
    end.
Proof.
  intros Hk Hb. unfold scr_write. destruct (f_script f) as [|[|j| | |] t]; cbn [b_sys].
  - destruct (os_write_big k bk (f_st f) bs Hk Hb) as (st' & -> & Ha). exists st', (OsCount (nlen bs)).
    split; [reflexivity|]. rewrite N.min_id. split; [reflexivity|exact Ha].
  - destruct (os_write_big k bk (f_st f) bs Hk Hb) as (st' & -> & Ha). exists st', (OsCount (nlen bs)).
    split; [reflexivity|]. rewrite N.min_id. split; [reflexivity|exact Ha].
  - destruct (os_write_big k bk (f_st f) (ntake (N.min j (nlen bs)) bs) Hk Hb) as (st' & -> & Ha).
    eexists _, _. split; [reflexivity|]. rewrite nlen_ntake in *. split; [reflexivity|exact Ha].
  - eexists _, _. split; [reflexivity|]. split; [reflexivity|]. rewrite (b_gave_fd_0 bk _ (bk_fd k bk Hk Hb)). reflexivity.
  - eexists _, _. split; [reflexivity|]. split; reflexivity.
  - eexists _, _. split; [reflexivity|]. split; reflexivity.
Qed.

(* ---- one read_volatile / write_volatile of the raw-descriptor adapter = one b_call *)
Lemma read_call_big md k bk f m v f1 m1 r : fd_kind k = true -> bk_of k = Some bk ->
  read_volatile_raw_fd (scr_read (os_read_of k)) f m v = Val ((f1, m1), r) ->
  b_call md bk true (abs_fd f) (vs_len v) = Val (abs_fd f1, r) /\ (forall n, r = Ok n -> n <= vs_len v).
Proof.
  intros Hk Hb H. unfold read_volatile_raw_fd in H.
  destruct (scr_read_big k bk f (vs_len v) Hk Hb) as (st' & r0 & E & Hm). rewrite E in H.
  rewrite (b_call_fd md bk true _ _ (bk_fd k bk Hk Hb)). cbn [abs_fd h_script h_st b_cap].
  destruct (b_sys (f_script f) (vs_len v) (b_avail bk (abs_st (f_st f)))) as [n|e] eqn:Es.
  - destruct Hm as (bs & -> & Hn & Ha). inversion H; subst. split.
    + unfold b_move. rewrite <- Ha. reflexivity.
    + intros n' Hr. inversion Hr; subst. apply b_sys_bound in Es. lia.
  - destruct Hm as [-> ->]. inversion H; subst. split; [reflexivity|]. intros n' Hr. discriminate.
Qed.

Lemma write_call_big md k bk f m v f1 m1 r : fd_kind k = true -> bk_of k = Some bk ->
  vs_off v + vs_len v <= nlen m ->
  write_volatile_raw_fd (scr_write (os_write_of k)) f m v = Val ((f1, m1), r) ->
  b_call md bk false (abs_fd f) (vs_len v) = Val (abs_fd f1, r) /\ m1 = m /\ (forall n, r = Ok n -> n <= vs_len v).
Proof.
  intros Hk Hb Hw H. unfold write_volatile_raw_fd in H.
  assert (Hl : nlen (mem_read m (vs_off v) (vs_len v)) = vs_len v).
  { unfold mem_read. rewrite nlen_ntake, nlen_ndrop. lia. }
  destruct (scr_write_big k bk f (mem_read m (vs_off v) (vs_len v)) Hk Hb) as (st' & r0 & E & Hm). rewrite E in H.
  rewrite Hl in Hm.
  rewrite (b_call_fd md bk false _ _ (bk_fd k bk Hk Hb)). cbn [abs_fd h_script h_st b_cap].
  destruct (b_sys (f_script f) (vs_len v) (vs_len v)) as [n|e] eqn:Es.
  - destruct Hm as (-> & Ha). inversion H; subst. split; [|split; [reflexivity|]].
    + unfold b_move. rewrite <- Ha. reflexivity.
    + intros n' Hr. inversion Hr; subst. apply b_sys_bound in Es. lia.
  - destruct Hm as [-> ->]. inversion H; subst. split; [reflexivity|]. split; [reflexivity|]. intros n' Hr. discriminate.
Qed.

(* ---- lock-step: retry_eintr / exact_loop of Impl/Io.v against b_retry / b_exact_loop, same fuels *)
Section Lockstep.
  Variable call : callT sfd.
  Variable bcall : bcallT.
  Variable I : list N -> vslice -> Prop.     (* what the call needs of memory and window *)
  Hypothesis Hcall : forall f m v f1 m1 r, I m v -> call f m v = Val ((f1, m1), r) ->
    bcall (abs_fd f) (vs_len v) = Val (abs_fd f1, r) /\ (forall v', I m v' -> I m1 v') /\ (forall n, r = Ok n -> n <= vs_len v).
  Hypothesis Hoff : forall m v n, I m v -> n <= vs_len v ->
    I m {| vs_addr := vs_addr v + n; vs_off := vs_off v + n; vs_len := vs_len v - n |}.

  Lemma retry_big : forall fi f m v f1 m1 r, I m v -> retry_eintr fi call f m v = Val ((f1, m1), r) ->
    b_retry fi bcall (abs_fd f) (vs_len v) = Val (abs_fd f1, r)
    /\ (forall v', I m v' -> I m1 v') /\ (forall n, r = Ok n -> n <= vs_len v).
  Proof.
    induction fi as [|fi IH]; intros f m v f1 m1 r HI H; [discriminate|].
    cbn [retry_eintr] in H. destruct (call f m v) as [[[s' m'] r']| |] eqn:E; cbn [bind] in H; try discriminate.
    destruct (Hcall _ _ _ _ _ _ HI E) as (Hb & Hp & Hn). cbn [b_retry]. rewrite Hb. cbn [bind snd fst].
    destruct r' as [n|[[]| |]]; try (inversion H; subst; split; [reflexivity|split; assumption]).
    destruct (IH _ _ _ _ _ _ (Hp _ HI) H) as (A & B & C). split; [exact A|]. split; [|exact C].
    intros v' Hv'. apply B, Hp. exact Hv'.
  Qed.

  Lemma exact_big zerr : forall fo fi f m pb f1 m1 r, I m pb -> vs_addr pb + vs_len pb < W64 ->
    exact_loop zerr fi fo call f m pb = Val ((f1, m1), r) ->
    b_exact_loop zerr fi fo bcall (abs_fd f) (vs_len pb) = Val (abs_fd f1, r).
  Proof.
    induction fo as [|fo IH]; intros fi f m pb f1 m1 r HI Ha H; [discriminate|].
    rewrite exact_loop_unfold in H. rewrite b_exact_loop_unfold.
    destruct (vs_len pb =? 0); [inversion H; subst; reflexivity|].
    destruct (retry_eintr fi call f m pb) as [[[s' m'] r']| |] eqn:E; cbn [bind] in H; try discriminate.
    destruct (retry_big _ _ _ _ _ _ _ HI E) as (Hb & Hp & Hn). rewrite Hb. cbn [bind].
    unfold loop_body in H. unfold b_body. cbn [snd fst].
    destruct r' as [n|e]; [|inversion H; subst; reflexivity].
    destruct (n =? 0); [inversion H; subst; reflexivity|].
    specialize (Hn n eq_refl). destruct (N.ltb_spec (vs_len pb) n); [lia|].
    rewrite vs_offset_ok_c in H by assumption.
    apply IH in H; [exact H| |cbn [vs_addr vs_len]; lia].
    apply Hp, Hoff; assumption.
  Qed.
End Lockstep.

(* any fuel with which the length-level provided loop of a descriptor answers gives the answer of b_fuel *)
Lemma b_exact_any_fuel md bk rd st sc c want fi fo z : b_fd bk = true ->
  b_exact_loop (zerr_of rd) fi fo (b_call md bk rd) {| h_st := st; h_script := sc; h_calls := c |} want = Val z ->
  b_exact_loop (zerr_of rd) (b_fuel sc) (b_fuel sc) (b_call md bk rd) {| h_st := st; h_script := sc; h_calls := c |} want
  = Val z.
Proof.
  intros Hk H.
  destruct (b_exact_fd_eq_std md bk rd Hk st sc c want (b_fuel sc) (b_fuel sc)) as (f' & r & _ & _ & He & _);
    [unfold b_fuel; lia|unfold b_fuel; lia|].
  pose proof (b_exact_loop_mono _ _ fo (Nat.max fo (b_fuel sc)) fi (Nat.max fi (b_fuel sc)) _ _ _
                ltac:(lia) ltac:(lia) H) as H1.
  pose proof (b_exact_loop_mono _ _ (b_fuel sc) (Nat.max fo (b_fuel sc)) (b_fuel sc) (Nat.max fi (b_fuel sc)) _ _ _
                ltac:(lia) ltac:(lia) He) as H2.
  rewrite H1 in H2. rewrite He. symmetry. exact H2.
Qed.

Lemma lift_n_inv {T} (x : outcome ((T * list N) * res N)) s m rc :
  lift_n x = Val ((s, m), rc) -> exists r, x = Val ((s, m), r) /\ rc = rc_n r.
Proof. destruct x as [[[s1 m1] r]| |]; cbn; intros H; inversion H; subst; eauto. Qed.
Lemma lift_u_inv {T} (x : outcome ((T * list N) * res unit)) s m rc :
  lift_u x = Val ((s, m), rc) -> exists r, x = Val ((s, m), r) /\ rc = rc_unit r.
Proof. destruct x as [[[s1 m1] r]| |]; cbn; intros H; inversion H; subst; eauto. Qed.

(* ---- (2b) descriptor kinds under any script *)
Lemma big_is_Io_fd_lemma : forall md k bk st sc o bo f1 m' rc,
  fd_kind k = true -> bk_of k = Some bk -> bop_of13 o = Some bo -> buf_ok (op_buf o) ->
  vm_step_scr md k (sfd0 st sc) o = Val ((f1, m'), rc) ->
  exists f',
    b_vm_step {| g_mode := md; g_kind := bk; g_init := abs_st st; g_op := bo; g_blen := nlen (op_buf o);
                 g_script := sc |} = Val (f', rc)
    /\ h_st f' = abs_st (f_st f1) /\ h_calls f' = f_calls f1 /\ h_script f' = f_script f1.
Proof.
  intros md k bk st sc o bo f1 m' rc Hk Hb Hbo Hbuf H.
  pose proof (bk_fd k bk Hk Hb) as Hfd.
  assert (Hread : forall f m v f2 m2 r, True ->
            read_volatile_raw_fd (scr_read (os_read_of k)) f m v = Val ((f2, m2), r) ->
            b_call md bk true (abs_fd f) (vs_len v) = Val (abs_fd f2, r)
            /\ (forall v' : vslice, True -> True) /\ (forall n, r = Ok n -> n <= vs_len v)).
  { intros f m v f2 m2 r _ Hc. destruct (read_call_big md k bk _ _ _ _ _ _ Hk Hb Hc) as [A B]. auto. }
  assert (Hwrite : forall f m v f2 m2 r, vs_off v + vs_len v <= nlen m ->
            write_volatile_raw_fd (scr_write (os_write_of k)) f m v = Val ((f2, m2), r) ->
            b_call md bk false (abs_fd f) (vs_len v) = Val (abs_fd f2, r)
            /\ (forall v' : vslice, vs_off v' + vs_len v' <= nlen m -> vs_off v' + vs_len v' <= nlen m2)
            /\ (forall n, r = Ok n -> n <= vs_len v)).
  { intros f m v f2 m2 r Hw Hc. destruct (write_call_big md k bk _ _ _ _ _ _ Hk Hb Hw Hc) as (A & -> & C). auto. }
  assert (Hwin : vs_off (win (op_buf o)) + vs_len (win (op_buf o)) <= nlen (arena (op_buf o))).
  { cbn [win vs_off vs_len]. rewrite nlen_arena. lia. }
  destruct o as [pre|pre|d|d|p]; cbn [bop_of13] in Hbo; inversion Hbo; subst bo; unfold vm_step_scr in H;
    cbn [op_buf] in *; cbv zeta in H; unfold b_vm_step;
    cbn [g_mode g_kind g_init g_op g_blen g_script b_is_read];
    change {| h_st := abs_st st; h_script := sc; h_calls := 0 |} with (abs_fd (sfd0 st sc)).
  - (* read *)
    apply lift_n_inv in H. destruct H as (r & H & ->).
    destruct (read_call_big md k bk _ _ _ _ _ _ Hk Hb H) as (Hc & _). cbn [win vs_len] in Hc.
    exists (abs_fd f1). split; [|repeat split]. rewrite Hc. reflexivity.
  - (* read_exact *)
    apply lift_u_inv in H. destruct H as (r & H & ->). unfold read_exact_volatile, exact_volatile in H.
    rewrite (win_offset0 pre Hbuf) in H.
    apply (exact_big _ (b_call md bk true) (fun _ _ => True) Hread (fun _ _ _ _ _ => I)) in H;
      [|exact I|cbn [vs_addr vs_len]; unfold buf_ok in Hbuf; lia].
    cbn [vs_len] in H. rewrite N.sub_0_r in H. unfold abs_fd, sfd0 in H. cbn [f_st f_script f_calls] in H.
    apply (b_exact_any_fuel md bk true _ _ _ _ _ _ _ Hfd) in H.
    exists (abs_fd f1). split; [|repeat split]. rewrite (b_exact_fd md bk true _ _ Hfd).
    unfold abs_fd, sfd0. cbn [f_st f_script f_calls h_script]. rewrite H. reflexivity.
  - (* write *)
    apply lift_n_inv in H. destruct H as (r & H & ->).
    destruct (write_call_big md k bk _ _ _ _ _ _ Hk Hb Hwin H) as (Hc & _). cbn [win vs_len] in Hc.
    exists (abs_fd f1). split; [|repeat split]. rewrite Hc. reflexivity.
  - (* write_all *)
    apply lift_u_inv in H. destruct H as (r & H & ->). unfold write_all_volatile, exact_volatile in H.
    rewrite (win_offset0 d Hbuf) in H.
    apply (exact_big _ (b_call md bk false) (fun m v => vs_off v + vs_len v <= nlen m) Hwrite) in H;
      [| |cbn [win vs_off vs_len] in *; lia|cbn [vs_addr vs_len]; unfold buf_ok in Hbuf; lia].
    2:{ intros m v n Hv Hn. cbn [vs_off vs_len]. lia. }
    cbn [vs_len] in H. rewrite N.sub_0_r in H. unfold abs_fd, sfd0 in H. cbn [f_st f_script f_calls] in H.
    apply (b_exact_any_fuel md bk false _ _ _ _ _ _ _ Hfd) in H.
    exists (abs_fd f1). split; [|repeat split]. rewrite (b_exact_fd md bk false _ _ Hfd).
    unfold abs_fd, sfd0. cbn [f_st f_script f_calls h_script]. rewrite H. reflexivity.
Qed.

(* ---- (2a) in-memory kinds *)
Lemma b_vec_write_all md st sc c blen : b_len st + blen < W64 ->
  exists f', b_exact md BVecW false {| h_st := st; h_script := sc; h_calls := c |} blen = Val (f', Ok tt)
    /\ h_st f' = b_gave BVecW st blen.
Proof.
  intros Hlt. cbn [b_exact h_script]. unfold b_fuel. replace (length sc + 4)%nat with (S (S (length sc + 2))) by lia.
  rewrite b_exact_loop_unfold. destruct (N.eqb_spec blen 0) as [Hz|Hz].
  - subst blen. eexists. split; [reflexivity|]. cbn [h_st b_gave]. rewrite bst_add0. reflexivity.
  - cbn [b_retry b_call h_st]. rewrite padd_Val by exact Hlt. cbn [bind snd fst]. unfold b_body. cbn [snd fst].
    destruct (N.eqb_spec blen 0); [contradiction|]. destruct (N.ltb_spec blen blen); [lia|].
    rewrite N.sub_diag, b_exact_loop_unfold. cbn [N.eqb]. eexists. split; [reflexivity|]. reflexivity.
Qed.

Lemma big_is_Io_mem_lemma : forall md k bk content st o bo budget st' m' rc,
  bk_of k = Some bk -> fd_kind k = false -> bop_of13 o = Some bo ->
  op_wf k o -> st_inv k content st (nlen (op_buf o) + budget) ->
  vm_step md k st o = Val ((st', m'), rc) ->
  exists f',
    b_vm_step {| g_mode := md; g_kind := bk; g_init := abs_st st; g_op := bo; g_blen := nlen (op_buf o);
                 g_script := [] |} = Val (f', rc)
    /\ h_st f' = abs_st st'.
Proof.
  intros md k bk content st o bo budget st' m' rc Hbk Hfd Hbo (Hal & Hbuf & _) Hi H.
  assert (Hrem : nlen (slice_rem st) = nlen (s_data st) - s_pos st) by (unfold slice_rem; apply nlen_ndrop).
  assert (Hcur : nlen (ndrop (cur_start st) (s_data st)) = nlen (s_data st) - N.min (s_pos st) (nlen (s_data st)))
    by (rewrite nlen_ndrop; reflexivity).
  destruct k; try discriminate; inversion Hbk; subst bk; clear Hbk;
    destruct o as [pre|pre|d|d|p]; cbn [op_allowed] in Hal; try discriminate;
    cbn [bop_of13] in Hbo; inversion Hbo; subst bo; clear Hbo;
    cbn [op_buf st_inv] in *; unfold b_vm_step; cbn [g_mode g_kind g_init g_op g_blen g_script b_is_read].
  - (* &[u8] read *)
    unfold vm_step in H. cbn [op_buf] in H. rewrite slice_read_volatile_val in H. unfold lift_n in H.
    cbn [omap fst snd rc_n win vs_len] in H. rewrite Hrem in H. injection H as <- _ <-.
    cbn [b_call bind fst snd rc_n h_st b_avail abs_st b_len b_pos].
    eexists. split; [reflexivity|]. reflexivity.
  - (* &[u8] read_exact *)
    unfold vm_step in H. cbn [op_buf] in H. unfold slice_read_exact_volatile in H. cbn [win vs_len] in H.
    rewrite Hrem in H. cbn [b_exact h_st b_avail abs_st b_len b_pos].
    destruct (nlen (s_data st) - s_pos st <? nlen pre) eqn:El.
    + unfold lift_u in H. cbn [omap fst snd rc_unit rc_verr rc_ioerr] in H. injection H as <- _ <-.
      eexists. split; reflexivity.
    + rewrite slice_read_volatile_val in H. cbn [bind] in H. unfold lift_u in H.
      cbn [omap fst snd rc_unit vs_len] in H. rewrite Hrem in H. injection H as <- _ <-.
      cbn [b_call bind fst snd rc_unit h_st b_avail abs_st b_len b_pos].
      eexists. split; [reflexivity|]. reflexivity.
  - (* Vec write *)
    unfold vm_step in H. cbn [op_buf] in H. rewrite vec_write_volatile_val in H by (cbn [win vs_len]; lia).
    unfold lift_n in H. cbn [omap fst snd rc_n win vs_len vs_off] in H. rewrite arena_read_all in H.
    injection H as <- _ <-.
    cbn [b_call h_st abs_st b_len]. rewrite padd_Val by lia. cbn [bind fst snd rc_n].
    eexists. split; [reflexivity|]. cbn [h_next h_st]. unfold abs_st. cbn [s_data s_pos s_out b_pos b_out].
    rewrite nlen_app. reflexivity.
  - (* Vec write_all *)
    destruct (agree_vec_write_all md st d ltac:(lia) Hbuf) as (s1 & b' & rc1 & ost & bs & Hv & Hs & _ & Hok & _).
    rewrite Hv in H. injection H as <- _ <-. unfold std_step, std_vec_write in Hs. injection Hs as <- _ <-.
    destruct (Hok eq_refl) as (Ho & _). injection Ho as <-.
    destruct (b_vec_write_all md (abs_st st) [] 0 (nlen d)) as (f' & He & Hst); [cbn [abs_st b_len]; lia|].
    rewrite He. cbn [bind fst snd rc_unit]. exists f'. split; [reflexivity|]. rewrite Hst.
    unfold abs_st, with_data, b_gave. cbn [s_data s_pos s_out b_len b_pos b_out]. rewrite nlen_app. reflexivity.
  - (* Cursor read *)
    unfold vm_step in H. cbn [op_buf] in H. rewrite (cursor_read_val md st _ _ Hi) in H. unfold lift_n in H.
    cbn [omap fst snd rc_n win vs_len] in H. rewrite Hcur in H. injection H as <- _ <-.
    cbn [b_call h_st b_avail abs_st b_len b_pos]. destruct Hi as [Hp Hd].
    rewrite padd_Val by lia. cbn [bind fst snd rc_n].
    eexists. split; [reflexivity|]. reflexivity.
  - (* Cursor read_exact *)
    unfold vm_step in H. cbn [op_buf] in H. rewrite (cursor_read_exact_val md st _ _ Hi) in H.
    cbn [win vs_len] in H. rewrite Hcur in H. cbn [b_exact h_st b_avail abs_st b_len b_pos].
    destruct (N.ltb_spec (nlen (s_data st) - N.min (s_pos st) (nlen (s_data st))) (nlen pre)) as [Hlt|Hge].
    + unfold lift_u in H. cbn [omap fst snd rc_unit rc_verr rc_ioerr] in H. injection H as <- _ <-.
      eexists. split; reflexivity.
    + unfold lift_u in H. cbn [omap fst snd rc_unit] in H. injection H as <- _ <-. destruct Hi as [Hp Hd].
      rewrite padd_Val by lia. cbn [bind fst snd rc_unit].
      eexists. split; [reflexivity|]. reflexivity.
Qed.

(* ------------------------------------------------------------------ E. LINK for the std oracles *)
Lemma keep_if_0 n st : keep_if (0, n) st = Some st.
Proof. reflexivity. Qed.

(* ---- (2c) in-memory kinds: bytes moved = bytes delivered (reads, also after a failed read_exact: none) resp.
   the whole buffer (Vec) *)
Lemma big_std_is_Std_mem_lemma : forall k bk st sc o bo ost bs rc,
  bk_of k = Some bk -> fd_kind k = false -> bop_of13 o = Some bo -> op_allowed k o = true ->
  std_step k st o = Val (ost, bs, rc) ->
  b_std_step bk (abs_st st) sc bo (nlen (op_buf o))
  = Val (option_map abs_st ost, rc, if is_read o then nlen bs else nlen (op_buf o)).
Proof.
  intros k bk st sc o bo ost bs rc Hbk Hfd Hbo Hal H.
  assert (Hrem : nlen (slice_rem st) = nlen (s_data st) - s_pos st) by (unfold slice_rem; apply nlen_ndrop).
  assert (Hcur : nlen (ndrop (cur_start st) (s_data st)) = nlen (s_data st) - N.min (s_pos st) (nlen (s_data st)))
    by (rewrite nlen_ndrop; reflexivity).
  destruct k; try discriminate; inversion Hbk; subst bk; clear Hbk;
    destruct o as [pre|pre|d|d|p]; cbn [op_allowed] in Hal; try discriminate;
    cbn [bop_of13] in Hbo; inversion Hbo; subst bo; clear Hbo;
    unfold std_step in H; unfold b_std_step; cbn [op_buf is_read b_is_read b_fd b_avail abs_st b_len b_pos].
  - (* &[u8] read *)
    unfold std_slice_read in H. cbn [rc_n keep_if fst N.eqb orb] in H. injection H as <- <- <-.
    rewrite nlen_ntake, Hrem. reflexivity.
  - (* &[u8] read_exact *)
    unfold std_slice_read_exact in H. rewrite Hrem in H.
    destruct (N.leb_spec (nlen pre) (nlen (s_data st) - s_pos st)) as [Hle|Hgt]; injection H as <- <- <-.
    + rewrite nlen_ntake, Hrem. replace (N.min (nlen pre) (nlen (s_data st) - s_pos st)) with (nlen pre) by lia.
      reflexivity.
    + reflexivity.
  - (* Vec write *)
    unfold std_vec_write in H. cbn [rc_n] in H. rewrite keep_if_0 in H. injection H as <- <- <-.
    cbn [option_map]. unfold abs_st, with_data, b_move, b_gave. cbn [s_data s_pos s_out b_len b_pos b_out].
    rewrite nlen_app. reflexivity.
  - (* Vec write_all *)
    unfold std_vec_write in H. injection H as <- <- <-.
    cbn [option_map]. unfold abs_st, with_data, b_gave. cbn [s_data s_pos s_out b_len b_pos b_out].
    rewrite nlen_app. reflexivity.
  - (* Cursor read *)
    unfold std_cursor_read in H. cbn [rc_n keep_if fst N.eqb orb] in H. injection H as <- <- <-.
    rewrite nlen_ntake, Hcur. reflexivity.
  - (* Cursor read_exact *)
    unfold std_cursor_read_exact in H. unfold cur_start in *.
    destruct (N.leb_spec (nlen pre) (nlen (s_data st) - N.min (s_pos st) (nlen (s_data st)))) as [Hle|Hgt];
      injection H as <- <- <-.
    + rewrite nlen_ntake, Hcur.
      replace (N.min (nlen pre) (nlen (s_data st) - N.min (s_pos st) (nlen (s_data st)))) with (nlen pre) by lia.
      reflexivity.
    + reflexivity.
Qed.

(* ---- (2c) descriptor kinds: std's provided loops of Impl/Std.v against b_std_loop, same fuel *)
Lemma std_read_exact_big k bk : fd_kind k = true -> bk_of k = Some bk ->
  forall fuel f want acc of out r moved,
  std_fd_read_exact (scr_read (os_read_of k)) fuel f want acc = Val (of, out, r) ->
  exists mv, b_std_loop fuel bk true (abs_st (f_st f)) (f_script f) want moved
             = Val (option_map (fun x => abs_st (f_st x)) of, rc_unit r, mv)
    /\ (r = Ok tt -> mv = moved + want /\ nlen out = nlen acc + want).
Proof.
  intros Hk Hb. induction fuel as [|fl IH]; intros f want acc of out r moved H; [discriminate|].
  cbn [std_fd_read_exact] in H. cbn [b_std_loop].
  destruct (N.eqb_spec want 0) as [Hz|Hz].
  - injection H as <- <- <-. eexists. split; [reflexivity|]. intros _. split; lia.
  - destruct (scr_read_big k bk f want Hk Hb) as (st' & r0 & E & Hm). rewrite E in H. cbn [b_cap].
    destruct (b_sys (f_script f) want (b_avail bk (abs_st (f_st f)))) as [n|e] eqn:Es.
    + destruct Hm as (bs & -> & Hn & Ha). subst n. destruct (b_sys_bound _ _ _ _ Es) as [Hn1 _].
      destruct (N.eqb_spec (nlen bs) 0) as [Hn0|Hn0].
      * injection H as <- <- <-. eexists. split; [reflexivity|]. discriminate.
      * destruct (IH _ _ _ _ _ _ (moved + nlen bs) H) as (mv & Hl & Hok).
        cbn [scr_next f_st f_script] in Hl. rewrite Ha in Hl. exists mv. split; [exact Hl|].
        intros Hr. destruct (Hok Hr) as [A B]. rewrite nlen_app in B. split; lia.
    + destruct Hm as [-> ->]. destruct e.
      * destruct (IH _ _ _ _ _ _ moved H) as (mv & Hl & Hok). cbn [scr_next f_st f_script] in Hl.
        exists mv. split; [exact Hl|exact Hok].
      * injection H as <- <- <-. eexists. split; [reflexivity|]. discriminate.
      * injection H as <- <- <-. eexists. split; [reflexivity|]. discriminate.
      * injection H as <- <- <-. eexists. split; [reflexivity|]. discriminate.
Qed.

Lemma std_write_all_big k bk : fd_kind k = true -> bk_of k = Some bk ->
  forall fuel f d of r moved,
  std_fd_write_all (scr_write (os_write_of k)) fuel f d = Val (of, r) ->
  exists mv, b_std_loop fuel bk false (abs_st (f_st f)) (f_script f) (nlen d) moved
             = Val (option_map (fun x => abs_st (f_st x)) of, rc_unit r, mv)
    /\ (r = Ok tt -> mv = moved + nlen d).
Proof.
  intros Hk Hb. induction fuel as [|fl IH]; intros f d of r moved H; [discriminate|].
  cbn [std_fd_write_all] in H. cbn [b_std_loop].
  destruct (N.eqb_spec (nlen d) 0) as [Hz|Hz].
  - injection H as <- <-. eexists. split; [reflexivity|]. intros _. lia.
  - destruct (scr_write_big k bk f d Hk Hb) as (st' & r0 & E & Hm). rewrite E in H. cbn [b_cap].
    destruct (b_sys (f_script f) (nlen d) (nlen d)) as [n|e] eqn:Es.
    + destruct Hm as (-> & Ha). destruct (b_sys_bound _ _ _ _ Es) as [Hn1 _].
      destruct (N.eqb_spec n 0) as [Hn0|Hn0].
      * injection H as <- <-. eexists. split; [reflexivity|]. discriminate.
      * destruct (IH _ _ _ _ (moved + n) H) as (mv & Hl & Hok).
        cbn [scr_next f_st f_script] in Hl. rewrite Ha, nlen_ndrop in Hl. exists mv. split; [exact Hl|].
        intros Hr. specialize (Hok Hr). rewrite nlen_ndrop in Hok. lia.
    + destruct Hm as [-> ->]. destruct e.
      * destruct (IH _ _ _ _ moved H) as (mv & Hl & Hok). cbn [scr_next f_st f_script] in Hl.
        exists mv. split; [exact Hl|exact Hok].
      * injection H as <- <-. eexists. split; [reflexivity|]. discriminate.
      * injection H as <- <-. eexists. split; [reflexivity|]. discriminate.
      * injection H as <- <-. eexists. split; [reflexivity|]. discriminate.
Qed.

(* any fuel with which std's length-level loop answers gives the answer of b_fuel *)
Lemma b_std_loop_any_fuel k rd st sc want moved fs z : b_fd k = true ->
  b_std_loop fs k rd st sc want moved = Val z -> b_std_loop (b_fuel sc) k rd st sc want moved = Val z.
Proof.
  intros Hk H.
  destruct (b_std_loop_terminates k rd Hk sc (b_fuel sc) st want moved) as (z' & Hz); [unfold b_fuel; lia|].
  pose proof (b_std_loop_mono k rd fs (Nat.max fs (b_fuel sc)) _ _ _ _ _ ltac:(lia) H) as H1.
  pose proof (b_std_loop_mono k rd (b_fuel sc) (Nat.max fs (b_fuel sc)) _ _ _ _ _ ltac:(lia) Hz) as H2.
  rewrite H1 in H2. rewrite Hz. symmetry. exact H2.
Qed.

(* what a successful std operation moved, read off its list-level answer *)
Definition moved_of (o : op13) (bs : list N) (rc : N * N) : N :=
  if is_read o then nlen bs else if fst rc =? 0 then snd rc else nlen (op_buf o).

(* After a FAILED read_exact / write_all the list-level oracle reports no bytes (std: "the contents of buf are
   unspecified"), the length-level one the bytes moved before the failure: [moved] is then not determined by [bs];
   a failed single read / write moved nothing. *)
Lemma big_std_is_Std_fd_lemma : forall k bk st sc o bo ost bs rc,
  fd_kind k = true -> bk_of k = Some bk -> bop_of13 o = Some bo ->
  std_step_scr k st sc o = Val (ost, bs, rc) ->
  exists moved,
    b_std_step bk (abs_st st) sc bo (nlen (op_buf o)) = Val (option_map abs_st ost, rc, moved)
    /\ (rc_success rc = true -> moved = moved_of o bs rc)
    /\ (is_exact13 o = false -> rc_success rc = false -> moved = 0).
Proof.
  intros k bk st sc o bo ost bs rc Hk Hb Hbo H.
  pose proof (bk_fd k bk Hk Hb) as Hfd.
  destruct o as [pre|pre|d|d|p]; cbn [bop_of13] in Hbo; inversion Hbo; subst bo; clear Hbo;
    unfold std_step_scr in H; cbv zeta in H; unfold b_std_step, moved_of; rewrite Hfd;
    cbn [op_buf is_read b_is_read is_exact13 b_cap].
  - (* read *)
    unfold std_fd_read in H.
    destruct (scr_read_big k bk (sfd0 st sc) (nlen pre) Hk Hb) as (st' & r0 & E & Hm). rewrite E in H.
    cbn [sfd0 f_st f_script] in Hm.
    destruct (b_sys sc (nlen pre) (b_avail bk (abs_st st))) as [n|e] eqn:Es.
    + destruct Hm as (bs0 & -> & Hn & Ha). cbn [rc_n scr_next f_st] in H. rewrite keep_if_0 in H.
      injection H as <- <- <-. subst n. exists (nlen bs0). cbn [option_map]. rewrite Ha.
      split; [reflexivity|]. split; [reflexivity|discriminate].
    + destruct Hm as [-> ->]. exists 0. destruct e; cbn in H; injection H as <- <- <-;
        (split; [reflexivity|]); (split; [discriminate|reflexivity]).
  - (* read_exact *)
    destruct (std_fd_read_exact (scr_read (os_read_of k)) (std_fuel (nlen pre) sc) (sfd0 st sc) (nlen pre) [])
      as [[[of out] r]| |] eqn:E; cbn [bind] in H; try discriminate. injection H as <- <- <-.
    destruct (std_read_exact_big k bk Hk Hb _ _ _ _ _ _ _ 0 E) as (mv & Hl & Hok).
    cbn [sfd0 f_st f_script] in Hl. apply (b_std_loop_any_fuel bk true _ _ _ _ _ _ Hfd) in Hl.
    exists mv. split; [|split; [|discriminate]].
    + rewrite Hl. destruct of; reflexivity.
    + intros Hs. destruct r as [[]|e]; [|rewrite rc_unit_err_fail in Hs; discriminate].
      destruct (Hok eq_refl) as [A B]. cbn [nlen length N.of_nat] in B. lia.
  - (* write *)
    unfold std_fd_write in H.
    destruct (scr_write_big k bk (sfd0 st sc) d Hk Hb) as (st' & r0 & E & Hm). rewrite E in H.
    cbn [sfd0 f_st f_script] in Hm.
    destruct (b_sys sc (nlen d) (nlen d)) as [n|e] eqn:Es.
    + destruct Hm as (-> & Ha). cbn [rc_n scr_next f_st] in H. rewrite keep_if_0 in H.
      injection H as <- <- <-. exists n. cbn [option_map]. rewrite Ha.
      split; [reflexivity|]. split; [reflexivity|discriminate].
    + destruct Hm as [-> ->]. exists 0. destruct e; cbn in H; injection H as <- <- <-;
        (split; [reflexivity|]); (split; [discriminate|reflexivity]).
  - (* write_all *)
    destruct (std_fd_write_all (scr_write (os_write_of k)) (std_fuel (nlen d) sc) (sfd0 st sc) d)
      as [[of r]| |] eqn:E; cbn [bind] in H; try discriminate. injection H as <- <- <-.
    destruct (std_write_all_big k bk Hk Hb _ _ _ _ _ 0 E) as (mv & Hl & Hok).
    cbn [sfd0 f_st f_script] in Hl. apply (b_std_loop_any_fuel bk false _ _ _ _ _ _ Hfd) in Hl.
    exists mv. split; [|split; [|discriminate]].
    + rewrite Hl. destruct of; reflexivity.
    + intros Hs. destruct r as [[]|e]; [|rewrite rc_unit_err_fail in Hs; discriminate].
      change (mv = nlen d). rewrite (Hok eq_refl). lia.
Qed.

(* ------------------------------------------------------------------ F. a concrete instance (non-vacuity of the link) *)
Example big_link_nonvacuous :
  let st := {| s_data := [1; 2; 3; 4; 5]; s_pos := 1; s_out := [] |} in
  let sc := [FEintr; FShort 2; FEintr; FFull] in
  exists f1 m',
    vm_step_scr Debug KFile (sfd0 st sc) (OReadExact [0; 0; 0]) = Val ((f1, m'), (1, 0))
    /\ b_vm_step {| g_mode := Debug; g_kind := BFile; g_init := abs_st st; g_op := BReadExact; g_blen := 3;
                    g_script := sc |} = Val (abs_fd f1, (1, 0))
    /\ f_calls f1 = 4 /\ s_pos (f_st f1) = 4.
Proof. cbv zeta. eexists _, _. split; [vm_compute; reflexivity|]. split; vm_compute; auto. Qed.
